"""C19 — cascade gates fail closed; halted pipelines run nothing further."""
import itertools
from fractions import Fraction

from . import common
from .common import Check, Violation, cz, cbool, clist, cq, ctuple

GATES = ["GPass", "GReject", "GRaise"]
FACTORS = [1.0, 0.5, 2.0, 1.5, 4.0, 10.0, 0.25, 3.0, 8.0]
MAXES = [100.0, 100.0, 1.0, 2.0, 16.0, 0.5, 1000.0]


class ProcError(Exception):
    pass


class _Quiet(Exception):
    """An exception whose str() is empty and which is falsy."""

    def __str__(self):
        return ""

    def __bool__(self):
        return False


def _gate_exc(kind):
    """What a raising callback raises: with a message, without one, falsy, a KeyError, a StopIteration ..."""
    return [ValueError("gate"), ValueError(), AssertionError(), KeyError(), StopIteration(), _Quiet(), TimeoutError(),
            RuntimeError(0), LookupError("")][kind % 9]


NAME_FLAVOURS = ["distinct", "one-empty", "all-empty", "pair", "all-same", "falsy-looking", "odd"]


def stage_names(case):
    """The names the stages are given: the caller's choice - distinct, empty, repeated, falsy-looking."""
    n = len(case["stages"])
    fl = case.get("names", "distinct")
    k = case.get("exc", 0)
    names = [f"s{i}" for i in range(n)]
    if fl == "one-empty":
        names[k % n] = ""
    elif fl == "all-empty":
        names = [""] * n
    elif fl == "pair" and n >= 2:
        a, b = k % n, (k // 2 + 1) % n
        if a == b:
            b = (a + 1) % n
        names[b] = names[a]
    elif fl == "all-same":
        names = ["stage"] * n
    elif fl == "falsy-looking":
        names = [["0", "False", "None", " ", "0.0"][(k + i) % 5] for i in range(n)]
    elif fl == "odd":
        names = [["dummy2", "s\u00e9", "a b", "s0", "no-such", "{x}"][(k + i) % 6] for i in range(n)]
    for a, b in case.get("share") or []:
        names[b] = names[a]          # one stage object sits at both positions: one name
    return names


def name_classes(names):
    return [names.index(nm) for nm in names]


def ev_gate(c, x):
    if c[0] == "const":
        return c[1]
    _, m, r, g1, g2 = c
    return g1 if x % m == r else g2


def ev_proc(p, x):
    """-> ('ok', y) | ('raise',)"""
    if p[0] == "aff":
        return ("ok", p[1] * x + p[2])
    if p[0] == "raise":
        return ("raise",)
    _, m, r, a, b = p
    return ("raise",) if x % m == r else ("ok", a * x + b)


class C19(Check):
    PID = "C19"
    HEADER = "From Verif Require Import C19.Model."
    RUN = "run_case_named"
    CASE_TYPE = "named_case"
    N_QUICK = 700
    N_THOROUGH = 20000
    RULE = ("pipelines of 1..5 stages; per stage checkpoint in {none,pass,reject,raise,signal-dependent}, "
            "processor in {affine,raise,signal-dependent raise}, handler in {none,recover,raise}, required/optional, "
            "halt_on_failure both ways, dyadic amplification factors incl. products above max; all pipelines of "
            "<=2 (quick) / <=3 (thorough) stages over the 32 constant behaviours enumerated exhaustively; MAPK preset. "
            "non-trivial = at least one checkpoint or one raising callback; distinct by case content")
    LEVEL_TEXT = ("Coq theorems over all pipelines, signals and callback behaviours (no bound on the number of stages) about a "
                  "hand-written model of Cascade.run: gates fail closed in both halt settings, nothing runs after a halting stage, "
                  "success iff every stage completed in order, output = composition, no output unless success, amplification = "
                  "running clamp (= clamped product when factors >= 1). The model is tied to the code by evaluating it in Coq on "
                  "every generated pipeline the implementation ran (exhaustive for short pipelines).")
    LEVEL_NOTE = ("Trusts: Coq kernel+VM; the correspondence harness; signals modelled as integers and callbacks as deterministic "
                  "functions; float amplification compared exactly on dyadic factors. Axioms: none (Print Assumptions: closed).")
    TECHNIQUE = "Coq proof by induction over the stage list + vm_compute correspondence against Cascade.run"
    TRUSTED = ["modelled not verified: signals are integers, user callbacks are deterministic functions of the signal; "
               "float amplification compared exactly on dyadic factors (binary64 product exact on them)",
               "on_stage_complete / on_cascade_complete observers are absent, benign recorders, or rewrite the record "
               "they are handed (sequential entry); observers that raise are outside the check (the code treats them as a "
               "processor failure of the stage)"]
    ASSUMPTIONS = ["amplification factors are finite, non-NaN doubles",
                   "a processor may run the same pipeline object on a sub-item before it answers (sequential entry; the inner "
                   "run is not recorded, the outer run must come out as if it had not happened)",
                   "one stage object may sit at several positions of a pipeline (its callbacks are attributed to positions "
                   "in visiting order)",
                   "stage names are strings (any: empty, repeated, falsy-looking); a result is attributed to a stage by "
                   "position (run) or by name (run_parallel, where repeated names make the attribution a multiset)"]

    # -- generation --------------------------------------------------------
    def _rand_stage(self, rng):
        k = rng.random()
        if k < 0.3:
            c = None
        elif k < 0.8:
            c = ["const", rng.choice(GATES)]
        else:
            c = ["mod", rng.choice([2, 3]), rng.choice([0, 1]), rng.choice(GATES), rng.choice(GATES)]
        k = rng.random()
        if k < 0.6:
            p = ["aff", rng.choice([1, 2, -1, 3]), rng.choice([0, 1, -2, 5])]
        elif k < 0.85:
            p = ["raise"]
        else:
            p = ["raisemod", rng.choice([2, 3]), rng.choice([0, 1]), rng.choice([1, 2]), rng.choice([0, 1])]
        h = rng.choice([None, None, ["recover", rng.randint(-5, 5)], ["raise"]])
        return {"c": c, "p": p, "h": h, "req": rng.random() < 0.7, "f": rng.choice(FACTORS)}

    def gen_cases(self, rng, n):
        out = []
        for _ in range(n):
            ns = rng.choice([1, 2, 3, 3, 4, 4, 5])
            out.append({"halt": rng.random() < 0.5, "max": rng.choice(MAXES),
                        "stages": [self._rand_stage(rng) for _ in range(ns)], "x": rng.randint(-4, 9),
                        "mode": rng.choice(["sequential", "sequential", "parallel", "conditional", "amplifying"]),
                        "runs": rng.choice([1, 2, 2, 3]),
                        "build": rng.choice(["add", "add", "insert", "reverse-insert", "dummy-removed", "late-gate", "mixed"]),
                        "entry": rng.choice(["run", "run", "run", "run_parallel"]),
                        # environment that must be transparent: printing on, benign recording hooks, read-only accessors
                        # and a failed remove_stage between the runs of the same object
                        "loud": rng.random() < 0.3, "hooks": rng.random() < 0.3, "observe": rng.random() < 0.3,
                        # what raising callbacks raise (message-less, falsy, StopIteration ...)
                        "exc": rng.randrange(9),
                        # earlier runs of the same object may see other (equal-but-distinct) inputs and other gate answers
                        "warm": rng.choice(["same", "same", "equal-distinct", "gates-flipped", "other-input"]),
                        # stage names are the caller's: distinct, empty, repeated, falsy-looking
                        "names": rng.choice(["distinct"] * 5 + NAME_FLAVOURS)})
            c = out[-1]
            # the SAME stage object registered at two positions (same behaviour, same name at both)
            if ns >= 2 and rng.random() < 0.15:
                a, b = sorted(rng.sample(range(ns), 2))
                c["stages"][b] = dict(c["stages"][a])
                c["share"] = [[a, b]]
            # a processor that runs the same pipeline object on a sub-item (sequential entry, no shared stage objects)
            if not c.get("share") and c["entry"] == "run" and rng.random() < 0.12:
                c["reenter"] = rng.randrange(ns)
            # an observer that rewrites the record it is handed (sequential entry only)
            if c["hooks"] and c["entry"] == "run" and rng.random() < 0.5:
                c["hooks"] = "mutate"
        return out

    def exhaustive_cases(self):
        behs = []
        for c in [None, ["const", "GPass"], ["const", "GReject"], ["const", "GRaise"]]:
            for p, h in [(["aff", 2, 1], None), (["raise"], None), (["raise"], ["recover", 7]), (["raise"], ["raise"])]:
                for req in (True, False):
                    behs.append({"c": c, "p": p, "h": h, "req": req, "f": 4.0})
        top = 2 if self.tier == "quick" else 3
        out = []
        for n in range(1, top + 1):
            for combo in itertools.product(behs, repeat=n):
                for halt in (True, False):
                    out.append({"halt": halt, "max": 10.0, "stages": list(combo), "x": 3,
                                "mode": ["sequential", "parallel", "conditional", "amplifying"][(len(out) // 7) % 4],
                                "runs": 1 + (len(out) % 2),
                                "build": ["add", "insert", "reverse-insert", "dummy-removed", "late-gate", "mixed"][(len(out) // 3) % 6],
                                "exc": len(out) % 9,
                                "warm": ["same", "equal-distinct", "gates-flipped", "other-input"][(len(out) // 2) % 4],
                                "names": (["distinct"] * 3 + NAME_FLAVOURS)[(len(out) // 5) % 10]})
                    c = out[-1]
                    if n >= 2 and len(out) % 4 == 0:
                        # the same stage object at the first and the last position (the last takes the first's behaviour)
                        c["stages"] = c["stages"][:-1] + [dict(c["stages"][0])]
                        c["share"] = [[0, n - 1]]
                    if len(out) % 3 == 0:
                        c["hooks"] = "mutate"
                    if not c.get("share") and len(out) % 5 == 1:
                        c["reenter"] = len(out) % n
        # ONE stage object at two positions whose behaviour depends on the signal (it raises / is gated shut on one visit
        # and goes through on the other), with a parity-flipping stage in between
        flip = {"c": None, "p": ["aff", 1, 1], "h": None, "req": True, "f": 2.0}
        for c in (None, ["mod", 2, 0, "GPass", "GReject"], ["mod", 2, 1, "GPass", "GRaise"]):
            for r in (0, 1):
                for h in (None, ["recover", 7], ["raise"]):
                    for req in (False, True):
                        for layout in ("a-flip-a", "a-a-flip", "flip-a-flip-a"):
                            for x in (3, 4):
                                for halt in (True, False):
                                    sh = {"c": c, "p": ["raisemod", 2, r, 1, 2], "h": h, "req": req, "f": 2.0}
                                    if layout == "a-flip-a":
                                        stages, share = [sh, flip, dict(sh)], [[0, 2]]
                                    elif layout == "a-a-flip":
                                        stages, share = [sh, dict(sh), flip], [[0, 1]]
                                    else:
                                        stages, share = [flip, sh, dict(flip), dict(sh)], [[0, 2], [1, 3]]
                                    out.append({"halt": halt, "max": 10.0, "stages": stages, "x": x, "share": share,
                                                "mode": "sequential", "runs": 1 + (len(out) % 2), "build": "add",
                                                "exc": len(out) % 9, "warm": "same", "names": "distinct",
                                                "hooks": [False, True, "mutate"][len(out) % 3]})
        # the fork pattern: every pipeline of <= 2 (quick) / <= 3 (thorough) stages again through run_parallel
        par = []
        for c in out:
            if len(c["stages"]) <= top and c["halt"] and not c.get("share"):
                par.append({**c, "entry": "run_parallel"})
        return out + par

    def extra_checks(self):
        # the MAPK preset uses dict signals; it is checked by the monitor only
        for x in (1, "ping", 0):
            case = {"mapk": True, "x": x, "halt": True}
            obs, trace = self._safe_impl(case)
            v = self.monitor(case, obs, trace)
            if v is not None:
                v.case = case
                self.violations.append(v)
        self.extra_cov["mapk_preset_runs"] = 3
        # past the history cap (1000 results): the 1003rd run of one object is still judged like the first
        from operon_ai.topology import cascade as C
        casc = C.Cascade("cap", silent=True)
        casc.add_stage(C.CascadeStage(name="s0", processor=lambda x: x + 1, checkpoint=lambda x: x != 7))
        first = casc.run(1)
        for _ in range(1001):
            casc.run(1)
        blocked = casc.run(7)
        last = casc.run(1)
        if (first.success, first.final_output) != (last.success, last.final_output) or blocked.success or blocked.final_output is not None:
            self.violations.append(Violation("C19/state-carried-between-runs",
                                             f"after 1003 runs of one pipeline object: first {first.success, first.final_output}, "
                                             f"last {last.success, last.final_output}, gated run {blocked.success, blocked.final_output}",
                                             case={"history_cap": True}))
        self.extra_cov["runs_past_history_cap"] = 1004

    # -- implementation ----------------------------------------------------
    def run_impl(self, case):
        from operon_ai.topology import cascade as C
        log = []
        if case.get("mapk"):
            return self._run_mapk(C, case)
        stages = case["stages"]
        mode = {m.value: m for m in C.CascadeMode}[case.get("mode", "sequential")]
        hooked = {"stage": [], "cascade": []}
        kw = {}
        if case.get("hooks"):
            def on_stage(r):
                if hooked.get("depth"):
                    return                      # an inner (re-entrant) run: not what this observer is recording
                hooked["stage"].append(r.stage_name)
                if case.get("hooks") == "mutate" and case.get("entry") != "run_parallel":
                    # an audit observer that trims / redacts the record it was handed
                    r.output_signal = -4242
                    r.input_signal = -4343
            kw = {"on_stage_complete": on_stage,
                  "on_cascade_complete": lambda r: None if hooked.get("depth") else hooked["cascade"].append(bool(r.success))}
        import contextlib
        import io
        out_cm = contextlib.redirect_stdout(io.StringIO()) if case.get("loud") else contextlib.nullcontext()
        with out_cm:
            return self._run_pipeline(C, case, log, stages, mode, kw, hooked)

    def _run_pipeline(self, C, case, log, stages, mode, kw, hooked):
        casc = C.Cascade("c", mode=mode, max_amplification=case["max"], halt_on_failure=case["halt"],
                         silent=not case.get("loud"), **kw)
        built = []
        names = stage_names(case)
        cls = name_classes(names)
        phase = {"warm": False}
        depth = hooked.setdefault("depth", [])
        parallel_entry = case.get("entry") == "run_parallel"
        share = {b: a for a, b in case.get("share") or []}
        visits = {}                       # first position of a shared object -> visits so far in the current run
        import threading as _th
        vlock = _th.Lock()
        for i, s in enumerate(stages):
            if i in share:
                built.append(built[share[i]])      # the same object again
                continue

            def mk(i0, s):
                positions = [i0] + sorted(b for b, a in share.items() if a == i0)
                first_kind = 0 if s["c"] else 1
                tl = _th.local()

                def where(kind):
                    """the position this callback belongs to: a shared object is visited once per position, in order; a
                    visit is checkpoint, then processor, then handler (each at most once), so a callback of a kind that
                    does not come later than the previous one of this thread opens the next visit"""
                    if len(positions) == 1:
                        return i0
                    if getattr(tl, "run", None) is not visits.get("run") or kind <= getattr(tl, "last", 9):
                        with vlock:
                            v = visits.get(i0, 0)
                            visits[i0] = v + 1
                        tl.pos = positions[v] if v < len(positions) else -9
                        tl.run = visits.get("run")
                    tl.last = kind
                    return tl.pos

                def checkpoint(x):
                    i = where(0)
                    log.append([i, 0, x])
                    g = ev_gate(s["c"], x)
                    if phase["warm"] and case.get("warm") in ("gates-flipped", "equal-distinct"):
                        g = {"GPass": "GReject", "GReject": "GPass", "GRaise": "GPass"}[g]   # the answer was different then
                    if g == "GRaise":
                        raise _gate_exc(case.get("exc", 0) + i)
                    # "returned true" is truthiness: gates may answer with any truthy / falsy value
                    k = case.get("exc", 0) + i
                    return [True, 1, "yes", [0], 2.5][k % 5] if g == "GPass" else [False, None, 0, "", [], 0.0][k % 6]

                def processor(x):
                    i = where(1)
                    log.append([i, 1, x])
                    if case.get("reenter") == i0 and not depth and len(positions) == 1 and not parallel_entry:
                        # the processor runs the SAME pipeline object on a sub-item before it answers (what the inner run
                        # does is not recorded; the outer run must come out as if it had not happened)
                        depth.append(1)
                        keep = len(log)
                        try:
                            casc.run(x + 1)
                        except BaseException:  # noqa
                            pass
                        finally:
                            del log[keep:]
                            depth.pop()
                    r = ev_proc(s["p"], x)
                    if r[0] == "raise":
                        raise ProcError(x)
                    return r[1]

                def on_error(e):
                    # the handler is only ever meant to see the processor's exception
                    x = e.args[0] if isinstance(e, ProcError) else -777
                    i = where(2)
                    log.append([i, 2, x])
                    if s["h"][0] == "raise":
                        raise _gate_exc(case.get("exc", 0) + i + 3)
                    return s["h"][1]
                return C.CascadeStage(name=names[i0], processor=processor, amplification=s["f"],
                                      checkpoint=checkpoint if s["c"] else None,
                                      on_error=on_error if s["h"] else None, required=s["req"])
            built.append(mk(i, s))
        # the pipeline is assembled through the whole public construction API; the result is always the same
        # ordered list of stages
        how = case.get("build", "add")
        if how == "add":
            for st in built:
                casc.add_stage(st)
        elif how == "insert":
            for k, st in enumerate(built):
                casc.insert_stage(k, st)
        elif how == "reverse-insert":
            for st in reversed(built):
                casc.insert_stage(0, st)
        elif how == "dummy-removed":
            casc.add_stage(C.CascadeStage(name="dummy", processor=lambda x: x, checkpoint=lambda x: True))
            for st in built:
                casc.add_stage(st)
            casc.remove_stage("dummy")
        elif how == "late-gate":
            gates = [st.checkpoint for st in built]
            for st in built:
                st.checkpoint = None
                casc.add_stage(st)
            for st, g in zip(built, gates):
                st.checkpoint = g
        else:
            for k, st in enumerate(built):
                if k % 2 == 0:
                    casc.add_stage(st)
            pos = 1
            for k, st in enumerate(built):
                if k % 2 == 1:
                    casc.insert_stage(pos, st)
                    pos += 2
        assert [st.name for st in casc._stages] == names, "harness: wrong stage order"
        # the same object is run several times: every run must be judged (and come out) on its own
        parallel = case.get("entry") == "run_parallel"
        entry = casc.run_parallel if parallel else casc.run
        earlier = []
        warm = case.get("warm", "same")
        for _ in range(max(0, case.get("runs", 1) - 1)):
            phase["warm"] = True
            x0 = {"same": case["x"], "gates-flipped": case["x"], "equal-distinct": float(case["x"]),
                  "other-input": case["x"] + 1}[warm]
            visits.clear()
            visits["run"] = object()
            r0 = entry(x0)
            if warm == "same":
                earlier.append(self._summary(r0, sorted(log) if parallel else list(log), parallel))
            del log[:]
            if case.get("observe"):
                casc.get_statistics()
                casc.get_history(5) if hasattr(casc, "get_history") else None
                casc.remove_stage("no-such-stage")
        hooked["stage"].clear()
        hooked["cascade"].clear()
        phase["warm"] = False
        visits.clear()
        visits["run"] = object()
        res = entry(case["x"])
        if case.get("hooks"):
            done = sorted(r.stage_name for r in res.stage_results if r.status.value == "completed" and r.error is None)
            # (names, as the hooks and the result both report names)
            if not parallel and (sorted(hooked["stage"]) != done or hooked["cascade"] != [bool(res.success)]):
                self.violations.append(Violation(
                    "C19/hooks-disagree", f"on_stage_complete saw {hooked['stage']}, on_cascade_complete saw {hooked['cascade']}; "
                    f"the result reports completed-by-processor stages {done} and success={res.success}", case=case))
        codes = {"completed": 0, "failed": 1, "skipped": 2, "blocked": 3}
        if parallel:
            return self._obs_parallel(case, res, log, earlier, codes, names, cls)
        amp = Fraction(res.total_amplification)
        out = res.final_output
        # blocked_at is a NAME (None = nothing blocked; "" is a legal name): identified by the first stage carrying it
        blocked = -1 if res.blocked_at is None else (names.index(res.blocked_at) if res.blocked_at in names else -9)
        obs = [[int(bool(res.success)), int(out is not None), out if isinstance(out, int) else 0,
                blocked, res.stages_completed],
               [amp.numerator, amp.denominator], [len(res.stage_results)]]
        sres = []
        # sequential results arrive in stage order: matched by position (names need not be distinct)
        for pos, r in enumerate(res.stage_results):
            i = pos if pos < len(names) and r.stage_name == names[pos] else -9
            st = codes[r.status.value]
            # amplification_factor is only meaningful for processor-completed stages
            applied = st == 0 and r.error is None
            f = Fraction(r.amplification_factor) if applied else Fraction(1)
            obs.append([i, st, int(applied), f.numerator, f.denominator])
            sres.append((pos, st, f if applied else None))
        obs += [list(e) for e in log]
        trace = {"log": log, "sres": sres, "success": bool(res.success), "out": out,
                 "amp": amp, "blocked": res.blocked_at, "earlier": earlier, "last": self._summary(res, list(log))}
        return obs, trace

    def _obs_parallel(self, case, res, log, earlier, codes, names, cls):
        """run_parallel: stage results and callback events arrive in completion order; a result is identified by its
        stage's NAME (= the first stage carrying that name); canonical = the sorted list of rows."""
        log = sorted(log)
        key = lambda r: (names.index(r.stage_name) if r.stage_name in names else -9)
        results = list(res.stage_results)
        # outputs in stage order: by the processors' own log (each closure knows its stage), not by name
        outs_by_stage = [ev_proc(case["stages"][i]["p"], case["x"])[1]
                         for i in sorted({e[0] for e in log if e[1] == 1})
                         if ev_proc(case["stages"][i]["p"], case["x"])[0] == "ok"]
        reported_outs = [r.output_signal for r in results if r.status.value == "completed"]
        fo = res.final_output
        obs = [[int(bool(res.success)), int(fo is not None), 0, -1, res.stages_completed], [1, 1], [len(results)]]
        sres, rows = [], []
        for r in results:
            i = key(r)
            st = codes[r.status.value]
            applied = st == 0
            f = Fraction(r.amplification_factor) if applied else Fraction(1)
            rows.append([i, st, int(applied), f.numerator, f.denominator])
            sres.append((i, st, f if applied else None))
        rows.sort()
        sres.sort(key=lambda t: (t[0], t[1], t[2] if t[2] is not None else Fraction(1)))
        obs += rows
        obs += [list(e) for e in log]
        # the released outputs, in stage order when they are a permutation of the completed stages' outputs
        perm = (isinstance(fo, list) and sorted(map(repr, fo)) == sorted(map(repr, outs_by_stage))
                and sorted(map(repr, reported_outs)) == sorted(map(repr, outs_by_stage)))
        obs.append([-5] + (outs_by_stage if (fo is not None and perm) else ([] if fo is None else [-777777])))
        trace = {"parallel": True, "log": log, "sres": sres, "success": bool(res.success), "out": fo,
                 "outs_by_stage": outs_by_stage, "amp": Fraction(res.total_amplification), "blocked": res.blocked_at,
                 "names": names, "cls": cls,
                 "earlier": earlier, "last": self._summary(res, log, True)}
        return obs, trace

    @staticmethod
    def _summary(res, log, parallel=False):
        rs = [(r.stage_name, r.status.value) for r in res.stage_results]
        fo = res.final_output
        if parallel:
            rs = sorted(rs)
            fo = sorted(map(repr, fo)) if isinstance(fo, list) else fo
        return [bool(res.success), repr(fo), res.blocked_at, res.stages_completed,
                str(Fraction(res.total_amplification)), rs, log]

    def _run_mapk(self, C, case):
        m = C.MAPKCascade(silent=True)
        res = m.run(case["x"])
        ok = (res.success and res.final_output == {"signal": case["x"], "tier": 3, "active": True, "response": "ACTIVATED"}
              and res.total_amplification == 100.0 and [r.status.value for r in res.stage_results] == ["completed"] * 3)
        return [[int(ok)]], {"mapk": True, "ok": ok}

    # -- model input -------------------------------------------------------
    def coq_case(self, case):
        def cb(c):
            if c is None:
                return "CNone"
            if c[0] == "const":
                return f"(CConst {c[1]})"
            return f"(CMod {cz(c[1])} {cz(c[2])} {c[3]} {c[4]})"
        def pb(p):
            if p[0] == "aff":
                return f"(PAff {cz(p[1])} {cz(p[2])})"
            if p[0] == "raise":
                return "PRaise"
            return f"(PRaiseMod {cz(p[1])} {cz(p[2])} {cz(p[3])} {cz(p[4])})"
        def hb(h):
            if h is None:
                return "HNone"
            return "HRaise" if h[0] == "raise" else f"(HRecover {cz(h[1])})"
        st = clist([ctuple(cb(s["c"]), pb(s["p"]), hb(s["h"]), cbool(s["req"]), cq(Fraction(s["f"])) + "%Q")
                    for s in case["stages"]])
        c = ctuple(cbool(case.get("entry") == "run_parallel"), cbool(case["halt"]), cq(Fraction(case["max"])) + "%Q", st,
                   cz(case["x"]))
        return ctuple(c, clist([cz(k) for k in name_classes(stage_names(case))]))

    # -- the property, on the implementation's trace ------------------------
    def monitor(self, case, obs, trace):
        if trace.get("harness_error") or trace.get("hang"):
            return Violation("C19/raises", f"Cascade.run did not return normally: {trace}")
        if trace.get("mapk"):
            return None if trace["ok"] else Violation("C19/mapk-preset", "MAPK preset does not complete with the composed output and clamped amplification 100")
        stages, log = case["stages"], trace["log"]
        # callbacks that cannot be attributed to a position (more visits than the stage has positions) are left to the
        # correspondence with the model
        log = [e for e in log if 0 <= e[0] < len(stages)]
        if not trace.get("parallel"):
            trace = {**trace, "sres": [t for t in trace["sres"] if 0 <= t[0] < len(stages)]}
        if trace.get("parallel"):
            return self._monitor_parallel(case, {**trace, "log": log})
        for k, e in enumerate(trace.get("earlier", [])):
            if e != trace["last"]:
                return Violation("C19/state-carried-between-runs",
                                 f"run {k + 1} and run {len(trace['earlier']) + 1} of the same pipeline object on the same "
                                 f"input differ: {e[:5]} vs {trace['last'][:5]}")
        # gates fail closed
        for k, (i, cb, x) in enumerate(log):
            if cb == 1 and stages[i]["c"] is not None:
                if ev_gate(stages[i]["c"], x) != "GPass" or [i, 0, x] not in log[:k]:
                    return Violation("C19/gate-fail-open", f"stage {i} processed signal {x} although its checkpoint did not return true for it")
        # a stage with a checkpoint completes only behind a gate that passed; the error handler is for the processor
        for k, (i, cb, x) in enumerate(log):
            if cb == 2 and x == -777:
                return Violation("C19/gate-fail-open", f"stage {i}: the checkpoint's exception was handed to on_error (the gate raised, the stage must not run or be recovered)")
        for (i, st, _f) in trace["sres"]:
            if st == 0 and stages[i]["c"] is not None:
                checks = [e for e in log if e[0] == i and e[1] == 0]
                if not checks or ev_gate(stages[i]["c"], checks[-1][2]) != "GPass":
                    return Violation("C19/gate-fail-open", f"stage {i} is reported COMPLETED although its checkpoint did not return true")
        # a stage is COMPLETED only if its processor returned for the signal it was given, or its handler recovered
        for (i, st, _f) in trace["sres"]:
            if st == 0:
                procs = [e for e in log if e[0] == i and e[1] == 1]
                if not procs:
                    return Violation("C19/completed-without-processing", f"stage {i} is reported COMPLETED but its processor never ran")
                if ev_proc(stages[i]["p"], procs[-1][2])[0] == "raise" and (stages[i]["h"] is None or stages[i]["h"][0] == "raise"):
                    return Violation("C19/completed-without-processing",
                                     f"stage {i} is reported COMPLETED although its processor raised on {procs[-1][2]} and "
                                     f"{'it has no error handler' if stages[i]['h'] is None else 'its error handler raised too'}")
        # halted pipelines run nothing further
        if case["halt"]:
            for (i, st, _f) in trace["sres"]:
                if st in (1, 3) and (stages[i]["req"] or st == 3):
                    later = [e for e in log if e[0] > i]
                    if later:
                        return Violation("C19/halt-runs-further", f"callbacks {later} ran after stage {i} was blocked/failed with halt_on_failure")
        # success iff all completed in order
        sts = [(i, st) for (i, st, _f) in trace["sres"]]
        allc = sts == [(i, 0) for i in range(len(stages))]
        if trace["success"] and not allc:
            return Violation("C19/success-not-all-completed", f"success reported with stage results {sts}")
        if not trace["success"] and trace["out"] is not None:
            return Violation("C19/output-released-on-failure", f"final_output {trace['out']} released although success is False")
        if trace["success"]:
            x = case["x"]
            for s in stages:
                r = ev_proc(s["p"], x)
                if r[0] != "ok" and (s["h"] is None or s["h"][0] == "raise"):
                    return Violation("C19/success-not-all-completed", "success although a stage's processor raised and nothing recovered it")
                x = r[1] if r[0] == "ok" else s["h"][1]
            if trace["out"] != x:
                return Violation("C19/output-not-composition", f"final_output {trace['out']} != composition {x}")
        # amplification = running clamped product
        a, mx = Fraction(1), Fraction(case["max"])
        for (_i, st, f) in trace["sres"]:
            if st == 0 and f is not None:
                a = a * f
                if a > mx:
                    a = mx
        if a != trace["amp"]:
            return Violation("C19/amplification", f"total_amplification {trace['amp']} != clamped product {a}")
        return None

    def _monitor_parallel(self, case, trace):
        """The property on a run_parallel trace: gates guard their stages, success iff all completed, no output
        otherwise, on success the outputs are what the processors returned for the input."""
        stages, log, x0 = case["stages"], trace["log"], case["x"]
        for k, e in enumerate(trace.get("earlier", [])):
            if e != trace["last"]:
                return Violation("C19/state-carried-between-runs",
                                 f"parallel run {k + 1} and run {len(trace['earlier']) + 1} of the same pipeline object on "
                                 f"the same input differ: {e[:5]} vs {trace['last'][:5]}")
        for (i, cb, x) in log:
            if x != x0:
                return Violation("C19/parallel-wrong-signal", f"stage {i} callback {cb} was handed {x}, the run's input is {x0}")
            if cb == 1 and stages[i]["c"] is not None:
                if ev_gate(stages[i]["c"], x) != "GPass" or [i, 0, x] not in log:
                    return Violation("C19/gate-fail-open", f"run_parallel: stage {i} processed signal {x} although its "
                                                           f"checkpoint did not return true for it")
        # results are attributed by NAME: of the stages sharing a name, no more may be reported COMPLETED than have
        # a checkpoint that returned true (or none) and a processor that returned
        names = trace.get("names") or [f"s{i}" for i in range(len(stages))]
        for nm in sorted(set(names)):
            group = [i for i, n in enumerate(names) if n == nm]
            rep_i = group[0]
            completed = sum(1 for (i, st, _f) in trace["sres"] if i == rep_i and st == 0)
            open_gates = sum(1 for i in group if stages[i]["c"] is None or ev_gate(stages[i]["c"], x0) == "GPass")
            can = sum(1 for i in group if (stages[i]["c"] is None or ev_gate(stages[i]["c"], x0) == "GPass")
                      and ev_proc(stages[i]["p"], x0)[0] == "ok")
            if completed > open_gates:
                return Violation("C19/gate-fail-open", f"run_parallel: {completed} result(s) named {nm!r} are reported COMPLETED, "
                                                       f"but only {open_gates} of the {len(group)} stage(s) of that name have "
                                                       f"a checkpoint that returned true (or none)")
            if completed > can:
                return Violation("C19/completed-without-processing",
                                 f"run_parallel: {completed} result(s) named {nm!r} are reported COMPLETED, but only {can} "
                                 f"stage(s) of that name were let through AND had their processor return")
        sts = [(i, st) for (i, st, _f) in trace["sres"]]
        allc = (len(sts) == len(stages) and all(st == 0 for (_i, st) in sts)
                and sorted(i for (i, _st) in sts) == sorted(trace.get("cls") or range(len(stages))))
        if trace["success"] and not allc:
            return Violation("C19/success-not-all-completed", f"run_parallel: success reported with stage results {sts} "
                                                              f"(stages named {names})")
        if trace["success"]:
            shut = [i for i, s_ in enumerate(stages) if s_["c"] is not None and ev_gate(s_["c"], x0) != "GPass"]
            if shut:
                return Violation("C19/success-not-all-completed", f"run_parallel: success reported although the checkpoint of "
                                                                  f"stage(s) {shut} did not return true (names {names})")
        if not trace["success"] and trace["out"] is not None:
            return Violation("C19/output-released-on-failure", f"run_parallel: final_output {trace['out']} released although success is False")
        if trace["success"]:
            want = []
            for s in stages:
                r = ev_proc(s["p"], x0)
                if r[0] != "ok":
                    return Violation("C19/success-not-all-completed", "run_parallel: success although a processor raises on the input")
                want.append(r[1])
            if sorted(map(repr, trace["out"] or [])) != sorted(map(repr, want)):
                return Violation("C19/output-not-composition", f"run_parallel: final_output {trace['out']} != processors' outputs {want}")
        return None

    def nontrivial(self, case, obs, trace):
        if case.get("mapk"):
            return True
        return any(s["c"] or s["p"][0] != "aff" for s in case["stages"])

    def classify(self, case, obs, trace):
        if case.get("mapk"):
            return ["mapk"]
        ks = [f"stages={len(case['stages'])}", f"halt={case['halt']}", "success" if trace.get("success") else "not-success",
              f"names={case.get('names', 'distinct')}"]
        for (_i, st, _f) in trace.get("sres", []):
            ks.append("status=" + ["completed", "failed", "skipped", "blocked"][st])
        return ks

    def shrink(self, case, pred):
        if case.get("mapk"):
            return case
        st = common.shrink_list(case["stages"], lambda ss: len(ss) > 0 and pred({**case, "stages": ss}))
        return {**case, "stages": st}


CHECK = C19
