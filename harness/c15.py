"""C15 — deadlock detection agrees with the real wait-for relation."""
import itertools

from . import common
from .common import Check, Violation, cz, cbool, clist, ctuple
from . import c14 as D

STRAT = D.STRATEGY


def hop_to_fop(h):
    k = h[0]
    if k == "start":
        # optional 4th entry: ctx.metadata["watchdog_exempt"] = True right after start_operation
        return ["start", h[1], h[2], bool(len(h) > 3 and h[3])]
    return list(h)


def coq_hop(h):
    k = h[0]
    if k == "start":
        return f"({'HStartExempt' if len(h) > 3 and h[3] else 'HStart'} {cz(h[1])} {cz(h[2])})"
    if k == "kill":
        return f"(HKill {cz(h[1])})"
    if k == "acq":
        return f"(HAcquire {cz(h[1])} {cz(h[2])})"
    if k == "rel":
        return f"(HRelease {cz(h[1])} {cz(h[2])})"
    if k == "complete":
        return f"(HComplete {cz(h[1])})"
    if k == "abort":
        return f"(HAbort {cz(h[1])})"
    if k == "wd":
        return "HWatchdog"
    raise ValueError(h)


PRIO_OPS = ("boost", "restore", "clearboosts", "setprio", "setpre")


def coq_xop(h):
    k = h[0]
    if k == "boost":
        return "XBoost"
    if k == "restore":
        return f"(XRestore {cz(h[1])})"
    if k == "clearboosts":
        return "XClearBoosts"
    if k == "setprio":
        return f"(XSetPrio {cz(h[1])} {cz(h[2])})"
    if k == "setpre":
        return f"(XSetPreempt {cz(h[1])} {cbool(h[2])})"
    if k == "tick":
        return f"(XTick {cz(h[1])})"
    if k == "adv":
        return f"(XAdvance {cz(h[1])})"
    if k == "pop":
        return f"(XPopWaiter {cz(h[1])})"
    if k == "relall":
        return f"(XReleaseAll {cz(h[1])})"
    if k == "shutdown":
        return "XShutdown"
    if k == "maintain":
        return "XMaintain"
    if k == "reg":
        return f"(XRegister {cz(h[1])} {cbool(h[2])})"
    return f"(XHop {coq_hop(h)})"


def events_of(h, ret):
    """The (operation, reason) pairs of the watchdog pass of a `wd` / `maintain` step, flat."""
    if h[0] == "maintain":
        return ret[1 + 3 * ret[0]:] if ret and ret[0] >= 0 else []
    return ret


def xstep(w, h, ref=None):
    """One call of the extended alphabet on the real objects -> canonical return value.
    The calls that are not acquisitions: priority inheritance (priority.py), a plain assignment to
    OperationContext.priority, a plain assignment to ResourceLock.allow_preemption; and the remaining public
    calls that release or end operations (release_all_resources on a live operation, shutdown, run_maintenance)
    or register a further resource."""
    k = h[0]
    c = w.ctl
    pm = w.sys.priority_manager
    if k == "relall":
        # controller.release_all_resources(ctx): public, and the operation stays alive
        ctx = c.active_operations.get(D.oname(h[1]))
        if ctx is None:
            old = w.__dict__.get("ctxs", {}).get(D.oname(h[1]))
            if old is not None:            # through the retained context of an operation that has ended: a no-op
                c.release_all_resources(old)
            return [-1]
        c.release_all_resources(ctx)
        return [0]
    if k == "shutdown":
        w.sys.shutdown()
        return [0]
    if k == "maintain":
        # CoordinationSystem.run_maintenance(): check_and_boost, then watchdog.execute - ONE call.  The state
        # between the two (the "before" of that watchdog pass) is looked at from a wrapper around execute.
        wd = w.sys.watchdog
        orig = wd.execute

        def execute(controller):
            v = w.view()
            w.mid_view = {"view": v, "ref": ref.edges(v) if ref is not None else None}
            return orig(controller)
        wd.execute = execute
        try:
            m = w.sys.run_maintenance()
        finally:
            del wd.execute
        out = [len(m["priority_boosts"])]
        for b in m["priority_boosts"]:
            out += [D.onum(b.operation_id), b.original_priority, b.boosted_priority]
        for e in m["apoptosis"]:
            out += [D.onum(e.operation_id), D.REASON[e.reason.value]]
        return out
    if k == "reg":
        # a further resource registered while the history runs; an id is registered once
        if D.rname(h[1]) in c.resources:
            return [-1]
        w.sys.register_resource(D.rname(h[1]), allow_preemption=bool(h[2]))
        w.res.append(h[1])
        return [0]
    if k == "boost":
        out = []
        for b in pm.check_and_boost(c):
            out += [D.onum(b.operation_id), b.original_priority, b.boosted_priority]
        return out
    if k == "restore":
        ctx = c.active_operations.get(D.oname(h[1]))
        if ctx is None:
            return [-1]
        r = pm.restore_priority(ctx)
        return [0] if r is None else [1, r]
    if k == "clearboosts":
        return [pm.clear_all(c)]
    if k == "setprio":
        ctx = c.active_operations.get(D.oname(h[1]))
        if ctx is None:
            return [-1]
        ctx.priority = h[2]
        return [0]
    if k == "setpre":
        lock = c.resources.get(D.rname(h[1]))
        if lock is None:
            return [-1]
        lock.allow_preemption = bool(h[2])
        return [0]
    ctxs = w.__dict__.setdefault("ctxs", {})
    if k in ("complete", "abort", "rel") and D.oname(h[1]) not in c.active_operations and D.oname(h[1]) in ctxs:
        # the caller still holds the context of an operation that has ENDED and completes / aborts / releases
        # through it once more.  The model's alphabet has no such call ([-1] = "the driver did not make the
        # call"): it has to leave everything as it is, whatever it changes shows as a difference to the model.
        ctx = ctxs[D.oname(h[1])]
        if k == "complete":
            c.complete_operation(ctx)
        elif k == "abort":
            c.abort_operation(ctx, reason="history")
        else:
            c.release_resource(ctx, D.rname(h[2]))
        return [-1]
    ret = w._fstep(hop_to_fop(h))
    ctxs.update(c.active_operations)
    return ret


def look(w, ref):
    """Every read-only accessor of the controller, its locks and graph, the watchdog and the priority manager.
    Not part of the model's alphabet (stripped from the Coq case). -> True iff anything the future can depend on
    differs afterwards."""
    c, wd, pm = w.ctl, w.sys.watchdog, w.sys.priority_manager
    before = (state_key(w, ref), len(wd.events), pm.total_boosts)
    c.stats()
    w.sys.health()
    for r in w.res:
        lock = c.resources[D.rname(r)]
        lock.hold_duration
        lock.is_available
    g = c.dependency_graph
    for o in list(c.active_operations.keys()) + list(g.edges.keys()):
        g.get_blocking_chain(o)
        pm.get_boost(o)
        pm.is_boosted(o)
    c.check_deadlock()
    wd.check(c)
    wd.stats()
    pm.stats()
    return (state_key(w, ref), len(wd.events), pm.total_boosts) != before


def prio_rows(w):
    c = w.ctl
    r205 = [205]
    for o, x in c.active_operations.items():
        r205 += [D.onum(o), x.priority]
    r206 = [206]
    for o, b in w.sys.priority_manager.active_boosts.items():
        r206 += [D.onum(o), b.original_priority, b.boosted_priority]
    r207 = [207]
    for r in w.res:
        r207 += [r, int(bool(c.resources[D.rname(r)].allow_preemption))]
    return [r205, r206, r207]


class Reference:
    """The wait-for relation of the READING, recomputed from the history and the
    observed lock owners only (never from the dependency graph)."""

    def __init__(self):
        self.blocked = set()          # (waiter, resource): latest attempt returned BLOCKED

    def step(self, h, ret, view):
        if h[0] == "acq" and ret and ret[0] in (0, 1, 2, 3):
            if ret[0] == 1:
                self.blocked.add((h[1], h[2]))
            else:                      # the waiter obtained the resource
                self.blocked.discard((h[1], h[2]))
        owners = view["owners"]
        # stale once the waiter ended or the resource became free
        self.blocked = {(wt, r) for (wt, r) in self.blocked
                        if wt in view["active"] and owners[r][0] != -1}
        return sorted((wt, owners[r][0], r) for (wt, r) in self.blocked)

    def edges(self, view):
        """The reference relation at a point INSIDE a call (no attempt of its own there): read only."""
        owners = view["owners"]
        return sorted((wt, owners[r][0], r) for (wt, r) in self.blocked
                      if wt in view["active"] and owners[r][0] != -1)


def has_cycle(edges):
    """Independent of the DFS under test: transitive closure."""
    succ = {}
    for (a, b, _r) in edges:
        succ.setdefault(a, set()).add(b)
    reach = {a: set(bs) for a, bs in succ.items()}
    changed = True
    while changed:
        changed = False
        for a in reach:
            new = set()
            for b in reach[a]:
                new |= reach.get(b, set())
            if not new <= reach[a]:
                reach[a] |= new
                changed = True
    return any(a in reach[a] for a in reach)


def is_cycle_of(cyc, edges):
    pairs = {(a, b) for (a, b, _r) in edges}
    return bool(cyc) and all((cyc[i], cyc[(i + 1) % len(cyc)]) in pairs for i in range(len(cyc)))


def run_history(case, light=False):
    """light: for the exploration - no observation rows, state key of the last step only."""
    from operon_ai.coordination import controller as Cm, types as Tm, watchdog as Wm, priority as Pm
    mods = [Cm, Tm, Wm, Pm]
    saved = [m.datetime for m in mods]
    D.VClock.now_s = 0
    for m in mods:
        m.datetime = D.VClock
    try:
        w = D.World(case["res"], {"strategy": case["strategy"], **case.get("w", {})})
        ref = Reference()
        obs, steps = [], []
        flat = lambda es: [x for e in es for x in e]
        after = w.view()
        n = len(case["ops"])
        for i, h in enumerate(case["ops"]):
            before = after
            if h[0] == "look":
                # transparent to the model: no rows unless something changed
                if look(w, ref) and not light:
                    obs.append([199])
                after = w.view()
                steps.append({"op": h, "ret": [], "before": before, "after": after, "ref": ref.step(h, [], after),
                              "key": state_key(w, ref) if (not light or i == n - 1) else None})
                continue
            ret = xstep(w, h, ref)
            after = w.view()
            refedges = ref.step(h, ret, after)
            mid = w.__dict__.pop("mid_view", None)
            cyc_edges = None
            if not light or i == n - 1:
                d = w.ctl.check_deadlock()
                cyc_edges = None if d is None else [(D.onum(a), D.onum(b), D.rnum(r)) for (a, b, r) in d.cycle]
            if not light:
                obs.append([100] + ret)
                obs += w.snapshot()
                obs.append([201] + flat(after["edges"]))
                obs.append([204] + flat(refedges))
                obs += prio_rows(w)
            steps.append({"op": h, "ret": ret, "before": before, "after": after, "ref": refedges, "mid": mid,
                          "cycle_edges": cyc_edges,
                          "key": state_key(w, ref) if (not light or i == n - 1) else None})
        return obs, steps
    finally:
        for m, d in zip(mods, saved):
            m.datetime = d


def _alarm(_sig, _frm):
    raise common.Hang()


def run_light(case, timeout=30):
    """run_history(light) under an interval timer when on the main thread (a thread per call costs as much
    as the call), under the thread watchdog otherwise."""
    import signal
    import threading
    if threading.current_thread() is not threading.main_thread():
        return common.call_with_watchdog(lambda: run_history(case, light=True), float(timeout))
    old = signal.signal(signal.SIGALRM, _alarm)
    signal.setitimer(signal.ITIMER_REAL, timeout)
    try:
        return run_history(case, light=True)
    finally:
        signal.setitimer(signal.ITIMER_REAL, 0)
        signal.signal(signal.SIGALRM, old)


def state_key(w, ref):
    """Everything the future behaviour (and the monitor) can depend on."""
    c = w.ctl
    locks = tuple((r, l.owner, l.owner_priority, l.hold_count, tuple(l.waiting_list), bool(l.allow_preemption))
                  for r, l in ((r, c.resources[D.rname(r)]) for r in w.res))
    boosts = tuple((o, b.original_priority, b.boosted_priority)
                   for o, b in w.sys.priority_manager.active_boosts.items())
    ops = tuple((o, x.priority, tuple(x.acquired_resources.keys()), x.phase.value, x.created_at, x.phase_entered_at,
                 bool(x.metadata.get("watchdog_exempt"))) for o, x in c.active_operations.items())
    edges = tuple((a, tuple(b)) for a, b in c.dependency_graph.edges.items())
    return (locks, ops, edges, tuple(sorted(w.ever)), tuple(sorted(ref.blocked)), boosts, D.VClock.now_s)


class C15(Check):
    PID = "C15"
    HEADER = "From Verif Require Import C14.Model C15.Model."
    RUN = "run_case"
    extra_dirs = ("C14",)
    N_QUICK = 400
    N_THOROUGH = 6000
    RULE = ("histories over {start(op,priority), acquire(op,r), release(op,r), complete(op), abort(op), watchdog.execute()} for 2-3 "
            "operations x 2-3 resources, each resource preemptable or not, strategies priority/oldest/other, interleaved with the calls that "
            "change what a LATER acquisition returns without being one: PriorityInheritance.check_and_boost / restore_priority / clear_all "
            "(one PriorityInheritance object per history, as in CoordinationSystem.run_maintenance), assignment to OperationContext.priority, "
            "assignment to ResourceLock.allow_preemption; and with the other public calls on the same objects and the knobs the "
            "property does not mention: watchdog time-outs (max_operation_time / starvation_timeout / progress_timeout, values "
            "-1,0,1,2,3 s) with time passing (virtual clock), controller.advance (G0 -> G1), watchdog-exempt operations, "
            "CoordinationSystem.kill_operation, ResourceLock.pop_next_waiter, acquisitions of an unregistered resource, "
            "complete / abort / release through the retained context of an operation that has ended (no-ops for the model), and - "
            "stripped from the model's case, so anything they change shows as a disagreement - every read-only accessor "
            "(controller.stats, system.health, lock.hold_duration / is_available, graph.get_blocking_chain, check_deadlock, "
            "watchdog.check / stats, priority manager get_boost / is_boosted / stats) between the calls; and with the remaining public "
            "calls that release or end operations or register resources: controller.release_all_resources on an operation that STAYS "
            "ALIVE (also through the retained context of an ended one), CoordinationSystem.shutdown, CoordinationSystem.run_maintenance "
            "(check_and_boost + watchdog.execute as one call; the state between the two is observed from a wrapper around execute), "
            "registration of a further resource while the history runs. Exhaustive part: every history up to depth 5-6 (quick) / 8 (thorough) of the 2x2 "
            "configurations and depth 4 / 6 of the 3x3 ones; with all operations started first: 2 operations x 2 resources with priority "
            "assignments in the alphabet to depth 5 / 7, and 3 operations (the highest-priority one last in the chain) x 2 resources over "
            "{acquire, release, watchdog, check_and_boost, restore_priority(, clear_all)} to depth 6 / 7, and 2 operations of different "
            "age x 2 resources with max_operation_time and starvation_timeout configured over {acquire, release, watchdog, "
            "2 s pass, kill, advance} to depth 5 / 6, and 2 operations x 2 resources over {acquire, release, release_all_resources, "
            "watchdog, shutdown, run_maintenance(, complete, abort)} to depth 6 / 7 and 3 operations x 2 resources over {acquire, "
            "release_all_resources, watchdog, run_maintenance} to depth 5 / 6; explored depth-first on the real "
            "code with calls on inactive operations (made through the retained context where there is one) dropped when they are "
            "no-ops and a subtree cut when the complete "
            "controller+lock+boost+monitor state was already expanded with at least the same remaining depth; the monitor runs on every "
            "explored transition; one case per maximal explored path (for the priority configurations an evenly spaced subset of at most "
            "300 / 4000 paths per configuration goes through the Coq correspondence). Random part: histories of length 4..20 biased "
            "towards blocking/cycles and towards priority inversion chains followed by inheritance and retries. non-trivial = at least one "
            "BLOCKED/PREEMPTED acquisition; distinct by content")
    LEVEL_TEXT = ("Coq theorems over all histories of any length and any number of operations/resources - including priority inheritance "
                  "(check_and_boost, restore_priority, clear_all), priority assignments, allow_preemption assignments, time passing, "
                  "controller.advance, pop_next_waiter, manual kills and watchdog-exempt starts, release_all_resources on an operation "
                  "that stays alive, shutdown, run_maintenance and late resource registrations at any point, under any watchdog "
                  "configuration (three time-outs, victim strategy) - about "
                  "the model of the controller (C14/Model.v) and of priority.py (C15/Model.v) with a ghost reference relation: the recorded "
                  "dependency edges equal the reference wait-for relation in every reachable state; nobody is recorded as waiting for itself; "
                  "an acquisition that returns anything but BLOCKED ends that operation's wait for that resource (also for a former waiter "
                  "that now preempts); a call that is no start/acquisition/release/end/watchdog pass changes neither relation nor the "
                  "verdict; a manual kill is an abort; a reported cycle is a real cycle of the "
                  "recorded (= reference) relation whose members are live and really waiting; if the relation has a cycle detect_cycle reports "
                  "one (DFS white/grey/black argument, fuel proved sufficient); the watchdog's victim is a minimal-priority / oldest member, "
                  "is terminated by that pass (as DEADLOCK victim, or as overdue when a time-out applies to it anyway), owns nothing "
                  "afterwards and the cycle is gone; release_all_resources on a live operation leaves it active, owning nothing, with "
                  "nobody recorded as waiting on it and every other recorded wait untouched; shutdown leaves no operation, owner, wait, "
                  "boost or deadlock; run_maintenance is check_and_boost followed by the watchdog pass. The model is tied to the code by running both on the same histories; the "
                  "reference relation is recomputed independently in Python on every implementation trace.")
    LEVEL_NOTE = ("Trusts: Coq kernel+VM; the correspondence harness; the READING of 'currently blocked' (DESIGN.md C15); fresh operation ids; "
                  "sequential calls. Axioms: none.")
    TECHNIQUE = "Coq invariant proof (edges = ghost reference) + DFS correctness proof; vm_compute correspondence; exhaustive small-scope exploration"
    TRUSTED = ["modelled not verified: ids are integers, contexts are identified with their fresh operation id, virtual clock",
               "the Python reference monitor (harness/c15.py Reference / has_cycle) is the transcription of the READING; it is cross-checked "
               "against the Coq ghost relation on every case (observation row 204)",
               "read-only accessors and calls through the context of an ended operation are not in the model's alphabet: the model "
               "treats them as no-ops and the correspondence check confirms that on every case that contains them",
               "phase S (progress_timeout) is only reachable through CoordinationSystem.execute_operation (C14), not in C15 histories",
               "not in the histories (outside 'acquisitions, releases, completions and aborts' made through the controller): calls that "
               "bypass the controller - ResourceLock.try_acquire / release on a registered lock, DependencyGraph.add_dependency / "
               "remove_dependency / clear called directly, OperationContext.add_acquired_resource - and re-registering an id that is "
               "already registered (replaces the lock object)",
               "PriorityBoost records are observed as (operation, original_priority, boosted_priority); reason/timestamp and "
               "PriorityInheritance.total_boosts are not modelled"]
    ASSUMPTIONS = ["operation ids are fresh per operation", "a resource id is registered once (before or during the history)",
                   "calls are sequential", "rec_stack of detect_cycle always equals the set of elements of path (modelled as one list)"]

    # -- generation --------------------------------------------------------
    def alphabet(self, nops, nres, starts=True, ends=True, extra=()):
        """extra: symbols of the extended alphabet, e.g. ("boost",), ("restore", o), ("setprio", o, p)"""
        al = []
        for o in range(1, nops + 1):
            if starts:
                al.append(("start", o))
            for r in range(1, nres + 1):
                al.append(("acq", o, r))
            for r in range(1, nres + 1):
                al.append(("rel", o, r))
            if ends:
                al.append(("complete", o))
                al.append(("abort", o))
        al.append(("wd",))
        al += [tuple(x) for x in extra]
        return al

    def _light_impl(self, case):
        try:
            return run_light(case)
        except common.Hang:
            return [[-999]], {"hang": True}
        except Exception as e:
            return [[-998]], {"harness_error": f"{type(e).__name__}: {e}"}

    def explore(self, res, strategy, prios, depth, al=None, prefix0=(), wcfg=None):
        """Depth-first exploration on the real code; returns maximal explored paths."""
        extra_keys = {"w": wcfg} if wcfg else {}
        if al is None:
            al = self.alphabet(len(prios), len(res))
        seen = {}
        out = []

        def mk(h):
            return ["start", h[1], prios[h[1] - 1]] if h[0] == "start" else list(h)

        def rec(prefix, key, remaining):
            extended = False
            if remaining > 0:
                for sym in al:
                    h = mk(sym)
                    case = {"res": res, "strategy": strategy, **extra_keys, "ops": prefix + [h]}
                    _obs, steps = self._light_impl(case)
                    self.explored_edges += 1
                    if not isinstance(steps, list):      # the implementation raised / hung
                        v = self.monitor(case, None, steps)
                        v.case = case
                        self.violations.append(v)
                        out.append(case["ops"])
                        extended = True
                        continue
                    st = steps[-1]
                    v = self.monitor(case, None, steps, only_last=True)   # the prefix was checked on the way here
                    if v is None and st["ret"] == [-1] and (key is None or st["key"] == key):
                        continue                       # call on an inactive operation / reused id: nothing happened
                    if v is not None:
                        v.case = case
                        self.violations.append(v)
                        out.append(case["ops"])
                        extended = True
                        continue
                    k = st["key"]
                    if seen.get(k, -1) >= remaining - 1:
                        if not extended:
                            out.append(case["ops"])
                            extended = True
                        continue
                    seen[k] = remaining - 1
                    extended = True
                    rec(prefix + [h], k, remaining - 1)
            if not extended or remaining == 0:
                if prefix:
                    out.append(prefix)
        rec([list(h) for h in prefix0], None, depth)
        # drop paths that are prefixes of other emitted paths
        outs = sorted(set(tuple(map(tuple, p)) for p in out))
        keep = []
        for i, p in enumerate(outs):
            if i + 1 < len(outs) and outs[i + 1][:len(p)] == p:
                continue
            keep.append([list(h) for h in p])
        return keep

    def exhaustive_cases(self):
        self.explored_edges = 0
        quick = self.tier == "quick"
        d22, d33 = (6, 4) if quick else (8, 6)
        cases = []
        cfg22 = []
        for pre in ([False, False], [True, True], [True, False]):
            for prios in ([0, 0], [0, 1], [1, 0]):
                if quick and prios == [0, 0] and pre != [False, False]:
                    continue        # equal priorities never preempt: the flags only matter in the thorough tier
                for strat in (["priority"] if quick else ["priority", "oldest"]):
                    # quick: full depth only for the unequal-priority configurations (preemption possible)
                    d = d22 - 1 if (quick and prios != [0, 1]) else d22
                    cfg22.append(([[1, pre[0]], [2, pre[1]]], strat, prios, d))
        cfg33 = [([[1, False], [2, False], [3, False]], "priority", [0, 1, 1], d33),
                 ([[1, True], [2, False], [3, True]], "oldest", [0, 1, 2], d33)]
        if not quick:
            cfg33.append(([[1, True], [2, True], [3, True]], "priority", [2, 1, 0], d33))
        for res, strat, prios, depth in cfg22 + cfg33:
            for ops in self.explore(res, strat, prios, depth):
                cases.append({"res": res, "strategy": strat, "ops": ops})
        # priorities that change during the history (priority.py, plain assignment): a waiter that was BLOCKED
        # can later PREEMPT.  All operations are started first (the interleaving of starts is covered above).
        # (a) two operations, assignments to OperationContext.priority in the alphabet;
        # (b) three operations O, H, W with W highest, priority inheritance (check_and_boost / restore_priority /
        #     clear_all) in the alphabet, no complete/abort.
        # Every explored transition is monitored; of the maximal paths at most `cap` per configuration
        # (evenly spaced) also go through the Coq correspondence.
        n_before = self.explored_edges
        dA, dB = (5, 6) if quick else (7, 7)
        cap = 300 if quick else 4000
        npaths = 0

        def emit(res, paths, strategy="priority", wcfg=None):
            nonlocal npaths
            npaths += len(paths)
            k = max(1, -(-len(paths) // cap))
            for ops in paths[::k]:
                cases.append({"res": res, "strategy": strategy, **({"w": wcfg} if wcfg else {}), "ops": ops})
        for pre in ([[True, False]] if quick else [[True, False], [True, True], [False, False]]):
            res = [[1, pre[0]], [2, pre[1]]]
            extra = [("setprio", 1, 2), ("setprio", 2, 0)]
            if not quick:
                extra += [("setprio", 1, 0), ("setprio", 2, 2), ("setpre", 2, True)]
            al = self.alphabet(2, 2, starts=False, extra=extra)
            emit(res, self.explore(res, "priority", [0, 1], dA, al=al, prefix0=[["start", 1, 0], ["start", 2, 1]]))
        cfgB = [([[1, False], [2, True]], [1, 0, 2])]
        if not quick:
            cfgB.append(([[1, True], [2, True]], [1, 1, 2]))
        for res, prios in cfgB:
            al = self.alphabet(3, 2, starts=False, ends=False,
                               extra=[("boost",), ("restore", 1), ("restore", 2)] + ([("clearboosts",)] if not quick else []))
            pre0 = [["start", o, prios[o - 1]] for o in (1, 2, 3)]
            emit(res, self.explore(res, "priority", prios, dB, al=al, prefix0=pre0))
        self.extra_cov["explored_transitions_priority_changes"] = self.explored_edges - n_before
        # (c) watchdog time-outs configured (max_operation_time, starvation_timeout), time passing, controller.advance
        #     (G0 -> G1, where starvation is watched), manual kill: the pass that handles a deadlock also reaps
        #     overdue operations, the victim may be one of them; op1 is older than op2.
        n_before = self.explored_edges
        dC = 5 if quick else 6
        cfgC = [([[1, False], [2, False]], "oldest", {"max": 2, "starve": 1})]
        if not quick:
            cfgC += [([[1, True], [2, False]], "priority", {"max": 3}), ([[1, False], [2, False]], "priority", {"starve": 1, "max": -1})]
        for res, strat, wc in cfgC:
            al = self.alphabet(2, 2, starts=False, ends=False, extra=[("tick", 2), ("kill", 1), ("adv", 2)])
            pre0 = [["start", 1, 0], ["tick", 1], ["start", 2, 1, strat == "priority"]]
            emit(res, self.explore(res, strat, [0, 1], dC, al=al, prefix0=pre0, wcfg=wc), strategy=strat, wcfg=wc)
        self.extra_cov["explored_transitions_timeouts"] = self.explored_edges - n_before
        # (d) the remaining public calls that RELEASE or END operations: controller.release_all_resources on an operation
        #     that stays alive (the bulk release behind complete / abort is itself public), CoordinationSystem.shutdown,
        #     CoordinationSystem.run_maintenance (check_and_boost + watchdog as one call).  All operations started first.
        n_before = self.explored_edges
        dD2, dD3 = (6, 5) if quick else (7, 6)
        cfgD = [([[1, True], [2, False]], [0, 1])]
        if not quick:
            cfgD += [([[1, False], [2, False]], [1, 1]), ([[1, True], [2, True]], [1, 0])]
        for res, prios in cfgD:
            al = self.alphabet(2, 2, starts=False, ends=not quick,
                               extra=[("relall", 1), ("relall", 2), ("shutdown",), ("maintain",)])
            emit(res, self.explore(res, "priority", prios, dD2, al=al, prefix0=[["start", 1, prios[0]], ["start", 2, prios[1]]]))
        cfgD3 = [([[1, False], [2, False]], [1, 0, 2])]
        if not quick:
            cfgD3.append(([[1, False], [2, True]], [0, 1, 2]))
        for res, prios in cfgD3:
            al = [("acq", o, r) for o in (1, 2, 3) for r in (1, 2)] + [("relall", o) for o in (1, 2, 3)] + [("wd",), ("maintain",)]
            emit(res, self.explore(res, "priority", prios, dD3, al=al, prefix0=[["start", o, prios[o - 1]] for o in (1, 2, 3)]))
        self.extra_cov["explored_transitions_release_all_shutdown_maintenance"] = self.explored_edges - n_before
        self.extra_cov["maximal_paths_priority_changes"] = npaths
        self.extra_cov["explored_transitions"] = self.explored_edges
        self.extra_cov["exhaustive_depths"] = {"2ops_x_2res": d22, "3ops_x_3res": d33, "2ops_x_2res_setprio": dA,
                                               "3ops_x_2res_inheritance_after_starts": dB,
                                               "2ops_x_2res_timeouts_tick_advance_kill_after_starts": dC,
                                               "2ops_x_2res_release_all_shutdown_maintenance_after_starts": dD2,
                                               "3ops_x_2res_release_all_maintenance_after_starts": dD3}
        # the monitor already ran on every explored transition; violations found there are kept
        self._explore_violations = list(self.violations)
        return cases

    def gen_cases(self, rng, n):
        out = []
        for _ in range(n):
            nops = rng.choice([2, 3, 3, 4])
            nres = rng.choice([2, 3, 3])
            res = [[r, rng.random() < 0.4] for r in range(1, nres + 1)]
            prios = [rng.choice([0, 0, 1, 2]) for _ in range(nops)]
            ops = [["start", o, prios[o - 1]] for o in range(1, nops + 1)]
            rng.shuffle(ops)
            ring = rng.random() < 0.3
            if ring:
                # a ring: op i takes r_i, then asks for r_(i+1): a wait-for cycle of length n
                n = min(nops, nres) if rng.random() < 0.7 else 2
                res = [[r, (p and rng.random() < 0.3)] for r, p in res]
                first = [["acq", i, i] for i in range(1, n + 1)]
                second = [["acq", i, i % n + 1] for i in range(1, n + 1)]
                rng.shuffle(first)
                rng.shuffle(second)
                if n < nops and n < nres and rng.random() < 0.5:
                    # a member of the ring first blocks on an outsider (its first recorded edge leaves the cycle),
                    # or an outsider waits for a member (a chain into the cycle)
                    first.append(["acq", n + 1, n + 1])
                    second.insert(rng.randint(0, len(second)),
                                  ["acq", rng.randint(1, n), n + 1] if rng.random() < 0.6 else ["acq", n + 1, rng.randint(1, n)])
                ops += first + second
                if rng.random() < 0.3:
                    # a member gives everything back in bulk and STAYS ALIVE, then asks again
                    m = rng.randint(1, n)
                    ops.append(["relall", m])
                    ops += [["acq", rng.randint(1, n), rng.randint(1, n)] for _ in range(rng.randint(0, 2))]
                    ops.append(["acq", m, rng.randint(1, n)])
                if rng.random() < 0.7:
                    ops.append(rng.choice([["wd"], ["wd"], ["wd"], ["maintain"]]))
            if not ring and rng.random() < 0.3 and nops >= 3:
                # priority inversion: a chain of operations, each holding one resource and blocked on the next
                # one's, the LAST link of the chain having the highest priority; then priority inheritance
                # (or a plain assignment) and retries of the blocked acquisitions with the inherited priority
                n = rng.choice([2, 3, 3, nops]) if nops >= 3 else 2
                n = min(n, nops)
                chain = list(range(1, nops + 1))
                rng.shuffle(chain)
                chain = chain[:n]                                  # chain[0] owns only; chain[-1] is the top waiter
                rs = (rng.sample(range(1, nres + 1), n) if n <= nres and rng.random() < 0.8
                      else [rng.randint(1, nres) for _ in range(n)])
                res = [[r, (p or rng.random() < 0.6)] for r, p in res]
                base = rng.choice([0, 1, 3])
                pr = {o: base + rng.choice([0, 0, 1]) for o in chain}
                pr[chain[-1]] = base + rng.choice([1, 2, 2])
                ops = [["start", o, pr.get(o, rng.choice([0, 1, 2]))] for o in range(1, nops + 1)]
                rng.shuffle(ops)
                ops.append(["acq", chain[0], rs[0]])
                blocked = []
                for i in range(1, n):
                    if i < n - 1 or rng.random() < 0.5:
                        ops.append(["acq", chain[i], rs[i]])
                    ops.append(["acq", chain[i], rs[i - 1]])
                    blocked.append(["acq", chain[i], rs[i - 1]])
                if rng.random() < 0.8:
                    ops.append(["boost"])
                else:
                    ops.append(["setprio", rng.choice(chain), base + rng.choice([2, 3])])
                if rng.random() < 0.3:
                    ops.append(["setpre", rng.choice(rs), True])
                rng.shuffle(blocked)
                ops += blocked[:rng.randint(1, len(blocked))]
                if rng.random() < 0.6:
                    ops.append(rng.choice([["restore", rng.choice(chain)], ["clearboosts"], ["clearboosts"], ["boost"]]))
                    ops += blocked[:rng.randint(0, len(blocked))]
                if rng.random() < 0.6:
                    ops.append(["wd"])
            pchange = rng.choice([0.0, 0.0, 0.12, 0.25])
            top = nres                      # highest registered resource id so far
            for _ in range(rng.randint(3, 12)):
                k = rng.random()
                o = rng.randint(1, nops)
                r = rng.randint(1, top) if rng.random() < 0.97 else top + 1        # rarely: not registered
                if rng.random() < pchange:
                    j = rng.random()
                    if j < 0.4:
                        ops.append(["boost"])
                    elif j < 0.55:
                        ops.append(["restore", o])
                    elif j < 0.62:
                        ops.append(["clearboosts"])
                    elif j < 0.87:
                        ops.append(["setprio", o, rng.choice([0, 1, 2, 3])])
                    else:
                        ops.append(["setpre", rng.choice([r, r, nres + 1]), rng.random() < 0.7])
                elif k < 0.6:
                    ops.append(["acq", o, r])
                elif k < 0.69:
                    ops.append(["rel", o, r])
                elif k < 0.72:
                    ops.append(["relall", o])
                elif k < 0.77:
                    ops.append(["complete", o])
                elif k < 0.82:
                    ops.append(["abort", o])
                elif k < 0.87:
                    ops.append(["start", rng.randint(1, nops + 1), rng.choice([0, 1, 2])])
                elif k < 0.885:
                    ops.append(["maintain"])
                elif k < 0.895:
                    ops.append(["reg", rng.choice([top + 1, top + 1, r]), rng.random() < 0.5])
                    top = max(top, ops[-1][1])
                elif k < 0.9:
                    ops.append(["shutdown"])
                else:
                    ops.append(["wd"])
            if rng.random() < 0.5:
                ops.append(rng.choice([["wd"], ["wd"], ["wd"], ["maintain"]]))
            case = {"res": res, "strategy": rng.choice(["priority", "priority", "oldest", "first"]), "ops": ops}
            out.append(self._widen(rng, case, nops, nres))
        return out

    @staticmethod
    def _widen(rng, case, nops, nres):
        """Public calls on the same objects that are no acquisition / release / end of an operation, and the knobs
        the property does not mention: watchdog time-outs (with time passing, advance into G1, exempt operations),
        manual kill, pop_next_waiter, and every read-only accessor between the calls."""
        ops = case["ops"]
        if rng.random() < 0.4:
            w = {}
            if rng.random() < 0.8:
                for kind in rng.choice([["max"], ["max"], ["starve"], ["progress"], ["max", "starve"]]):
                    w[kind] = rng.choice([1, 2, 2, 3, -1, 0])
            new = []
            for h in ops:
                if h[0] == "start":
                    new.append(h[:3] + [True] if rng.random() < 0.2 else h)
                    if rng.random() < 0.4:
                        new.append(["tick", rng.choice([1, 2, 3])])
                    if rng.random() < (0.6 if "starve" in w else 0.15):
                        new.append(["adv", h[1]])
                    continue
                if h[0] == "wd" and rng.random() < 0.7:
                    new.append(["tick", rng.choice([1, 2, 3])])
                new.append(h)
                k = rng.random()
                if k < 0.08:
                    new.append(["tick", rng.choice([1, 2, 3])])
                elif k < 0.14:
                    new.append(["adv", rng.randint(1, nops)])
                elif k < 0.18:
                    new.append(["kill", rng.randint(1, nops)])
                elif k < 0.22:
                    new.append(["pop", rng.randint(1, nres + (1 if rng.random() < 0.1 else 0))])
            if w and not any(h[0] == "wd" for h in new[-2:]):
                new.append(["wd"])
            case = {**case, "ops": new}
            if w:
                case["w"] = w
            ops = new
        if rng.random() < 0.25:
            new = []
            for h in ops:
                new.append(h)
                if rng.random() < 0.3:
                    new.append(["look"])
            case = {**case, "ops": new}
        return case

    # -- implementation ----------------------------------------------------
    def run_impl(self, case):
        return common.call_with_watchdog(lambda: run_history(case), 30.0)   # generous: the machine may be heavily loaded

    def coq_case(self, case):
        return ctuple(D.coq_res(case["res"]), D.coq_wcfg({"strategy": case["strategy"], **case.get("w", {})}),
                      clist([coq_xop(h) for h in case["ops"] if h[0] != "look"]))

    # -- the property, on the implementation's trace ------------------------
    def monitor(self, case, obs, steps, only_last=False):
        if isinstance(steps, dict):
            return Violation("C15/raises", f"the history did not run to its end: {steps}")
        for i, st in enumerate(steps):
            if only_last and i < len(steps) - 1:
                continue
            h, after, before, ref = st["op"], st["after"], st["before"], st["ref"]
            edges = after["edges"]
            refset = sorted(set(ref))
            if sorted(set(edges)) != refset or len(edges) != len(set(edges)):
                missing = [e for e in refset if e not in edges]
                extra = [e for e in edges if e not in refset]
                sig = "C15/edge-missing" if missing else "C15/edge-stale"
                return Violation(sig, f"step {i} {h}: recorded edges {edges} != reference wait-for relation {refset} (missing {missing}, stale {extra})")
            cyc = after["cycle"]
            refcyc = has_cycle(ref)
            if refcyc and cyc is None:
                return Violation("C15/missed-deadlock", f"step {i} {h}: reference relation {refset} has a cycle, check_deadlock() is None")
            if cyc is not None:
                if not refcyc or not is_cycle_of(cyc, ref):
                    return Violation("C15/phantom-deadlock", f"step {i} {h}: reported cycle {cyc} is not a cycle of the reference relation {refset}")
                if any(a not in after["active"] for a in cyc):
                    return Violation("C15/dead-member", f"step {i} {h}: reported cycle {cyc} has members that are not active {after['active']}")
                # "... that really wait on each other": every reported (waiter, blocking, resource) is a reference edge
                bad = [e for e in (st.get("cycle_edges") or []) if tuple(e) not in set(map(tuple, ref))]
                if bad:
                    return Violation("C15/phantom-deadlock", f"step {i} {h}: reported cycle edges {bad} are not in the reference relation {refset}")
            if h[0] in ("wd", "maintain"):
                evret = events_of(h, st["ret"])
                if h[0] == "maintain" and st.get("mid"):
                    # the point between check_and_boost and the watchdog pass of run_maintenance: priority
                    # inheritance is no acquisition or release, the relation and the verdict are as they were
                    before = st["mid"]["view"]
                    mref = st["mid"]["ref"]
                    if mref is not None and sorted(set(before["edges"])) != sorted(set(mref)):
                        return Violation("C15/edge-stale", f"step {i} {h}: after check_and_boost the recorded edges {before['edges']} != reference wait-for relation {mref}")
                    if mref is not None and has_cycle(mref) != (before["cycle"] is not None):
                        return Violation("C15/missed-deadlock" if before["cycle"] is None else "C15/phantom-deadlock",
                                         f"step {i} {h}: after check_and_boost reference relation {mref}, check_deadlock() {before['cycle']}")
                bc = before["cycle"]
                dl = [evret[j] for j in range(0, len(evret), 2) if evret[j + 1] == 3]
                ended = [evret[j] for j in range(0, len(evret), 2)]
                if bc is None and dl:
                    return Violation("C15/victim-without-deadlock", f"step {i}: watchdog reported a deadlock victim {dl} but no deadlock was reported")
                if bc is not None:
                    strat = case["strategy"]
                    key = before["prio"] if strat == "priority" else before["created"] if strat == "oldest" else None
                    # with time-outs configured the same pass reaps overdue operations; a member that is overdue
                    # anyway is terminated as such, without a second (DEADLOCK) event
                    least = [m for m in bc if m in before["active"] and (key is None or key[m] == min(key[x] for x in bc if x in key))][:1]
                    if len(dl) > 1 or (not dl and not (least and least[0] in ended)):
                        return Violation("C15/no-victim", f"step {i}: deadlock {bc} before watchdog.execute, victims {dl}, terminated {ended}")
                    v = dl[0] if dl else least[0]
                    if v not in bc:
                        return Violation("C15/victim-not-member", f"step {i}: victim op{v} is not in the cycle {bc}")
                    if key is not None:
                        best = min(key[m] for m in bc)
                        first = next(m for m in bc if key[m] == best)
                        if key[v] != best or v != first:
                            return Violation("C15/victim-not-minimal", f"step {i}: victim op{v} ({strat} {key[v]}) but cycle {bc} has keys {[key[m] for m in bc]}")
                    elif v != bc[0]:
                        return Violation("C15/victim-not-minimal", f"step {i}: victim op{v}, strategy {strat}, cycle {bc}")
                    owns = [r for r, (ow, _h, _p) in after["owners"].items() if ow == v]
                    if owns or v in after["active"]:
                        return Violation("C15/victim-not-released", f"step {i}: victim op{v} still owns {owns} / active")
                    if is_cycle_of(bc, edges):
                        return Violation("C15/cycle-survives", f"step {i}: cycle {bc} is still present after the watchdog handled it: {edges}")
        return None

    def nontrivial(self, case, obs, steps):
        return isinstance(steps, list) and any(st["op"][0] == "acq" and st["ret"] and st["ret"][0] in (1, 3) for st in steps)

    def classify(self, case, obs, steps):
        if not isinstance(steps, list):
            return ["error"]
        ks = [f"len={min(len(steps), 15)}"]
        if case.get("w"):
            ks.append("timeouts=" + "+".join(sorted(case["w"])))
        prev_ref = []
        started = set()
        for st in steps:
            h = st["op"]
            ks.append("op=" + h[0])
            if h[0] == "start" and st["ret"] == [0]:
                started.add(h[1])
            if h[0] == "acq" and st["ret"] and st["ret"][0] >= 0:
                ks.append("acquire=" + {0: "acquired", 1: "blocked", 2: "reentrant", 3: "preempted", 9: "unknown"}[st["ret"][0]])
                if st["ret"][0] == 3 and any(wt == h[1] and r == h[2] for (wt, _b, r) in prev_ref):
                    ks.append("preempted-by-former-waiter")
            if h[0] == "boost" and st["ret"]:
                ks.append("boost-applied")
            if h[0] == "restore" and st["ret"] and st["ret"][0] == 1:
                ks.append("boost-restored")
            was_ref, prev_ref = prev_ref, st["ref"]
            if st["after"]["cycle"] is not None:
                ks.append(f"deadlock-reported-len{len(st['after']['cycle'])}")
            if h[0] in ("wd", "maintain") and events_of(h, st["ret"]):
                evret = events_of(h, st["ret"])
                for why in evret[1::2]:
                    ks.append("watchdog-" + ["timeout", "starvation", "no-progress", "victim", "manual"][why])
                if st["before"]["cycle"] is not None and 3 not in evret[1::2]:
                    ks.append("deadlock-victim-terminated-as-overdue")
            if h[0] == "maintain" and st["ret"] and st["ret"][0] > 0:
                ks.append("maintenance-boosted")
                if 3 in events_of(h, st["ret"])[1::2]:
                    ks.append("maintenance-boosted-then-victim")
            if h[0] == "relall" and st["ret"] == [0]:
                freed = [r for r, (ow, _h, _p) in st["before"]["owners"].items() if ow == h[1]]
                ks.append(f"release-all-live-freed={min(len(freed), 2)}")
                if any(b == h[1] for (_wt, b, _r) in was_ref):
                    ks.append("release-all-live-with-waiters")
                if any(wt == h[1] for (wt, _b, _r) in was_ref):
                    ks.append("release-all-live-while-blocked")
            if h[0] == "shutdown":
                ks.append("shutdown-with-waits" if was_ref else "shutdown")
            if h[0] == "reg" and st["ret"] == [0]:
                ks.append("registered-late")
            if h[0] in ("complete", "abort", "rel", "relall") and st["ret"] == [-1] and h[1] in started:
                ks.append("call-through-context-of-ended-operation")
            if h[0] == "start" and len(h) > 3 and h[3]:
                ks.append("start-exempt")
            if h[0] == "adv" and st["ret"] and st["ret"][0] >= 0:
                ks.append("advance=" + ("passed" if st["ret"][0] else "failed"))
            if h[0] == "pop" and st["ret"] and st["ret"][0] == 1:
                ks.append("pop=waiter")
            if h[0] == "kill" and st["ret"] == [1]:
                ks.append("killed")
            if st["ref"]:
                ks.append(f"wait-edges={min(len(st['ref']), 4)}")
        return ks

    def shrink(self, case, pred):
        ops = common.shrink_list(case["ops"], lambda xs: len(xs) > 0 and pred({**case, "ops": xs}))
        return {**case, "ops": ops}


CHECK = C15
