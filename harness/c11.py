"""C11 — output validator: 'valid' implies the schema holds; clean JSON is taken verbatim.

The harness folds generated (corrupted) strings with the REAL Chaperone while
json / re / schema.model_validate / _coerce_types_tracked / co-chaperone /
on_misfold are wrapped by recorders.  Every answer those trusted libraries gave
is fed to the Coq model as a finite oracle table (texts, parsed values and
schema instances are opaque ids), and the model must reproduce the results of
fold and fold_enhanced, the statistics and the exact sequence of oracle calls.
The monitor checks the property itself on the implementation's results.
"""
import json as _json
import re as _re
from fractions import Fraction

from . import common
from .common import Check, Violation, cz, czl, czll

STRATS = ["strict", "extraction", "lenient", "repair"]
DEFAULT = [0, 1, 2, 3]

# ----------------------------------------------------------------------------
# schemas (JSON-able specs -> pydantic models)
# ----------------------------------------------------------------------------
FIELD_TYPES = ["int", "float", "str", "bool", "list_int", "list_str", "opt_int", "opt_str", "nested", "opt_nested"]
NAMES = ["a", "b", "c", "d", "e", "name", "age", "tags", "ok", "score"]


def build_schema(spec, name="M"):
    from typing import List, Optional
    from pydantic import create_model
    fields = {}
    for f in spec:
        t = f["type"]
        if t in ("nested", "opt_nested"):
            inner = build_schema(f["fields"], name + "_" + f["name"])
            ann = inner if t == "nested" else Optional[inner]
        else:
            ann = {"int": int, "float": float, "str": str, "bool": bool, "list_int": List[int],
                   "list_str": List[str], "opt_int": Optional[int], "opt_str": Optional[str]}[t]
        if f["required"]:
            fields[f["name"]] = (ann, ...)
        else:
            fields[f["name"]] = (ann, None if t.startswith("opt_") else f.get("default"))
    return create_model(name, **fields)


def default_for(t):
    return {"int": 0, "float": 0.5, "str": "d", "bool": False, "list_int": [], "list_str": []}.get(t)


def gen_spec(rng, depth=0):
    n = rng.choice([1, 2, 2, 3, 3, 4, 5])
    names = rng.sample(NAMES, n)
    spec = []
    for nm in names:
        t = rng.choice(FIELD_TYPES if depth == 0 else FIELD_TYPES[:8])
        f = {"name": nm, "type": t, "required": rng.random() < 0.65}
        if t in ("nested", "opt_nested"):
            f["fields"] = gen_spec(rng, depth + 1)
            if t == "nested":
                f["required"] = True
        elif not f["required"] and not t.startswith("opt_"):
            f["default"] = default_for(t)
        spec.append(f)
    return spec


STRINGS = ["x", "Alice", "hello world", "None", "True story", "a, }b", "it's", "{x}", "[1]", 'q"uote', "é", "日本",
           "", " pad ", "null", "12", "yes", "a,b", "1.5", "back\\slash", "line\nbreak", "```", "</json>", ": undefined"]


def gen_value(rng, f):
    t = f["type"]
    if t.startswith("opt_") and rng.random() < 0.3:
        return None
    if t in ("int", "opt_int"):
        return rng.choice([0, 1, -5, 7, 42, 100, 2 ** 70, -1])
    if t == "float":
        return rng.choice([0.5, -1.25, 3.0, 1e10, 0.1, 2])
    if t in ("str", "opt_str"):
        return rng.choice(STRINGS)
    if t == "bool":
        return rng.random() < 0.5
    if t == "list_int":
        return [rng.randint(-3, 9) for _ in range(rng.randint(0, 3))]
    if t == "list_str":
        return [rng.choice(STRINGS) for _ in range(rng.randint(0, 3))]
    return gen_instance(rng, f["fields"])


def gen_instance(rng, spec):
    d = {}
    for f in spec:
        if not f["required"] and rng.random() < 0.35:
            continue
        d[f["name"]] = gen_value(rng, f)
    return d


# ----------------------------------------------------------------------------
# corruption operators (on the data before serialisation / on the text)
# ----------------------------------------------------------------------------

def swap_types(rng, spec, d):
    d = dict(d)
    for f in spec:
        k = f["name"]
        if k not in d or rng.random() < 0.4:
            continue
        v, t = d[k], f["type"]
        if t in ("int", "opt_int") and isinstance(v, int):
            d[k] = rng.choice([str(v), str(v) + "x", float(v) if abs(v) < 2 ** 50 else str(v), "9" * 5000])
        elif t == "float":
            d[k] = rng.choice([str(v), "nan", "abc", "1e3"])
        elif t in ("str", "opt_str") and isinstance(v, str):
            d[k] = rng.choice([7, 2.5, True, 10 ** 30, [v]])
        elif t == "bool":
            d[k] = rng.choice(["yes", "no", "TRUE", "0", "maybe", 1])
        elif t in ("list_int", "list_str"):
            d[k] = rng.choice(["1, 2,3", "a,b", "", 5])
        elif t in ("nested", "opt_nested") and isinstance(v, dict):
            d[k] = rng.choice([_json.dumps(v), [v], 3])
    return d


def insert_trailing_comma(rng, s):
    idx = [i for i, c in enumerate(s) if c in "}]"]
    if not idx:
        return s + ","
    i = rng.choice(idx)
    return s[:i] + rng.choice([",", ", ", ",\n"]) + s[i:]


TEXT_OPS = ["fence_json", "fence_plain", "xml", "prose", "single_quotes", "trailing_comma", "py_literals", "truncate",
            "deep_wrap", "surrogate", "pad", "unquote_keys", "undefined", "two_objects", "bom", "upper_fence", "nan"]


def apply_text_op(rng, op, s):
    if op == "fence_json":
        return rng.choice(["```json\n%s\n```", "Sure!\n```json\n%s\n```\nDone.", "```json %s ```", "```json\n%s"]) % s
    if op == "fence_plain":
        return rng.choice(["```\n%s\n```", "text ```%s``` more"]) % s
    if op == "upper_fence":
        return "```JSON\n%s\n```" % s
    if op == "xml":
        return rng.choice(["<json>%s</json>", "result: <json>\n%s\n</json> ok", "<json>%s"]) % s
    if op == "prose":
        return rng.choice(["Here is the result: %s Hope it helps!", "%s\nThat's all.", "Answer (see {docs}): %s",
                           "I think [maybe] %s", "note: None of this is True. %s"]) % s
    if op == "single_quotes":
        return s.replace('"', "'")
    if op == "trailing_comma":
        return insert_trailing_comma(rng, s)
    if op == "py_literals":
        return s.replace("true", "True").replace("false", "False").replace("null", "None")
    if op == "truncate":
        return s[:rng.randint(0, max(0, len(s) - 1))] if s else s
    if op == "deep_wrap":
        n = rng.choice([3, 30, 400, 100000])
        return "[" * n + s + "]" * n
    if op == "surrogate":
        i = rng.randint(0, len(s))
        return s[:i] + rng.choice(["\ud800", "\udfff", "\ud83d"]) + s[i:]
    if op == "pad":
        return rng.choice(["  \n\t%s \n", "﻿%s", "\x0c%s\x1f", " %s "]) % s
    if op == "bom":
        return "﻿" + s
    if op == "unquote_keys":
        return _re.sub(r'"([A-Za-z_][A-Za-z0-9_]*)"\s*:', r"\1:", s)
    if op == "undefined":
        return _re.sub(r":\s*(null|\d+)", lambda m: rng.choice([": undefined", ": NaN", m.group(0)]), s)
    if op == "nan":
        return _re.sub(r":\s*\d+(\.\d+)?", lambda m: rng.choice([": NaN", ": Infinity", ": -Infinity", m.group(0)]), s, count=2)
    if op == "two_objects":
        other = rng.choice(['{"zzz": 1}', "{}", "[1, 2]", "{bad}", '{"a": "q"}', "null", '"str"', "{'k': 1,}"])
        return rng.choice(["first %s then %s", "%s %s", "```json\n%s\n```\n```json\n%s\n```", "<json>%s</json><json>%s</json>"]) % (
            (other, s) if rng.random() < 0.7 else (s, other))
    return s


SCALARS = ["null", "3", '"ab"', "[]", "[1, 2]", "", "   ", "{}", "true", "-0.0", "1e400", "```json null ```",
           "```json\n3\n```", "{", "}", "[", "\ud800", "None", "{'a': None}", "<json></json>", "``````", "NaN",
           "[" * 100000, "9" * 5000, '{"a": ' + "9" * 5000 + "}", "{:}", "[,]", '{"a": 1}{"a": 2}', "\x00"]


# ----------------------------------------------------------------------------
# recorder
# ----------------------------------------------------------------------------

def parts_text(parts):
    return "".join(t * int(r) for t, r in parts)


def to_parts(s):
    """Compact literal: runs of one repeated character longer than 64 are stored as [c, n]."""
    parts, i, lit = [], 0, []
    n = len(s)
    while i < n:
        j = i
        while j < n and s[j] == s[i]:
            j += 1
        if j - i > 64:
            if lit:
                parts.append(["".join(lit), 1])
                lit = []
            parts.append([s[i], j - i])
        else:
            lit.append(s[i:j])
        i = j
    if lit:
        parts.append(["".join(lit), 1])
    return parts


class Recorder:
    """Interning tables + the log of oracle calls of one case."""

    def __init__(self, CH):
        self.CH = CH
        self.texts, self.vals, self.insts, self.names = {}, {}, {}, {}
        self.keep = []
        self.none_ids = set()
        self.log = []                 # rows in the model's call_obs format
        self.calls = []               # (kind, key tuple, answer tuple) for the oracle tables
        self.active = True
        self.inconsistent = None
        self.pats = [p for p, _ in CH.Chaperone.JSON_EXTRACTION_PATTERNS]
        self.pat_names = [n for _, n in CH.Chaperone.JSON_EXTRACTION_PATTERNS]
        self.reps = [(p, r) for p, r, _ in CH.Chaperone.JSON_REPAIRS]
        self.rep_names = [n for _, _, n in CH.Chaperone.JSON_REPAIRS]

    # -- interning -----------------------------------------------------------
    def tid(self, s):
        if not isinstance(s, str):
            return self._other(self.texts, ("nonstr", self._safe_repr(s)))
        return self.texts.setdefault(s, len(self.texts))

    def _safe_repr(self, v):
        try:
            return type(v).__name__ + ":" + repr(v)
        except Exception:
            self.keep.append(v)
            return "obj:%d" % id(v)

    def _other(self, tab, key):
        return tab.setdefault(key, len(tab))

    def vid(self, v):
        i = self._other(self.vals, self._safe_repr(v))
        if v is None:
            self.none_ids.add(i)
        return i

    def iid(self, x):
        return self._other(self.insts, self._safe_repr(x))

    def nid(self, s):
        return self._other(self.names, s)

    def exn_code(self, e):
        from pydantic import ValidationError
        if isinstance(e, _json.JSONDecodeError):
            return 1
        if isinstance(e, ValidationError):
            return 2
        return 3

    def note(self, kind, key, ans):
        self.calls.append((kind, tuple(key), tuple(ans)))

    # -- wrappers --------------------------------------------------------------
    def make_json(rec):
        class JsonProxy:
            def __getattr__(self, n):
                return getattr(_json, n)

            def loads(self, s, *a, **k):
                if not rec.active:
                    return _json.loads(s, *a, **k)
                t = rec.tid(s)
                try:
                    v = _json.loads(s, *a, **k)
                except BaseException as e:
                    c = rec.exn_code(e)
                    rec.log.append([1, t, c, 0])
                    rec.note("loads", [t], [c, 0])
                    raise
                i = rec.vid(v)
                rec.log.append([1, t, 0, i])
                rec.note("loads", [t], [0, i])
                return v
        return JsonProxy()

    def make_re(rec):
        class ReProxy:
            def __getattr__(self, n):
                return getattr(_re, n)

            def findall(self, pattern, string, flags=0):
                if not rec.active:
                    return _re.findall(pattern, string, flags)
                k = rec.pats.index(pattern) if pattern in rec.pats and flags == (_re.MULTILINE | _re.DOTALL) else 99
                t = rec.tid(string)
                try:
                    ms = _re.findall(pattern, string, flags)
                except BaseException as e:
                    c = rec.exn_code(e)
                    rec.log.append([2, k, t, c])
                    rec.note("findall", [k, t], [c])
                    raise
                ids = [rec.tid(m) for m in ms]
                rec.substr.append((string, ms))
                rec.log.append([2, k, t, 0] + ids)
                rec.note("findall", [k, t], [0] + ids)
                return ms

            def sub(self, pattern, repl, string, count=0, flags=0):
                if not rec.active:
                    return _re.sub(pattern, repl, string, count, flags)
                k = rec.reps.index((pattern, repl)) if (pattern, repl) in rec.reps and count == 0 and flags == 0 else 99
                t = rec.tid(string)
                try:
                    out = _re.sub(pattern, repl, string, count, flags)
                except BaseException as e:
                    c = rec.exn_code(e)
                    rec.log.append([3, k, t, c, 0])
                    rec.note("sub", [k, t], [c, 0])
                    raise
                o = rec.tid(out)
                rec.log.append([3, k, t, 0, o])
                rec.note("sub", [k, t], [0, o])
                return out
        rec.substr = []
        return ReProxy()

    def wrap_validate(rec, schema):
        orig = schema.model_validate            # bound classmethod of the generated model

        def model_validate(cls, obj, *a, **k):
            if not rec.active:
                return orig(obj, *a, **k)
            v = rec.vid(obj)
            try:
                inst = orig(obj, *a, **k)
            except BaseException as e:
                c = rec.exn_code(e)
                rec.log.append([5, v, c, 0])
                rec.note("validate", [v], [c, 0])
                raise
            i = rec.iid(inst)
            rec.log.append([5, v, 0, i])
            rec.note("validate", [v], [0, i])
            return inst
        schema.model_validate = classmethod(model_validate)
        rec.orig_validate = orig

    def wrap_coerce(rec, chap):
        orig = chap._coerce_types_tracked

        def coerce(data, schema):
            if not rec.active:
                return orig(data, schema)
            v = rec.vid(data)
            try:
                out, names = orig(data, schema)
            except BaseException as e:
                c = rec.exn_code(e)
                rec.log.append([4, v, c])
                rec.note("coerce", [v], [c])
                raise
            row = [0, rec.vid(out)] + [rec.nid(n) for n in names]
            rec.log.append([4, v] + row)
            rec.note("coerce", [v], row)
            return out, names
        chap._coerce_types_tracked = coerce

    # -- tables ------------------------------------------------------------------
    def tables(self):
        tabs = {k: {} for k in ("loads", "findall", "sub", "coerce", "validate", "cochap")}
        for kind, key, ans in self.calls:
            if kind not in tabs:
                continue
            old = tabs[kind].setdefault(key, ans)
            if old != ans:
                self.inconsistent = (kind, key, old, ans)
        # str.strip is not interceptable: the table is computed for every text seen
        strip = []
        texts = list(self.texts.items())
        i = 0
        while i < len(texts):
            s, t = texts[i]
            if isinstance(s, str):
                before = len(self.texts)
                t2 = self.tid(s.strip())
                if len(self.texts) > before:
                    texts.append((s.strip(), t2))
                strip.append([t, t2])
            i += 1
        out = {k: [list(key) + list(ans) for key, ans in v.items()] for k, v in tabs.items()}
        out["strip"] = strip
        out["none"] = sorted(self.none_ids)
        return out


# ----------------------------------------------------------------------------
def err_code(s):
    if s is None:
        return 0
    if not isinstance(s, str):
        return 99
    m = _re.match(r"All (\d+) folding strategies failed", s)
    if m:
        return 100 + int(m.group(1))
    if s.startswith("JSON: "):
        return 1
    if s.startswith("Validation: "):
        return 2
    if s == "No valid JSON found in text":
        return 3
    if s == "No JSON found":
        return 4
    return 5


class CoRaise(Exception):
    pass


def co_fn(kind):
    if kind == "identity":
        return lambda s: s
    if kind == "braces":
        def f(s):
            i, j = s.find("{"), s.rfind("}")
            return s[i:j + 1] if 0 <= i < j else s
        return f
    if kind == "const":
        return lambda s: '{"a": 1}'

    def r(s):
        raise CoRaise("co-chaperone failed")
    return r


class C11(Check):
    PID = "C11"
    HEADER = "From Verif Require Import C11.Model."
    RUN = "run_case"
    CASE_TYPE = "case"
    N_QUICK = 800
    N_THOROUGH = 20000
    RULE = ("per case: a generated pydantic schema (1-5 fields over int/float/str/bool/List[int]/List[str]/Optional/nested "
            "models, required or defaulted), a random instance serialised with json.dumps and 0-3 corruption operators "
            "(markdown fences, <json> tags, prose, single quotes, trailing commas, Python literals, truncation, type swaps, "
            "unquoted keys, undefined/NaN, two JSON objects, deep nesting up to 100000, lone surrogates, BOM/whitespace padding, "
            "100k-character strings, 5000-digit integers) or a scalar/degenerate text; constructor and per-call strategy "
            "lists: default, STRICT-first, random orders/subsets with duplicates; optional co-chaperone (identity/braces/"
            "const/raising) and on_misfold (recording/raising); every strategy list of length <= 2 (quick) / <= 3 (thorough) "
            "x 14 canonical texts enumerated. Each case runs fold then fold_enhanced on one Chaperone. non-trivial = some "
            "corruption, non-default strategies or callback; distinct by case content")
    LEVEL_TEXT = ("Coq theorems, for all raw texts, schemas, strategy lists and ALL behaviours of json/re/str.strip/pydantic/"
                  "coercion/co-chaperone/on_misfold (return anything or raise any Exception class at any call), about an "
                  "executable model of Chaperone.fold and fold_enhanced: valid => the structure was returned by a model_validate "
                  "call made during the fold on a value obtained by json.loads (and possibly the coercion table) from a text "
                  "derived from the raw text only by strip/findall/sub/co-chaperone calls; invalid => no structure and an error "
                  "trace; fold and fold_enhanced agree on outcome, structure, counters and the whole call sequence; confidence in "
                  "[0,1] and = 1 iff STRICT succeeded; STRICT-first on loadable+valid text makes exactly strip, loads, "
                  "model_validate and returns that instance with confidence 1 and no coercion; neither fold raises unless a user "
                  "callback does. Proved by induction over the strategy list, the pattern lists and the match lists. The model "
                  "is tied to the code by replaying, inside Coq, the oracle answers recorded from every implementation run and "
                  "comparing results, statistics, confidences (bit-exact binary64) and the sequence of oracle calls.")
    LEVEL_NOTE = ("Trusts: Coq kernel+VM; the recording harness; json, re, str.strip, pydantic and the coercion table are "
                  "oracles (their answers are recorded, not modelled), so that findall returns substrings and sub returns a "
                  "'repair' of its argument is outside the proof (c11_provenance_partial; substring-ness of every extraction "
                  "candidate is tested in Python on each run); confidence theorems are over exact rationals, the executed "
                  "model uses binary64 (plus a bounded binary64 lemma for up to 1000 coercions). Axioms: none.")
    TECHNIQUE = "Coq proof by induction over strategy/pattern/match lists of a writer-monad model + oracle-table correspondence against Chaperone.fold/fold_enhanced"
    TRUSTED = ["json.loads, re.findall, re.sub, str.strip, pydantic model_validate and Chaperone._coerce_types_tracked are oracles: "
               "their answers are recorded per case and replayed in the model; they are deterministic functions of the content "
               "of their argument (ids are assigned by content: text, type+repr of values and instances)",
               "str.strip cannot be intercepted: its table is computed by the harness for every text seen; the strip calls are "
               "visible only through the arguments of json.loads",
               "exceptions raised by the oracles are subclasses of Exception (KeyboardInterrupt/SystemExit/MemoryError excluded)",
               "confidence: theorems over Q with decimal literals read exactly; correspondence is bit-exact on binary64 (PrimFloat)",
               "error strings are compared by shape (prefix / fixed text), durations are not modelled"]
    ASSUMPTIONS = ["raw_peptide_chain is a str and target_schema a pydantic BaseModel subclass",
                   "strategy lists contain FoldingStrategy members only",
                   "fold may raise only if the registered co-chaperone or the on_misfold callback raises"]

    # -- generation --------------------------------------------------------
    def _strat_lists(self, rng):
        k = rng.random()
        if k < 0.35:
            return None, None
        def rl():
            n = rng.choice([1, 1, 2, 2, 3, 4, 5])
            if rng.random() < 0.7:
                return rng.sample(DEFAULT, min(n, 4))
            return [rng.choice(DEFAULT) for _ in range(n)]
        if k < 0.55:
            rest = rng.sample([1, 2, 3], rng.randint(0, 3))
            return (None, [0] + rest) if rng.random() < 0.5 else ([0] + rest, None)
        if k < 0.8:
            return None, rl()
        if k < 0.9:
            return rl(), None
        return rl(), rng.choice([rl(), []])

    def _gen_one(self, rng):
        spec = gen_spec(rng)
        ctor, arg = self._strat_lists(rng)
        ops = []
        k = rng.random()
        if k < 0.08:
            raw = rng.choice(SCALARS)
            ops = ["scalar"]
        else:
            d = gen_instance(rng, spec)
            if rng.random() < 0.2:
                d = swap_types(rng, spec, d)
                ops.append("type_swap")
            if rng.random() < 0.04:
                key = rng.choice(list(d) or ["a"])
                d[key] = "x" * 100000 if rng.random() < 0.5 else ("y, " * 30000)
                ops.append("100k_string")
            if rng.random() < 0.03:
                v = 1
                for _ in range(rng.choice([20, 200, 3000])):
                    v = {"x": v}
                d[rng.choice(list(d) or ["a"])] = v
                ops.append("deep_field")
            try:
                raw = _json.dumps(d, ensure_ascii=rng.random() < 0.5, indent=rng.choice([None, None, 2]))
            except RecursionError:
                raw = '{"a": ' + '{"x": ' * 3000 + "1" + "}" * 3001
            nops = rng.choice([0, 0, 0, 1, 1, 1, 1, 2, 2, 3])
            for _ in range(nops):
                op = rng.choice(TEXT_OPS)
                raw = apply_text_op(rng, op, raw)
                ops.append(op)
        co = rng.choice(["identity", "braces", "const", "raise"]) if rng.random() < 0.08 else None
        mis = rng.choice(["record", "record", "raise"]) if rng.random() < 0.15 else None
        return {"schema": spec, "raw": to_parts(raw), "ctor": ctor, "arg": arg, "co": co, "misfold": mis, "ops": ops}

    def gen_cases(self, rng, n):
        return [self._gen_one(rng) for _ in range(n)]

    CANON_SPEC = [{"name": "name", "type": "str", "required": True}, {"name": "age", "type": "int", "required": True},
                  {"name": "tags", "type": "list_str", "required": False, "default": []}]
    CANON_RAW = ['{"name": "Alice", "age": 30}', '  {"name": "Bob", "age": 25, "tags": ["x"]}\n',
                 'Here:\n```json\n{"name": "Bob", "age": 25}\n```\n', "{'name': 'Al', 'age': 3,}",
                 '{"name": "None", "age": 3,}', '{"name": "A", "age": "41", "tags": "p, q"}', '{"name": 5, "age": 1}',
                 'x {"zzz": 1} y {"name": "C", "age": 2} z', "null", "3", "not json at all", '{"name": "T"',
                 "[" * 100000, '<json>{"name": "X", "age": 1}</json>']

    def exhaustive_cases(self):
        import itertools
        top = 2 if self.tier == "quick" else 3
        out = []
        for n in range(1, top + 1):
            for combo in itertools.product(DEFAULT, repeat=n):
                for raw in self.CANON_RAW:
                    out.append({"schema": self.CANON_SPEC, "raw": to_parts(raw), "ctor": None, "arg": list(combo),
                                "co": None, "misfold": None, "ops": ["canon"]})
        return out

    def corpus_cases(self):
        base = []
        for raw, arg, mis in [('{"name": "Alice", "age": 30}', None, None), ("3", [2], "record"), ("null", [2, 0], None),
                              ('{"name": "None", "age": 3,}', None, None), ("[" * 100000, None, "record"),
                              ('{"name": "a", "age": ' + "9" * 5000 + "}", [1, 3], None),
                              ('{"name": "A", "age": "41"}', [2], None), ("nothing", None, "raise")]:
            base.append({"schema": self.CANON_SPEC, "raw": to_parts(raw), "ctor": None, "arg": arg, "co": None,
                         "misfold": mis, "ops": ["corpus"]})
        return base + super().corpus_cases()

    # -- client: the healing loop built on fold_enhanced (a test, not a proof) ----
    def extra_checks(self):
        from operon_ai.organelles import chaperone as CH
        from operon_ai.healing import chaperone_loop as CL
        rng = __import__("random").Random(f"C11:loop:{self.seed}")
        n = 60 if self.tier == "quick" else 600
        ran = healed = 0
        for _ in range(n):
            case = self._gen_one(rng)
            schema = build_schema(case["schema"])
            raws = [parts_text(case["raw"])]
            for _k in range(rng.randint(0, 2)):
                raws.append(parts_text(self._gen_one(rng)["raw"]))
            raws.append(_json.dumps(gen_instance(rng, case["schema"])))
            calls = []

            def generator(prompt, error=None):
                calls.append(error)
                return raws[min(len(calls) - 1, len(raws) - 1)]
            try:
                loop = CL.ChaperoneLoop(generator=generator, chaperone=CH.Chaperone(silent=True), schema=schema,
                                        max_retries=rng.randint(0, 3), silent=True)
                res = loop.heal("p")
            except Exception as e:
                self.violations.append(Violation("C11/loop-raises", f"ChaperoneLoop.heal raised {type(e).__name__}: {str(e)[:200]}",
                                                 case={**case, "loop_raws": [to_parts(r) for r in raws]}))
                continue
            ran += 1
            what = None
            f = res.folded
            if res.outcome.value == "degraded" or f is None:
                if res.structure is not None or f is not None and f.valid:
                    what = "degraded healing result carries a structure"
            else:
                healed += 1
                if not (f.valid and isinstance(f.structure, schema)):
                    what = "healed result is not an instance of the schema"
                else:
                    try:
                        schema.model_validate(f.structure.model_dump())
                    except Exception as e:
                        what = f"healed structure does not re-validate: {str(e)[:150]}"
                c = f.confidence
                if what is None and not (0.0 <= c <= 1.0 and res.final_confidence == c):
                    what = f"confidence {c!r} outside [0,1] or != final_confidence"
                if what is None and c == 1.0 and not (f.strategy_used.value == "strict" and len(calls) == 1):
                    what = f"confidence 1.0 with strategy {f.strategy_used.value} after {len(calls)} generations"
            if what:
                self.violations.append(Violation("C11/loop-client", what, case={**case, "loop_raws": [to_parts(r) for r in raws]}))
        self.extra_cov["chaperone_loop_runs"] = ran
        self.extra_cov["chaperone_loop_healed"] = healed

    # -- implementation ----------------------------------------------------
    def run_impl(self, case):
        from operon_ai.organelles import chaperone as CH
        S = [CH.FoldingStrategy(v) for v in STRATS]
        code = {s: i for i, s in enumerate(S)}
        raw = parts_text(case["raw"])
        schema = build_schema(case["schema"])
        rec = Recorder(CH)
        misfold_seen = []

        def strat_list(l):
            return None if l is None else [S[i] for i in l]

        def att_obs(atts):
            out = []
            for a in atts:
                out += [code.get(a.strategy, 9), int(bool(a.success)), err_code(a.error)]
            return out

        def on_misfold(res):
            misfold_seen.append(res)
            c = 3 if case["misfold"] == "raise" else 0
            if rec.active:
                rec.log.append([7, c] + att_obs(res.attempts))
            if c:
                raise CoRaise("on_misfold failed")

        co = None
        if case["co"]:
            inner = co_fn(case["co"])

            def co(s):
                t = rec.tid(s)
                try:
                    out = inner(s)
                except BaseException as e:
                    rec.log.append([6, t, 3, 0])
                    rec.note("cochap", [t], [3, 0])
                    raise
                o = rec.tid(out)
                rec.log.append([6, t, 0, o])
                rec.note("cochap", [t], [0, o])
                return out

        def stats_obs(chap):
            st = chap.get_statistics()
            return ([st["total_folds"], st["successful_folds"]] + [st["strategy_success"][v] for v in STRATS]
                    + [st["strategy_attempts"][v] for v in STRATS])

        old_json, old_re = CH.json, CH.re
        CH.json, CH.re = rec.make_json(), rec.make_re()
        rec.wrap_validate(schema)
        out = {}

        def body():
            chap = CH.Chaperone(strategies=strat_list(case["ctor"]), co_chaperones={schema: co} if co else None,
                                on_misfold=on_misfold if case["misfold"] else None, silent=True)
            rec.wrap_coerce(chap)
            rec.tid(raw)                                    # raw text is id 0
            for nm, fn in (("plain", chap.fold), ("enh", chap.fold_enhanced)):
                rec.log = []
                try:
                    out[nm] = ("ret", fn(raw, schema, strat_list(case["arg"])))
                except Exception as e:
                    out[nm] = ("raised", e)
                out[nm + "_log"] = rec.log
                out[nm + "_stats"] = stats_obs(chap)
            return True

        try:
            common.call_with_watchdog(body, 60.0)
        finally:
            rec.active = False
            CH.json, CH.re = old_json, old_re

        def struct_obs(s):
            return [0, 0] if s is None else [1, rec.iid(s)]

        obs = []
        k1, r1 = out["plain"]
        if k1 == "raised":
            obs.append([1, rec.exn_code(r1)])
        else:
            obs.append([0, int(r1.valid is True)] + struct_obs(r1.structure) + [err_code(r1.error_trace)])
        obs.append(out["plain_stats"])
        k2, r2 = out["enh"]
        if k2 == "raised":
            obs.append([1, rec.exn_code(r2)])
        else:
            fr = Fraction(r2.confidence)
            su = code.get(r2.strategy_used, -1) if r2.strategy_used is not None else -1
            obs.append([0, int(r2.valid is True)] + struct_obs(r2.structure) + [err_code(r2.error_trace), su,
                                                                                fr.numerator, fr.denominator])
            co_obs = []
            for c in r2.coercions_applied:
                if su == 1 and c.startswith("extracted_via_") and c[len("extracted_via_"):] in rec.pat_names:
                    co_obs += [1, rec.pat_names.index(c[len("extracted_via_"):])]
                elif su == 3 and c in rec.rep_names:
                    co_obs += [2, rec.rep_names.index(c)]
                else:
                    co_obs += [3, rec.nid(c)]
            obs.append(co_obs)
            obs.append(att_obs(r2.attempts))
        obs.append(out["enh_stats"])
        obs += out["plain_log"] + [[-1]] + out["enh_log"]
        tabs = rec.tables()
        trace = {"rec": rec, "tabs": tabs, "out": out, "schema": schema, "raw": raw, "misfold_seen": misfold_seen,
                 "npat": len(rec.pats), "nrep": len(rec.reps)}
        if rec.inconsistent:
            trace["harness_error"] = "oracle answered one key in two ways: %r" % (rec.inconsistent,)
        return obs, trace

    # -- model input -------------------------------------------------------
    def _safe_impl(self, case):
        obs, trace = super()._safe_impl(case)
        self._last = (_json.dumps(case, sort_keys=True), trace)
        return obs, trace

    def coq_case(self, case):
        key = _json.dumps(case, sort_keys=True)
        if getattr(self, "_last", (None, None))[0] != key:
            self._safe_impl(case)
        trace = self._last[1]
        if not isinstance(trace, dict) or "tabs" not in trace:
            return "(mkCase [] [] [] 0 (mkOTab [] [] [] [] [] [] [] [] 0))"
        t = trace["tabs"]
        cfg = [trace["npat"], trace["nrep"], int(bool(case["co"])), int(bool(case["misfold"]))]
        tab = "(mkOTab %s %s %s %s %s %s %s %s %s)" % (
            czll(t["strip"]), czll(t["loads"]), czll(t["findall"]), czll(t["sub"]), czll(t["coerce"]),
            czll(t["validate"]), czl(t["none"]), czll(t["cochap"]), cz(3 if case["misfold"] == "raise" else 0))
        return "(mkCase %s %s %s 0 %s)" % (czl(cfg), czl(case["ctor"] or []), czl(case["arg"] or []), tab)

    # -- the property, on the implementation's results -----------------------
    def effective(self, case):
        return (case["arg"] or None) or (case["ctor"] or None) or DEFAULT

    def monitor(self, case, obs, trace):
        if not isinstance(trace, dict) or trace.get("hang"):
            return Violation("C11/hang", "folding did not return within the watchdog time")
        if trace.get("harness_error") and "out" not in trace:
            return Violation("C11/harness", str(trace))
        out, schema, raw, rec = trace["out"], trace["schema"], trace["raw"], trace["rec"]
        validate = rec.orig_validate
        strategies = self.effective(case)
        callbacks_raise = case["co"] == "raise" or case["misfold"] == "raise"
        res = {}
        for nm in ("plain", "enh"):
            kind, r = out[nm]
            if kind == "raised":
                if isinstance(r, CoRaise) and callbacks_raise:
                    continue                   # the user's own callback raised: not demanded
                return Violation("C11/raises", f"{'fold' if nm == 'plain' else 'fold_enhanced'} raised {type(r).__name__}: {str(r)[:200]}")
            res[nm] = r
            log = out[nm + "_log"]
            if r.valid is True:
                if not isinstance(r.structure, schema):
                    return Violation("C11/valid-not-instance", f"{nm}: valid=True but structure is {type(r.structure).__name__}, not the schema")
                try:
                    validate(r.structure.model_dump())
                except Exception as e:
                    return Violation("C11/valid-not-revalidates", f"{nm}: valid structure does not re-validate: {str(e)[:200]}")
                why = self._provenance(rec, log, rec.iid(r.structure))
                if why:
                    return Violation("C11/valid-no-provenance", f"{nm}: {why}")
            elif r.valid is False:
                if r.structure is not None:
                    return Violation("C11/invalid-has-structure", f"{nm}: valid=False but a structure is returned")
                if not (isinstance(r.error_trace, str) and r.error_trace):
                    return Violation("C11/invalid-no-trace", f"{nm}: valid=False without an error trace")
            else:
                return Violation("C11/valid-not-bool", f"{nm}: valid is {r.valid!r}")
        # extraction candidates are substrings of the text they were extracted from (a test of what
        # c11_provenance_partial leaves to the regex engine)
        for text, ms in rec.substr:
            for m in ms:
                if not (isinstance(m, str) and m in text):
                    return Violation("C11/extraction-not-substring", f"findall produced {m!r:.80} which is not in its input")
        if "plain" in res and "enh" in res:
            p, e = res["plain"], res["enh"]
            if p.valid != e.valid or repr(p.structure) != repr(e.structure) or type(p.structure) is not type(e.structure):
                return Violation("C11/plain-enhanced-disagree", f"fold: valid={p.valid} {p.structure!r:.100}; fold_enhanced: valid={e.valid} {e.structure!r:.100}")
        if "enh" in res:
            e = res["enh"]
            c = e.confidence
            if not (isinstance(c, (int, float)) and 0.0 <= c <= 1.0):
                return Violation("C11/confidence-range", f"confidence {c!r} outside [0,1]")
            used = e.strategy_used.value if e.strategy_used is not None else None
            if (c == 1.0) != (used == "strict"):
                return Violation("C11/confidence-one-iff-strict", f"confidence {c!r} with strategy_used={used}")
            if e.valid and (used is None or STRATS.index(used) not in strategies):
                return Violation("C11/strategy-used", f"strategy_used={used} is not one of the requested strategies")
            if not e.valid and (c != 0.0 or used is not None):
                return Violation("C11/invalid-confidence", f"invalid fold with confidence {c!r}, strategy_used={used}")
        # clean schema-valid JSON with STRICT first is accepted verbatim
        if strategies[0] == 0 and not case["co"]:
            try:
                want = validate(_json.loads(raw))
            except Exception:
                want = None
            if want is not None:
                for nm, r in res.items():
                    if not (r.valid is True and repr(r.structure) == repr(want)):
                        return Violation("C11/strict-not-verbatim", f"{nm}: schema-valid JSON with STRICT first gave valid={r.valid} {r.structure!r:.100}, json.loads gives {want!r:.100}")
                if "enh" in res:
                    e = res["enh"]
                    if not (e.strategy_used is not None and e.strategy_used.value == "strict" and e.confidence == 1.0
                            and e.coercions_applied == [] and len(e.attempts) == 1):
                        return Violation("C11/strict-not-verbatim", f"schema-valid JSON with STRICT first: strategy_used={e.strategy_used}, confidence={e.confidence}, coercions={e.coercions_applied}")
        # statistics
        nvalid = sum(1 for r in res.values() if r.valid is True)
        if len(res) == 2 and (out["enh_stats"][0] != 2 or out["enh_stats"][1] != nvalid):
            return Violation("C11/statistics", f"get_statistics reports total/successful {out['enh_stats'][:2]} after 2 folds, {nvalid} valid")
        if trace.get("harness_error"):
            return Violation("C11/harness", trace["harness_error"])
        return None

    @staticmethod
    def _provenance(rec, log, sid):
        """The structure was returned by model_validate, during this fold, on a value obtained by json.loads
        (possibly through the coercion table) from a text derived from the raw text by oracle calls only."""
        strip = {}
        for s, t in list(rec.texts.items()):
            if isinstance(s, str) and s.strip() in rec.texts:
                strip[t] = rec.texts[s.strip()]
        derived, parsed = {0}, set()
        ok = False
        for row in log:
            derived |= {strip[t] for t in list(derived) if t in strip}
            k = row[0]
            if k == 6 and row[1] in derived and row[2] == 0:
                derived.add(row[3])
            elif k == 2 and row[2] in derived and row[3] == 0:
                derived |= set(row[4:])
            elif k == 3 and row[2] in derived and row[3] == 0:
                derived.add(row[4])
            elif k == 1 and row[1] in derived and row[2] == 0:
                parsed.add(row[3])
            elif k == 4 and row[1] in parsed and row[2] == 0:
                parsed.add(row[3])
            elif k == 5 and row[2] == 0 and row[3] == sid:
                if row[1] in parsed:
                    ok = True
        if ok:
            return None
        if not any(r[0] == 5 and r[2] == 0 and r[3] == sid for r in log):
            return "the returned structure was not produced by a schema.model_validate call made during the fold"
        return "the validated value does not come from json.loads of a text derived from the raw text"

    def nontrivial(self, case, obs, trace):
        return bool(case["ops"]) or bool(case["ctor"]) or bool(case["arg"]) or bool(case["co"]) or bool(case["misfold"])

    def classify(self, case, obs, trace):
        ks = ["op=" + o for o in case["ops"]] or ["op=clean"]
        ks.append("strategies=%d" % len(self.effective(case)))
        if case["co"]:
            ks.append("co=" + case["co"])
        if case["misfold"]:
            ks.append("misfold=" + case["misfold"])
        if isinstance(trace, dict) and "out" in trace:
            kind, r = trace["out"]["enh"]
            if kind == "raised":
                ks.append("raised")
            elif r.valid:
                ks.append("valid=" + r.strategy_used.value if r.strategy_used else "valid=?")
                ks.append("coercions=%d" % len(r.coercions_applied))
            else:
                ks.append("invalid")
            for row in trace["out"]["enh_log"]:
                if row[0] in (1, 5) and row[2] == 3:
                    ks.append("oracle-raised-other:" + ("loads" if row[0] == 1 else "validate"))
                if row[0] == 4 and row[2] == 3:
                    ks.append("oracle-raised-other:coerce")
        return sorted(set(ks))

    def shrink(self, case, pred):
        case = dict(case)
        for key in ("arg", "ctor"):
            if case[key]:
                eff = self.effective(case)
                cand = common.shrink_list(case[key], lambda l: len(l) > 0 and pred({**case, key: l}))
                case[key] = cand
        raw = parts_text(case["raw"])
        if len(raw) <= 4000:
            chars = common.shrink_list(list(raw), lambda cs: pred({**case, "raw": to_parts("".join(cs))}), max_rounds=400)
            case["raw"] = to_parts("".join(chars))
        fields = common.shrink_list(case["schema"], lambda fs: len(fs) > 0 and pred({**case, "schema": fs}))
        case["schema"] = fields
        return case


CHECK = C11
