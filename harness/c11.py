"""C11 — output validator: 'valid' implies the schema holds; clean JSON is taken verbatim.

The harness folds generated (corrupted) strings with the REAL Chaperone while
json / re / schema.model_validate / _coerce_types_tracked / co-chaperone /
on_misfold are wrapped by recorders.  Every answer those trusted libraries gave
is fed to the Coq model as a finite oracle table (texts, parsed values and
schema instances are opaque ids), and the model must reproduce the results of
fold and fold_enhanced, the statistics and the exact sequence of oracle calls.
The monitor checks the property itself on the implementation's results.
"""
import contextlib
import io
import json as _json
import math as _math
import re as _re
import time as _time
from fractions import Fraction

from . import common
from .common import Check, Violation, cz, czl, czll

STRATS = ["strict", "extraction", "lenient", "repair"]
DEFAULT = [0, 1, 2, 3]

# ----------------------------------------------------------------------------
# schemas (JSON-able specs -> pydantic models)
# ----------------------------------------------------------------------------
FIELD_TYPES = ["int", "float", "str", "bool", "list_int", "list_str", "opt_int", "opt_str", "nested", "opt_nested"]
NAMES = ["a", "b", "c", "d", "e", "name", "age", "tags", "ok", "score"]


def build_schema(spec, name="M"):
    from typing import List, Optional
    from pydantic import create_model
    fields = {}
    for f in spec:
        t = f["type"]
        if t in ("nested", "opt_nested", "list_nested"):
            inner = build_schema(f["fields"], name + "_" + f["name"])
            ann = inner if t == "nested" else Optional[inner] if t == "opt_nested" else List[inner]
        elif t in ("list_bool", "list_opt_int"):
            ann = List[bool] if t == "list_bool" else List[Optional[int]]
        else:
            ann = {"int": int, "float": float, "str": str, "bool": bool, "list_int": List[int],
                   "list_str": List[str], "opt_int": Optional[int], "opt_str": Optional[str]}[t]
        if f["required"]:
            fields[f["name"]] = (ann, ...)
        else:
            fields[f["name"]] = (ann, None if t.startswith("opt_") else f.get("default"))
    return create_model(name, **fields)


def default_for(t):
    return {"int": 0, "float": 0.5, "str": "d", "bool": False, "list_int": [], "list_str": []}.get(t)


def gen_spec(rng, depth=0):
    n = rng.choice([1, 2, 2, 3, 3, 4, 5])
    names = rng.sample(NAMES, n)
    spec = []
    for nm in names:
        t = rng.choice(FIELD_TYPES if depth == 0 else FIELD_TYPES[:8])
        f = {"name": nm, "type": t, "required": rng.random() < 0.65}
        if t in ("nested", "opt_nested"):
            f["fields"] = gen_spec(rng, depth + 1)
            if t == "nested":
                f["required"] = True
        elif not f["required"] and not t.startswith("opt_"):
            f["default"] = default_for(t)
        spec.append(f)
    return spec


WIDE_NAMES = ["f%02d" % i for i in range(26)]
WIDE_TYPES = ["int", "int", "float", "str", "str", "bool", "list_int", "list_str", "opt_int", "opt_str"]


def gen_wide_spec(rng, n=None):
    """8..24 flat fields: enough coercible fields for the LENIENT confidence 0.85 - 0.05*n to reach its floor 0.5 (n >= 7)
    and the point where it would leave [0,1] without the floor (n >= 18)."""
    n = n or rng.choice([7, 8, 8, 10, 12, 17, 18, 20, 24])
    spec = []
    for nm in WIDE_NAMES[:n]:
        t = rng.choice(WIDE_TYPES)
        f = {"name": nm, "type": t, "required": rng.random() < 0.8}
        if not f["required"] and not t.startswith("opt_"):
            f["default"] = default_for(t)
        spec.append(f)
    return spec


def coercible_swap(rng, spec, d, p):
    """Type swaps that the LENIENT coercion table can undo (each one is one entry of coercions_applied)."""
    d = dict(d)
    for f in spec:
        k = f["name"]
        if k not in d or rng.random() >= p:
            continue
        v, t = d[k], f["type"]
        if t == "int" and isinstance(v, int) and abs(v) < 2 ** 60:
            d[k] = str(v)
        elif t == "float":
            d[k] = rng.choice([str(float(v)), "1e3", "2.5"])
        elif t == "str" and isinstance(v, str):
            d[k] = rng.choice([7, 2.5, True, 0])
        elif t == "bool":
            d[k] = rng.choice(["yes", "no", "TRUE", "0", "1", "False"])
        elif t == "list_int":
            d[k] = rng.choice(["1, 2,3", "4", "5,6"])
        elif t == "list_str":
            d[k] = rng.choice(["a,b", "p, q , r", "solo"])
    return d


_IDENT = _re.compile(r"^[A-Za-z_][A-Za-z0-9_]*$")


def pyish_dumps(rng, v, p, top=True):
    """Serialise the way a Python-minded generator writes 'JSON': single quotes, bare keys, None/True/False,
    undefined/NaN for missing values, trailing commas.  Every construct is one entry of the REPAIR table, so one text
    can need 7..10 repairs (confidence 0.75 - 0.05*n reaches its floor 0.4 at n = 7)."""
    if v is None:
        return rng.choice(["None", "undefined", "NaN", "null"]) if top else rng.choice(["None", "null"])
    if v is True:
        return "True" if rng.random() < p else "true"
    if v is False:
        return "False" if rng.random() < p else "false"
    if isinstance(v, (int, float)):
        return _json.dumps(v)
    if isinstance(v, str):
        plain = all(c not in v for c in "'\"\\") and all(ord(c) >= 32 for c in v)
        return "'%s'" % v if (top and plain and rng.random() < p) else _json.dumps(v)
    if isinstance(v, list):
        items = [pyish_dumps(rng, x, p, top=False) for x in v]
        tail = rng.choice([",", ", "]) if items and rng.random() < p else ""
        return "[" + ", ".join(items) + tail + "]"
    items = []
    for k, x in v.items():
        r = rng.random()
        if _IDENT.match(k) and r < p / 2:
            key = k
        elif "'" not in k and r < p:
            key = "'%s'" % k
        else:
            key = _json.dumps(k)
        items.append(key + rng.choice([": ", ":", " : "]) + pyish_dumps(rng, x, p, top=True))
    tail = rng.choice([",", ", ", ",\n"]) if items and rng.random() < p else ""
    return "{" + ", ".join(items) + tail + "}"


STRINGS = ["x", "Alice", "hello world", "None", "True story", "a, }b", "it's", "{x}", "[1]", 'q"uote', "é", "日本",
           "", " pad ", "null", "12", "yes", "a,b", "1.5", "back\\slash", "line\nbreak", "```", "</json>", ": undefined"]


def gen_value(rng, f):
    t = f["type"]
    if t.startswith("opt_") and rng.random() < 0.3:
        return None
    if t in ("int", "opt_int"):
        return rng.choice([0, 1, -5, 7, 42, 100, 2 ** 70, -1])
    if t == "float":
        return rng.choice([0.5, -1.25, 3.0, 1e10, 0.1, 2])
    if t in ("str", "opt_str"):
        return rng.choice(STRINGS)
    if t == "bool":
        return rng.random() < 0.5
    if t == "list_int":
        return [rng.randint(-3, 9) for _ in range(rng.randint(0, 3))]
    if t == "list_str":
        return [rng.choice(STRINGS) for _ in range(rng.randint(0, 3))]
    return gen_instance(rng, f["fields"])


def gen_instance(rng, spec):
    d = {}
    for f in spec:
        if not f["required"] and rng.random() < 0.35:
            continue
        d[f["name"]] = gen_value(rng, f)
    return d


# ----------------------------------------------------------------------------
# corruption operators (on the data before serialisation / on the text)
# ----------------------------------------------------------------------------

def swap_types(rng, spec, d):
    d = dict(d)
    for f in spec:
        k = f["name"]
        if k not in d or rng.random() < 0.4:
            continue
        v, t = d[k], f["type"]
        if t in ("int", "opt_int") and isinstance(v, int):
            d[k] = rng.choice([str(v), str(v) + "x", float(v) if abs(v) < 2 ** 50 else str(v), "9" * 5000])
        elif t == "float":
            d[k] = rng.choice([str(v), "nan", "abc", "1e3"])
        elif t in ("str", "opt_str") and isinstance(v, str):
            d[k] = rng.choice([7, 2.5, True, 10 ** 30, [v]])
        elif t == "bool":
            d[k] = rng.choice(["yes", "no", "TRUE", "0", "maybe", 1])
        elif t in ("list_int", "list_str"):
            d[k] = rng.choice(["1, 2,3", "a,b", "", 5])
        elif t in ("nested", "opt_nested") and isinstance(v, dict):
            d[k] = rng.choice([_json.dumps(v), [v], 3])
    return d


def insert_trailing_comma(rng, s):
    idx = [i for i, c in enumerate(s) if c in "}]"]
    if not idx:
        return s + ","
    i = rng.choice(idx)
    return s[:i] + rng.choice([",", ", ", ",\n"]) + s[i:]


TEXT_OPS = ["fence_json", "fence_plain", "xml", "prose", "single_quotes", "trailing_comma", "py_literals", "truncate",
            "deep_wrap", "surrogate", "pad", "unquote_keys", "undefined", "two_objects", "bom", "upper_fence", "nan"]


def apply_text_op(rng, op, s):
    if op == "fence_json":
        return rng.choice(["```json\n%s\n```", "Sure!\n```json\n%s\n```\nDone.", "```json %s ```", "```json\n%s"]) % s
    if op == "fence_plain":
        return rng.choice(["```\n%s\n```", "text ```%s``` more"]) % s
    if op == "upper_fence":
        return "```JSON\n%s\n```" % s
    if op == "xml":
        return rng.choice(["<json>%s</json>", "result: <json>\n%s\n</json> ok", "<json>%s"]) % s
    if op == "prose":
        return rng.choice(["Here is the result: %s Hope it helps!", "%s\nThat's all.", "Answer (see {docs}): %s",
                           "I think [maybe] %s", "note: None of this is True. %s"]) % s
    if op == "single_quotes":
        return s.replace('"', "'")
    if op == "trailing_comma":
        return insert_trailing_comma(rng, s)
    if op == "py_literals":
        return s.replace("true", "True").replace("false", "False").replace("null", "None")
    if op == "truncate":
        return s[:rng.randint(0, max(0, len(s) - 1))] if s else s
    if op == "deep_wrap":
        n = rng.choice([3, 30, 400, 100000])
        return "[" * n + s + "]" * n
    if op == "surrogate":
        i = rng.randint(0, len(s))
        return s[:i] + rng.choice(["\ud800", "\udfff", "\ud83d"]) + s[i:]
    if op == "pad":
        return rng.choice(["  \n\t%s \n", "﻿%s", "\x0c%s\x1f", " %s "]) % s
    if op == "bom":
        return "﻿" + s
    if op == "unquote_keys":
        return _re.sub(r'"([A-Za-z_][A-Za-z0-9_]*)"\s*:', r"\1:", s)
    if op == "undefined":
        return _re.sub(r":\s*(null|\d+)", lambda m: rng.choice([": undefined", ": NaN", m.group(0)]), s)
    if op == "nan":
        return _re.sub(r":\s*\d+(\.\d+)?", lambda m: rng.choice([": NaN", ": Infinity", ": -Infinity", m.group(0)]), s, count=2)
    if op == "two_objects":
        other = rng.choice(['{"zzz": 1}', "{}", "[1, 2]", "{bad}", '{"a": "q"}', "null", '"str"', "{'k': 1,}"])
        return rng.choice(["first %s then %s", "%s %s", "```json\n%s\n```\n```json\n%s\n```", "<json>%s</json><json>%s</json>"]) % (
            (other, s) if rng.random() < 0.7 else (s, other))
    return s


# ONE repairable defect occurring MANY times in one text (a list of n objects / booleans / optional ints printed by a
# Python-minded serialiser): every REPAIR rule has to rewrite all n occurrences, in the plain and in the enhanced fold alike.
MANY_SPEC = [{"name": "items", "type": "list_nested", "required": True, "fields": [
                 {"name": "b", "type": "opt_int", "required": False},
                 {"name": "s", "type": "str", "required": False, "default": "d"},
                 {"name": "l", "type": "list_int", "required": False, "default": []},
                 {"name": "t", "type": "bool", "required": False, "default": False}]},
             {"name": "flags", "type": "list_bool", "required": False, "default": []},
             {"name": "vals", "type": "list_opt_int", "required": False, "default": []}]
MANY_KINDS = {"comma_obj": '{"b": %d, "t": true,}', "comma_arr": '{"b": %d, "l": [1, 2,]}', "sq_key": "{'b': %d}",
              "sq_val": '{"b": %d, "s": \'x\'}', "bare_key": "{b: %d}", "none": '{"s": "v%d", "b": None}',
              "true": '{"b": %d, "t": True}', "false": '{"b": %d, "t": False}', "undefined": '{"s": "v%d", "b": undefined}',
              "nan": '{"s": "v%d", "b": NaN}', "flags": None, "vals": None}
MANY_COUNTS = [25, 26, 30, 33, 50, 64, 65, 100, 128, 129, 200]


def many_defects(kind, n, sep=", "):
    """A text with n occurrences of the defect `kind` (and no other defect)."""
    if kind == "flags":
        return '{"items": [], "flags": [%s]}' % sep.join("True" if i % 3 else "False" for i in range(n))
    if kind == "vals":
        return '{"items": [], "vals": [%s]}' % sep.join("None" if i % 4 else str(i) for i in range(n + n // 3 + 1))
    return '{"items": [%s]}' % sep.join(MANY_KINDS[kind] % i for i in range(n))


SCALARS = ["null", "3", '"ab"', "[]", "[1, 2]", "", "   ", "{}", "true", "-0.0", "1e400", "```json null ```",
           "```json\n3\n```", "{", "}", "[", "\ud800", "None", "{'a': None}", "<json></json>", "``````", "NaN",
           "[" * 100000, "9" * 5000, '{"a": ' + "9" * 5000 + "}", "{:}", "[,]", '{"a": 1}{"a": 2}', "\x00"]


# ----------------------------------------------------------------------------
# recorder
# ----------------------------------------------------------------------------

def parts_text(parts):
    return "".join(t * int(r) for t, r in parts)


def to_parts(s):
    """Compact literal: runs of one repeated character longer than 64 are stored as [c, n]."""
    parts, i, lit = [], 0, []
    n = len(s)
    while i < n:
        j = i
        while j < n and s[j] == s[i]:
            j += 1
        if j - i > 64:
            if lit:
                parts.append(["".join(lit), 1])
                lit = []
            parts.append([s[i], j - i])
        else:
            lit.append(s[i:j])
        i = j
    if lit:
        parts.append(["".join(lit), 1])
    return parts


class Recorder:
    """Interning tables + the log of oracle calls of one case."""

    def __init__(self, CH):
        self.CH = CH
        self.texts, self.vals, self.insts, self.names = {}, {}, {}, {}
        self.keep = []
        self.none_ids = set()
        self.log = []                 # rows in the model's call_obs format
        self.calls = []               # (kind, key tuple, answer tuple) for the oracle tables
        self.active = True
        self.inconsistent = None
        self.orig_validate = {}
        self.pats = [p for p, _ in CH.Chaperone.JSON_EXTRACTION_PATTERNS]
        self.pat_names = [n for _, n in CH.Chaperone.JSON_EXTRACTION_PATTERNS]
        self.reps = [(p, r) for p, r, _ in CH.Chaperone.JSON_REPAIRS]
        self.rep_names = [n for _, _, n in CH.Chaperone.JSON_REPAIRS]

    # -- interning -----------------------------------------------------------
    def tid(self, s):
        if not isinstance(s, str):
            return self._other(self.texts, ("nonstr", self._safe_repr(s)))
        return self.texts.setdefault(s, len(self.texts))

    def _safe_repr(self, v):
        try:
            return type(v).__name__ + ":" + repr(v)
        except Exception:
            self.keep.append(v)
            return "obj:%d" % id(v)

    def _other(self, tab, key):
        return tab.setdefault(key, len(tab))

    def vid(self, v):
        i = self._other(self.vals, self._safe_repr(v))
        if v is None:
            self.none_ids.add(i)
        return i

    def iid(self, x):
        return self._other(self.insts, self._safe_repr(x))

    def nid(self, s):
        return self._other(self.names, s)

    def exn_code(self, e):
        from pydantic import ValidationError
        if isinstance(e, _json.JSONDecodeError):
            return 1
        if isinstance(e, ValidationError):
            return 2
        return 3

    def note(self, kind, key, ans):
        self.calls.append((kind, tuple(key), tuple(ans)))

    # -- wrappers --------------------------------------------------------------
    def make_json(rec):
        class JsonProxy:
            def __getattr__(self, n):
                return getattr(_json, n)

            def loads(self, s, *a, **k):
                if not rec.active:
                    return _json.loads(s, *a, **k)
                t = rec.tid(s)
                try:
                    v = _json.loads(s, *a, **k)
                except BaseException as e:
                    c = rec.exn_code(e)
                    rec.log.append([1, t, c, 0])
                    rec.note("loads", [t], [c, 0])
                    raise
                i = rec.vid(v)
                rec.log.append([1, t, 0, i])
                rec.note("loads", [t], [0, i])
                return v
        return JsonProxy()

    def make_re(rec):
        class ReProxy:
            def __getattr__(self, n):
                return getattr(_re, n)

            def findall(self, pattern, string, flags=0):
                if not rec.active:
                    return _re.findall(pattern, string, flags)
                k = rec.pats.index(pattern) if pattern in rec.pats and flags == (_re.MULTILINE | _re.DOTALL) else 99
                t = rec.tid(string)
                try:
                    ms = _re.findall(pattern, string, flags)
                except BaseException as e:
                    c = rec.exn_code(e)
                    rec.log.append([2, k, t, c])
                    rec.note("findall", [k, t], [c])
                    raise
                ids = [rec.tid(m) for m in ms]
                rec.substr.append((string, ms))
                rec.log.append([2, k, t, 0] + ids)
                rec.note("findall", [k, t], [0] + ids)
                return ms

            def sub(self, pattern, repl, string, count=0, flags=0):
                if not rec.active:
                    return _re.sub(pattern, repl, string, count, flags)
                k = rec.reps.index((pattern, repl)) if (pattern, repl) in rec.reps and count == 0 and flags == 0 else 99
                t = rec.tid(string)
                try:
                    out = _re.sub(pattern, repl, string, count, flags)
                except BaseException as e:
                    c = rec.exn_code(e)
                    rec.log.append([3, k, t, c, 0])
                    rec.note("sub", [k, t], [c, 0])
                    raise
                o = rec.tid(out)
                rec.log.append([3, k, t, 0, o])
                rec.note("sub", [k, t], [0, o])
                return out
        rec.substr = []
        return ReProxy()

    def wrap_validate(rec, schema, sidx):
        orig = schema.model_validate            # bound classmethod of the generated model

        def model_validate(cls, obj, *a, **k):
            if not rec.active:
                return orig(obj, *a, **k)
            v = rec.vid(obj)
            try:
                inst = orig(obj, *a, **k)
            except BaseException as e:
                c = rec.exn_code(e)
                rec.log.append([5, v, c, 0])
                rec.note("validate", [sidx, v], [c, 0])
                raise
            i = rec.iid(inst)
            rec.log.append([5, v, 0, i])
            rec.note("validate", [sidx, v], [0, i])
            return inst
        schema.model_validate = classmethod(model_validate)
        rec.orig_validate[sidx] = orig

    def wrap_coerce(rec, chap, schemas):
        orig = chap._coerce_types_tracked

        def coerce(data, schema):
            if not rec.active:
                return orig(data, schema)
            sidx = next((i for i, sc in enumerate(schemas) if sc is schema), 99)
            v = rec.vid(data)
            try:
                out, names = orig(data, schema)
            except BaseException as e:
                c = rec.exn_code(e)
                rec.log.append([4, v, c])
                rec.note("coerce", [sidx, v], [c])
                raise
            row = [0, rec.vid(out)] + [rec.nid(n) for n in names]
            rec.log.append([4, v] + row)
            rec.note("coerce", [sidx, v], row)
            return out, names
        chap._coerce_types_tracked = coerce

    # -- tables ------------------------------------------------------------------
    def tables(self):
        tabs = {k: {} for k in ("loads", "findall", "sub", "coerce", "validate", "cochap")}
        for kind, key, ans in self.calls:
            if kind not in tabs:
                continue
            old = tabs[kind].setdefault(key, ans)
            if old != ans:
                self.inconsistent = (kind, key, old, ans)
        # str.strip is not interceptable: the table is computed for every text seen
        strip = []
        texts = list(self.texts.items())
        i = 0
        while i < len(texts):
            s, t = texts[i]
            if isinstance(s, str):
                before = len(self.texts)
                t2 = self.tid(s.strip())
                if len(self.texts) > before:
                    texts.append((s.strip(), t2))
                strip.append([t, t2])
            i += 1
        out = {k: [list(key) + list(ans) for key, ans in v.items()] for k, v in tabs.items()}
        out["strip"] = strip
        out["none"] = sorted(self.none_ids)
        return out


# ----------------------------------------------------------------------------
def err_code(s):
    if s is None:
        return 0
    if not isinstance(s, str):
        return 99
    m = _re.match(r"All (\d+) folding strategies failed", s)
    if m:
        return 100 + int(m.group(1))
    if s.startswith("JSON: "):
        return 1
    if s.startswith("Validation: "):
        return 2
    if s == "No valid JSON found in text":
        return 3
    if s == "No JSON found":
        return 4
    if s == "Unknown folding error":
        return 6
    return 5


class CoRaise(Exception):
    pass


def _map_raiser(x):
    raise CoRaise("mapped function failed")


def co_fn(kind):
    if kind == "identity":
        return lambda s: s
    if kind == "braces":
        def f(s):
            i, j = s.find("{"), s.rfind("}")
            return s[i:j + 1] if 0 <= i < j else s
        return f
    if kind == "const":
        return lambda s: '{"a": 1}'

    def r(s):
        raise CoRaise("co-chaperone failed")
    return r




CO_KINDS = ["identity", "braces", "const", "raise"]

# ChaperoneLoop configurations: confidence_decay (binary64 values; 0.1 is the default) and texts a generator
# typically resubmits before it produces something foldable
DECAYS = [0.1, 0.1, 0.1, 0.25, 0.4, 0.5, 0.3, 0.05, 0.0, 1.0, 1.5, 0.34, 0.125, 1e-3, 0.9, 2.0 ** -60, -0.25]
HEAL_FAILS = ["I am not sure what you want", "not json", "{", "[1, 2", "", "```json\n{bad}\n```", "null", "3",
              "Sorry, here it is: {...}", '{"unterminated": "str']
OUTCOMES = {"valid_first_try": 0, "healed": 1, "degraded": 2}
# needles for create_mock_healing_generator; the error context reads "Previous output was invalid. Error: All N folding
# strategies failed\nYour output was: <first 200 chars>[...]\nPlease correct the output to match the expected schema."
MOCK_NEEDLES = ["folding strategies failed", "All 4 folding", "All 1 folding", "", "not a valid float", "Your output was: {",
                "...", "Error: All", "schema", "JSON", "\n"]


def heal_opts(op):
    return op[5] if len(op) > 5 and isinstance(op[5], dict) else {}


def make_generator(CL, op, texts, on_call):
    """The generator of one heal op: either 'the k-th call returns texts[idxs[min(k, last)]]' or the library's
    create_mock_healing_generator(texts[idxs[0]], texts[idxs[1]], needle).  on_call(k, error_context, text) sees every call."""
    idxs, opts = op[1], heal_opts(op)
    n = [0]
    if "mock" in opts:
        inner = CL.create_mock_healing_generator(texts[idxs[0]], texts[idxs[1]], opts["mock"])
    else:
        def inner(prompt, error_context=None):
            return texts[idxs[min(n[0], len(idxs) - 1)]]

    def generator(prompt, error_context=None):
        out = inner(prompt, error_context)
        k = n[0]
        n[0] += 1
        on_call(k, error_context, out)
        return out
    return generator


def dyadic(x):
    """binary64 -> (m, e) with x == m * 2**e exactly."""
    fr = Fraction(x)
    return fr.numerator, -(fr.denominator.bit_length() - 1)


def dyadic_odd(x):
    """binary64 -> (m, e), x == m * 2**e exactly, m odd (|m| < 2**53) or 0."""
    fr = Fraction(x)
    m, e = fr.numerator, -(fr.denominator.bit_length() - 1)
    while m and m % 2 == 0:
        m //= 2
        e += 1
    return m, e


def float_obs(x):
    """The model's float_obs: exact numerator / denominator; [0, 0] for inf / nan."""
    if not isinstance(x, (int, float)) or isinstance(x, bool) or _math.isnan(x) or _math.isinf(x):
        return [0, 0]
    fr = Fraction(x)
    return [fr.numerator, fr.denominator]


# Clocks the chaperone module may be run under.  A spec is {"t0", "step", "script", "drift"}: the n-th reading made during
# the case (whichever function of the time module is asked) is t0 + step * (script[n % L] + drift * (n // L)), L = len(script):
# script [0] / drift 0 stands still, drift 1 ticks once per reading, [0, 0] / [0, 0, 0] with drift 1 are coarse ticks (two or
# three readings per tick: consecutive readings are EQUAL), drift < 0 runs backwards, other scripts zig-zag.
CLOCKS = {
    "frozen": {"t0": 1700000000.0, "step": 0.0, "script": [0], "drift": 0},
    "frozen-zero": {"t0": 0.0, "step": 1.0, "script": [0], "drift": 0},
    "tick-1ms": {"t0": 1700000000.0, "step": 0.001, "script": [0], "drift": 1},
    "coarse-2": {"t0": 1700000000.0, "step": 0.015625, "script": [0, 0], "drift": 1},
    "coarse-3": {"t0": 1700000000.0, "step": 0.015625, "script": [0, 0, 0], "drift": 1},
    "coarse-5": {"t0": 12345.5, "step": 1.0, "script": [0, 0, 0, 0, 0], "drift": 1},
    "backwards": {"t0": 1700000000.0, "step": 0.25, "script": [0], "drift": -1},
    "zigzag": {"t0": 1700000000.0, "step": 0.5, "script": [0, 3, 1, 1, 2, 0, 0, 7], "drift": 0},
    "step-back-once": {"t0": 50.0, "step": 1.0, "script": [5, 0, 0, 1, 2, 2, 3], "drift": 4},
    "huge-jumps": {"t0": -1.0e12, "step": 1.0e15, "script": [0, 1], "drift": 1},
    "tiny-ticks": {"t0": 1700000000.0, "step": 2.0 ** -22, "script": [0], "drift": 1},
    "negative-frozen": {"t0": -3.5, "step": 0.0, "script": [0], "drift": 0},
}


def clock_value(spec, n):
    L = len(spec["script"])
    return float(spec["t0"] + spec["step"] * (spec["script"][n % L] + spec["drift"] * (n // L)))


class ClockProxy:
    """Stands in for the `time` module inside operon_ai.organelles.chaperone while a case runs: every reading is recorded
    (so the model is handed exactly the readings the implementation saw) and, when the case names a clock, produced by it."""
    FLOAT_FNS = ("time", "perf_counter", "monotonic", "process_time", "thread_time")
    NS_FNS = ("time_ns", "perf_counter_ns", "monotonic_ns", "process_time_ns", "thread_time_ns")

    def __init__(self, spec):
        self.spec, self.n, self.cur, self.on = spec, 0, [], True

    def _read(self, real):
        v = float(real()) if self.spec is None else clock_value(self.spec, self.n)
        self.n += 1
        if self.on:
            self.cur.append(v)
        return v

    def __getattr__(self, name):
        real = getattr(_time, name)
        if name in self.FLOAT_FNS:
            return lambda: self._read(real)
        if name in self.NS_FNS:
            return lambda: int(self._read(lambda: real() / 1e9) * 1e9)
        return real


class C11(Check):
    PID = "C11"
    HEADER = "From Verif Require Import C11.Model."
    RUN = "run_case"
    CASE_TYPE = "case"
    N_QUICK = 800
    N_THOROUGH = 20000
    RULE = ("a case is a HISTORY of 1..5 fold / fold_enhanced calls (plus occasional register_co_chaperone / reset_statistics, and in "
            "30% of the non-pair histories one or two ChaperoneLoop.heal runs driving the same object: confidence_decay from "
            "{0.1 (default), 0.25, 0.4, 0.5, 0.3, 0.05, 0, 1, 1.5, 0.34, 0.125, 0.9, 1e-3, 2^-60, -0.25}, a generator that resubmits "
            "unfoldable text 0..13 times (drawn around the point where retries x decay crosses 1) and then produces clean or "
            "corrupted JSON, max_retries just enough / one more / one too few / 3 / 0 / -1) "
            "on ONE Chaperone object: the text of a call is usually byte-identical to an earlier one, the schema usually the "
            "same, the per-call strategies override varies (None, the case's list, single strategies, random orders/subsets with "
            "duplicates); 35% of the cases are the pair fold;fold_enhanced with identical arguments. Texts: a generated pydantic "
            "schema (1-5 fields over int/float/str/bool/List[int]/List[str]/Optional/nested models, required or defaulted), a "
            "random instance serialised with json.dumps and 0-3 corruption operators (markdown fences, <json> tags, prose, single "
            "quotes, trailing commas, Python literals, truncation, type swaps, unquoted keys, undefined/NaN, two JSON objects, deep "
            "nesting up to 100000, lone surrogates, BOM/whitespace padding, 100k-character strings, 5000-digit integers) or a "
            "scalar/degenerate text; constructor strategies default/STRICT-first/random; optional co-chaperone (identity/braces/"
            "const/raising) and on_misfold (recording/raising). Enumerated: every strategy list of length <= 2 (quick) / <= 3 "
            "(thorough) x 14 canonical texts as fold;fold_enhanced, and every ordered pair A,B of {default,[S],[E],[L],[R]} x 14 texts "
            "as fold_enhanced(A);fold_enhanced(B);fold(B) on one object, and the healing-loop grid decay in {0.1,0.25,0.4,0.5,1,1.5,0} x "
            "0..5 failed generations (0.1 also 9..13) x max_retries enough / one too few x final text clean (STRICT) / fenced "
            "(EXTRACTION) (thorough: 8 more decays x 0..11 failures). non-trivial = some corruption, non-default strategies, "
            "callback or more than one call; distinct by case content. "
            "Blind-spot widening: 12% of the generated cases use a WIDE schema (7..24 flat fields) whose text needs many coercions "
            "(every field type-swapped in a way the LENIENT table undoes) or many repairs (a Python-minded serialiser: single-quoted "
            "and bare keys, single-quoted values, None/True/False, undefined/NaN, trailing commas) so that the confidence floors "
            "max(0.5, 0.85-0.05n) and max(0.4, 0.75-0.05n) are reached (n >= 7) and passed to where the unclamped value leaves [0,1] "
            "(n >= 17); enumerated ladders n = 0..11,16..19,24 coercions and 0..10 repairs (three rotations of the rule order). 45% of "
            "the heals run with ChaperoneLoop(silent=False) (console output captured; all three messages), 20% use the library's own "
            "create_mock_healing_generator(initial, healed, needle) with needles that do / do not occur in the error context (also "
            "'' and '...' for > 200-character outputs); enumerated: silent=False x decay {0.1,0.5} x 0..3 failures x max_retries "
            "enough / one too few / one more, and every needle x 4 initial texts. 30% of the cases construct the Chaperone with "
            "silent=False and/or max_retries in {0,1,-1,10,3} (documented as unused), 4% with strategies=[]; in 40% read-only "
            "accessors are interleaved (get_statistics before the first fold and three times after every call, FoldedProtein.map "
            "with an identity and with a raising function on every plain result, HealingResult.valid/.structure) - the model "
            "does not see any of these options, so each must leave every observation unchanged, and the monitor compares with the "
            "same call on a fresh default-knob silent Chaperone. "
            "THE CLOCK: the `time` module seen by operon_ai.organelles.chaperone is replaced for the duration of every case by a "
            "recording proxy (time / perf_counter / monotonic / process_time and their _ns forms); every reading made during a "
            "call is handed to the model (exact binary64 values), which must reproduce the number of readings and every "
            "FoldingAttempt.duration_ms bit for bit. 30% of the generated cases run under a VIRTUAL clock instead of the machine's: "
            "standing still (frozen at 1.7e9 / 0 / -3.5: every two readings equal, duration 0), coarse ticks (2, 3 or 5 readings "
            "per 1/64 s or 1 s tick), 1 ms and 2^-22 s ticks, running backwards, zig-zag scripts, 1e15 s jumps, or a random "
            "script (t0, step, script of 1..8 offsets, drift -2..2); enumerated: 6 (thorough: 12) clocks x 13 canonical texts x "
            "{default,[S],[E],[L],[R]} as fold;fold_enhanced, x three healing runs and an on_misfold run. The monitor additionally "
            "repeats every call of a virtual-clock case on a fresh Chaperone under the machine's clock (C11/clock-dependent). "
            "MANY OCCURRENCES: 6% of the generated cases fold a text in which ONE repairable defect (trailing comma in objects / "
            "arrays, single-quoted keys / values, bare keys, None / True / False, undefined, NaN) occurs n times, n in 25..200 "
            "(or 1, 8, 24), as a list of n objects / booleans / optional ints of a List[Model] / List[bool] / List[Optional[int]] "
            "schema; enumerated: 12 defect kinds x n in {24, 25, 65, 200} (thorough: 11 counts) as fold[R];enh[R];enh;fold")
    LEVEL_TEXT = ("Coq theorems, for all raw texts, schemas, strategy lists and ALL behaviours of json/re/str.strip/pydantic/"
                  "coercion/co-chaperone/on_misfold (return anything or raise any Exception class at any call), about an "
                  "executable model of Chaperone.fold and fold_enhanced: valid => the structure was returned by model_validate "
                  "on a value obtained by json.loads (and possibly the coercion table) from a text derived from the raw text "
                  "only by strip/findall/sub/co-chaperone calls; invalid => no structure and an error trace; fold and "
                  "fold_enhanced agree on outcome, structure, counters and the whole call sequence; confidence in [0,1] and = 1 "
                  "iff STRICT succeeded; STRICT-first on loadable+valid text makes exactly strip, loads, model_validate and "
                  "returns that instance with confidence 1 and no coercion; neither fold raises unless a user callback does; "
                  "and for every HISTORY of calls on one object (state = counters + co-chaperone registry) each call returns "
                  "exactly what it returns on a fresh Chaperone (c11_history_independent), so every per-call theorem holds at "
                  "every point of every history; the clock (time.time(), two readings per strategy tried) may return ANYTHING at every "
                  "reading - stand still, run backwards, tick coarsely - without changing validity, structure, strategy, confidence, "
                  "coercions, attempts, counters or the call sequence of any fold, heal or history (c11_clock_irrelevant, "
                  "c11_heal_clock_irrelevant, c11_history_clock_irrelevant), the i-th duration being (reading 2i+1 - reading 2i) * 1000 "
                  "(c11_clock_readings); and for ChaperoneLoop.heal over ANY generator, max_retries and confidence_decay: a "
                  "reported fold is the valid fold_enhanced result of a generation within the retry budget (structure validated from "
                  "THAT text), its confidence min(c, max(0, 1 - k*decay)) lies in [0,1] and is 1 only for STRICT, final_confidence "
                  "reports it, a degraded result carries no fold and only failed attempts with error traces, heal returns whenever "
                  "the callbacks do, counters advance by one per attempt (c11_heal_*). Proved by induction over the call list, the strategy list, the pattern lists "
                  "and the match lists. The model is tied to the code by replaying, inside Coq, the oracle answers recorded "
                  "from every implementation history (for a heal: of every fold_enhanced it makes, per generation) and comparing per call the results, "
                  "HealingResult fields and RefoldingAttempt records, statistics, confidences (bit-exact "
                  "binary64) and the sequence of oracle calls.")
    LEVEL_NOTE = ("Trusts: Coq kernel+VM; the recording harness; json, re, str.strip, pydantic and the coercion table are "
                  "oracles (their answers are recorded, not modelled), so that findall returns substrings and sub returns a "
                  "'repair' of its argument is outside the proof (c11_provenance_partial; substring-ness of every extraction "
                  "candidate is tested in Python on each run); the clock is an oracle too (c11_clock_irrelevant: for ANY clock the timed model, "
                  "which threads readings and durations through the loops, projects onto the untimed one); "
                  "confidence theorems are over exact rationals, the executed "
                  "model uses binary64 (plus a bounded binary64 lemma for up to 1000 coercions). Axioms: none.")
    TECHNIQUE = ("Coq proof by induction over call/strategy/pattern/match lists of a writer-monad model + oracle-table "
                 "correspondence against histories of Chaperone.fold/fold_enhanced on one object")
    TRUSTED = ["json.loads, re.findall, re.sub, str.strip, pydantic model_validate and Chaperone._coerce_types_tracked are oracles: "
               "their answers are recorded per case and replayed in the model; they are deterministic functions of the content "
               "of their argument (ids are assigned by content: text, type+repr of values and instances) and of the schema",
               "str.strip cannot be intercepted: its table is computed by the harness for every text seen; the strip calls are "
               "visible only through the arguments of json.loads",
               "exceptions raised by the oracles are subclasses of Exception (KeyboardInterrupt/SystemExit/MemoryError excluded)",
               "confidence: theorems over Q with decimal literals read exactly; correspondence is bit-exact on binary64 (PrimFloat)",
               "error strings are compared by shape (prefix / fixed text)",
               "the clock is an oracle: the readings of the time module made during a call are recorded (or produced by the "
               "case's virtual clock) and replayed in the model; a clock returns a finite float and does not raise; only the "
               "`time` module attribute of operon_ai.organelles.chaperone is substituted (datetime is not used by the anchored code)",
               "instance state modelled: the four statistics counters and the co_chaperones dict; strategies, on_misfold, silent "
               "and max_retries are set by the constructor only (silent / max_retries of the Chaperone, silent of the loop and the "
               "read-only accessors are NOT inputs of the model: cases that vary them must reproduce the model's observations)",
               "ChaperoneLoop: the generator is a deterministic user callback (its k-th call returns a text; the error context "
               "it is handed is not observed - for the library's create_mock_healing_generator the model is given the texts it "
               "actually returned); confidence_decay is a finite binary64 value passed to the model exactly as m*2^e",
               "console output of the silent=False paths is captured with contextlib.redirect_stdout into a str buffer (an "
               "output stream that cannot encode the messages' emoji is outside the check)"]
    ASSUMPTIONS = ["raw_peptide_chain is a str and target_schema a pydantic BaseModel subclass",
                   "strategy lists contain FoldingStrategy members only",
                   "fold may raise only if the registered co-chaperone or the on_misfold callback raises",
                   "calls on one Chaperone object are sequential",
                   "ChaperoneLoop: max_retries is an int, confidence_decay a finite float, the generator returns str and does not raise"]

    # -- generation --------------------------------------------------------
    @staticmethod
    def _rand_list(rng):
        n = rng.choice([1, 1, 2, 2, 3, 4, 5])
        if rng.random() < 0.7:
            return rng.sample(DEFAULT, min(n, 4))
        return [rng.choice(DEFAULT) for _ in range(n)]

    def _strat_lists(self, rng):
        k = rng.random()
        if k < 0.35:
            return None, None
        rl = lambda: self._rand_list(rng)
        if k < 0.55:
            rest = rng.sample([1, 2, 3], rng.randint(0, 3))
            return (None, [0] + rest) if rng.random() < 0.5 else ([0] + rest, None)
        if k < 0.8:
            return None, rl()
        if k < 0.9:
            return rl(), None
        return rl(), rng.choice([rl(), []])

    def _gen_raw(self, rng, spec):
        ops = []
        if rng.random() < 0.08:
            return rng.choice(SCALARS), ["scalar"]
        d = gen_instance(rng, spec)
        if rng.random() < 0.2:
            d = swap_types(rng, spec, d)
            ops.append("type_swap")
        if rng.random() < 0.04:
            key = rng.choice(list(d) or ["a"])
            d[key] = "x" * 100000 if rng.random() < 0.5 else ("y, " * 30000)
            ops.append("100k_string")
        if rng.random() < 0.03:
            v = 1
            for _ in range(rng.choice([20, 200, 3000])):
                v = {"x": v}
            d[rng.choice(list(d) or ["a"])] = v
            ops.append("deep_field")
        try:
            raw = _json.dumps(d, ensure_ascii=rng.random() < 0.5, indent=rng.choice([None, None, 2]))
        except RecursionError:
            raw = '{"a": ' + '{"x": ' * 3000 + "1" + "}" * 3001
        for _ in range(rng.choice([0, 0, 0, 1, 1, 1, 1, 2, 2, 3])):
            op = rng.choice(TEXT_OPS)
            raw = apply_text_op(rng, op, raw)
            ops.append(op)
        return raw, ops

    def _gen_wide_raw(self, rng, spec):
        """Many coercions (LENIENT) or many repairs (REPAIR) in ONE text: the confidence floors max(0.5, .), max(0.4, .)
        are reached only from 7 coercions / repairs on."""
        d = {}
        for f in spec:
            if f["required"] or rng.random() < 0.9:
                v = gen_value(rng, f)
                if isinstance(v, str):
                    v = rng.choice(["x", "Alice", "hello world", "12", "yes", "a,b", "é"])
                d[f["name"]] = v
        if rng.random() < 0.5:
            d = coercible_swap(rng, spec, d, rng.choice([1.0, 1.0, 0.9, 0.7]))
            raw, ops = _json.dumps(d), ["wide_coercible"]
            if rng.random() < 0.3:
                op = rng.choice(["fence_json", "prose", "xml", "pad"])
                raw = apply_text_op(rng, op, raw)
                ops.append(op)
        else:
            raw, ops = pyish_dumps(rng, d, rng.choice([1.0, 1.0, 0.9, 0.7])), ["wide_pyish"]
            if rng.random() < 0.3:
                d2 = coercible_swap(rng, spec, d, 0.3)
                raw = pyish_dumps(rng, d2, 0.9)
                ops.append("type_swap")
        return raw, ops

    def _gen_one(self, rng):
        """One (schema, text, strategies, callbacks) tuple; used for single calls and by the healing-loop test."""
        wide = rng.random() < 0.12
        spec = gen_wide_spec(rng) if wide else gen_spec(rng)
        ctor, arg = self._strat_lists(rng)
        if ctor is None and rng.random() < 0.04:
            ctor = []                      # Chaperone(strategies=[]) means the default list
        raw, ops = self._gen_wide_raw(rng, spec) if wide else self._gen_raw(rng, spec)
        if wide and rng.random() < 0.5:
            # make the strategy that has to do the work reachable whatever the random lists say
            ctor, arg = None, rng.choice([None, None, [2], [3], [2, 3], [3, 2], [0, 2], [0, 1, 3]])
        co = rng.choice(CO_KINDS) if rng.random() < 0.08 else None
        mis = rng.choice(["record", "record", "raise"]) if rng.random() < 0.15 else None
        return {"schema": spec, "raw": to_parts(raw), "ctor": ctor, "arg": arg, "co": co, "misfold": mis, "ops": ops}

    @staticmethod
    def history(spec, raw, ctor, calls, co=None, misfold=None, tags=(), knobs=None, access=False):
        """calls: list of (fn, arg) on text 0 / schema 0."""
        h = {"schemas": [spec], "texts": [to_parts(raw) if isinstance(raw, str) else raw], "ctor": ctor,
             "co": ({"0": co} if co else {}), "misfold": misfold,
             "ops": [[fn, 0, 0, arg] for fn, arg in calls], "tags": list(tags)}
        if knobs:
            h["knobs"] = knobs
        if access:
            h["access"] = True
        return h

    @staticmethod
    def _gen_knobs(rng, case):
        """Constructor knobs that must not matter (Chaperone.max_retries is 'unused, kept for compatibility', silent only
        suppresses console output) and read-only accessors interleaved between the calls."""
        if rng.random() < 0.3:
            kn = {}
            if rng.random() < 0.7:
                kn["silent"] = False
            if rng.random() < 0.6:
                kn["max_retries"] = rng.choice([0, 1, -1, 10, 3])
            if kn:
                case["knobs"] = kn
                case["tags"].append("knobs")
        if rng.random() < 0.4:
            case["access"] = True
            case["tags"].append("accessors")
        return case

    def _gen_heal(self, rng, schemas, texts, tags):
        """One ChaperoneLoop.heal on the history's Chaperone: a generator that resubmits unfoldable text nf times and
        then (usually) produces foldable text; nf is drawn around the point where attempt * decay crosses 1.
        Appends the generator's texts to `texts`; returns the op."""
        sidx = 0 if rng.random() < 0.85 else rng.randrange(len(schemas))
        decay = rng.choice(DECAYS)
        b = min(13, int(1 / decay)) if decay >= 0.05 else 3
        nf = min(13, rng.choice([0, 0, 1, 1, 2, 3, b, b, b + 1, b + 2]))
        mr = rng.choice([nf, nf, nf, nf + 1, nf - 1, 3, 0])
        opts = {}
        if rng.random() < 0.45:
            opts["loud"] = True            # ChaperoneLoop(silent=False): the three console messages

        def add(t):
            parts = to_parts(t)
            if parts in texts:
                return texts.index(parts)
            texts.append(parts)
            return len(texts) - 1
        if rng.random() < 0.2:
            # the library's own generator (create_mock_healing_generator): returns `healed` once the error context it is
            # handed contains the needle, `initial` before / otherwise
            initial = rng.choice(HEAL_FAILS) if rng.random() < 0.7 else self._gen_raw(rng, schemas[sidx])[0]
            if rng.random() < 0.15:
                initial = "pad " * 60 + initial          # > 200 characters: the error context abbreviates it with '...'
            healed = _json.dumps(gen_instance(rng, schemas[sidx])) if rng.random() < 0.8 else self._gen_raw(rng, schemas[sidx])[0]
            opts["mock"] = rng.choice(MOCK_NEEDLES)
            tags += ["heal", "heal-mock"] + (["heal-loud"] if opts.get("loud") else [])
            return ["heal", [add(initial), add(healed)], sidx, rng.choice([1, 1, 2, 3, 0, -1]), decay, opts]
        idxs, fail = [], rng.choice(HEAL_FAILS)
        for _ in range(nf):
            r = rng.random()
            if r < 0.25:
                fail = rng.choice(HEAL_FAILS)
            elif r < 0.4:
                fail = self._gen_raw(rng, schemas[sidx])[0]
            idxs.append(add(fail))
        if rng.random() < 0.8:
            last = _json.dumps(gen_instance(rng, schemas[sidx]))
        else:
            last, ops2 = self._gen_raw(rng, schemas[sidx])
            tags += ops2
        idxs.append(add(last))
        tags.append("heal")
        if opts:
            tags.append("heal-loud")
            return ["heal", idxs, sidx, mr, decay, opts]
        return ["heal", idxs, sidx, mr, decay]

    def _gen_hist(self, rng):
        b = self._gen_one(rng)
        spec = b["schema"]
        if rng.random() < 0.35:
            return self._gen_knobs(rng, self.history(spec, b["raw"], b["ctor"], [("fold", b["arg"]), ("enh", b["arg"])], b["co"],
                                                     b["misfold"], b["ops"] + ["pair"]))
        schemas, texts, tags = [spec], [b["raw"]], list(b["ops"])
        if rng.random() < 0.3:
            raw2, ops2 = self._gen_raw(rng, spec)
            texts.append(to_parts(raw2))
            tags += ops2
        if rng.random() < 0.2:
            schemas.append(gen_spec(rng))
            tags.append("two_schemas")
        ops = []
        for _ in range(rng.choice([1, 2, 2, 3, 3, 4, 5])):
            if rng.random() < 0.07:
                ops.append(["register", rng.randrange(len(schemas)), rng.choice(CO_KINDS)])
            if rng.random() < 0.05:
                ops.append(["reset"])
            k = rng.random()
            if k < 0.35:
                arg = None
            elif k < 0.55:
                arg = b["arg"]
            elif k < 0.8:
                arg = [rng.choice(DEFAULT)]
            else:
                arg = self._rand_list(rng)
            ops.append(["enh" if rng.random() < 0.6 else "fold",
                        0 if rng.random() < 0.75 else rng.randrange(len(texts)),
                        0 if rng.random() < 0.85 else rng.randrange(len(schemas)), arg])
        if rng.random() < 0.3:
            # the healing loop shares the object (counters, co-chaperones) with the other calls of the history
            for _ in range(rng.choice([1, 1, 2])):
                ops.insert(rng.randint(0, len(ops)), self._gen_heal(rng, schemas, texts, tags))
            if rng.random() < 0.5:
                ops = [o for o in ops if o[0] == "heal" or rng.random() < 0.4]
        tags.append("history")
        return self._gen_knobs(rng, {"schemas": schemas, "texts": texts, "ctor": b["ctor"], "co": ({"0": b["co"]} if b["co"] else {}),
                                     "misfold": b["misfold"], "ops": ops, "tags": tags})

    @staticmethod
    def _gen_clock(rng):
        """The clock the chaperone module reads during the case (None = the machine's, recorded)."""
        if rng.random() < 0.65:
            name = rng.choice(sorted(CLOCKS))
            return name, dict(CLOCKS[name])
        L = rng.choice([1, 1, 2, 2, 3, 4, 6, 8])
        spec = {"t0": rng.choice([0.0, 1700000000.0, 1700000000.123456, -2.5, 1e-3, 86400.0 * 20000]),
                "step": rng.choice([0.0, 1.0, 0.001, 0.015625, 2.0 ** -20, 0.1, 3600.0, 1e-6]),
                "script": [rng.choice([0, 0, 0, 1, 1, 2, 3, 5, -1]) for _ in range(L)], "drift": rng.choice([-2, -1, 0, 0, 1, 1, 2])}
        return "random", spec

    def _gen_many(self, rng):
        kind = rng.choice(sorted(MANY_KINDS))
        n = rng.choice([rng.randint(25, 200), rng.choice(MANY_COUNTS), rng.choice([1, 8, 24])])
        raw = many_defects(kind, n, rng.choice([", ", ",", ",\n  "]))
        tags = ["many-defects", "many:" + kind, "many-n=" + ("<25" if n < 25 else "25..64" if n <= 64 else "65..200")]
        if rng.random() < 0.25:
            op = rng.choice(["fence_json", "prose", "xml", "pad"])
            raw = apply_text_op(rng, op, raw)
            tags.append(op)
        arg = rng.choice([None, None, [3], [0, 3], [3, 2], [2, 3], [1, 3]])
        if rng.random() < 0.6:
            calls = [("fold", arg), ("enh", arg)]
        else:
            calls = [(rng.choice(["fold", "enh"]), rng.choice([arg, None, [3]])) for _ in range(rng.randint(2, 4))]
        return self.history(MANY_SPEC, raw, rng.choice([None, None, [3, 0]]), calls, tags=tags)

    def gen_cases(self, rng, n):
        out = []
        for _ in range(n):
            case = self._gen_many(rng) if rng.random() < 0.06 else self._gen_hist(rng)
            if rng.random() < 0.3:
                name, spec = self._gen_clock(rng)
                case["clock"] = spec
                case["tags"] += ["clock", "clock=" + name]
            out.append(case)
        return out

    CANON_SPEC = [{"name": "name", "type": "str", "required": True}, {"name": "age", "type": "int", "required": True},
                  {"name": "tags", "type": "list_str", "required": False, "default": []}]
    CANON_RAW = ['{"name": "Alice", "age": 30}', '  {"name": "Bob", "age": 25, "tags": ["x"]}\n',
                 'Here:\n```json\n{"name": "Bob", "age": 25}\n```\n', "{'name': 'Al', 'age': 3,}",
                 '{"name": "None", "age": 3,}', '{"name": "A", "age": "41", "tags": "p, q"}', '{"name": 5, "age": 1}',
                 'x {"zzz": 1} y {"name": "C", "age": 2} z', "null", "3", "not json at all", '{"name": "T"',
                 "[" * 100000, '<json>{"name": "X", "age": 1}</json>']
    NESTED_SPEC = [{"name": "a", "type": "nested", "required": True, "fields": [{"name": "b", "type": "int", "required": True}]},
                   {"name": "tag", "type": "str", "required": True}, {"name": "note", "type": "opt_str", "required": False}]
    NESTED_RAW = '{"a": {"b": 7}, "tag": "x", "note": null}'

    def exhaustive_cases(self):
        import itertools
        top = 2 if self.tier == "quick" else 3
        out = []
        for n in range(1, top + 1):
            for combo in itertools.product(DEFAULT, repeat=n):
                for raw in self.CANON_RAW:
                    out.append(self.history(self.CANON_SPEC, raw, None, [("fold", list(combo)), ("enh", list(combo))],
                                            tags=["canon"]))
        probes = [None, [0], [1], [2], [3]]
        for A in probes:
            for B in probes:
                for spec, raw in [(self.CANON_SPEC, r) for r in self.CANON_RAW] + [(self.NESTED_SPEC, self.NESTED_RAW)]:
                    out.append(self.history(spec, raw, None, [("enh", A), ("enh", B), ("fold", B)], tags=["canon-pair"]))
        # the healing loop: confidence_decay x number of failed generations x max_retries (enough / one too few),
        # ending in clean JSON (STRICT) or fenced JSON (EXTRACTION); the default decay up to 13 failures
        grid = [(d, nf) for d in (0.1, 0.25, 0.4, 0.5, 1.0, 1.5, 0.0) for nf in range(0, 6)]
        grid += [(0.1, nf) for nf in range(9, 14)] + [(0.25, 6), (0.05, 13)]
        if self.tier != "quick":
            grid += [(d, nf) for d in (0.3, 0.34, 0.125, 0.9, 1e-3, -0.25, 0.2, 0.7) for nf in range(0, 12)]
        for decay, nf in grid:
            for mr in (nf, nf - 1):
                for good in (self.CANON_RAW[0], self.CANON_RAW[2]):
                    if mr < nf and good != self.CANON_RAW[0]:
                        continue
                    out.append(self.heal_case(self.CANON_SPEC, ["not json at all"] * nf + [good], mr, decay, tags=["canon-heal"]))
        # the same loop with silent=False (healed / misfolded / ubiquitin messages), with the result's accessors read
        for decay, nf in [(d, nf) for d in (0.1, 0.5) for nf in range(0, 4)] + [(0.1, 12), (1.5, 2)]:
            for mr in (nf, nf - 1, nf + 1):
                out.append(self.heal_case(self.CANON_SPEC, ["not json at all"] * nf + [self.CANON_RAW[nf % 3]], mr, decay,
                                          tags=["canon-heal", "heal-loud"], opts={"loud": True}, access=bool(nf % 2)))
        # the library's mock generator: every needle x (initial unfoldable / foldable / long) x retries 0..2
        for needle in MOCK_NEEDLES:
            for initial in ("not json at all", self.CANON_RAW[6], "x" * 30 + " {bad} " * 40, self.CANON_RAW[0]):
                for mr in ((0, 1, 2) if initial == "not json at all" else (1,)):
                    out.append(self.heal_case(self.CANON_SPEC, [initial, self.CANON_RAW[2]], mr, 0.25, tags=["canon-heal", "heal-mock"],
                                              opts={"mock": needle, **({"loud": True} if mr == 1 else {})}))
        # confidence floors of LENIENT and REPAIR
        for n in list(range(0, 12)) + [16, 17, 18, 19, 24]:
            spec, raw = self.coercion_ladder(n)
            out.append(self.history(spec, raw, None, [("enh", [2]), ("fold", [2]), ("enh", None)], tags=["canon-coercions=%d" % n]))
        for k in range(0, 11):
            for rot in ((0, 3, 6) if 0 < k < 10 else (0,)):
                out.append(self.history(self.REPAIR_SPEC, self.repair_ladder(k, rot), None, [("enh", [3]), ("fold", [3]), ("enh", None)],
                                        tags=["canon-repairs=%d" % k], access=(k + rot) % 2 == 1,
                                        knobs={"silent": False, "max_retries": 0} if k % 3 == 0 else None))
        # the clock: every canonical text x every single strategy / the default list, under clocks that stand still,
        # tick coarsely, run backwards, zig-zag
        names = (["frozen", "coarse-2", "coarse-3", "backwards", "zigzag", "tick-1ms"] if self.tier == "quick" else sorted(CLOCKS))
        for name in names:
            for raw in self.CANON_RAW:
                if len(raw) > 1000:
                    continue
                for arg in probes:
                    c = self.history(self.CANON_SPEC, raw, None, [("fold", arg), ("enh", arg)], tags=["canon-clock", "clock=" + name])
                    c["clock"] = dict(CLOCKS[name])
                    out.append(c)
            for nf in (0, 1, 2):
                c = self.heal_case(self.CANON_SPEC, ["not json at all"] * nf + [self.CANON_RAW[nf]], nf, 0.25,
                                   pre=[("enh", None)], post=[("fold", None)], tags=["canon-clock", "canon-heal", "clock=" + name])
                c["clock"] = dict(CLOCKS[name])
                out.append(c)
            c = self.history(self.CANON_SPEC, "nothing", None, [("fold", None), ("enh", None)], misfold="record",
                             tags=["canon-clock", "clock=" + name])
            c["clock"] = dict(CLOCKS[name])
            out.append(c)
        # one repairable defect n times: around 24/25 and 64/65 and at 200
        for kind in sorted(MANY_KINDS):
            for n in ((24, 25, 65, 200) if self.tier == "quick" else (1, 24, 25, 26, 33, 64, 65, 100, 128, 129, 200)):
                out.append(self.history(MANY_SPEC, many_defects(kind, n), None, [("fold", [3]), ("enh", [3]), ("enh", None), ("fold", None)],
                                        tags=["canon-many", "many:" + kind]))
        return out

    @staticmethod
    def heal_case(spec, raws, mr, decay, ctor=None, pre=(), post=(), tags=(), opts=None, access=False):
        """One heal whose generator returns `raws` in turn (opts['mock']: raws = [initial, healed] of the library's mock
        generator), optionally between fold calls on text 0."""
        texts, idxs = [], []
        for r in raws:
            p_ = to_parts(r)
            if p_ not in texts:
                texts.append(p_)
            idxs.append(texts.index(p_))
        ops = ([[fn, 0, 0, arg] for fn, arg in pre] + [["heal", idxs, 0, mr, decay] + ([opts] if opts else [])]
               + [[fn, 0, 0, arg] for fn, arg in post])
        c = {"schemas": [spec], "texts": texts, "ctor": ctor, "co": {}, "misfold": None, "ops": ops, "tags": list(tags)}
        if access:
            c["access"] = True
        return c

    # confidence floors: n coercions (LENIENT, 0.85 - 0.05 n, floor 0.5 from n = 7; below 0 without the floor from n = 18)
    @staticmethod
    def coercion_ladder(n):
        spec = [{"name": "name", "type": "str", "required": True}] + [
            {"name": WIDE_NAMES[i], "type": ["int", "float", "bool", "list_str", "str"][i % 5], "required": True} for i in range(n)]
        d = {"name": "A"}
        for i in range(n):
            d[WIDE_NAMES[i]] = ["41", "2.5", "yes", "p, q", 7][i % 5]
        return spec, _json.dumps(d)

    # ... and k of the ten REPAIR rules needed by one text (0.75 - 0.05 k, floor 0.4 from k = 7)
    REPAIR_SPEC = [{"name": "a", "type": "int", "required": True}] + [
        {"name": nm, "type": t, "required": False, **({} if t.startswith("opt_") else {"default": default_for(t)})}
        for nm, t in [("l", "list_int"), ("k", "int"), ("v", "str"), ("u", "int"), ("n", "opt_int"), ("t", "bool"), ("f", "bool"),
                      ("d", "opt_int"), ("x", "opt_int")]]
    REPAIR_FRAGS = ['"l": [1, 2,]', "'k': 1", "\"v\": 'x'", "u: 1", '"n": None', '"t": True', '"f": False', '"d": undefined',
                    '"x": NaN']

    @classmethod
    def repair_ladder(cls, k, rot=0):
        """A text that needs exactly k repairs (k = 0: clean JSON)."""
        if k == 0:
            return '{"a": 1}'
        frags = cls.REPAIR_FRAGS[rot:] + cls.REPAIR_FRAGS[:rot]
        return '{"a": 1, ' + "".join(f + ", " for f in frags[:k - 1]) + "}"

    def corpus_cases(self):
        base = []
        for raw, arg, mis in [('{"name": "Alice", "age": 30}', None, None), ("3", [2], "record"), ("null", [2, 0], None),
                              ('{"name": "None", "age": 3,}', None, None), ("[" * 100000, None, "record"),
                              ('{"name": "a", "age": ' + "9" * 5000 + "}", [1, 3], None),
                              ('{"name": "A", "age": "41"}', [2], None), ("nothing", None, "raise")]:
            base.append(self.history(self.CANON_SPEC, raw, None, [("fold", arg), ("enh", arg)], misfold=mis, tags=["corpus"]))
        # a verdict obtained under a restricted strategy subset must not be replayed later
        base.append(self.history(self.NESTED_SPEC, self.NESTED_RAW, None, [("enh", [1]), ("enh", None), ("fold", None)],
                                 tags=["corpus"]))
        base.append(self.history(self.CANON_SPEC, self.CANON_RAW[2], None, [("enh", [0]), ("enh", None), ("fold", None)],
                                 misfold="record", tags=["corpus"]))
        base.append({"schemas": [self.CANON_SPEC, self.NESTED_SPEC], "texts": [to_parts(self.CANON_RAW[0]), to_parts(self.NESTED_RAW)],
                     "ctor": [0, 3], "co": {}, "misfold": None,
                     "ops": [["enh", 0, 1, None], ["enh", 0, 0, None], ["register", 0, "const"], ["fold", 0, 0, None],
                             ["reset"], ["enh", 1, 1, [1, 0]]], "tags": ["corpus"]})
        # late heals: the retry count times the decay passes 1 (confidence must stay in [0,1])
        good = self.CANON_RAW[0]
        base.append(self.heal_case(self.CANON_SPEC, ["nothing"] * 4 + [good], 5, 0.3, tags=["corpus"]))
        base.append(self.heal_case(self.CANON_SPEC, ["nothing"] * 11 + [good], 11, 0.1, pre=[("enh", None)], post=[("fold", None)],
                                   tags=["corpus"]))
        base.append(self.heal_case(self.CANON_SPEC, ["{", "{", self.CANON_RAW[3]], 2, 0.5, ctor=[3, 0], tags=["corpus"]))
        base.append(self.heal_case(self.CANON_SPEC, ["nothing", "nothing"], 1, 0.1, tags=["corpus"]))
        return base + super().corpus_cases()

    # -- client: the healing loop built on fold_enhanced (a test, not a proof) ----
    def extra_checks(self):
        from operon_ai.organelles import chaperone as CH
        from operon_ai.healing import chaperone_loop as CL
        rng = __import__("random").Random(f"C11:loop:{self.seed}")
        n = 60 if self.tier == "quick" else 600
        ran = healed = 0
        for _ in range(n):
            case = self._gen_one(rng)
            schema = build_schema(case["schema"])
            raws = [parts_text(case["raw"])]
            for _k in range(rng.randint(0, 2)):
                raws.append(raws[0] if rng.random() < 0.4 else parts_text(self._gen_one(rng)["raw"]))
            raws.append(_json.dumps(gen_instance(rng, case["schema"])))
            calls = []

            def generator(prompt, error=None):
                calls.append(error)
                return raws[min(len(calls) - 1, len(raws) - 1)]
            try:
                loop = CL.ChaperoneLoop(generator=generator, chaperone=CH.Chaperone(silent=True), schema=schema,
                                        max_retries=rng.randint(0, 3), silent=True)
                res = loop.heal("p")
            except Exception as e:
                self.violations.append(Violation("C11/loop-raises", f"ChaperoneLoop.heal raised {type(e).__name__}: {str(e)[:200]}",
                                                 case={**case, "loop_raws": [to_parts(r) for r in raws]}))
                continue
            ran += 1
            what = None
            f = res.folded
            if res.outcome.value == "degraded" or f is None:
                if res.structure is not None or f is not None and f.valid:
                    what = "degraded healing result carries a structure"
            else:
                healed += 1
                if not (f.valid and isinstance(f.structure, schema)):
                    what = "healed result is not an instance of the schema"
                else:
                    try:
                        schema.model_validate(f.structure.model_dump())
                    except Exception as e:
                        what = f"healed structure does not re-validate: {str(e)[:150]}"
                c = f.confidence
                if what is None and not (0.0 <= c <= 1.0 and res.final_confidence == c):
                    what = f"confidence {c!r} outside [0,1] or != final_confidence"
                if what is None and c == 1.0 and not (f.strategy_used.value == "strict" and len(calls) == 1):
                    what = f"confidence 1.0 with strategy {f.strategy_used.value} after {len(calls)} generations"
            if what:
                self.violations.append(Violation("C11/loop-client", what, case={**case, "loop_raws": [to_parts(r) for r in raws]}))
        self.extra_cov["chaperone_loop_runs"] = ran
        self.extra_cov["chaperone_loop_healed"] = healed

    # -- implementation ----------------------------------------------------
    def run_impl(self, case):
        from operon_ai.organelles import chaperone as CH
        from operon_ai.healing import chaperone_loop as CL
        from operon_ai.core import types as CT
        S = [CH.FoldingStrategy(v) for v in STRATS]
        code = {s: i for i, s in enumerate(S)}
        texts = [parts_text(t) for t in case["texts"]]
        schemas = [build_schema(sp, "M%d" % i) for i, sp in enumerate(case["schemas"])]
        rec = Recorder(CH)

        def strat_list(l):
            return None if l is None else [S[i] for i in l]

        def att_obs(atts):
            out = []
            for a in atts:
                out += [code.get(a.strategy, 9), int(bool(a.success)), err_code(a.error)]
            return out

        clock = ClockProxy(case.get("clock"))
        seen = {"durs": None}

        def on_misfold(res):
            c = 3 if case["misfold"] == "raise" else 0
            if rec.active:
                rec.log.append([7, c] + att_obs(res.attempts))
                seen["durs"] = [getattr(a, "duration_ms", None) for a in res.attempts]
            if c:
                raise CoRaise("on_misfold failed")

        def make_co(kind):
            inner, cid = co_fn(kind), CO_KINDS.index(kind)

            def co(s):
                if not rec.active:
                    return inner(s)
                t = rec.tid(s)
                try:
                    out = inner(s)
                except BaseException:
                    rec.log.append([6, t, 3, 0])
                    rec.note("cochap", [cid, t], [3, 0])
                    raise
                o = rec.tid(out)
                rec.log.append([6, t, 0, o])
                rec.note("cochap", [cid, t], [0, o])
                return out
            return co

        def stats_obs(chap):
            st = chap.get_statistics()
            return ([st["total_folds"], st["successful_folds"]] + [st["strategy_success"][v] for v in STRATS]
                    + [st["strategy_attempts"][v] for v in STRATS])

        old_json, old_re, old_time = CH.json, CH.re, CH.time
        CH.json, CH.re, CH.time = rec.make_json(), rec.make_re(), clock
        for i, sc in enumerate(schemas):
            rec.wrap_validate(sc, i)
        for t in texts:
            rec.tid(t)
        steps = []
        reg = {int(k): v for k, v in case["co"].items()}

        knobs = case.get("knobs") or {}
        access = bool(case.get("access"))
        out_buf = io.StringIO()
        pre = {}

        def accessors(st, r):
            """Read-only public accessors between the operations; whatever they return, every LATER observation (and the
            result object itself, which is observed afterwards) must be what it is without them."""
            def snap():
                f = getattr(r, "folded", None)
                return [repr(getattr(r, a, None)) for a in ("valid", "error_trace", "outcome", "final_confidence", "ubiquitin_tagged",
                                                            "confidence", "strategy_used", "coercions_applied")] + [
                    id(getattr(r, "structure", None)), id(f), repr(getattr(f, "confidence", None)), repr(getattr(f, "valid", None)),
                    len(getattr(r, "attempts", None) or [])]
            before = snap()
            try:
                if isinstance(r, CT.FoldedProtein):
                    st["maps"] = (r.map(lambda x: x), r.map(_map_raiser))
                if isinstance(r, CL.HealingResult):
                    st["h_props"] = (r.valid, r.structure)
                st["stats_twice"] = (stats_obs(st["chap"]), stats_obs(st["chap"]))
            except Exception as e:
                st["access_exc"] = e
            if snap() != before:
                st["access_changed"] = (before, snap())

        def body():
            kw = {"max_retries": knobs["max_retries"]} if "max_retries" in knobs else {}
            chap = CH.Chaperone(strategies=strat_list(case["ctor"]),
                                co_chaperones={schemas[i]: make_co(k) for i, k in reg.items()} or None,
                                on_misfold=on_misfold if case["misfold"] else None, silent=knobs.get("silent", True), **kw)
            rec.wrap_coerce(chap, schemas)
            if access:
                try:
                    pre["stats"] = stats_obs(chap)          # get_statistics before any fold (0 / max(1, 0))
                except Exception as e:
                    pre["exc"] = e
            for op in case["ops"]:
                st = {"op": op, "reg": dict(reg), "chap": chap, "out0": out_buf.tell()}
                st["clock"] = clock.cur = []         # the readings of the time source made during this op
                seen["durs"] = None
                if op[0] == "register":
                    chap.register_co_chaperone(schemas[op[1]], make_co(op[2]))
                    reg[op[1]] = op[2]
                elif op[0] == "reset":
                    chap.reset_statistics()
                    st["stats"] = stats_obs(chap)
                elif op[0] == "heal":
                    rec.log = []
                    st["gen_calls"] = gen_calls = []
                    st["gen_texts"] = gen_texts = []

                    def on_call(k, error_context, text, gen_calls=gen_calls, gen_texts=gen_texts):
                        gen_calls.append(error_context)
                        gen_texts.append(text)
                        if rec.active:
                            rec.log.append([-3, k])
                    try:
                        loop = CL.ChaperoneLoop(generator=make_generator(CL, op, texts, on_call), chaperone=chap,
                                                schema=schemas[op[2]], max_retries=op[3], confidence_decay=op[4],
                                                silent=not heal_opts(op).get("loud"))
                        st["res"] = ("ret", loop.heal("p"))
                    except Exception as e:
                        st["res"] = ("raised", e)
                    st["log"] = rec.log
                    clock.cur = []
                    if access and st["res"][0] == "ret":
                        accessors(st, st["res"][1])
                    st["stats"] = stats_obs(chap)
                else:
                    rec.log = []
                    fn = chap.fold if op[0] == "fold" else chap.fold_enhanced
                    try:
                        st["res"] = ("ret", fn(texts[op[1]], schemas[op[2]], strat_list(op[3])))
                    except Exception as e:
                        st["res"] = ("raised", e)
                    st["log"] = rec.log
                    st["misfold_durs"] = seen["durs"]
                    clock.cur = []
                    if access and st["res"][0] == "ret":
                        accessors(st, st["res"][1])
                    st["stats"] = stats_obs(chap)
                st["printed"] = out_buf.getvalue()[st["out0"]:]
                steps.append(st)
            return True

        try:
            # console output of the silent=False paths is captured (it is not an observation)
            with contextlib.redirect_stdout(out_buf):
                common.call_with_watchdog(body, 90.0)
        finally:
            rec.active = False
            clock.on = False
            CH.json, CH.re, CH.time = old_json, old_re, old_time

        def struct_obs(x):
            return [0, 0] if x is None else [1, rec.iid(x)]

        def enh_obs(r):
            fr = Fraction(r.confidence)
            su = code.get(r.strategy_used, -1) if r.strategy_used is not None else -1
            rows = [[0, int(r.valid is True)] + struct_obs(r.structure) + [err_code(r.error_trace), su, fr.numerator, fr.denominator]]
            co_obs = []
            for c in r.coercions_applied:
                if su == 1 and c.startswith("extracted_via_") and c[len("extracted_via_"):] in rec.pat_names:
                    co_obs += [1, rec.pat_names.index(c[len("extracted_via_"):])]
                elif su == 3 and c in rec.rep_names:
                    co_obs += [2, rec.rep_names.index(c)]
                else:
                    co_obs += [3, rec.nid(c)]
            return rows + [co_obs, att_obs(r.attempts)]

        def timing_row(st, durs):
            row = [-4, len(st["clock"])]
            for d in durs or []:
                row += float_obs(d)
            return row

        obs = []
        for st in steps:
            op = st["op"]
            if op[0] == "heal":
                kind, r = st["res"]
                obs.append([-2, 4])
                if kind == "raised":
                    obs.append([1, rec.exn_code(r)])
                else:
                    fr = Fraction(r.final_confidence)
                    obs.append([0, OUTCOMES.get(r.outcome.value, 9), int(r.ubiquitin_tagged is True), fr.numerator, fr.denominator])
                    obs += [[-1]] if r.folded is None else enh_obs(r.folded)
                    row = []
                    for a in r.attempts:
                        fa = Fraction(a.confidence)
                        row += [a.attempt_number, rec.tid(a.raw_output), err_code(a.error_trace), int(a.success is True),
                                fa.numerator, fa.denominator]
                    obs.append(row)
                obs.append(st["stats"])
                hf = r.folded if kind == "ret" else None
                obs.append(timing_row(st, [a.duration_ms for a in hf.attempts] if hf is not None else []))
                obs += st["log"]
                continue
            if op[0] == "register":
                obs.append([-2, 2])
                continue
            if op[0] == "reset":
                obs += [[-2, 3], st["stats"]]
                continue
            kind, r = st["res"]
            if op[0] == "fold":
                obs.append([-2, 0])
                if kind == "raised":
                    obs.append([1, rec.exn_code(r)])
                else:
                    obs.append([0, int(r.valid is True)] + struct_obs(r.structure) + [err_code(r.error_trace)])
            else:
                obs.append([-2, 1])
                if kind == "raised":
                    obs.append([1, rec.exn_code(r)])
                else:
                    obs += enh_obs(r)
            obs.append(st["stats"])
            if op[0] == "enh" and kind == "ret":
                obs.append(timing_row(st, [a.duration_ms for a in r.attempts]))
            else:
                obs.append(timing_row(st, st.get("misfold_durs")))
            obs += st["log"]
        tabs = rec.tables()
        trace = {"rec": rec, "tabs": tabs, "steps": steps, "schemas": schemas, "texts": texts,
                 "text_ids": [rec.texts[t] for t in texts],      # ids are by content: equal texts share one id
                 "npat": len(rec.pats), "nrep": len(rec.reps), "CH": CH, "CL": CL, "S": S, "pre": pre}
        if rec.inconsistent:
            trace["harness_error"] = "oracle answered one key in two ways: %r" % (rec.inconsistent,)
        return obs, trace

    # -- model input -------------------------------------------------------
    def _safe_impl(self, case):
        obs, trace = super()._safe_impl(case)
        self._last = (_json.dumps(case, sort_keys=True), trace)
        return obs, trace

    def coq_case(self, case):
        key = _json.dumps(case, sort_keys=True)
        if getattr(self, "_last", (None, None))[0] != key:
            self._safe_impl(case)
        trace = self._last[1]
        if not isinstance(trace, dict) or "tabs" not in trace:
            return "(mkCase [] [] [] [] [] (mkOTab [] [] [] [] [] [] [] [] 0))"
        t = trace["tabs"]
        cfg = [trace["npat"], trace["nrep"], int(bool(case["misfold"]))]
        tab = "(mkOTab %s %s %s %s %s %s %s %s %s)" % (
            czll(t["strip"]), czll(t["loads"]), czll(t["findall"]), czll(t["sub"]), czll(t["coerce"]),
            czll(t["validate"]), czl(t["none"]), czll(t["cochap"]), cz(3 if case["misfold"] == "raise" else 0))
        ops = []
        for n, op in enumerate(case["ops"]):
            if op[0] == "register":
                ops.append([2, op[1], CO_KINDS.index(op[2])])
            elif op[0] == "reset":
                ops.append([3])
            elif op[0] == "heal":
                m, e = dyadic(op[4])
                if "mock" in heal_opts(op):
                    # the library's generator answers from the error context it is handed; the model's generator is
                    # 'the k-th call returns a text': the texts it actually returned (accessor / console options are
                    # invisible to the model on purpose: they must not change anything)
                    got = trace["steps"][n].get("gen_texts") or [trace["texts"][op[1][0]]]
                    raws = [trace["rec"].texts[t] for t in got]
                else:
                    raws = [trace["text_ids"][i] for i in op[1]]
                ops.append([4, op[2], op[3], m, e] + raws)
            else:
                ops.append([0 if op[0] == "fold" else 1, trace["text_ids"][op[1]], op[2]] + list(op[3] or []))
        reg0 = [[int(k), CO_KINDS.index(v)] for k, v in sorted(case["co"].items())]
        clocks = []
        for n in range(len(case["ops"])):
            row = []
            for v in (trace["steps"][n].get("clock") or []) if n < len(trace["steps"]) else []:
                row += list(dyadic_odd(v)) if not (_math.isnan(v) or _math.isinf(v)) else [0, 0]
            clocks.append(row)
        return "(mkCase %s %s %s %s %s %s)" % (czl(cfg), czl(case["ctor"] or []), czll(reg0), czll(ops), czll(clocks), tab)

    # -- the property, on the implementation's results -----------------------
    @staticmethod
    def effective(case, arg):
        return (arg or None) or (case["ctor"] or None) or DEFAULT

    def monitor(self, case, obs, trace):
        if not isinstance(trace, dict) or trace.get("hang"):
            return Violation("C11/hang", "folding did not return within the watchdog time")
        if trace.get("harness_error") and "steps" not in trace:
            return Violation("C11/harness", str(trace))
        rec = trace["rec"]
        total = good = 0
        pre = trace.get("pre") or {}
        if "exc" in pre:
            return Violation("C11/accessor-raises", f"get_statistics() on a new Chaperone raised {type(pre['exc']).__name__}: {pre['exc']}")
        if "stats" in pre and pre["stats"] != [0] * 10:
            return Violation("C11/statistics", f"counters of a new Chaperone are {pre['stats']}")
        for n, st in enumerate(trace["steps"]):
            op = st["op"]
            if "access_exc" in st:
                e = st["access_exc"]
                return Violation("C11/accessor-raises", f"call {n}: a read-only accessor (FoldedProtein.map / HealingResult.valid, "
                                                        f".structure / get_statistics) raised {type(e).__name__}: {str(e)[:200]}")
            if "access_changed" in st:
                return Violation("C11/accessor-changes-result", f"call {n}: reading the result (FoldedProtein.map with a function that "
                                                                f"returns / raises, HealingResult.valid / .structure) changed it: "
                                                                f"{st['access_changed'][0]} -> {st['access_changed'][1]}")
            if "stats_twice" in st and not (st["stats_twice"][0] == st["stats_twice"][1] == st["stats"]):
                return Violation("C11/statistics", f"call {n}: three consecutive get_statistics() differ: {st['stats_twice']}, {st['stats']}")
            if op[0] == "register":
                continue
            if op[0] == "reset":
                total = good = 0
                if st["stats"] != [0] * 10:
                    return Violation("C11/statistics", f"call {n}: counters after reset_statistics are {st['stats']}")
                continue
            if op[0] == "heal":
                v = self._monitor_heal(case, trace, n, st)
                if v is not None:
                    return v
                total += len(st["gen_calls"])          # one fold per generated text
            else:
                v = self._monitor_call(case, trace, n, st)
                if v is not None:
                    return v
                total += 1
            kind, r = st["res"]
            good += int(kind == "ret" and r.valid is True)
            if st["stats"][0] != total or st["stats"][1] != good:
                return Violation("C11/statistics", f"call {n}: get_statistics reports total/successful {st['stats'][:2]} "
                                                   f"after {total} folds of which {good} valid")
        # extraction candidates are substrings of the text they were extracted from (a test of what
        # c11_provenance_partial leaves to the regex engine)
        for text, ms in rec.substr:
            for m in ms:
                if not (isinstance(m, str) and m in text):
                    return Violation("C11/extraction-not-substring", f"findall produced {m!r:.80} which is not in its input")
        if trace.get("harness_error"):
            return Violation("C11/harness", trace["harness_error"])
        return None

    def _monitor_call(self, case, trace, n, st):
        """The whole property for ONE call of the history, whatever earlier calls did."""
        rec, CH, S = trace["rec"], trace["CH"], trace["S"]
        op = st["op"]
        fn, raw, sidx, arg = op[0], trace["texts"][op[1]], op[2], op[3]
        schema = trace["schemas"][sidx]
        validate = rec.orig_validate[sidx]
        strategies = self.effective(case, arg)
        co_kind = st["reg"].get(sidx)
        callbacks_raise = co_kind == "raise" or case["misfold"] == "raise"
        name = f"call {n} ({'fold' if fn == 'fold' else 'fold_enhanced'}, strategies={[STRATS[i] for i in strategies]})"
        kind, r = st["res"]
        clk_note = f" [time source read {self._clock_text(case, st)}; error_trace={getattr(r, 'error_trace', None)!r:.160}]" if case.get("clock") else ""
        if kind == "raised":
            if isinstance(r, CoRaise) and callbacks_raise:
                return None                    # the user's own callback raised: not demanded
            return Violation("C11/raises", f"{name} raised {type(r).__name__}: {str(r)[:200]}")
        if r.valid is True:
            if not isinstance(r.structure, schema):
                return Violation("C11/valid-not-instance", f"{name}: valid=True but structure is {type(r.structure).__name__}, not the schema")
            try:
                validate(r.structure.model_dump())
            except Exception as e:
                return Violation("C11/valid-not-revalidates", f"{name}: valid structure does not re-validate: {str(e)[:200]}")
            why = self._provenance(rec, st["log"], rec.iid(r.structure), rec.texts[raw])
            if why:
                return Violation("C11/valid-no-provenance", f"{name}: {why}")
        elif r.valid is False:
            if r.structure is not None:
                return Violation("C11/invalid-has-structure", f"{name}: valid=False but a structure is returned")
            if not (isinstance(r.error_trace, str) and r.error_trace):
                return Violation("C11/invalid-no-trace", f"{name}: valid=False without an error trace")
        else:
            return Violation("C11/valid-not-bool", f"{name}: valid is {r.valid!r}")
        if fn == "enh":
            c = r.confidence
            if not (isinstance(c, (int, float)) and 0.0 <= c <= 1.0):
                return Violation("C11/confidence-range", f"{name}: confidence {c!r} outside [0,1]")
            used = r.strategy_used.value if r.strategy_used is not None else None
            if (c == 1.0) != (used == "strict"):
                return Violation("C11/confidence-one-iff-strict", f"{name}: confidence {c!r} with strategy_used={used}")
            if r.valid and (used is None or STRATS.index(used) not in strategies):
                return Violation("C11/strategy-used", f"{name}: strategy_used={used} is not one of the requested strategies")
            if not r.valid and (c != 0.0 or used is not None):
                return Violation("C11/invalid-confidence", f"{name}: invalid fold with confidence {c!r}, strategy_used={used}")
        # clean schema-valid JSON with STRICT first is accepted verbatim
        if strategies[0] == 0 and co_kind is None:
            try:
                want = validate(_json.loads(raw))
            except Exception:
                want = None
            if want is not None:
                if not (r.valid is True and repr(r.structure) == repr(want)):
                    return Violation("C11/strict-not-verbatim", f"{name}: schema-valid JSON with STRICT first gave valid={r.valid} "
                                                                f"{r.structure!r:.100}, json.loads gives {want!r:.100}{clk_note}")
                if fn == "enh" and not (r.strategy_used is not None and r.strategy_used.value == "strict" and r.confidence == 1.0
                                        and r.coercions_applied == [] and len(r.attempts) == 1):
                    return Violation("C11/strict-not-verbatim", f"{name}: schema-valid JSON with STRICT first: strategy_used="
                                                                f"{r.strategy_used}, confidence={r.confidence}, coercions={r.coercions_applied}{clk_note}")
        # the same arguments on a FRESH Chaperone: the other fold must agree (plain/enhanced), the same
        # fold must give the same answer (no verdict carried over from earlier calls)
        if co_kind == "raise":
            return None

        def fresh(which):
            chap = CH.Chaperone(strategies=None if case["ctor"] is None else [S[i] for i in case["ctor"]],
                                co_chaperones={schema: co_fn(co_kind)} if co_kind else None, silent=True)
            f = chap.fold if which == "fold" else chap.fold_enhanced
            try:
                return f(raw, schema, None if arg is None else [S[i] for i in arg])
            except Exception as e:
                return e
        def view(x):
            v = [x.valid, repr(x.structure)]
            if fn == "enh":
                v += [x.confidence, x.strategy_used, list(x.coercions_applied), [(a.strategy, a.success) for a in x.attempts]]
            return v
        if case.get("clock"):
            # validity, structure, strategy, confidence are functions of the text, the schema and the strategies: the same
            # call under the machine's clock must give the same answer as under this case's clock
            ref = fresh(fn)
            if isinstance(ref, Exception):
                return Violation("C11/raises", f"{name}: raised {type(ref).__name__} on a fresh Chaperone: {str(ref)[:150]}")
            if view(ref) != view(r):
                return Violation("C11/clock-dependent", f"{name}: with the time source reading {self._clock_text(case, st)} the call gives "
                                                        f"{view(r)!r:.200}; under the machine's clock (fresh Chaperone) {view(ref)!r:.200}")
        other = fresh("enh" if fn == "fold" else "fold")
        if isinstance(other, Exception):
            return Violation("C11/raises", f"{name}: the other fold raised {type(other).__name__} on a fresh Chaperone: {str(other)[:150]}")
        if other.valid != r.valid or repr(other.structure) != repr(r.structure) or type(other.structure) is not type(r.structure):
            p, e = (r, other) if fn == "fold" else (other, r)
            return Violation("C11/plain-enhanced-disagree", f"{name}: fold gives valid={p.valid} {p.structure!r:.100}; "
                                                            f"fold_enhanced gives valid={e.valid} {e.structure!r:.100}")
        same = fresh(fn)
        if isinstance(same, Exception):
            return Violation("C11/raises", f"{name}: raised {type(same).__name__} on a fresh Chaperone: {str(same)[:150]}")
        if view(same) != view(r):
            return Violation("C11/history-dependent", f"{name}: in this history the call gives {view(r)!r:.200}, on a fresh Chaperone {view(same)!r:.200}")
        return None

    @staticmethod
    def _clock_text(case, st):
        r = st.get("clock") or []
        return f"{r[:6]!r}{'...' if len(r) > 6 else ''} ({len(r)} readings; clock {case.get('clock')})"

    def _monitor_heal(self, case, trace, n, st):
        """The property for a fold REPORTED THROUGH the healing loop (ChaperoneLoop.heal drives fold_enhanced on this
        Chaperone and hands back the EnhancedFoldedProtein of the first valid attempt, or nothing)."""
        rec, CH, CL, S = trace["rec"], trace["CH"], trace["CL"], trace["S"]
        op = st["op"]
        idxs, sidx, mr, decay = op[1], op[2], op[3], op[4]
        schema = trace["schemas"][sidx]
        validate = rec.orig_validate[sidx]
        strategies = self.effective(case, None)
        co_kind = st["reg"].get(sidx)
        callbacks_raise = co_kind == "raise" or case["misfold"] == "raise"
        name = f"call {n} (ChaperoneLoop(max_retries={mr}, confidence_decay={decay!r}).heal, strategies={[STRATS[i] for i in strategies]})"
        kind, h = st["res"]
        if kind == "raised":
            if isinstance(h, CoRaise) and callbacks_raise:
                return None
            return Violation("C11/raises", f"{name} raised {type(h).__name__}: {str(h)[:200]}")
        raws = list(st["gen_texts"])            # what the generator returned, call by call
        # the oracle calls of each fold_enhanced the loop made
        segs, cur = [], None
        for row in st["log"]:
            if row[0] == -3:
                cur = []
                segs.append(cur)
            elif cur is not None:
                cur.append(row)
        f = h.folded
        if h.valid:
            if f is None or f.valid is not True:
                return Violation("C11/valid-not-instance", f"{name}: outcome {h.outcome.value} without a valid folded protein")
            if not isinstance(f.structure, schema) or h.structure is not f.structure:
                return Violation("C11/valid-not-instance", f"{name}: healed, but the structure is {type(f.structure).__name__}, not the schema")
            try:
                validate(f.structure.model_dump())
            except Exception as e:
                return Violation("C11/valid-not-revalidates", f"{name}: healed structure does not re-validate: {str(e)[:200]}")
            if not raws or not segs:
                return Violation("C11/valid-no-provenance", f"{name}: a structure is reported although no text was generated")
            why = self._provenance(rec, segs[-1], rec.iid(f.structure), rec.texts[raws[-1]])
            if why:
                return Violation("C11/valid-no-provenance", f"{name}: attempt {len(raws) - 1}: {why}")
            used = f.strategy_used.value if f.strategy_used is not None else None
            for what, c in (("folded.confidence", f.confidence), ("final_confidence", h.final_confidence)):
                if not (isinstance(c, (int, float)) and 0.0 <= c <= 1.0):
                    return Violation("C11/confidence-range", f"{name}: valid fold {f.structure!r:.80} after {len(raws)} generation(s) "
                                                             f"reported with {what}={c!r}, outside [0,1]")
                if c == 1.0 and used != "strict":
                    return Violation("C11/confidence-one-iff-strict", f"{name}: {what}={c!r} with strategy_used={used}")
            if used is None or STRATS.index(used) not in strategies:
                return Violation("C11/strategy-used", f"{name}: strategy_used={used} is not one of the requested strategies")
        else:
            if f is not None or h.structure is not None:
                return Violation("C11/invalid-has-structure", f"{name}: outcome {h.outcome.value} but a folded protein / structure is returned")
            for a in h.attempts:
                if a.success or not (isinstance(a.error_trace, str) and a.error_trace):
                    return Violation("C11/invalid-no-trace", f"{name}: degraded, attempt {a.attempt_number} has no error trace")
            if isinstance(mr, int) and mr >= 0 and not h.attempts:
                return Violation("C11/invalid-no-trace", f"{name}: degraded without any recorded attempt")
        # every generated text: clean schema-valid JSON with STRICT first is accepted verbatim, there and then
        for k, raw in enumerate(raws):
            if strategies[0] != 0 or co_kind is not None:
                break
            try:
                want = validate(_json.loads(raw))
            except Exception:
                want = None
            if want is None:
                continue
            okay = (h.valid and k == len(raws) - 1 and repr(f.structure) == repr(want) and f.strategy_used is not None
                    and f.strategy_used.value == "strict" and f.coercions_applied == [])
            if okay and k == 0:
                okay = f.confidence == 1.0 and h.outcome.value == "valid_first_try"
            if not okay:
                return Violation("C11/strict-not-verbatim", f"{name}: generation {k} is schema-valid JSON ({want!r:.80}) but the loop reports "
                                                            f"{h.outcome.value}, {h.structure!r:.80}, strategy_used="
                                                            f"{getattr(f, 'strategy_used', None)}, confidence={getattr(f, 'confidence', None)}")
        if co_kind == "raise":
            return None
        # plain fold of every generated text on a FRESH Chaperone agrees with what the loop recorded for it
        ctor = None if case["ctor"] is None else [S[i] for i in case["ctor"]]

        def fresh_chap():
            return CH.Chaperone(strategies=ctor, co_chaperones={schema: co_fn(co_kind)} if co_kind else None, silent=True)

        def view(x):
            v = [x.outcome.value, repr(x.structure), x.final_confidence, [(a.raw_output, a.success, a.confidence) for a in x.attempts]]
            if x.folded is not None:
                g = x.folded
                v += [g.valid, g.confidence, g.strategy_used, list(g.coercions_applied), [(a.strategy, a.success) for a in g.attempts]]
            return v

        def same_loop():
            return CL.ChaperoneLoop(generator=make_generator(CL, op, trace["texts"], lambda k, ctx, text: None),
                                    chaperone=fresh_chap(), schema=schema, max_retries=mr,
                                    confidence_decay=decay, silent=True).heal("p")
        if case.get("clock"):
            try:
                ref = same_loop()
            except Exception as e:
                return Violation("C11/raises", f"{name}: raised {type(e).__name__} on a fresh Chaperone: {str(e)[:150]}")
            if view(ref) != view(h):
                return Violation("C11/clock-dependent", f"{name}: with the time source reading {self._clock_text(case, st)} the loop gives "
                                                        f"{view(h)!r:.200}; under the machine's clock (fresh Chaperone) {view(ref)!r:.200}")
        for k, raw in enumerate(raws):
            try:
                p = fresh_chap().fold(raw, schema)
            except Exception as e:
                return Violation("C11/raises", f"{name}: fold of generation {k} raised {type(e).__name__} on a fresh Chaperone: {str(e)[:150]}")
            got_valid = bool(h.valid and k == len(raws) - 1)
            got = h.structure if got_valid else None
            if p.valid != got_valid or repr(p.structure) != repr(got) or type(p.structure) is not type(got):
                return Violation("C11/plain-enhanced-disagree", f"{name}: generation {k}: fold gives valid={p.valid} {p.structure!r:.100}; "
                                                                f"the loop's fold_enhanced gives valid={got_valid} {got!r:.100}")
        # the same loop on a FRESH Chaperone: same answer (nothing carried over from earlier calls)
        # (always with silent=True and the default constructor knobs: console output and max_retries of the Chaperone
        # must not change anything either)
        try:
            same = same_loop()
        except Exception as e:
            return Violation("C11/raises", f"{name}: raised {type(e).__name__} on a fresh Chaperone: {str(e)[:150]}")
        if view(same) != view(h):
            return Violation("C11/history-dependent", f"{name}: in this history the loop gives {view(h)!r:.200}, on a fresh Chaperone {view(same)!r:.200}")
        return None

    @staticmethod
    def _provenance(rec, log, sid, raw_id):
        """The structure was returned by model_validate, during this fold, on a value obtained by json.loads
        (possibly through the coercion table) from a text derived from the raw text by oracle calls only."""
        strip = {}
        for s, t in list(rec.texts.items()):
            if isinstance(s, str) and s.strip() in rec.texts:
                strip[t] = rec.texts[s.strip()]
        derived, parsed = {raw_id}, set()
        ok = False
        for row in log:
            derived |= {strip[t] for t in list(derived) if t in strip}
            k = row[0]
            if k == 6 and row[1] in derived and row[2] == 0:
                derived.add(row[3])
            elif k == 2 and row[2] in derived and row[3] == 0:
                derived |= set(row[4:])
            elif k == 3 and row[2] in derived and row[3] == 0:
                derived.add(row[4])
            elif k == 1 and row[1] in derived and row[2] == 0:
                parsed.add(row[3])
            elif k == 4 and row[1] in parsed and row[2] == 0:
                parsed.add(row[3])
            elif k == 5 and row[2] == 0 and row[3] == sid:
                if row[1] in parsed:
                    ok = True
        if ok:
            return None
        if not any(r[0] == 5 and r[2] == 0 and r[3] == sid for r in log):
            return "the returned structure was not produced by a schema.model_validate call made during the fold"
        return "the validated value does not come from json.loads of a text derived from the raw text"

    @staticmethod
    def _calls(case):
        return [op for op in case["ops"] if op[0] in ("fold", "enh")]

    def nontrivial(self, case, obs, trace):
        return (bool([t for t in case["tags"] if t != "pair"]) or bool(case["ctor"]) or bool(case["co"]) or bool(case["misfold"])
                or len(self._calls(case)) > 2 or any(op[3] for op in self._calls(case))
                or any(op[0] == "heal" for op in case["ops"]) or bool(case.get("knobs")) or bool(case.get("access"))
                or bool(case.get("clock")))

    def classify(self, case, obs, trace):
        ks = ["op=" + o for o in case["tags"]] or ["op=clean"]
        calls = self._calls(case)
        ks.append("calls=%d" % len(calls))
        if len(case["ops"]) > len(calls):
            ks += ["op:" + op[0] for op in case["ops"] if op[0] in ("register", "reset", "heal")]
        if len({(op[1], op[2]) for op in calls}) < len(calls):
            ks.append("repeated-text+schema")
        if len({(op[1], op[2], tuple(self.effective(case, op[3]))) for op in calls}) > len({(op[1], op[2]) for op in calls}):
            ks.append("same-text-different-strategies")
        if case["co"]:
            ks += ["co=" + v for v in case["co"].values()]
        if case["misfold"]:
            ks.append("misfold=" + case["misfold"])
        for k_, v_ in sorted((case.get("knobs") or {}).items()):
            ks.append("chaperone-%s=%r" % (k_, v_))
        if case.get("access"):
            ks.append("accessors-interleaved")
        if case["ctor"] == []:
            ks.append("ctor-strategies=[]")
        if isinstance(trace, dict) and "steps" in trace:
            for st in trace["steps"]:
                rd = st.get("clock") or []
                if st["op"][0] in ("fold", "enh", "heal"):
                    ks.append("clock-readings=" + ("0" if not rd else "2" if len(rd) == 2 else "4..8" if len(rd) <= 8 else "10+"))
                pairs = [(rd[i], rd[i + 1]) for i in range(0, len(rd) - 1, 2)]
                if any(a == b for a, b in pairs):
                    ks.append("clock:two-readings-equal(duration=0)")
                if any(b < a for a, b in pairs):
                    ks.append("clock:second-reading-earlier(duration<0)")
                if any(b > a for a, b in pairs):
                    ks.append("clock:duration>0")
        if isinstance(trace, dict) and "steps" in trace:
            for st in trace["steps"]:
                if "res" not in st:
                    continue
                kind, r = st["res"]
                if st["op"][0] == "heal":
                    decay, k = st["op"][4], len(st["gen_calls"])
                    ks.append("heal-decay=%r" % decay)
                    o = heal_opts(st["op"])
                    if "mock" in o:
                        ks.append("heal-mock-generator")
                        ks.append("heal-mock:" + ("healed-text-returned" if k > 1 and st["gen_texts"][-1] != st["gen_texts"][0]
                                                  else "initial-text-only"))
                    if o.get("loud"):
                        ks.append("heal-silent=False")
                        for key, word in (("Healed after", "healed"), ("Misfolded output detected", "misfolded"),
                                          ("UBIQUITIN_TAG", "ubiquitin")):
                            if key in st.get("printed", ""):
                                ks.append("heal-printed:" + word)
                    if kind == "raised":
                        ks.append("heal=raised")
                        continue
                    ks.append("heal=" + r.outcome.value)
                    ks.append("heal-generations=%s" % (k if k < 5 else "5+"))
                    if r.valid:
                        prod = (k - 1) * decay
                        ks.append("heal-valid:retries*decay" + ("<1" if prod < 1 else "=1" if prod == 1 else ">1"))
                        ks.append("heal-valid=" + (r.folded.strategy_used.value if r.folded.strategy_used else "?"))
                    continue
                ks.append("strategies=%d" % len(self.effective(case, st["op"][3])))
                if kind == "raised":
                    ks.append("raised")
                elif r.valid:
                    if st["op"][0] == "enh":
                        ks.append("valid=" + r.strategy_used.value if r.strategy_used else "valid=?")
                        ks.append("coercions=%d" % len(r.coercions_applied))
                        if r.strategy_used and r.strategy_used.value in ("lenient", "repair") and len(r.coercions_applied) >= 7:
                            ks.append("confidence-floor:" + r.strategy_used.value)
                    else:
                        ks.append("valid(fold)")
                else:
                    ks.append("invalid")
                for row in st["log"]:
                    if row[0] in (1, 5) and row[2] == 3:
                        ks.append("oracle-raised-other:" + ("loads" if row[0] == 1 else "validate"))
                    if row[0] == 4 and row[2] == 3:
                        ks.append("oracle-raised-other:coerce")
        return sorted(set(ks))

    def shrink(self, case, pred):
        case = dict(case)
        case["ops"] = common.shrink_list(case["ops"], lambda l: len(l) > 0 and pred({**case, "ops": l}))
        for i, op in enumerate(case["ops"]):
            if op[0] in ("fold", "enh") and op[3]:
                for cand in (None, op[3][:1]):
                    ops2 = [list(o) for o in case["ops"]]
                    ops2[i][3] = cand
                    try:
                        if cand != op[3] and pred({**case, "ops": ops2}):
                            case["ops"] = ops2
                            break
                    except Exception:
                        pass
        for i, op in enumerate(case["ops"]):
            if op[0] != "heal":
                continue
            # fewer retries allowed / a shorter run of generations, as long as the same thing still fails
            changed = True
            while changed:
                changed = False
                cur = case["ops"][i]
                if "mock" in heal_opts(cur):
                    cands = [[*cur[:3], cur[3] - 1, *cur[4:]]] if cur[3] > 0 else []
                else:
                    cands = [[*cur[:3], len(cur[1]) - 1, *cur[4:]]] if cur[3] != len(cur[1]) - 1 else []
                    cands += [["heal", cur[1][:j] + cur[1][j + 1:], cur[2], cur[3] - 1, *cur[4:]] for j in range(len(cur[1]) - 1)]
                if heal_opts(cur).get("loud"):
                    cands.append([*cur[:5], {k: v for k, v in cur[5].items() if k != "loud"}])
                for cand in cands:
                    ops2 = [list(o) for o in case["ops"]]
                    ops2[i] = cand
                    try:
                        if pred({**case, "ops": ops2}):
                            case["ops"] = ops2
                            changed = True
                            break
                    except Exception:
                        pass
        # drop texts no remaining call mentions
        used = sorted({j for op in case["ops"] if op[0] == "heal" for j in op[1]}
                      | {op[1] for op in case["ops"] if op[0] in ("fold", "enh")})
        if used and len(used) < len(case["texts"]):
            remap = {j: n for n, j in enumerate(used)}
            ops2 = []
            for op in case["ops"]:
                if op[0] == "heal":
                    ops2.append(["heal", [remap[j] for j in op[1]], *op[2:]])
                elif op[0] in ("fold", "enh"):
                    ops2.append([op[0], remap[op[1]], *op[2:]])
                else:
                    ops2.append(list(op))
            cand = {**case, "texts": [case["texts"][j] for j in used], "ops": ops2}
            try:
                if pred(cand):
                    case = cand
            except Exception:
                pass
        for key in ("misfold",):
            if case[key] and pred({**case, key: None}):
                case[key] = None
        if case.get("clock"):
            for cand in ({k: v for k, v in case.items() if k != "clock"}, {**case, "clock": dict(CLOCKS["frozen"])},
                         {**case, "clock": dict(CLOCKS["coarse-2"])}):
                try:
                    if cand.get("clock") != case.get("clock") and pred(cand):
                        case = cand
                        break
                except Exception:
                    pass
        for key in ("knobs", "access"):
            if case.get(key):
                cand = {k: v for k, v in case.items() if k != key}
                try:
                    if pred(cand):
                        case = cand
                except Exception:
                    pass
        if case["ctor"] and pred({**case, "ctor": None}):
            case["ctor"] = None
        for ti in range(len(case["texts"])):
            raw = parts_text(case["texts"][ti])
            if len(raw) <= 2000:
                def with_text(cs, ti=ti):
                    tx = list(case["texts"])
                    tx[ti] = to_parts("".join(cs))
                    return {**case, "texts": tx}
                chars = common.shrink_list(list(raw), lambda cs: pred(with_text(cs)), max_rounds=300)
                case = with_text(chars)
        return case


CHECK = C11
