"""C05 — energy store operations are atomic under every thread interleaving."""
import itertools
import json

from . import common, sched
from .common import Check, Violation, cz, clist, ctuple, cnat
from . import c04 as C4

TARGET = ("state/metabolism.py",)
METHODS = ["consume", "regenerate", "transfer_to", "convert_nadh_to_atp", "enter_dormancy", "exit_dormancy",
           "reset", "apply_debt_interest"]


def ret_code(r, exc):
    if exc is not None:
        return [3, 0]
    if r is None:
        return [0, 0]
    if isinstance(r, bool):
        return [1, int(r)]
    if isinstance(r, int):
        return [2, r]
    return [5, 0]


class RecLock(sched.SchedLock):
    """SchedLock that also records the order in which critical sections start."""

    def __init__(self, s, reentrant, name, world, record=True, group=None):
        super().__init__(s, reentrant, name, group)
        self.world = world
        self.record = record

    def acquire(self, blocking=True, timeout=-1):
        tid = self.sched.current_tid()
        outer = not (self.owner == tid and self.count > 0)
        r = super().acquire(blocking, timeout)
        if outer and tid is not None and self.record:
            self.world.coarse.append(tid)
        return r

    def __enter__(self):
        return self.acquire()


def coq_op(op):
    k = op[0]
    if k == "consume":
        _, i, cost, t, allow, prio = op
        return f"Local {cnat(i)} (Consume {cz(cost)} {t} {'true' if allow else 'false'} {cz(prio)})"
    if k == "regen":
        return f"Local {cnat(op[1])} (Regenerate {cz(op[2])} {op[3]})"
    if k == "transfer":
        return f"Transfer {cnat(op[1])} {cnat(op[2])} {cz(op[3])} {op[4]}"
    if k == "convert":
        return f"Local {cnat(op[1])} (Convert {cz(op[2])})"
    return f"Local {cnat(op[1])} " + {"dorm": "EnterDormancy", "wake": "ExitDormancy", "interest": "Interest", "reset": "Reset"}[k]


class _ThreadingShim:
    """What `threading` is for metabolism.py while a schedule runs: a lock the module creates from a scheduled thread
    (lazily, or to replace one) is a scheduler-aware lock too, so that it can be pre-empted around like the others."""

    def __init__(self, real, world, s):
        self._real, self._world, self._s, self._n = real, world, s, 0

    def _mk(self, reentrant):
        if self._s.current_tid() is None:
            return self._real.RLock() if reentrant else self._real.Lock()
        self._n += 1
        return RecLock(self._s, reentrant, f"made-during-run-{self._n}", self._world, record=True)

    def Lock(self):
        return self._mk(False)

    def RLock(self):
        return self._mk(True)

    def __getattr__(self, name):
        return getattr(self._real, name)


def _provenance(store, how):
    """The store the threads share is not always the object the constructor returned: a shallow copy, a deep copy or a
    pickle round trip of a fresh store (where the implementation refuses one of these, the next milder one is used)."""
    if not how:
        return store
    import sys
    old_hook = sys.unraisablehook
    sys.unraisablehook = lambda *a: None      # a half-built copy the implementation refused is finalised quietly
    try:
        return _provenance1(store, how)
    finally:
        sys.unraisablehook = old_hook


def _provenance1(store, how):
    import copy
    import pickle
    if how == "pickle":
        try:
            return pickle.loads(pickle.dumps(store))
        except Exception:
            how = "deepcopy"
    if how == "deepcopy":
        try:
            return copy.deepcopy(store)
        except Exception:
            how = "copy"
    if how == "copy":
        try:
            return copy.copy(store)
        except Exception:
            return store
    return store


class World:
    """Real ATP_Store objects with scheduler-aware locks + the threads' programs."""

    def __init__(self, case, s):
        from operon_ai.state import metabolism as M
        self.M = M
        C4._snap.mod = M
        self.stores = C4._mk_stores(M, case["stores"])
        self.stores = [_provenance(st, c.get("prov")) for st, c in zip(self.stores, case["stores"])]
        self._real_threading = M.threading if not isinstance(M.threading, _ThreadingShim) else M.threading._real
        M.threading = _ThreadingShim(self._real_threading, self, s)
        self.coarse = []             # tid of each outermost critical section, in order
        # locks that live in the module (shared by all stores) are put under the scheduler's control as well
        self._module_locks = {}
        for name, v in list(vars(M).items()):
            if type(v).__name__ in ("lock", "RLock"):
                self._module_locks[name] = v
                setattr(M, name, RecLock(s, type(v).__name__ == "RLock", f"module.{name}", self, record=False,
                                         group="module"))
        for i, st in enumerate(self.stores):
            # every lock object the store owns is put under the scheduler's control, not only `_lock`
            for attr, v in list(vars(st).items()):
                if type(v).__name__ in ("lock", "RLock"):
                    setattr(st, attr, RecLock(s, type(v).__name__ == "RLock", f"{i}.{attr}", self,
                                              record=(attr == "_lock"), group=i))
        self.results = [[] for _ in case["threads"]]
        self.fns = []
        for tid, prog in enumerate(case["threads"]):
            def run(tid=tid, prog=prog):
                for op in prog:
                    r, exc = None, None
                    try:
                        r = C4._apply(M, self.stores, tuple(op))
                    except sched.Deadlock:
                        raise
                    except Exception as e:  # noqa
                        exc = e
                    self.results[tid].append(ret_code(r, exc))
            self.fns.append(run)

    def restore(self):
        self.M.threading = self._real_threading
        for name, v in self._module_locks.items():
            setattr(self.M, name, v)

    def outcome(self):
        self.restore()
        snaps = [C4._snap(st) for st in self.stores]
        return {"results": [list(r) for r in self.results], "stores": snaps, "coarse": list(self.coarse)}


def run_fine(case, prefix):
    holder = {}

    def make_world(s):
        w = World(case, s)
        holder["w"] = w
        return w.fns, w.outcome

    import contextlib
    import io
    loud = any(c.get("silent") is False for c in case["stores"])
    try:
        with (contextlib.redirect_stdout(io.StringIO()) if loud else contextlib.nullcontext()):
            s, out = sched.run_schedule(make_world, prefix, TARGET)
    finally:
        w = holder.get("w")
        if w is not None:
            w.restore()
    return s, out


def _quiet(case):
    """stdout captured while stores that report on stdout are at work"""
    import contextlib
    import io
    loud = any(c.get("silent") is False for c in case["stores"])
    return contextlib.redirect_stdout(io.StringIO()) if loud else contextlib.nullcontext()


def _jitter_run(case, seed):
    """One run of the program on real threads and real locks; returns (outcome, some thread did not finish)."""
    import random
    import sys
    import threading
    import time
    from operon_ai.state import metabolism as M
    C4._snap.mod = M
    stores = C4._mk_stores(M, case["stores"])
    stores = [_provenance(st, c.get("prov")) for st, c in zip(stores, case["stores"])]
    results = [[] for _ in case["threads"]]
    target = M.__file__
    barrier = threading.Barrier(len(case["threads"]))

    def run(tid, prog):
        rng = random.Random(f"{seed}:{tid}")

        def local(frame, event, arg):
            if event == "line" and rng.random() < 0.5:
                time.sleep(rng.choice([0.0, 0.0002, 0.0005, 0.001]))
            return local

        def tracer(frame, event, arg):
            return local if frame.f_code.co_filename == target else None
        try:
            barrier.wait(2.0)
        except Exception:
            pass
        sys.settrace(tracer)
        try:
            for op in prog:
                r, exc = None, None
                try:
                    r = C4._apply(M, stores, tuple(op))
                except Exception as e:  # noqa
                    exc = e
                results[tid].append(ret_code(r, exc))
        finally:
            sys.settrace(None)

    ths = [threading.Thread(target=run, args=(t, p), daemon=True) for t, p in enumerate(case["threads"])]
    for t in ths:
        t.start()
    deadline = time.time() + 5.0
    for t in ths:
        t.join(max(0.0, deadline - time.time()))
    hung = any(t.is_alive() for t in ths)
    snaps = [C4._snap(st) for st in stores]
    return {"results": [list(r) for r in results], "stores": snaps, "coarse": []}, hung


class C05(Check):
    PID = "C05"
    HEADER = "From Verif Require Import C04.Model C05.Model."
    RUN = "run_case5"
    CASE_TYPE = "case5"
    N_QUICK = 10          # programs; each explored over many schedules
    N_THOROUGH = 120
    extra_dirs = ("C04",)
    RULE = ("programs of 2-3 threads x 1-3 calls (consume in 3 currencies with/without debt, regenerate, "
            "convert_nadh_to_atp, transfer_to incl. opposite directions) on 1-2 shared ATP_Store objects with small contended "
            "balances; real threads driven by a deterministic scheduler (sys.settrace) that yields at every lock "
            "acquire/release and at every source line of metabolism.py executed while holding no store lock; schedules "
            "explored systematically by stateless DFS with a preemption bound (2 quick / 3 thorough) plus the corpus "
            "programs; each explored schedule is one case. non-trivial = the schedule contains a context switch between "
            "two calls touching the same store; distinct by (program, schedule)")
    LEVEL_TEXT = ("Coq theorems for any number of threads, calls and stores: the C04 ledger invariant holds after every prefix "
                  "of every schedule of critical sections; transfer-free schedules equal a sequential history of the same calls "
                  "(no lost update) and their successful spends are bounded by what was available; the lock programs compiled "
                  "from the method bodies extracted from the source are safe (one lock at a time), hence no deadlock in any "
                  "reachable configuration (opposite transfers included). Whole-call atomicity of transfer_to is refuted (known "
                  "finding C05/transfer-two-phase). The coarse semantics is justified by Gen_C05_ok: each method is exactly one "
                  "`with self._lock` section containing every shared-field access; mutual exclusion of `with lock` is trusted.")
    LEVEL_NOTE = ("Trusts: Coq kernel+VM; translators/locks.py; Python `with lock` mutual exclusion; CPython runs a source line "
                  "of these methods without switching threads inside it (`x += y` on an attribute); harness/sched.py. "
                  "Schedule exploration is validation and failing-input search, not the proof. No axioms.")
    TECHNIQUE = "Coq proof over schedules of critical sections (reusing C04's lemmas) + lock-structure translator + deterministic-scheduler correspondence"
    TRUSTED = ["`with self._lock` gives mutual exclusion; a source line inside these methods is atomic w.r.t. thread switches",
               "translators/locks.py: flat instruction list of each method (lock regions, shared-field accesses, foreign calls)",
               "harness/sched.py: line-level deterministic scheduler; lines inside a held store lock are not yield points"]
    ASSUMPTIONS = ["on_state_change callback not supplied (it is invoked while the store lock is held)",
                   "apply_debt_interest takes no lock: outside the property's operation list, observed only",
                   "background regeneration thread off"]

    def translate(self):
        from translators import locks
        txt = locks.emit(common.REPO / "operon_ai/state/metabolism.py", "ATP_Store", METHODS, "gen",
                         "From Verif Require Import Common.LockIR.")
        common.write_if_changed(common.GEN / "Gen_C05.v", txt)
        # C05's theorems about the generated critical sections import coq/C04/GenOk.v, which needs Gen_C04.v
        from translators import c04_gen
        common.write_if_changed(common.GEN / "Gen_C04.v", c04_gen.emit(common.REPO / "operon_ai/state/metabolism.py"))

    # -- programs ------------------------------------------------------------------
    def _rand_program(self, rng):
        ns = rng.choice([1, 2, 2])
        stores = []
        for _ in range(ns):
            stores.append({"budget": rng.choice([5, 5, 10, 3]), "gtp": rng.choice([0, 0, 5]), "nadh": rng.choice([0, 0, 3]),
                           "max_debt": rng.choice([0, 0, 5]), "rate": 0.5})
        nt = rng.choice([2, 2, 3])
        threads = []
        for _ in range(nt):
            prog = []
            if rng.random() < 0.3:      # make headroom first so that convert / regenerate have something to do
                prog.append(["consume", rng.randrange(ns), rng.choice([3, 4, 5]), "ATP", False, 0])
            for _ in range(rng.choice([1, 1, 2, 2, 3]) if nt == 2 else rng.choice([1, 1, 2])):
                i = rng.randrange(ns)
                k = rng.random()
                if k < 0.45:
                    prog.append(["consume", i, rng.choice([5, 5, 3, 8, 10]), rng.choice(["ATP", "ATP", "ATP", "GTP", "NADH"]),
                                 rng.random() < 0.3, rng.choice([0, 0, 10])])
                elif k < 0.6:
                    prog.append(["regen", i, rng.choice([5, 3, 10]), rng.choice(["ATP", "ATP", "NADH"])])
                elif k < 0.7:
                    prog.append(["convert", i, rng.choice([2, 3, 5])])
                elif ns > 1:
                    prog.append(["transfer", i, 1 - i, rng.choice([5, 3]), rng.choice(["ATP", "ATP", "GTP"])])
                else:
                    prog.append(["consume", i, 5, "ATP", False, 0])
            threads.append(prog)
        if rng.random() < 0.25:
            stores = [dict(c, silent=False) for c in stores]      # the constructor's default: every call reports on stdout
        if rng.random() < 0.25:
            how = rng.choice(["copy", "deepcopy", "pickle"])
            stores = [dict(c, prov=how) if rng.random() < 0.8 else c for c in stores]
        return {"stores": stores, "threads": threads}

    CORPUS_PROGRAMS = [
        # the known finding: transfer interleaved with spends on both stores (B drained first)
        {"stores": [{"budget": 5, "gtp": 0, "nadh": 0, "max_debt": 0, "rate": 0.5}] * 2,
         "threads": [[["transfer", 0, 1, 5, "ATP"]],
                     [["consume", 1, 5, "ATP", False, 0], ["consume", 0, 5, "ATP", False, 0], ["consume", 1, 5, "ATP", False, 0]]]},
        # double spend attempt
        {"stores": [{"budget": 5, "gtp": 0, "nadh": 0, "max_debt": 0, "rate": 0.5}],
         "threads": [[["consume", 0, 5, "ATP", False, 0]], [["consume", 0, 5, "ATP", False, 0]]]},
        # opposite-direction transfers
        {"stores": [{"budget": 5, "gtp": 0, "nadh": 0, "max_debt": 0, "rate": 0.5}] * 2,
         "threads": [[["transfer", 0, 1, 3, "ATP"]], [["transfer", 1, 0, 3, "ATP"]]]},
        # convert racing with draws on the NADH reserve (headroom created first)
        {"stores": [{"budget": 10, "gtp": 0, "nadh": 5, "max_debt": 0, "rate": 0.5}],
         "threads": [[["consume", 0, 6, "ATP", False, 0], ["convert", 0, 5]], [["consume", 0, 5, "NADH", False, 0]]]},
        {"stores": [{"budget": 10, "gtp": 0, "nadh": 5, "max_debt": 0, "rate": 0.5}],
         "threads": [[["consume", 0, 8, "ATP", False, 0], ["convert", 0, 5]], [["consume", 0, 6, "ATP", False, 0]]]},
        {"stores": [{"budget": 10, "gtp": 0, "nadh": 4, "max_debt": 0, "rate": 0.5}],
         "threads": [[["consume", 0, 7, "ATP", False, 0], ["convert", 0, 4]], [["convert", 0, 4]]]},
        # ATP spend topping up from the NADH reserve vs. a direct NADH spend / transfer of the same reserve
        {"stores": [{"budget": 5, "gtp": 0, "nadh": 3, "max_debt": 0, "rate": 0.5}],
         "threads": [[["consume", 0, 7, "ATP", False, 0]], [["consume", 0, 3, "NADH", False, 0]]]},
        {"stores": [{"budget": 5, "gtp": 0, "nadh": 4, "max_debt": 0, "rate": 0.5}, {"budget": 5, "gtp": 0, "nadh": 4, "max_debt": 0, "rate": 0.5}],
         "threads": [[["consume", 0, 8, "ATP", False, 0]], [["transfer", 0, 1, 3, "NADH"], ["regen", 0, 2, "NADH"]]]},
        # a transfer in flight while the donor takes on debt (every spend branch must respect what the transfer holds)
        {"stores": [{"budget": 8, "gtp": 0, "nadh": 0, "max_debt": 6, "rate": 0.5}, {"budget": 5, "gtp": 0, "nadh": 0, "max_debt": 0, "rate": 0.5}],
         "threads": [[["transfer", 0, 1, 5, "ATP"]], [["consume", 0, 6, "ATP", True, 0]]]},
        {"stores": [{"budget": 4, "gtp": 0, "nadh": 2, "max_debt": 9, "rate": 0.5}, {"budget": 5, "gtp": 0, "nadh": 0, "max_debt": 0, "rate": 0.5}],
         "threads": [[["transfer", 0, 1, 3, "ATP"], ["transfer", 0, 1, 1, "NADH"]], [["consume", 0, 5, "ATP", True, 0], ["consume", 0, 3, "NADH", True, 0]]]},
        # an under-funded spend that may go into debt, racing with income / another spend (each decision of consume must be
        # taken on the state it acts on)
        {"stores": [{"budget": 50, "gtp": 0, "nadh": 0, "max_debt": 30, "rate": 0.5}],
         "threads": [[["consume", 0, 40, "ATP", False, 0], ["consume", 0, 30, "ATP", True, 0]], [["regen", 0, 40, "ATP"]]]},
        {"stores": [{"budget": 100, "gtp": 0, "nadh": 0, "max_debt": 50, "rate": 0.5}],
         "threads": [[["consume", 0, 80, "ATP", False, 0], ["consume", 0, 30, "ATP", True, 10]], [["consume", 0, 12, "ATP", False, 0]]]},
        {"stores": [{"budget": 10, "gtp": 0, "nadh": 6, "max_debt": 8, "rate": 0.5}],
         "threads": [[["consume", 0, 20, "ATP", True, 0]], [["regen", 0, 9, "ATP"], ["consume", 0, 4, "NADH", False, 0]]]},
        # reset while spends are queued behind it and arrive after it
        {"stores": [{"budget": 10, "gtp": 0, "nadh": 0, "max_debt": 0, "rate": 0.5}],
         "threads": [[["reset", 0]], [["consume", 0, 6, "ATP", False, 0]], [["consume", 0, 6, "ATP", False, 0]]]},
        {"stores": [{"budget": 10, "gtp": 0, "nadh": 0, "max_debt": 0, "rate": 0.5}],
         "threads": [[["consume", 0, 3, "ATP", False, 0], ["reset", 0]], [["consume", 0, 6, "ATP", False, 0]], [["consume", 0, 6, "ATP", False, 0]]]},
        # spend with NADH top-up vs convert
        {"stores": [{"budget": 5, "gtp": 0, "nadh": 3, "max_debt": 5, "rate": 0.5}],
         "threads": [[["consume", 0, 8, "ATP", True, 0]], [["convert", 0, 3], ["regen", 0, 5, "ATP"]]]},
        # a NADH-rich donor asked for more ATP than it holds (a transfer may not dip into the reserve), twice at once
        {"stores": [{"budget": 10, "gtp": 0, "nadh": 10, "max_debt": 0, "rate": 0.5}, {"budget": 5, "gtp": 0, "nadh": 0, "max_debt": 0, "rate": 0.5}],
         "threads": [[["transfer", 0, 1, 8, "ATP"]], [["transfer", 0, 1, 8, "ATP"]]]},
        {"stores": [{"budget": 3, "gtp": 0, "nadh": 3, "max_debt": 0, "rate": 0.5}, {"budget": 5, "gtp": 0, "nadh": 0, "max_debt": 0, "rate": 0.5}],
         "threads": [[["transfer", 0, 1, 5, "ATP"]], [["consume", 0, 2, "ATP", False, 0], ["transfer", 0, 1, 3, "ATP"]]]},
        # a refused spend racing with income, then the same spend again (whatever a refusal leaves behind must not outlive
        # the income)
        {"stores": [{"budget": 100, "gtp": 0, "nadh": 0, "max_debt": 0, "rate": 0.5}], "explore": 260,
         "threads": [[["consume", 0, 70, "ATP", False, 10], ["consume", 0, 50, "ATP", False, 10]],
                     [["regen", 0, 40, "ATP"], ["consume", 0, 50, "ATP", False, 10]]]},
        {"stores": [{"budget": 10, "gtp": 10, "nadh": 0, "max_debt": 0, "rate": 0.5}],
         "threads": [[["consume", 0, 8, "GTP", False, 10], ["consume", 0, 5, "GTP", False, 10]],
                     [["regen", 0, 5, "GTP"], ["consume", 0, 5, "GTP", False, 10]]]},
        # stores that report on stdout (the constructor's default): a transfer racing with calls that print under the lock
        {"stores": [{"budget": 100, "gtp": 0, "nadh": 0, "max_debt": 0, "rate": 0.5, "silent": False},
                    {"budget": 50, "gtp": 0, "nadh": 0, "max_debt": 0, "rate": 0.5, "silent": False}],
         "threads": [[["transfer", 0, 1, 10, "ATP"]], [["consume", 0, 70, "ATP", False, 0]]]},
        {"stores": [{"budget": 10, "gtp": 0, "nadh": 5, "max_debt": 5, "rate": 0.5, "silent": False},
                    {"budget": 5, "gtp": 0, "nadh": 0, "max_debt": 0, "rate": 0.5, "silent": False}],
         "threads": [[["transfer", 0, 1, 3, "ATP"], ["convert", 0, 2]], [["consume", 0, 12, "ATP", True, 10], ["transfer", 1, 0, 2, "ATP"]]]},
        # the shared store is a copy / deep copy / pickle round trip of a fresh one, and its first two calls overlap
        {"stores": [{"budget": 10, "gtp": 0, "nadh": 0, "max_debt": 0, "rate": 0.5, "prov": "copy"}],
         "threads": [[["consume", 0, 6, "ATP", False, 0]], [["consume", 0, 6, "ATP", False, 0]]]},
        {"stores": [{"budget": 10, "gtp": 0, "nadh": 0, "max_debt": 0, "rate": 0.5, "prov": "pickle"}],
         "threads": [[["consume", 0, 6, "ATP", False, 0]], [["consume", 0, 6, "ATP", False, 0]], [["regen", 0, 3, "ATP"]]]},
        {"stores": [{"budget": 5, "gtp": 0, "nadh": 0, "max_debt": 0, "rate": 0.5, "prov": "deepcopy"}] * 2,
         "threads": [[["transfer", 0, 1, 3, "ATP"]], [["transfer", 1, 0, 3, "ATP"], ["consume", 0, 5, "ATP", False, 0]]]},
    ]

    def _explore(self, prog, bound, max_runs):
        """systematic preemption-bounded DFS; yields cases (program + full schedule)."""
        stack = [[]]
        runs = 0
        seen = set()
        while stack and runs < max_runs:
            prefix = stack.pop()
            s, out = run_fine(prog, prefix)
            runs += 1
            if s.stalled is not None:
                # a thread is blocked on something the scheduler does not control (a lock the implementation made while
                # the threads were running, a sleep): parking threads at source lines is not faithful for this program.
                # It is left to the real-thread runs (extra_checks) and to the lock-discipline obligation.
                self.extra_cov.setdefault("programs_not_schedulable", []).append(
                    {"stores": prog["stores"], "threads": prog["threads"]})
                return
            chosen = [c for c, _ in s.trace if c is not None]
            key = tuple(chosen)
            if key in seen:
                continue
            seen.add(key)
            yield {"stores": prog["stores"], "threads": prog["threads"], "schedule": chosen}
            for i in range(len(s.trace) - 1, len(prefix) - 1, -1):
                c, enabled = s.trace[i]
                if c is None:
                    continue
                for alt in enabled:
                    if alt == c:
                        continue
                    cand = chosen[:i] + [alt]
                    if self._preemptions(cand, s.trace) <= bound:
                        stack.append(cand)

    @staticmethod
    def _preemptions(cand, trace):
        n = 0
        for i in range(1, len(cand)):
            if cand[i] != cand[i - 1] and i < len(trace) and cand[i - 1] in trace[i][1]:
                n += 1
        return n

    def gen_cases(self, rng, n):
        bound = 2 if self.tier == "quick" else 3
        per = 50 if self.tier == "quick" else 250
        out = []
        progs = list(self.CORPUS_PROGRAMS) + [self._rand_program(rng) for _ in range(n)]
        for p in progs:
            # a corpus program may ask for a larger share of schedules (its window is reached late in the search order)
            out.extend(self._explore(p, bound, max(per, p.get("explore", 0))))
        self.extra_cov["programs"] = len(progs)
        return out

    # -- implementation -------------------------------------------------------------
    def run_impl(self, case):
        s, out = run_fine(case, case["schedule"])
        obs = []
        for tid, prog in enumerate(case["threads"]):
            res = out["results"][tid]
            row = [x for r in res for x in r]
            # unfinished calls + pending flag cannot be read off the implementation directly:
            # a thread that did not finish (deadlock) shows up as missing results
            row += [len(prog) - len(res), 0]
            obs.append(row)
        obs.append([x for st in out["stores"] for x in C4._row(st)])
        trace = {"out": out, "deadlock": s.deadlock and s.stalled is None, "stalled": s.stalled is not None,
                 "errors": {k: repr(v) for k, v in s.errors.items()}, "fine": [c for c, _ in s.trace]}
        return obs, trace

    def coq_case(self, case):
        out = self._last_out(case)
        cfgs = []
        for c in case["stores"]:
            rn, rd = float(c["rate"]).as_integer_ratio()
            cfgs.append(ctuple(cz(c["budget"]), cz(c["gtp"]), cz(c["nadh"]), cz(c["max_debt"]), cz(rn), cz(rd)))
        threads = [clist([coq_op(o) for o in prog]) for prog in case["threads"]]
        coarse = clist([cnat(t) for t in out["coarse"]])
        return ctuple(clist(cfgs), clist(threads), coarse)

    def _last_out(self, case):
        if getattr(self, "_o_case", None) is case:
            return self._o
        obs, trace = self.run_impl(case)
        return trace["out"]

    def _safe_impl(self, case):
        obs, trace = super()._safe_impl(case)
        if isinstance(trace, dict) and "out" in trace:
            self._o_case, self._o = case, trace["out"]
        return obs, trace

    # -- the property on the implementation ----------------------------------------------
    def monitor(self, case, obs, trace):
        if trace.get("harness_error"):
            return Violation("C05/harness", str(trace))
        if trace.get("stalled"):
            return None        # not a schedule the scheduler controls (see _explore); judged by the real-thread runs
        if trace["deadlock"]:
            return Violation("C05/deadlock", f"all unfinished threads are blocked on store locks (fine schedule {trace['fine']})")
        if trace["errors"]:
            return Violation("C05/raises", f"a store call raised: {trace['errors']}")
        out = trace["out"]
        for i, st in enumerate(out["stores"]):
            if min(st["atp"], st["gtp"], st["nadh"], st["debt"]) < 0:
                return Violation("C05/negative-balance", f"store {i} ended with {st}")
            if st["debt"] > st["max_debt"]:
                return Violation("C05/debt-over-limit", f"store {i} ended with {st}")
        # sum of successful spends <= what was available (initial balances + debt room + inflows requested)
        for i, cfg in enumerate(case["stores"]):
            spent = inflow = 0
            for tid, prog in enumerate(case["threads"]):
                for k, op in enumerate(prog):
                    r = out["results"][tid][k] if k < len(out["results"][tid]) else None
                    if op[0] == "consume" and op[1] == i and r == [1, 1]:
                        spent += op[2]
                    if op[0] == "regen" and op[1] == i:
                        inflow += op[2]
                    if op[0] == "transfer" and op[2] == i:
                        inflow += op[3]
                    if op[0] == "reset" and op[1] == i:
                        # a reset refills every pool and clears the debt: at most one more full budget per reset
                        inflow += cfg["budget"] + cfg["gtp"] + cfg["nadh"] + cfg["max_debt"]
            avail = cfg["budget"] + cfg["gtp"] + cfg["nadh"] + cfg["max_debt"] + inflow
            if spent > avail:
                return Violation("C05/overspend", f"store {i}: successful spends {spent} > available {avail}")
        # equivalence to some sequential order of the same calls
        seq = self._sequential_outcomes(case)
        key = self._key(out)
        if key not in seq:
            if any(op[0] == "transfer" for p in case["threads"] for op in p) and key in self._sequential_outcomes(case, split=True):
                return Violation("C05/transfer-two-phase",
                                 "outcome not reachable by any sequential order of the calls, but reachable when each "
                                 "transfer_to is split into withdraw; deposit")
            return Violation("C05/not-serialisable", f"outcome {key} is reachable under no sequential order of the same calls")
        return None

    @staticmethod
    def _key(out):
        return json.dumps([out["results"], [C4._row(s)[:4] for s in out["stores"]]])

    def _sequential_outcomes(self, case, split=False):
        ck = (json.dumps([case["stores"], case["threads"]]), split)
        cache = self.__dict__.setdefault("_seq_cache", {})
        if ck in cache:
            return cache[ck]
        from operon_ai.state import metabolism as M
        C4._snap.mod = M
        progs = []
        for p in case["threads"]:
            q = []
            for op in p:
                if split and op[0] == "transfer":
                    q.append(("w", op))
                    q.append(("d", op))
                else:
                    q.append(("c", op))
            progs.append(q)
        outs = set()

        def merges(idx):
            if all(idx[t] == len(progs[t]) for t in range(len(progs))):
                yield []
                return
            for t in range(len(progs)):
                if idx[t] < len(progs[t]):
                    idx2 = list(idx)
                    idx2[t] += 1
                    for rest in merges(idx2):
                        yield [t] + rest

        for order in merges([0] * len(progs)):
          with _quiet(case):
            stores = C4._mk_stores(M, case["stores"])
            pos = [0] * len(progs)
            results = [[] for _ in progs]
            pend = {}
            for t in order:
                kind, op = progs[t][pos[t]]
                pos[t] += 1
                if kind == "c":
                    try:
                        r, e = C4._apply(M, stores, tuple(op)), None
                    except Exception as ex:  # noqa
                        r, e = None, ex
                    results[t].append(ret_code(r, e))
                elif kind == "w":
                    _, i, j, amount, et = op
                    bal = C4._snap(stores[i])[et.lower()]
                    if bal < amount:
                        results[t].append([1, 0])
                        pend[t] = None
                    else:
                        setattr(stores[i], et.lower(), bal - amount)
                        pend[t] = op
                else:
                    if pend.get(t):
                        _, i, j, amount, et = op
                        stores[j].regenerate(amount, C4._etype(M, et))
                        results[t].append([1, 1])
            outs.add(json.dumps([results, [C4._row(C4._snap(s))[:4] for s in stores]]))
        cache[ck] = outs
        return outs

    # -- a call that raises inside a critical section must not wedge the store -----------------
    def extra_checks(self):
        """Programs in which one call raises INSIDE its critical section (a state-change listener that raises once,
        or an argument of the wrong type): every other call must still return.  Monitor only (the model has no
        callbacks); explored with the same scheduler."""
        from operon_ai.state import metabolism as M
        C4._snap.mod = M
        n_runs = 0
        scenarios = [
            ("listener raises once during consume", {"budget": 100, "gtp": 0, "nadh": 0, "max_debt": 0, "rate": 0.5},
             [[["consume", 0, 75, "ATP", False, 0]], [["regen", 0, 10, "ATP"], ["consume", 0, 5, "ATP", False, 10]]], "listener"),
            ("bad argument type in transfer", {"budget": 50, "gtp": 0, "nadh": 0, "max_debt": 0, "rate": 0.5},
             [[["transfer", 0, 1, None, "ATP"]], [["transfer", 1, 0, 10, "ATP"], ["consume", 0, 5, "ATP", False, 0]]], "badarg"),
        ]
        for what, cfg, threads, kind in scenarios:
            case = {"stores": [cfg, cfg], "threads": threads}

            def make_world(s, case=case, kind=kind):
                w = World(case, s)
                if kind == "listener":
                    fired = []

                    def listener(state):
                        if not fired:
                            fired.append(1)
                            raise RuntimeError("listener failed")
                    w.stores[0].on_state_change = listener
                return w.fns, w.outcome

            # what the same calls give one after the other, in every order, with the same failing listener / argument
            ref = set()

            def orders(idx):
                if all(idx[t] == len(threads[t]) for t in range(len(threads))):
                    yield []
                    return
                for t in range(len(threads)):
                    if idx[t] < len(threads[t]):
                        idx2 = list(idx)
                        idx2[t] += 1
                        for rest in orders(idx2):
                            yield [t] + rest
            wedged = False
            for order in orders([0] * len(threads)):
                def one_order(order=order):
                    stores = C4._mk_stores(M, case["stores"])
                    if kind == "listener":
                        fired = []

                        def listener(state, fired=fired):
                            if not fired:
                                fired.append(1)
                                raise RuntimeError("listener failed")
                        stores[0].on_state_change = listener
                    pos = [0] * len(threads)
                    results = [[] for _ in threads]
                    for t in order:
                        op = threads[t][pos[t]]
                        pos[t] += 1
                        try:
                            r, e = C4._apply(M, stores, tuple(op)), None
                        except Exception as ex:  # noqa
                            r, e = None, ex
                        results[t].append(ret_code(r, e))
                    return json.dumps([results, [C4._row(C4._snap(st))[:4] for st in stores]])
                try:
                    ref.add(common.call_with_watchdog(one_order, 5.0))
                except common.Hang:
                    # even one after the other: a call made after the one that raised never returns
                    self.violations.append(Violation(
                        "C05/deadlock", f"{what}: the calls made ONE AFTER THE OTHER in thread order {order}: after a call raised "
                        f"inside its critical section a later call never returned (store lock leaked)",
                        case={"stores": [cfg, cfg], "threads": threads, "schedule": [], "sequential_order": order, "scenario": what}))
                    wedged = True
                    break
            if wedged:
                continue
            stack, seen = [[]], set()
            while stack and len(seen) < (40 if self.tier == "quick" else 300):
                prefix = stack.pop()
                s, out = sched.run_schedule(make_world, prefix, TARGET)
                n_runs += 1
                chosen = [c for c, _ in s.trace if c is not None]
                if tuple(chosen) in seen:
                    continue
                seen.add(tuple(chosen))
                unfinished = [t for t, prog in enumerate(threads) if len(out["results"][t]) < len(prog)]
                if s.deadlock or unfinished:
                    self.violations.append(Violation(
                        "C05/deadlock", f"{what}: after a call raised inside its critical section, threads {unfinished} "
                        f"never returned (store lock leaked); schedule {chosen}",
                        case={"stores": [cfg, cfg], "threads": threads, "schedule": chosen, "scenario": what}))
                    break
                if not s.errors and self._key(out) not in ref:
                    self.violations.append(Violation(
                        "C05/not-serialisable", f"{what}: the outcome {self._key(out)} is reachable under no sequential order of the "
                        f"same calls (with the same failing callback / argument); schedule {chosen}",
                        case={"stores": [cfg, cfg], "threads": threads, "schedule": chosen, "scenario": what}))
                    break
                for i in range(len(s.trace) - 1, len(prefix) - 1, -1):
                    c, enabled = s.trace[i]
                    if c is None:
                        continue
                    for alt in enabled:
                        if alt != c and self._preemptions(chosen[:i] + [alt], s.trace) <= 1:
                            stack.append(chosen[:i] + [alt])
        self.extra_cov["exception_in_critical_section_runs"] = n_runs
        # Real threads on real locks, no scheduler: every source line of metabolism.py a thread executes may be followed by
        # a short sleep (which releases the interpreter lock), so that windows of a line or two are hit within a few runs.
        # This reaches what the scheduler cannot put under its control: locks the implementation creates while the threads
        # are already running (for a store that is a copy / deep copy / pickle round trip of a fresh one, say).  An outcome
        # found this way is judged by the same monitor; it is an observation of the real code, whatever produced it.
        progs = [p for p in self.CORPUS_PROGRAMS if any(c.get("prov") for c in p["stores"])]
        progs += [p for p in self.CORPUS_PROGRAMS[:9] if not any(c.get("prov") for c in p["stores"])]
        base = [{"stores": [{"budget": 100, "gtp": 0, "nadh": 0, "max_debt": 0, "rate": 0.5}],
                 "threads": [[["consume", 0, 60, "ATP", False, 0]], [["consume", 0, 60, "ATP", False, 0]]]},
                {"stores": [{"budget": 10, "gtp": 0, "nadh": 4, "max_debt": 0, "rate": 0.5}],
                 "threads": [[["consume", 0, 8, "ATP", False, 0], ["convert", 0, 4]], [["consume", 0, 4, "NADH", False, 0]],
                             [["regen", 0, 5, "ATP"]]]}]
        for b in base:
            for how in ("copy", "deepcopy", "pickle"):
                progs.append({"stores": [dict(c, prov=how) for c in b["stores"]], "threads": b["threads"]})
        per = 10 if self.tier == "quick" else 60
        n_j = 0
        for pi, prog in enumerate(progs):
            for k in range(per):
                with _quiet(prog):
                    out, hung = _jitter_run(prog, f"C05:jitter:{self.seed}:{pi}:{k}")
                n_j += 1
                case = {"stores": prog["stores"], "threads": prog["threads"], "schedule": [], "jitter_seed": f"{self.seed}:{pi}:{k}"}
                v = self.monitor(case, None, {"out": out, "deadlock": hung, "errors": {}, "fine": "real threads, line jitter"})
                if v is not None:
                    v.case = case
                    v.what = "real threads with line-level jitter: " + v.what
                    self.violations.append(v)
                    break
        self.extra_cov["jitter_runs"] = n_j

    def known_witnesses(self):
        return []

    def nontrivial(self, case, obs, trace):
        coarse = trace.get("out", {}).get("coarse", [])
        return any(coarse[i] != coarse[i - 1] for i in range(1, len(coarse)))

    def classify(self, case, obs, trace):
        ks = [f"threads={len(case['threads'])}", f"stores={len(case['stores'])}"]
        coarse = trace.get("out", {}).get("coarse", [])
        ks.append(f"switches={sum(1 for i in range(1, len(coarse)) if coarse[i] != coarse[i-1])}")
        if any(op[0] == "transfer" for p in case["threads"] for op in p):
            ks.append("has-transfer")
        return ks


CHECK = C05
