(* C10 — strings, case folding, substring search and a total regex matcher.
   Executable definitions only (no proofs); proofs are in RegexProofs.v.

   Strings are lists of code points (Z).  Everything that depends on a
   character classification takes a [charcls] record (case fold, \w, \s, \d),
   so that the theorems hold for EVERY classification satisfying [cc_ok]
   (stated in RegexProofs.v); the executable instance [py_cc] is Python's
   classification on ASCII plus the handful of non-ASCII code points the
   harness generator uses (the harness asserts Python agrees on each of them).

   Python facts modelled here (trusted, checked per pattern on every run by
   comparing [search] with the real compiled pattern's .search):
     - str patterns, flags = re.IGNORECASE: a literal c matches x iff
       fold x = fold c; categories \s \w \d are case-blind; '.' is any code
       point but '\n' (no DOTALL); \b is "exactly one of the two neighbours is
       a \w character", the outside of the string counting as non-word;
     - bool(re.search) is independent of greediness and of group numbering.
   The regex AST is what translators/regex_to_coq.py emits from CPython's
   re._parser.parse; anything it does not support is [Unrecognised], which
   matches nothing and makes [recognised] (hence Gen_C10_ok) false.
   A CUSTOM regex the AST cannot express (back-references, conditionals, lazy
   quantifiers ...) is a host pattern, [KHost f] below: matched by the host
   engine, f an arbitrary function of the content in every theorem. *)
From Coq Require Import String ZArith List Bool.
Import ListNotations.
Open Scope Z_scope.

Record charcls := mkCC {
  cc_fold : Z -> Z;          (* simple lower-casing of one code point *)
  cc_word : Z -> bool;       (* \w *)
  cc_space : Z -> bool;      (* \s *)
  cc_digit : Z -> bool }.    (* \d *)

Definition between (lo hi c : Z) : bool := (lo <=? c) && (c <=? hi).
Fixpoint zmem (c : Z) (l : list Z) : bool :=
  match l with [] => false | x :: r => (x =? c) || zmem c r end.

Definition ascii_lower (c : Z) : Z := if between 65 90 c then c + 32 else c.

(* non-ASCII code points of the generator alphabet.
   Case-less ones: U+4E2D CJK, U+0663 ARABIC-INDIC DIGIT THREE are \w (the
   latter also \d); U+0085, U+00A0, U+2003 are \s; U+20AC, U+2014, U+1F600,
   U+D800 are none.
   DECORATIONS of a signature occurrence (round 6):
   - combining marks and invisible format characters - U+0300 U+0301 U+0303
     U+0308 U+0323 U+0327 (Mn), U+20DD (Me), U+3099, U+FE0F (Mn), U+200B U+200D
     U+00AD (Cf): case-less, not \w, not \s, not \d, i.e. for str.lower and
     for sre they are ordinary non-word characters (nothing here composes them
     with their neighbour);
   - compatibility characters: FULLWIDTH digits U+FF10-FF19 (\w, \d), FULLWIDTH
     capitals U+FF21-FF3A (\w, lower = +32) and small letters U+FF41-FF5A (\w),
     U+3000 IDEOGRAPHIC SPACE (\s), U+FF3F, U+FF05 (none), U+FB01 LATIN SMALL
     LIGATURE FI, U+1D41A MATHEMATICAL BOLD SMALL A, U+00B2 SUPERSCRIPT TWO,
     U+2170 SMALL ROMAN NUMERAL ONE (\w, their own lower), U+24D0 CIRCLED SMALL
     A (none), and U+212A KELVIN SIGN: \w and lower = 'k' - the one compatibility
     character that IS a case variant of an ASCII letter for str.lower and sre;
   - precomposed letters U+00E9, U+015B, U+1E31 (\w, lower-case) and U+00C9,
     U+1E30 (\w, lower = U+00E9, U+1E31).
   (U+017F, U+0130, U+0131 are NOT in the alphabet: sre's IGNORECASE equates them
   with s / i while str.lower does not - see TRUSTED in harness/c10.py.) *)
Definition extra_word : list Z :=
  [20013; 1635; 8490; 64257; 119834; 178; 8560; 233; 201; 347; 7729; 7728].
Definition extra_digit : list Z := [1635].
Definition extra_space : list Z := [133; 160; 8195; 12288].

Definition fw_digit (c : Z) : bool := between 65296 65305 c.
Definition fw_upper (c : Z) : bool := between 65313 65338 c.
Definition fw_lower (c : Z) : bool := between 65345 65370 c.

(* str.lower() of one code point, on the alphabet.  (ASCII first: most of every
   content is ASCII, and the matcher asks these questions once per step.) *)
Definition py_fold (c : Z) : Z :=
  if c <? 128 then ascii_lower c
  else if fw_upper c then c + 32
  else if c =? 8490 then 107
  else if c =? 201 then 233
  else if c =? 7728 then 7729
  else c.

Definition py_digit (c : Z) : bool :=
  if c <? 128 then between 48 57 c else fw_digit c || zmem c extra_digit.
Definition py_word (c : Z) : bool :=
  if c <? 128 then between 48 57 c || between 65 90 c || between 97 122 c || (c =? 95)
  else fw_digit c || fw_upper c || fw_lower c || zmem c extra_word.
Definition py_space (c : Z) : bool :=
  if c <? 128 then between 9 13 c || between 28 32 c else zmem c extra_space.

Definition py_cc : charcls := mkCC py_fold py_word py_space py_digit.

(* ---- strings ----------------------------------------------------------- *)

Definition lower (cc : charcls) (s : list Z) : list Z := map (cc_fold cc) s.

Fixpoint prefixb (p s : list Z) : bool :=
  match p, s with
  | [], _ => true
  | x :: p', y :: s' => if x =? y then prefixb p' s' else false
  | _ :: _, [] => false
  end.

(* Python's  p in s  *)
Fixpoint infixb (p s : list Z) : bool :=
  if prefixb p s then true else match s with [] => false | _ :: s' => infixb p s' end.

(* ---- regex AST ---------------------------------------------------------- *)

Inductive cat := CDigit | CSpace | CWord.
Inductive sitem :=
  | IChr (c : Z)                     (* literal inside [...] *)
  | ICat (k : cat) (neg : bool).     (* \d \s \w and \D \S \W *)

Inductive regex :=
  | Eps
  | Chr (c : Z)
  | Any                              (* '.' without DOTALL *)
  | CSet (neg : bool) (items : list sitem)
  | Seq (a b : regex)
  | Alt (a b : regex)
  | Star (a : regex)
  | WordB                            (* \b *)
  | Unrecognised (what : string).

Definition Plus (r : regex) : regex := Seq r (Star r).
Definition Opt (r : regex) : regex := Alt r Eps.
Fixpoint SeqL (l : list regex) : regex :=
  match l with [] => Eps | [r] => r | r :: l' => Seq r (SeqL l') end.
Fixpoint AltL (l : list regex) : regex :=
  match l with [] => Unrecognised "empty branch" | [r] => r | r :: l' => Alt r (AltL l') end.
Definition Lit (s : list Z) : regex := SeqL (map Chr s).

Fixpoint recognised (r : regex) : bool :=
  match r with
  | Unrecognised _ => false
  | Seq a b | Alt a b => recognised a && recognised b
  | Star a => recognised a
  | _ => true
  end.

Fixpoint wb_free (r : regex) : bool :=
  match r with
  | WordB => false
  | Seq a b | Alt a b => wb_free a && wb_free b
  | Star a => wb_free a
  | _ => true
  end.

(* can r match the empty string (syntactically)? *)
Fixpoint nullable (r : regex) : bool :=
  match r with
  | Eps | WordB | Star _ => true
  | Chr _ | Any | CSet _ _ | Unrecognised _ => false
  | Seq a b => nullable a && nullable b
  | Alt a b => nullable a || nullable b
  end.

(* no \b of r can be evaluated at the very end of a match (every \b is followed
   by something that consumes a character): the right edge is not \b-anchored *)
Fixpoint edge_free_r (r : regex) : bool :=
  match r with
  | WordB => false
  | Seq a b => (edge_free_r a || negb (nullable b)) && edge_free_r b
  | Alt a b => edge_free_r a && edge_free_r b
  | Star a => edge_free_r a
  | _ => true
  end.

(* no \b of r can be evaluated at the very start of a match: the left edge is
   not \b-anchored *)
Fixpoint edge_free_l (r : regex) : bool :=
  match r with
  | WordB => false
  | Seq a b => edge_free_l a && (edge_free_l b || negb (nullable a))
  | Alt a b => edge_free_l a && edge_free_l b
  | Star a => edge_free_l a
  | _ => true
  end.

(* ---- matcher ------------------------------------------------------------ *)

(* A matcher state is a position in the subject: whether the previous
   character is a \w character (false at the very start) and the rest. *)
Definition state := (bool * list Z)%type.

Definition cat_test (cc : charcls) (k : cat) (x : Z) : bool :=
  match k with CDigit => cc_digit cc x | CSpace => cc_space cc x | CWord => cc_word cc x end.
Definition item_test (cc : charcls) (x : Z) (it : sitem) : bool :=
  match it with
  | IChr c => cc_fold cc x =? cc_fold cc c
  | ICat k neg => xorb neg (cat_test cc k x)
  end.

Definition head_word (cc : charcls) (l : list Z) : bool :=
  match l with [] => false | x :: _ => cc_word cc x end.

(* is the last character of k a \w character (pw when k is empty) *)
Fixpoint last_word (cc : charcls) (pw : bool) (k : list Z) : bool :=
  match k with [] => pw | x :: k' => last_word cc (cc_word cc x) k' end.

(* consume one character satisfying t *)
Definition one (cc : charcls) (t : Z -> bool) (a : state) : list state :=
  match snd a with
  | x :: l => if t x then [(cc_word cc x, l)] else []
  | [] => []
  end.

Definition chr_test (cc : charcls) (c x : Z) : bool := cc_fold cc x =? cc_fold cc c.
Definition any_test (x : Z) : bool := negb (x =? 10).
Definition set_test (cc : charcls) (neg : bool) (items : list sitem) (x : Z) : bool :=
  xorb neg (existsb (item_test cc x) items).

Definition shorter (a b : state) : bool := (length (snd b) <? length (snd a))%nat.

(* All states reachable from [front] by >= 0 iterations of f, each iteration
   consuming at least one character.  fuel = (longest rest in front) + 1 is
   enough (ends_complete in RegexProofs.v): running out of fuel is never
   observed. *)
Fixpoint star_iter (f : state -> list state) (fuel : nat) (front : list state) : list state :=
  match fuel with
  | O => []
  | S n =>
      match front with
      | [] => []
      | _ => front ++ star_iter f n (flat_map (fun a => filter (shorter a) (f a)) front)
      end
  end.

(* end states of all matches of r starting in state a *)
Fixpoint ends (cc : charcls) (r : regex) : state -> list state :=
  match r with
  | Eps => fun a => [a]
  | Chr c => one cc (chr_test cc c)
  | Any => one cc any_test
  | CSet neg items => one cc (set_test cc neg items)
  | Seq r1 r2 => let e1 := ends cc r1 in let e2 := ends cc r2 in
                 fun a => flat_map e2 (e1 a)
  | Alt r1 r2 => let e1 := ends cc r1 in let e2 := ends cc r2 in
                 fun a => e1 a ++ e2 a
  | Star r1 => let e1 := ends cc r1 in
               fun a => star_iter e1 (S (length (snd a))) [a]
  | WordB => fun a => if xorb (fst a) (head_word cc (snd a)) then [a] else []
  | Unrecognised _ => fun _ => []
  end.

Definition nonempty {A} (l : list A) : bool := match l with [] => false | _ => true end.

(* bool(re.search): some start position has a match *)
Fixpoint search_from (cc : charcls) (r : regex) (pw : bool) (rest : list Z) : bool :=
  if nonempty (ends cc r (pw, rest)) then true
  else match rest with
       | [] => false
       | x :: l => search_from cc r (cc_word cc x) l
       end.

Definition search (cc : charcls) (r : regex) (s : list Z) : bool := search_from cc r false s.

(* ---- signatures ----------------------------------------------------------- *)

(* ThreatSignature / TLRPattern: a case-insensitive substring or a regex,
   with a level (membrane: ThreatLevel value, innate: severity).  [s_key] is
   the pattern source text (the key of Membrane._learned_patterns); [s_id]
   names the signature in observations. *)
(* [KHost f]: a pattern that is handed to the host regex engine and uses
   constructs OUTSIDE the AST above (numbered / named back-references,
   conditional groups, lazy quantifiers, scoped flags, look-ahead ...: not
   regular, so no term of [regex] denotes them).  Its matcher is an ARBITRARY
   function of the content - and of nothing else: not of the other signatures
   it is installed with, not of the state.  Theorems quantify over every f;
   run_case is handed the function as a table recorded from CPython's re on
   that single pattern (Run.v: tab). *)
Inductive sigkind := KSub (p : list Z) | KRx (r : regex) | KHost (f : list Z -> bool).
Record sig := mkSig { s_id : Z; s_key : list Z; s_kind : sigkind; s_level : Z }.

(* ThreatSignature.matches / TLRPattern.matches *)
Definition sig_matches (cc : charcls) (g : sig) (content : list Z) : bool :=
  match s_kind g with
  | KSub p => infixb (lower cc p) (lower cc content)
  | KRx r => search cc r content
  | KHost f => f content
  end.

(* the shipped signatures must all be inside the AST: a host pattern is not *)
Definition sig_recognised (g : sig) : bool :=
  match s_kind g with KSub _ => true | KRx r => recognised r | KHost _ => false end.

Definition sig_edge_free_l (g : sig) : bool :=
  match s_kind g with KSub _ => true | KRx r => edge_free_l r | KHost _ => false end.
Definition sig_edge_free_r (g : sig) : bool :=
  match s_kind g with KSub _ => true | KRx r => edge_free_r r | KHost _ => false end.
