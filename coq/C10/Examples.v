(* C10 — non-vacuity examples (concrete states meeting the hypotheses of the
   theorems of Property.v, by vm_compute), the necessity of the side condition
   of c10_embed_stable_regex, and refutations of the pre-repair behaviour. *)
From Coq Require Import String ZArith List Bool Lia.
From Verif Require Import C10.Regex C10.RegexProofs C10.Model C10.Proofs C10.LiveProofs C10.HandlerProofs.
Import ListNotations.
Open Scope Z_scope.

(* "ignore previous" (substring, CRITICAL), \bfoo\b (regex, DANGEROUS),
   "tea" (substring, SUSPICIOUS) *)
Definition s_ignore := mkSig 0 [105;103;110;111;114;101;32;112;114;101;118;105;111;117;115]
  (KSub [105;103;110;111;114;101;32;112;114;101;118;105;111;117;115]) 3.
Definition r_foo := SeqL [WordB; Lit [102;111;111]; WordB].
Definition s_foo := mkSig 1 [92;98;102;111;111;92;98] (KRx r_foo) 2.
Definition s_tea := mkSig 2 [116;101;97] (KSub [116;101;97]) 1.
Definition cfg0 := mkMC py_cc (fun x => x) None true.
Definition cfg2 := mkMC py_cc (fun x => x) (Some 2) true.
Definition st0 := minit [s_ignore; s_foo; s_tea] 2 1000.

Definition x_hello := [104;101;108;108;111].                         (* "hello" *)
Definition x_attack := [73;71;78;79;82;69;32;112;114;101;118;105;111;117;115].  (* "IGNORE previous" *)
Definition x_attack' := [105;103;110;111;114;101;32;80;82;69;86;73;79;85;83]. (* "ignore PREVIOUS" *)
Definition x_foo := [102;111;111].                                   (* "foo" *)
Definition x_tea := [116;101;97].

(* c10_allowed_sound / c10_level_is_max: an allowed scan, a blocked scan with
   the level of the matching signature, a scan whose level is below threshold *)
Example ex_scans :
  let r1 := snd (mfilter cfg0 st0 x_hello) in
  let r2 := snd (mfilter cfg0 st0 x_attack) in
  let r3 := snd (mfilter cfg0 st0 x_tea) in
  (r_kind r1, r_allowed r1, r_level r1, map s_id (r_matched r1)) = (Scanned, true, 0, []) /\
  (r_kind r2, r_allowed r2, r_level r2, map s_id (r_matched r2)) = (Scanned, false, 3, [0]) /\
  (r_kind r3, r_allowed r3, r_level r3, map s_id (r_matched r3)) = (Scanned, true, 1, [2]).
Proof. vm_compute. auto. Qed.

(* c10_case_stable: two different strings with the same lower() *)
Example ex_case : x_attack <> x_attack' /\ lower py_cc x_attack = lower py_cc x_attack' /\
  r_allowed (snd (mfilter cfg0 st0 x_attack')) = false.
Proof. vm_compute. repeat split; auto. discriminate. Qed.

(* c10_embed_stable_regex: "foo" in "a foo, b" (edges are non-word) ... *)
Example ex_embed :
  search py_cc r_foo x_foo = true /\
  last_word py_cc false [97;32] = false /\ head_word py_cc [44;32;98] = false /\
  search py_cc r_foo ([97;32] ++ x_foo ++ [44;32;98]) = true.
Proof. vm_compute. auto. Qed.

(* ... and the side condition is needed: "xfoo" no longer contains \bfoo\b.
   (The signature itself stops matching: nothing is being "kept blocked".) *)
Lemma c10_embed_side_condition_needed :
  exists cc r s pre post, search cc r s = true /\ search cc r (pre ++ s ++ post) = false.
Proof. exists py_cc, r_foo, x_foo, [120], []. vm_compute. auto. Qed.

(* one-sided anchoring: \byou\s+are\s+now\s+\w+ is \b-anchored on the left
   only, so a \w character glued on the right is harmless ("you are now botX") *)
Definition r_now := SeqL [WordB; Lit [121;111;117]; Plus (CSet false [ICat CSpace false]); Lit [97;114;101];
                          Plus (CSet false [ICat CSpace false]); Lit [110;111;119];
                          Plus (CSet false [ICat CSpace false]); Plus (CSet false [ICat CWord false])].
Example ex_one_sided :
  edge_free_l r_now = false /\ edge_free_r r_now = true /\
  search py_cc r_now [121;111;117;32;97;114;101;32;110;111;119;32;98] = true /\
  head_word py_cc [88] = true /\
  search py_cc r_now ([46;32] ++ [121;111;117;32;97;114;101;32;110;111;119;32;98] ++ [88]) = true.
Proof. vm_compute. auto. Qed.

(* c10_replay_memory_monotone: learn, block, then forget + raise the threshold
   + tick: the same input is still refused (and reported CRITICAL without
   matches), while a case variant of it, which the relaxed rules allow, is not
   remembered (memory is by exact content hash, by design) *)
Definition s_learn := mkSig 7 [115;101;99;114;101;116] (KSub [115;101;99;114;101;116]) 2.   (* "secret" *)
Definition x_secret := [109;121;32;115;101;99;114;101;116].       (* "my secret" *)
Definition x_Secret := [109;121;32;83;101;99;114;101;116].        (* "my Secret" *)
Example ex_replay :
  let '(st1, _) := mstep cfg0 st0 (OLearn s_learn) in
  let '(st2, r) := mfilter cfg0 st1 x_secret in
  let st3 := fst (mrun cfg0 st2 [OForget (s_key s_learn); OSetThreshold 3; OTick 500; OClearAudit]) in
  (r_kind r, r_allowed r) = (Scanned, false) /\
  (let r' := snd (mfilter cfg0 st3 x_secret) in (r_kind r', r_allowed r', r_level r', r_matched r') = (Replay, false, 3, [])) /\
  r_allowed (snd (mfilter cfg0 st3 x_Secret)) = true.
Proof. vm_compute. auto. Qed.

(* c10_membranes_isolated: membrane 0 learns "secret" at CRITICAL, membrane 1
   imports it, membrane 0 re-learns it at SUSPICIOUS and forgets it: membrane 1,
   never touched, still blocks a matching input it has not seen, at level 3 *)
Definition s_learn3 := mkSig 7 [115;101;99;114;101;116] (KSub [115;101;99;114;101;116]) 3.
Definition s_learn1 := mkSig 8 [115;101;99;114;101;116] (KSub [115;101;99;114;101;116]) 1.
Definition colony := [mkMember cfg0 st0; mkMember cfg0 st0].
Definition others1 := [SOp 0 (OLearn s_learn1); SOp 0 (OForget (s_key s_learn1)); SOp 0 (OSetThreshold 3)].
Example ex_colony :
  let sys1 := fst (sys_run colony [SOp 0 (OLearn s_learn3); STransfer 0 1]) in
  forallb (fun o => negb (touches 1 o)) others1 = true /\
  map (fun x => (fst x, r_allowed (snd x), r_level (snd x), map s_id (r_matched (snd x))))
      (snd (sys_run (fst (sys_run sys1 others1)) [SOp 1 (OFilter x_Secret)])) = [(1%nat, false, 3, [7])] /\
  map (fun x => (fst x, r_allowed (snd x), r_level (snd x)))
      (snd (sys_run (fst (sys_run sys1 others1)) [SOp 0 (OFilter x_Secret)])) = [(0%nat, true, 0)].
Proof. vm_compute. auto. Qed.

(* c10_learned_active_until_named: key=\S+ (CRITICAL) and key=\s+ (SUSPICIOUS)
   are two texts with the same lower() and different meanings.  Learning the
   second, importing "SECRET" (a case variant of the learned "secret") and
   forgetting "KEY=\S+" (never learned) name neither the first nor "secret":
   "key=abc" is still refused at level 3 by the first alone, "key= " is
   reported at level 1 by the second alone, and "my secret" is matched by both
   spellings of secret. *)
Definition k_S := [107;101;121;61;92;83;43].          (* key=\S+ *)
Definition k_s := [107;101;121;61;92;115;43].         (* key=\s+ *)
Definition k_KS := [75;69;89;61;92;83;43].            (* KEY=\S+ *)
Definition g_S := mkSig 20 k_S (KRx (SeqL [Lit [107;101;121;61]; Plus (CSet false [ICat CSpace true])])) 3.
Definition g_s := mkSig 21 k_s (KRx (SeqL [Lit [107;101;121;61]; Plus (CSet false [ICat CSpace false])])) 1.
Definition s_SECRET := mkSig 22 [83;69;67;82;69;84] (KSub [83;69;67;82;69;84]) 1.   (* "SECRET" *)
Definition ops_key := [OLearn g_s; OImport [s_SECRET]; OForget k_KS; OFilter x_hello; OSetThreshold 3].
Definition x_keyabc := [107;101;121;61;97;98;99].     (* "key=abc" *)
Definition x_keysp := [107;101;121;61;32].            (* "key= " *)
Example ex_key_case :
  let st1 := fst (mrun cfg0 st0 [OLearn g_S; OLearn s_learn]) in
  let st2 := fst (mrun cfg0 st1 ops_key) in
  k_S <> k_s /\ lower py_cc k_S = lower py_cc k_s /\ lower py_cc k_KS = lower py_cc k_S /\
  In g_S (m_learned st1) /\
  forallb (fun op => negb (names_key cfg0 (s_key g_S) op)) ops_key = true /\
  forallb (fun op => negb (names_key cfg0 (s_key s_learn) op)) ops_key = true /\
  map s_id (m_learned st2) = [20; 7; 21; 22] /\
  (let r := snd (mfilter cfg0 st2 x_keyabc) in (r_kind r, r_allowed r, r_level r, map s_id (r_matched r)) = (Scanned, false, 3, [20])) /\
  (let r := snd (mfilter cfg0 st2 x_keysp) in (r_kind r, r_allowed r, r_level r, map s_id (r_matched r)) = (Scanned, true, 1, [21])) /\
  (let r := snd (mfilter cfg0 st2 x_secret) in (r_kind r, r_level r, map s_id (r_matched r)) = (Scanned, 2, [7; 22])) /\
  (* naming the exact text does replace / delete *)
  map s_id (m_learned (fst (mrun cfg0 st2 [OLearn (mkSig 23 k_S (s_kind g_S) 0); OForget k_s]))) = [23; 7; 22].
Proof. vm_compute. repeat split; auto. discriminate. Qed.

(* c10_rate_bound: limit 2; three requests in the same instant, the third is
   rate-limited; 59.5 s later still limited; at exactly 60 s admitted again *)
Example ex_rate :
  map r_kind (snd (mrun cfg2 st0 [OFilter x_hello; OFilter x_tea; OFilter x_foo; OTick 119; OFilter x_hello;
                                  OTick 1; OFilter x_hello]))
  = [Scanned; Scanned; RateLimited; RateLimited; Scanned] /\
  Forall nonneg_tick [OFilter x_hello; OFilter x_tea; OFilter x_foo; OTick 119; OFilter x_hello; OTick 1; OFilter x_hello].
Proof. split; [vm_compute; auto | repeat constructor; cbn; discriminate]. Qed.

(* c10_audit_appends_every_decision *)
Example ex_audit :
  let '(st1, rs) := mrun cfg2 st0 [OFilter x_hello; OLearn s_learn; OFilter x_attack; OFilter x_attack; OTick 3] in
  m_audit st1 = rs /\ length rs = 3%nat.
Proof. vm_compute. auto. Qed.

(* innate: allowed, blocked by a pattern, blocked by a validator, and a raising
   validator escaping check() *)
Definition ist0 := iinit [mkSig 0 [] (KRx r_foo) 5; s_tea] 3 900 0.
Definition vals0 : list validator := [v_length 0 100; v_charset false false].
Example ex_innate :
  (exists r, snd (icheck py_cc vals0 ist0 x_hello) = IOk r /\ ir_allowed r = true /\ ir_level r = 0) /\
  (exists r, snd (icheck py_cc vals0 ist0 x_tea) = IOk r /\ ir_allowed r = true /\ ir_maxsev r = 1 /\ ir_level r = 1) /\
  (exists r, snd (icheck py_cc vals0 ist0 x_foo) = IOk r /\ ir_allowed r = false /\ ir_maxsev r = 5 /\ ir_level r = 4) /\
  (exists r, snd (icheck py_cc vals0 ist0 [104; 0; 105]) = IOk r /\ ir_allowed r = false /\ ir_errors r = 1 /\ ir_matched r = []) /\
  snd (icheck py_cc [fun _ => VRaises] ist0 x_hello) = IRaised.
Proof. vm_compute. repeat split; eauto 7. Qed.

(* check() ignores a rejection that carries no message: (False, None) *)
Example ex_silent_reject_not_counted :
  exists r, snd (icheck py_cc [fun _ => VRet false false] ist0 x_hello) = IOk r /\ ir_allowed r = true.
Proof. vm_compute. eauto. Qed.

(* c10_signatures_judged_alone, and the hypotheses sig_fold_ok / sig_embed_ok of
   c10_case_stable / c10_embed_stable_regex for a HOST pattern: (\w)\1 under
   IGNORECASE ("a word character doubled": a back-reference, no term of the
   regex AST denotes it) written as a function of the content. *)
Fixpoint dbl (c : list Z) : bool :=
  match c with
  | x :: ((y :: _) as r) => (py_word x && (x =? y)) || dbl r
  | _ => false
  end.
Definition doubled (c : list Z) : bool := dbl (lower py_cc c).
Definition g_dbl := mkSig 30 [40;92;119;41;92;49] (KHost doubled) 3.     (* (\w)\1, CRITICAL *)
Definition x_helo := [104;101;108;111].                                 (* "helo" *)
Definition x_heLlo := [104;101;76;108;111].                             (* "heLlo" *)

(* installed through add_signature BEHIND three other signatures (two of them
   regex / with groups of their own), then a history; "hello" and its case
   variant are refused with exactly this signature reported, "helo" is not;
   installed in front of them: the same *)
Example ex_host_membrane :
  let st1 := fst (mrun cfg0 (fst (mstep cfg0 st0 (OAddSig g_dbl)))
                       [OFilter x_tea; OLearn s_learn; OSetThreshold 3; OTick 7; OClearAudit; OForget [120]]) in
  In g_dbl (active st1) /\
  (let r := snd (mfilter cfg0 st1 x_hello) in (r_kind r, r_allowed r, r_level r, map s_id (r_matched r)) = (Scanned, false, 3, [30])) /\
  (let r := snd (mfilter cfg0 st1 x_heLlo) in (r_kind r, r_allowed r, map s_id (r_matched r)) = (Scanned, false, [30])) /\
  (let r := snd (mfilter cfg0 st1 x_helo) in (r_kind r, r_allowed r, map s_id (r_matched r)) = (Scanned, true, [])) /\
  (let r := snd (mfilter cfg0 (minit [g_dbl; s_ignore; s_foo; s_tea] 2 0) x_hello) in
   (r_allowed r, map s_id (r_matched r)) = (false, [30])) /\
  map s_id (scan py_cc ([s_ignore; s_foo] ++ g_dbl :: [s_tea]) [116;101;97;32;102;111;111;32;111;111]) = [1; 30; 2].
Proof.
  (* the closure inside g_dbl is never normalised: the first conjunct is an instance of the theorem, the others
     compute to closure-free values *)
  split; [exact (proj1 (proj2 (proj2 (proj2 host_judged_alone_all))) cfg0 st0 g_dbl _)|].
  repeat split; vm_compute; reflexivity.
Qed.

Example ex_host_innate :
  let st1 := irun py_cc (fst (istep py_cc vals0 ist0 (IAddPattern g_dbl)))
                  [(vals0, ICheck x_tea); ([], ITick 5); (vals0, IReset); ([v_length 0 3], ICheck x_helo)] in
  In g_dbl (i_pats st1) /\
  (exists r, snd (icheck py_cc vals0 st1 x_hello) = IOk r /\ ir_allowed r = false /\ map s_id (ir_matched r) = [30]) /\
  (exists r, snd (icheck py_cc vals0 st1 x_helo) = IOk r /\ ir_allowed r = true /\ ir_matched r = []).
Proof.
  split; [exact (proj1 (proj2 (proj2 (proj2 (proj2 (proj2 host_judged_alone_all))))) py_cc vals0 ist0 g_dbl _)|].
  split; eexists; (split; [reflexivity|]); split; vm_compute; reflexivity.
Qed.

Lemma dbl_cons : forall a l, dbl l = true -> dbl (a :: l) = true.
Proof. intros a [|z l] H; [discriminate|]. cbn [dbl] in *. rewrite H. apply orb_true_r. Qed.
Lemma dbl_app_l : forall pre s, dbl s = true -> dbl (pre ++ s) = true.
Proof. induction pre as [|a pre IH]; intros s H; cbn [app]; auto. apply dbl_cons. auto. Qed.
Lemma dbl_app_r : forall s post, dbl s = true -> dbl (s ++ post) = true.
Proof.
  induction s as [|x s IH]; intros post H; [discriminate|].
  destruct s as [|y s]; [discriminate|]. cbn [dbl app] in *.
  apply orb_true_iff in H. apply orb_true_iff. destruct H as [H|H]; [now left|right].
  exact (IH post H).
Qed.

(* the host pattern meets what the case / embedding theorems ask of it *)
Example ex_host_fold_embed_ok : sig_fold_ok py_cc g_dbl /\ sig_embed_ok py_cc g_dbl.
Proof.
  split.
  - cbn. intros s s' E. unfold doubled. now rewrite E.
  - cbn. intros s pre post _ _ H. unfold doubled in *. rewrite !lower_app.
    apply dbl_app_l. now apply dbl_app_r.
Qed.

(* ... and an arbitrary matcher need not: the hypotheses cannot be dropped *)
Lemma c10_host_fold_condition_needed :
  exists cc g s s', cc_ok cc /\ lower cc s = lower cc s' /\ sig_matches cc g s <> sig_matches cc g s'.
Proof.
  exists py_cc, (mkSig 31 [] (KHost (fun c => match c with 65 :: _ => true | _ => false end)) 3), [65], [97].
  split; [exact py_cc_ok|]. vm_compute. split; [reflexivity | discriminate].
Qed.

(* the Star fuel: a long-ish subject through .* twice *)
Example ex_star : search py_cc (SeqL [Chr 60; Star Any; Chr 124; Star Any; Chr 62])
                         [60; 97; 98; 124; 99; 100; 124; 62; 120] = true.
Proof. vm_compute. reflexivity. Qed.

(* ---- pre-repair behaviour ------------------------------------------------------ *)

(* c10_replay_memory_unbounded: a campaign - "secret" is learned, "my secret"
   is blocked, then a burst of 300 pairwise different inputs "<k> secret" is
   blocked (memory: 301 hashes, one per scan block), the rule is forgotten, and
   the FIRST input of the campaign is still refused (a replay block), while a
   fresh input with the same words is allowed: the rule really is gone. *)
Definition flood := [OLearn s_learn; OFilter x_secret] ++ burst_ops [] [32;115;101;99;114;101;116] 1 300
                    ++ [OForget (s_key s_learn)].
Example ex_flood :
  let st := fst (mrun cfg0 st0 flood) in
  let rs := snd (mrun cfg0 st0 flood) in
  length rs = 301%nat /\ length (filter scan_blocked rs) = 301%nat /\ length (m_blocked st) = 301%nat /\
  nth_error (burst_contents [] [32;115;101;99;114;101;116] 1 300) 11 = Some [49;50;32;115;101;99;114;101;116] /\
  (let r := snd (mfilter cfg0 st x_secret) in (r_kind r, r_allowed r)) = (Replay, false) /\
  (let r := snd (mfilter cfg0 st x_Secret) in (r_kind r, r_allowed r)) = (Scanned, true).
Proof. vm_compute. repeat split; reflexivity. Qed.

(* c10_shipped_validators_exact: ["C:\\temp\\", [[[[[[1]]]]]]] as json.loads sees it
   (a string, then six nested lists): depth 7; JSONValidator(max_depth=5)
   rejects it with a message whatever else is configured, so check() blocks;
   max_depth=7 accepts; the early return of _measure_depth reports 6 (the first
   level beyond the limit), not 7; an unparsable content and an over-long one
   are rejected too. *)
Definition doc7 := JArr [JAtom; JArr [JArr [JArr [JArr [JArr [JArr [JAtom]]]]]]].
Example ex_json :
  depth doc7 = 7 /\ measure_depth 5 doc7 0 = 6 /\ measure_depth 7 doc7 0 = 7 /\
  v_json 5 100 (fun _ => PTree doc7) x_hello = VRet false true /\
  v_json 7 100 (fun _ => PTree doc7) x_hello = VRet true false /\
  v_json 7 100 (fun _ => PFails) x_hello = VRet false true /\
  v_json 7 4 (fun _ => PTree doc7) x_hello = VRet false true /\
  depth (JObj []) = 1 /\ measure_depth 0 (JObj []) 0 = 1 /\ measure_depth (-1) JAtom 0 = 0 /\
  (exists r st', icheck py_cc [v_length 0 100; v_json 5 100 (fun _ => PTree doc7)] ist0 x_hello = (st', IOk r) /\
                 ir_allowed r = false /\ ir_errors r = 1 /\ ir_matched r = []) /\
  (exists r st', icheck py_cc [v_length 0 100; v_json 7 100 (fun _ => PTree doc7)] ist0 x_hello = (st', IOk r) /\
                 ir_allowed r = true).
Proof. vm_compute. repeat split; try reflexivity; eexists; eexists; repeat split; reflexivity. Qed.

(* before 6201060: Membrane.filter raised on a lone surrogate (model: None) *)
Lemma c10_legacy_surrogate_refuted :
  exists cfg st c, mfilter_legacy cfg st c = None.
Proof. exists cfg0, st0, [55296]. vm_compute. reflexivity. Qed.

(* the repaired filter() returns a result on the same input *)
Example ex_surrogate_fixed : r_allowed (snd (mfilter cfg0 st0 [55296])) = true.
Proof. vm_compute. reflexivity. Qed.

(* before cf54e27: JSONValidator.validate raised RecursionError / ValueError on
   '[' * 50000 / '9' * 5000, i.e. it was a validator whose verdict on that input
   is VRaises, and check() lets it escape *)
Lemma c10_legacy_validator_raise_refuted :
  exists cc (vals : list validator) st c, snd (icheck cc vals st c) = IRaised.
Proof. exists py_cc, [fun _ => VRaises], ist0, [91; 91; 91]. vm_compute. reflexivity. Qed.

(* ---- round 6: live reconfiguration and decorated occurrences ------------------ *)

(* c10_rate_bound_live / c10_live_reconfiguration: Membrane(rate_limit=2), four
   requests (two pass the rate check), rate_limit = 5 on the live object, six
   more requests in the same window: exactly three more pass (5 in the window:
   the bound is attained), the rest are refused; then rate_limit = None: nothing
   is refused and nothing is counted; then rate_limit = 1 a minute later. *)
Definition live_ops : list lop :=
  [LOp (OFilter [97]); LOp (OFilter [98]); LOp (OFilter [99]); LOp (OFilter [100]);
   LSetRate (Some 5);
   LOp (OFilter [101]); LOp (OFilter [102]); LOp (OFilter [103]); LOp (OFilter [104]); LOp (OFilter [105]);
   LOp (OFilter [106]);
   LSetRate None; LOp (OFilter [107]); LOp (OFilter [108]);
   LSetRate (Some 1); LOp (OTick 121); LOp (OFilter [109]); LOp (OFilter [110])].
Example ex_live_rate :
  let es := snd (lrun cfg2 st0 live_ops) in
  Forall lnonneg live_ops /\
  map (fun e => (fst e, negb (is_limited (r_kind (snd e))))) es =
    [(Some 2, true); (Some 2, true); (Some 2, false); (Some 2, false);
     (Some 5, true); (Some 5, true); (Some 5, true); (Some 5, false); (Some 5, false); (Some 5, false);
     (None, true); (None, true); (Some 1, true); (Some 1, false)] /\
  trailing 1000 (ladmitted (firstn 7 es)) = 5 /\
  ladmitted es = [1000; 1000; 1000; 1000; 1000; 1121] /\
  c_rate (fst (fst (lrun cfg2 st0 live_ops))) = Some 1.
Proof.
  split; [repeat constructor; cbn; lia|]. vm_compute. repeat split; reflexivity.
Qed.

(* enable_adaptive switched off on the live membrane: learn_threat does nothing,
   what was learnt before stays active (and keeps blocking), and the replay
   memory survives every assignment *)
Example ex_live_adaptive :
  let ops := [LOp (OLearn s_learn); LSetAdaptive false; LOp (OLearn s_learn1); LOp (OFilter x_secret);
              LSetRate (Some 9); LOp (OForget (s_key s_learn)); LSetAdaptive true; LOp (OFilter x_secret);
              LOp (OFilter x_Secret)] in
  map (fun e => (r_kind (snd e), r_allowed (snd e), r_level (snd e))) (snd (lrun cfg0 st0 ops)) =
    [(Scanned, false, 2); (Replay, false, 3); (Scanned, true, 0)].
Proof. vm_compute. reflexivity. Qed.

(* c10_decorated_occurrence_stays_blocked: U+0301 COMBINING ACUTE ACCENT right
   after / before an occurrence leaves the occurrence in the text ("foo" U+0301
   still contains \bfoo\b although "foox" does not; "a tea" U+0301 "b"); a mark
   INSIDE the occurrence, a fullwidth spelling or a precomposed last letter is a
   different string the signature does not match (nothing is demanded for it);
   U+212A KELVIN SIGN is a case variant of k. *)
Definition s_jail := mkSig 3 [106;97;105;108;98;114;101;97;107] (KSub [106;97;105;108;98;114;101;97;107]) 3.
Example ex_decorations :
  cc_word py_cc 769 = false /\
  search py_cc r_foo (x_foo ++ [769]) = true /\ search py_cc r_foo ([769] ++ x_foo ++ [769; 120]) = true /\
  search py_cc r_foo (x_foo ++ [120]) = false /\
  sig_matches py_cc s_tea ([97; 32] ++ x_tea ++ 769 :: [98]) = true /\
  r_allowed (snd (mfilter cfg0 st0 ([104; 105; 32] ++ x_attack ++ 769 :: [32; 120]))) = false /\
  sig_matches py_cc s_jail [106;97;105;108;98;114;101;97;107;769] = true /\
  sig_matches py_cc s_jail [106;97;105;108;98;114;101;769;97;107] = false /\
  sig_matches py_cc s_jail [65354;65345;65353;65356;65346;65362;65349;65345;65355] = false /\
  sig_matches py_cc s_jail [106;97;105;108;98;114;101;97;7729] = false /\
  sig_matches py_cc s_jail [74;65;73;76;66;82;69;65;8490] = true /\
  lower py_cc [65322; 8490; 201] = [65354; 107; 233].
Proof. vm_compute. repeat split; reflexivity. Qed.

(* ---- callbacks that raise (c10_raising_handler_keeps_block) ------------------
   "secret" learned (DANGEROUS), "my secret" blocked by the scan while the
   on_threat handler raises: the caller gets the exception, the decision is
   audited and remembered; the rule is forgotten and the threshold raised to
   CRITICAL (the handler still raising, then repaired): "my secret" is refused
   from the replay memory, although a membrane with these relaxed rules and no
   memory would let it pass. *)
Definition always_raises : handler := fun _ => true.
Definition st_learned := fst (mrun cfg0 st0 [OLearn s_learn]).
Definition relax_h : list (lop * handler) :=
  [(LOp (OForget (s_key s_learn)), always_raises); (LOp (OFilter x_hello), always_raises);
   (LOp (OSetThreshold 3), no_handler)].
Example ex_handler_raises :
  snd (mfilter_h always_raises cfg0 st_learned x_secret) = FHandlerRaised (snd (mfilter cfg0 st_learned x_secret)) /\
  scan_blocked (snd (mfilter cfg0 st_learned x_secret)) = true /\
  (let st2 := fst (mfilter_h always_raises cfg0 st_learned x_secret) in
   let cfg3 := fst (fst (hrun cfg0 st2 relax_h)) in
   let st3 := snd (fst (hrun cfg0 st2 relax_h)) in
   length (m_audit st2) = 1%nat /\ m_blocked st2 = [x_secret] /\
   m_learned st3 = [] /\ m_threshold st3 = 3 /\
   map (fun e => fout_raised (snd e)) (snd (hrun cfg0 st2 relax_h)) = [false] /\
   r_allowed (fout_result (snd (mfilter_h no_handler cfg3 st3 x_secret))) = false /\
   r_kind (fout_result (snd (mfilter_h no_handler cfg3 st3 x_secret))) = Replay) /\
  r_allowed (snd (mfilter cfg0 (fst (mrun cfg0 st0 [OSetThreshold 3])) x_secret)) = true.
Proof. vm_compute. repeat split. Qed.

(* on_inflammation raising: \bfoo\b (severity 5) -> ACUTE; the exception leaves check()
   after the inflammation state took level 4 and before the block was counted *)
Example ex_inflammation_handler_raises :
  snd (icheck_h (fun _ => true) py_cc vals0 ist0 x_foo) = CHandlerRaised 4 /\
  i_level (fst (icheck_h (fun _ => true) py_cc vals0 ist0 x_foo)) = 4 /\
  i_checks (fst (icheck_h (fun _ => true) py_cc vals0 ist0 x_foo)) = 1 /\
  i_blocks (fst (icheck_h (fun _ => true) py_cc vals0 ist0 x_foo)) = 0 /\
  (exists r, snd (icheck_h (fun _ => true) py_cc vals0 ist0 x_hello) = CPlain (IOk r) /\ ir_allowed r = true) /\
  (exists r, snd (icheck py_cc vals0 (fst (icheck_h (fun _ => true) py_cc vals0 ist0 x_foo)) x_foo) = IOk r /\
             ir_allowed r = false).
Proof. vm_compute. repeat split; eauto. Qed.

(* ---- earlier inputs leave no trace (c10_scan_history_free) -------------------
   a stream of benign inputs of the same length as the attack, then the attack *)
Definition x_15a := [104;101;108;108;111;32;116;104;101;114;101;32;97;108;108].   (* "hello there all", 15 code points *)
Definition stream15 := [OFilter x_15a; OTick 1; OFilter x_15a; OFilter x_hello; OSetThreshold 3; OFilter x_15a].
Example ex_history_free :
  length x_15a = length x_attack /\ forallb keeps_rules stream15 = true /\
  (let st := fst (mrun cfg0 st0 stream15) in
   r_kind (snd (mfilter cfg0 st x_attack)) = Scanned /\
   r_matched (snd (mfilter cfg0 st x_attack)) = [s_ignore] /\ m_threshold st <= s_level s_ignore /\
   r_allowed (snd (mfilter cfg0 st x_attack)) = false) /\
  (let ops := [(vals0, ICheck x_hello); (vals0, ITick 5); (vals0, ICheck x_hello); (vals0, ISetThreshold 5)] in
   forallb (fun p => keeps_patterns (snd p)) ops = true /\
   exists r, snd (icheck py_cc vals0 (irun py_cc ist0 ops) x_foo) = IOk r /\
             map s_id (ir_matched r) = [0] /\ ir_allowed r = false).
Proof. vm_compute. repeat split; try discriminate; eauto. Qed.
