(* C10 — lemmas about LIVE RECONFIGURATION (Model.v: lop, lstep, lrun):
   histories in which rate_limit / enable_adaptive are assigned on the live
   membrane between requests.  The per-call theorems of Proofs.v hold for
   every configuration, hence for whichever one is in force at a call; here
   the history theorems (rate bound, replay memory, audit trail, signatures
   that stay active) are carried over to histories with assignments. *)
From Coq Require Import String ZArith List Bool Lia ZifyBool.
From Verif Require Import C10.Regex C10.RegexProofs C10.Model C10.Proofs.
Import ListNotations.
Open Scope Z_scope.

(* ---- the configuration parts an assignment cannot reach ---------------------- *)

Lemma lstep_cfg_fixed : forall cfg st o,
  c_cc (fst (fst (lstep cfg st o))) = c_cc cfg /\ c_hash (fst (fst (lstep cfg st o))) = c_hash cfg.
Proof.
  intros cfg st o. destruct o; cbn [lstep].
  - destruct (mstep cfg st op) as [st' r]. cbn. auto.
  - cbn. auto.
  - cbn. auto.
Qed.

Lemma lrun_cfg_fixed : forall ops cfg st,
  c_cc (fst (fst (lrun cfg st ops))) = c_cc cfg /\ c_hash (fst (fst (lrun cfg st ops))) = c_hash cfg.
Proof.
  induction ops as [|o ops IH]; intros cfg st; cbn [lrun]; [cbn; auto|].
  pose proof (lstep_cfg_fixed cfg st o) as H.
  destruct (lstep cfg st o) as [[cfg1 st1] r]. cbn [fst] in H.
  specialize (IH cfg1 st1). destruct (lrun cfg1 st1 ops) as [[cfg2 st2] es]. cbn [fst] in *.
  destruct H, IH. split; congruence.
Qed.

(* a history without assignments is an ordinary history under the same configuration *)
Lemma lrun_plain : forall ops cfg st,
  lrun cfg st (map LOp ops) =
  (cfg, fst (mrun cfg st ops), map (fun r => (c_rate cfg, r)) (snd (mrun cfg st ops))).
Proof.
  induction ops as [|op ops IH]; intros cfg st; cbn [map lrun mrun lstep]; [reflexivity|].
  destruct (mstep cfg st op) as [st1 o]. rewrite IH.
  destruct (mrun cfg st1 ops) as [st2 rs]. cbn [fst snd]. destruct o; reflexivity.
Qed.

(* an assignment takes effect at the next call and touches nothing else *)
Lemma lstep_assign : forall cfg st,
  (forall r, lstep cfg st (LSetRate r) = (set_rate cfg r, st, None) /\ c_rate (set_rate cfg r) = r /\
             c_adaptive (set_rate cfg r) = c_adaptive cfg) /\
  (forall b, lstep cfg st (LSetAdaptive b) = (set_adaptive cfg b, st, None) /\
             c_adaptive (set_adaptive cfg b) = b /\ c_rate (set_adaptive cfg b) = c_rate cfg).
Proof. intros. split; intros; cbn; auto. Qed.

(* ---- rate limit under a changing limit ---------------------------------------- *)

Definition lnonneg (o : lop) : Prop := match o with LOp op => nonneg_tick op | _ => True end.

(* what the limiter remembers = the counted admissions later than some c <= clock - 60 s *)
Definition tinv (st : mstate) (adm : list Z) : Prop :=
  exists c, c <= m_clock st - window /\ m_times st = filter (fun t => c <? t) adm.

Definition ev_times (e : levent) : list Z := if counted e then [r_time (snd e)] else [].

Lemma live_filter : forall cfg st adm c st' r,
  tinv st adm -> mfilter cfg st c = (st', r) ->
  tinv st' (adm ++ ev_times (c_rate cfg, r)) /\
  (forall n, c_rate cfg = Some n -> is_limited (r_kind r) = false ->
     trailing (r_time r) (adm ++ [r_time r]) <= n).
Proof.
  intros cfg st adm c st' r [c0 [Hc Ht]] F.
  destruct (mfilter_state _ _ _ _ _ F) as (_ & _ & _ & Hclk & _ & _ & Htimes & _ & Htime & _).
  pose proof (mfilter_cases _ _ _ _ _ F) as Cases.
  unfold ev_times, counted. cbn [fst snd].
  unfold rate_check in *. destruct (c_rate cfg) as [n|] eqn:Hn.
  - set (now := m_clock st) in *.
    assert (Hts : filter (fun t => now - window <? t) (m_times st) = filter (fun t => now - window <? t) adm).
    { rewrite Ht. apply filter_filter_weaker. intros t Hlt. lia. }
    rewrite Hts in *.
    assert (W : now - window <? now = true) by (unfold window, ticks_per_second; lia).
    destruct (n <=? Z.of_nat (length (filter (fun t => now - window <? t) adm))) eqn:Lim; cbn [fst snd] in *.
    + (* refused by the rate check *)
      assert (K : r_kind r = RateLimited).
      { destruct Cases as [X|[X|X]]; [tauto| |]; destruct X as (_ & _ & _ & _ & X & _); discriminate. }
      rewrite K. rewrite app_nil_r. split.
      * exists (now - window). rewrite Hclk. split; [lia | exact Htimes].
      * intros n0 _ L. cbn in L. discriminate.
    + (* passed the rate check *)
      assert (K : is_limited (r_kind r) = false).
      { destruct Cases as [X|[X|X]]; [destruct X as (_ & _ & _ & _ & X); discriminate | | ];
        destruct X as (-> & _); reflexivity. }
      assert (K2 : match r_kind r with RateLimited => false | _ => true end = true).
      { destruct (r_kind r); cbn in K; congruence. }
      rewrite K2, Htime. fold now. split.
      * exists (now - window). rewrite Hclk. split; [lia|].
        rewrite Htimes, filter_app. cbn [filter]. now rewrite W.
      * intros n0 E _. inversion E; subst n0. unfold trailing.
        rewrite filter_app, app_length. cbn [filter]. rewrite W. cbn [length]. lia.
  - cbn [fst snd] in *. rewrite app_nil_r. split.
    + exists c0. rewrite Hclk, Htimes. auto.
    + intros n0 E. discriminate.
Qed.

Lemma mstep_quiet : forall cfg st adm op,
  nonneg_tick op -> (forall c, op <> OFilter c) -> tinv st adm ->
  tinv (fst (mstep cfg st op)) adm /\ snd (mstep cfg st op) = None.
Proof.
  intros cfg st adm op Hn Hf Inv. destruct op; cbn [mstep fst snd]; auto.
  - exfalso. now apply (Hf content).
  - destruct (c_adaptive cfg); auto.
  - destruct Inv as [c0 [Hc Ht]]. split; auto. exists c0. cbn in *. split; [lia | exact Ht].
Qed.

(* every decision made under a numeric limit n and not refused by the rate
   check finds at most n counted admissions (itself included) among the time
   stamps later than its own time - 60 s *)
Fixpoint bounded (adm : list Z) (es : list levent) : Prop :=
  match es with
  | [] => True
  | e :: rest =>
      (forall n, fst e = Some n -> is_limited (r_kind (snd e)) = false ->
         trailing (r_time (snd e)) (adm ++ [r_time (snd e)]) <= n) /\
      bounded (adm ++ ev_times e) rest
  end.

Lemma live_run_bounded : forall ops cfg st adm,
  Forall lnonneg ops -> tinv st adm -> bounded adm (snd (lrun cfg st ops)).
Proof.
  induction ops as [|o ops IH]; intros cfg st adm Hm Inv; cbn [lrun]; [exact I|].
  inversion Hm as [|? ? Ho Hops]; subst.
  destruct o as [op|r|b]; cbn [lstep].
  - destruct op as [c| | | | | | |].
    + cbn [mstep]. destruct (mfilter cfg st c) as [st1 r] eqn:F.
      destruct (live_filter cfg st adm c st1 r Inv F) as [Inv1 B].
      specialize (IH cfg st1 _ Hops Inv1).
      destruct (lrun cfg st1 ops) as [[cfg2 st2] es]. cbn [snd] in *. cbn [bounded fst snd]. split; auto.
    + destruct (mstep_quiet cfg st adm (OLearn g) Ho ltac:(discriminate) Inv) as [Inv1 N].
      destruct (mstep cfg st (OLearn g)) as [st1 o]. cbn [fst snd] in *. subst o.
      specialize (IH cfg st1 _ Hops Inv1). now destruct (lrun cfg st1 ops) as [[cfg2 st2] es].
    + destruct (mstep_quiet cfg st adm (OForget k) Ho ltac:(discriminate) Inv) as [Inv1 N].
      destruct (mstep cfg st (OForget k)) as [st1 o]. cbn [fst snd] in *. subst o.
      specialize (IH cfg st1 _ Hops Inv1). now destruct (lrun cfg st1 ops) as [[cfg2 st2] es].
    + destruct (mstep_quiet cfg st adm (OImport l) Ho ltac:(discriminate) Inv) as [Inv1 N].
      destruct (mstep cfg st (OImport l)) as [st1 o]. cbn [fst snd] in *. subst o.
      specialize (IH cfg st1 _ Hops Inv1). now destruct (lrun cfg st1 ops) as [[cfg2 st2] es].
    + destruct (mstep_quiet cfg st adm (OAddSig g) Ho ltac:(discriminate) Inv) as [Inv1 N].
      destruct (mstep cfg st (OAddSig g)) as [st1 o]. cbn [fst snd] in *. subst o.
      specialize (IH cfg st1 _ Hops Inv1). now destruct (lrun cfg st1 ops) as [[cfg2 st2] es].
    + destruct (mstep_quiet cfg st adm (OSetThreshold t) Ho ltac:(discriminate) Inv) as [Inv1 N].
      destruct (mstep cfg st (OSetThreshold t)) as [st1 o]. cbn [fst snd] in *. subst o.
      specialize (IH cfg st1 _ Hops Inv1). now destruct (lrun cfg st1 ops) as [[cfg2 st2] es].
    + destruct (mstep_quiet cfg st adm (OTick d) Ho ltac:(discriminate) Inv) as [Inv1 N].
      destruct (mstep cfg st (OTick d)) as [st1 o]. cbn [fst snd] in *. subst o.
      specialize (IH cfg st1 _ Hops Inv1). now destruct (lrun cfg st1 ops) as [[cfg2 st2] es].
    + destruct (mstep_quiet cfg st adm OClearAudit Ho ltac:(discriminate) Inv) as [Inv1 N].
      destruct (mstep cfg st OClearAudit) as [st1 o]. cbn [fst snd] in *. subst o.
      specialize (IH cfg st1 _ Hops Inv1). now destruct (lrun cfg st1 ops) as [[cfg2 st2] es].
  - specialize (IH (set_rate cfg r) st adm Hops Inv). now destruct (lrun (set_rate cfg r) st ops) as [[cfg2 st2] es].
  - specialize (IH (set_adaptive cfg b) st adm Hops Inv). now destruct (lrun (set_adaptive cfg b) st ops) as [[cfg2 st2] es].
Qed.

Lemma ladmitted_cons : forall x l, ladmitted (x :: l) = ev_times x ++ ladmitted l.
Proof. intros x l. unfold ladmitted, ev_times. cbn [filter]. destruct (counted x); reflexivity. Qed.

Lemma bounded_split : forall a adm e b,
  bounded adm (a ++ e :: b) ->
  forall n, fst e = Some n -> is_limited (r_kind (snd e)) = false ->
  trailing (r_time (snd e)) (adm ++ ladmitted (a ++ [e])) <= n.
Proof.
  induction a as [|x a IH]; intros adm e b H n E L.
  - cbn [app] in *. destruct H as [H _]. rewrite ladmitted_cons. unfold ev_times, counted. rewrite E.
    destruct (r_kind (snd e)); cbn in L; try discriminate; cbn [ladmitted filter map app]; now apply H.
  - cbn [app bounded] in H. destruct H as [_ H]. specialize (IH _ _ _ H n E L).
    cbn [app]. rewrite ladmitted_cons, app_assoc. exact IH.
Qed.

Lemma live_rate_bound : forall cfg sigs thr t0 ops, Forall lnonneg ops ->
  forall a e b n, snd (lrun cfg (minit sigs thr t0) ops) = a ++ e :: b ->
  fst e = Some n -> is_limited (r_kind (snd e)) = false ->
  trailing (r_time (snd e)) (ladmitted (a ++ [e])) <= n.
Proof.
  intros cfg sigs thr t0 ops Hm a e b n Hs E L.
  assert (I0 : tinv (minit sigs thr t0) []).
  { exists (t0 - window). cbn. split; [lia | reflexivity]. }
  pose proof (live_run_bounded ops cfg _ _ Hm I0) as B. rewrite Hs in B.
  exact (bounded_split a [] e b B n E L).
Qed.

(* with a monotone clock decisions are stamped in order: the time stamps later
   than t - 60 s of the decisions up to one made at t are the ones in (t - 60 s, t] *)
Lemma mstep_clock_mono : forall cfg st op, nonneg_tick op -> m_clock st <= m_clock (fst (mstep cfg st op)).
Proof.
  intros cfg st op H. destruct op; cbn [mstep fst]; try (cbn; lia).
  - destruct (mfilter cfg st content) as [st' r] eqn:F. cbn [fst].
    destruct (mfilter_state _ _ _ _ _ F) as (_ & _ & _ & Hclk & _). lia.
  - destruct (c_adaptive cfg); cbn; lia.
  - cbn in *. lia.
Qed.

Lemma lrun_times_ge : forall ops cfg st, Forall lnonneg ops ->
  forall e, In e (snd (lrun cfg st ops)) -> m_clock st <= r_time (snd e).
Proof.
  induction ops as [|o ops IH]; intros cfg st Hm e Hin; cbn [lrun] in Hin; [cbn in Hin; tauto|].
  inversion Hm as [|? ? Ho Hops]; subst.
  destruct o as [op|r|b]; cbn [lstep] in Hin.
  - pose proof (mstep_clock_mono cfg st op Ho) as Hc.
    pose proof (mstep_filter_only cfg st op) as Hf.
    destruct (mstep cfg st op) as [st1 o]. cbn [fst snd] in *.
    specialize (IH cfg st1 Hops e). destruct (lrun cfg st1 ops) as [[cfg2 st2] es]. cbn [snd] in *.
    destruct o as [x|].
    + destruct Hin as [<-|Hin].
      * cbn [snd]. destruct (Hf x eq_refl) as (c & _ & F).
        destruct (mfilter_state _ _ _ _ _ F) as (_ & _ & _ & _ & _ & _ & _ & _ & Ht & _). lia.
      * specialize (IH Hin). lia.
    + specialize (IH Hin). lia.
  - specialize (IH (set_rate cfg r) st Hops e). destruct (lrun (set_rate cfg r) st ops) as [[cfg2 st2] es]. auto.
  - specialize (IH (set_adaptive cfg b) st Hops e). destruct (lrun (set_adaptive cfg b) st ops) as [[cfg2 st2] es]. auto.
Qed.

Lemma lrun_times_sorted : forall ops cfg st, Forall lnonneg ops ->
  forall a e b, snd (lrun cfg st ops) = a ++ e :: b ->
  forall x, In x a -> r_time (snd x) <= r_time (snd e).
Proof.
  induction ops as [|o ops IH]; intros cfg st Hm a e b Hs x Hx; cbn [lrun] in Hs.
  - cbn in Hs. destruct a; discriminate.
  - inversion Hm as [|? ? Ho Hops]; subst.
    destruct o as [op|r|b0]; cbn [lstep] in Hs.
    + pose proof (mstep_clock_mono cfg st op Ho) as Hc.
      pose proof (mstep_filter_only cfg st op) as Hf.
      destruct (mstep cfg st op) as [st1 o]. cbn [fst snd] in *.
      pose proof (lrun_times_ge ops cfg st1 Hops) as Hge.
      specialize (IH cfg st1 Hops). destruct (lrun cfg st1 ops) as [[cfg2 st2] es]. cbn [snd] in *.
      destruct o as [y|]; [|eapply IH; eauto].
      destruct a as [|a0 a]; [destruct Hx|]. cbn [app] in Hs. inversion Hs as [[H0 H1]]. subst a0.
      destruct Hx as [<-|Hx]; [|eapply IH; eauto].
      cbn [snd]. destruct (Hf y eq_refl) as (c & _ & F).
      destruct (mfilter_state _ _ _ _ _ F) as (_ & _ & _ & _ & _ & _ & _ & _ & Ht & _).
      assert (In e es) by (rewrite H1; apply in_or_app; right; now left).
      specialize (Hge e H). lia.
    + specialize (IH (set_rate cfg r) st Hops). destruct (lrun (set_rate cfg r) st ops) as [[cfg2 st2] es].
      cbn [snd] in *. eapply IH; eauto.
    + specialize (IH (set_adaptive cfg b0) st Hops). destruct (lrun (set_adaptive cfg b0) st ops) as [[cfg2 st2] es].
      cbn [snd] in *. eapply IH; eauto.
Qed.

Lemma live_rate_all :
  (forall cfg sigs thr t0 ops, Forall lnonneg ops ->
     forall a e b n, snd (lrun cfg (minit sigs thr t0) ops) = a ++ e :: b ->
     fst e = Some n -> is_limited (r_kind (snd e)) = false ->
     trailing (r_time (snd e)) (ladmitted (a ++ [e])) <= n) /\
  (forall cfg st ops, Forall lnonneg ops ->
     forall a e b, snd (lrun cfg st ops) = a ++ e :: b ->
     forall x, In x a -> r_time (snd x) <= r_time (snd e)) /\
  (forall cfg st ops e, In e (snd (lrun cfg st ops)) -> fst e = None -> is_limited (r_kind (snd e)) = false).
Proof.
  split; [exact live_rate_bound | split].
  - intros cfg st ops Hm a e b Hs x Hx. eapply lrun_times_sorted; eauto.
  - intros cfg st ops. revert cfg st. induction ops as [|o ops IH]; intros cfg st e Hin E; cbn [lrun] in Hin.
    + cbn in Hin. tauto.
    + destruct o as [op|r|b]; cbn [lstep] in Hin.
      * pose proof (mstep_filter_only cfg st op) as Hf.
        destruct (mstep cfg st op) as [st1 o]. cbn [fst snd] in *.
        specialize (IH cfg st1 e). destruct (lrun cfg st1 ops) as [[cfg2 st2] es]. cbn [snd] in *.
        destruct o as [x|]; [|auto].
        destruct Hin as [<-|Hin]; [|auto]. cbn [fst snd] in *.
        destruct (Hf x eq_refl) as (c & _ & F).
        destruct (mfilter_cases _ _ _ _ _ F) as [X|[X|X]].
        -- destruct X as (_ & _ & _ & _ & X). unfold rate_check in X. rewrite E in X. discriminate.
        -- destruct X as (-> & _). reflexivity.
        -- destruct X as (-> & _). reflexivity.
      * specialize (IH (set_rate cfg r) st e). destruct (lrun (set_rate cfg r) st ops) as [[cfg2 st2] es]. auto.
      * specialize (IH (set_adaptive cfg b) st e). destruct (lrun (set_adaptive cfg b) st ops) as [[cfg2 st2] es]. auto.
Qed.

(* ---- replay memory, audit trail, active signatures across assignments -------- *)

Lemma lstep_blocked_mono : forall cfg st o h,
  hmem h (m_blocked st) = true -> hmem h (m_blocked (snd (fst (lstep cfg st o)))) = true.
Proof.
  intros cfg st o h H. destruct o; cbn [lstep]; auto.
  pose proof (mstep_blocked_mono cfg st op h H) as H1. now destruct (mstep cfg st op).
Qed.

Lemma lrun_blocked_mono : forall ops cfg st h,
  hmem h (m_blocked st) = true -> hmem h (m_blocked (snd (fst (lrun cfg st ops)))) = true.
Proof.
  induction ops as [|o ops IH]; intros cfg st h H; cbn [lrun]; auto.
  pose proof (lstep_blocked_mono cfg st o h H) as H1.
  destruct (lstep cfg st o) as [[cfg1 st1] r]. cbn [fst snd] in H1.
  specialize (IH cfg1 st1 h H1). now destruct (lrun cfg1 st1 ops) as [[cfg2 st2] es].
Qed.

Lemma live_replay_memory : forall cfg st c st1 r,
  mfilter cfg st c = (st1, r) -> r_kind r = Scanned -> r_allowed r = false ->
  forall ops c', c_hash cfg c' = c_hash cfg c ->
  r_allowed (snd (mfilter (fst (fst (lrun cfg st1 ops))) (snd (fst (lrun cfg st1 ops))) c')) = false.
Proof.
  intros cfg st c st1 r H K A ops c' Eh.
  assert (B : hmem (c_hash cfg c) (m_blocked st1) = true).
  { destruct (mfilter_state _ _ _ _ _ H) as (_ & _ & _ & _ & _ & _ & _ & B & _). rewrite B.
    rewrite K, A. cbn. destruct (hmem (c_hash cfg c) (m_blocked st)) eqn:E; auto. apply hmem_snoc_self. }
  pose proof (lrun_blocked_mono ops cfg st1 _ B) as B2.
  destruct (lrun_cfg_fixed ops cfg st1) as [_ Hh].
  destruct (lrun cfg st1 ops) as [[cfg2 st2] es]. cbn [fst snd] in *.
  destruct (mfilter cfg2 st2 c') as [st3 r3] eqn:F. cbn [snd].
  destruct (mfilter_cases _ _ _ _ _ F) as [X|[X|X]]; try tauto.
  destruct X as (_ & _ & _ & _ & _ & N). rewrite Hh, Eh in N. congruence.
Qed.

Definition lis_clear (o : lop) : bool := match o with LOp OClearAudit => true | _ => false end.

Lemma live_audit : forall ops cfg st,
  forallb (fun o => negb (lis_clear o)) ops = true ->
  m_audit (snd (fst (lrun cfg st ops))) = m_audit st ++ map snd (snd (lrun cfg st ops)).
Proof.
  induction ops as [|o ops IH]; intros cfg st H; cbn [lrun].
  - cbn. now rewrite app_nil_r.
  - cbn [forallb] in H. apply andb_prop in H. destruct H as [Hc H].
    destruct o as [op|r|b]; cbn [lstep].
    + pose proof (m_audit_step cfg st op) as A.
      destruct (mstep cfg st op) as [st1 o] eqn:E. rewrite ?E in A. cbn [fst snd] in A.
      specialize (IH cfg st1 H). destruct (lrun cfg st1 ops) as [[cfg2 st2] es]. cbn [fst snd] in *.
      rewrite IH. destruct op; cbn in Hc; try discriminate; destruct o; rewrite ?E in A; cbn [snd] in A;
        rewrite A; cbn [map snd]; rewrite <- ?app_assoc; reflexivity.
    + specialize (IH (set_rate cfg r) st H). now destruct (lrun (set_rate cfg r) st ops) as [[cfg2 st2] es].
    + specialize (IH (set_adaptive cfg b) st H). now destruct (lrun (set_adaptive cfg b) st ops) as [[cfg2 st2] es].
Qed.

Lemma lrun_sigs_keep : forall ops cfg st g,
  In g (m_sigs st) -> In g (m_sigs (snd (fst (lrun cfg st ops)))).
Proof.
  induction ops as [|o ops IH]; intros cfg st g H; cbn [lrun]; auto.
  destruct o as [op|r|b]; cbn [lstep].
  - pose proof (mstep_sigs_keep cfg st op g H) as H1.
    destruct (mstep cfg st op) as [st1 o]. cbn [fst] in H1.
    specialize (IH cfg st1 g H1). now destruct (lrun cfg st1 ops) as [[cfg2 st2] es].
  - specialize (IH (set_rate cfg r) st g H). now destruct (lrun (set_rate cfg r) st ops) as [[cfg2 st2] es].
  - specialize (IH (set_adaptive cfg b) st g H). now destruct (lrun (set_adaptive cfg b) st ops) as [[cfg2 st2] es].
Qed.

(* the operation names the cell k of the adaptive memory, whatever enable_adaptive is *)
Definition lnames (k : list Z) (o : lop) : bool :=
  match o with
  | LOp (OLearn g) => zl_eq (s_key g) k
  | LOp (OForget k') => zl_eq k' k
  | LOp (OImport l) => existsb (fun g => zl_eq (s_key g) k) l
  | _ => false
  end.

Lemma lnames_names_key : forall cfg k op, lnames k (LOp op) = false -> names_key cfg k op = false.
Proof.
  intros cfg k op H. destruct op; cbn [lnames names_key] in *; auto.
  rewrite H. apply andb_false_r.
Qed.

Lemma lrun_learned_keeps : forall ops cfg st g,
  In g (m_learned st) -> forallb (fun o => negb (lnames (s_key g) o)) ops = true ->
  In g (m_learned (snd (fst (lrun cfg st ops)))).
Proof.
  induction ops as [|o ops IH]; intros cfg st g H N; cbn [lrun]; auto.
  cbn [forallb] in N. apply andb_true_iff in N. destruct N as [N1 N2]. apply negb_true_iff in N1.
  destruct o as [op|r|b]; cbn [lstep].
  - pose proof (mstep_learned_keeps cfg st op g H (lnames_names_key cfg _ _ N1)) as H1.
    destruct (mstep cfg st op) as [st1 o]. cbn [fst] in H1.
    specialize (IH cfg st1 g H1 N2). now destruct (lrun cfg st1 ops) as [[cfg2 st2] es].
  - specialize (IH (set_rate cfg r) st g H N2). now destruct (lrun (set_rate cfg r) st ops) as [[cfg2 st2] es].
  - specialize (IH (set_adaptive cfg b) st g H N2). now destruct (lrun (set_adaptive cfg b) st ops) as [[cfg2 st2] es].
Qed.

Lemma live_all :
  (* a history without assignments is an ordinary history *)
  (forall ops cfg st,
     lrun cfg st (map LOp ops) =
     (cfg, fst (mrun cfg st ops), map (fun r => (c_rate cfg, r)) (snd (mrun cfg st ops)))) /\
  (* an assignment replaces one field of the configuration and nothing else *)
  (forall cfg st,
     (forall r, lstep cfg st (LSetRate r) = (set_rate cfg r, st, None) /\ c_rate (set_rate cfg r) = r /\
                c_adaptive (set_rate cfg r) = c_adaptive cfg) /\
     (forall b, lstep cfg st (LSetAdaptive b) = (set_adaptive cfg b, st, None) /\
                c_adaptive (set_adaptive cfg b) = b /\ c_rate (set_adaptive cfg b) = c_rate cfg)) /\
  (forall ops cfg st,
     c_cc (fst (fst (lrun cfg st ops))) = c_cc cfg /\ c_hash (fst (fst (lrun cfg st ops))) = c_hash cfg) /\
  (* replay memory *)
  (forall cfg st c st1 r,
     mfilter cfg st c = (st1, r) -> r_kind r = Scanned -> r_allowed r = false ->
     forall ops c', c_hash cfg c' = c_hash cfg c ->
     r_allowed (snd (mfilter (fst (fst (lrun cfg st1 ops))) (snd (fst (lrun cfg st1 ops))) c')) = false) /\
  (* audit trail *)
  (forall ops cfg st,
     forallb (fun o => negb (lis_clear o)) ops = true ->
     m_audit (snd (fst (lrun cfg st ops))) = m_audit st ++ map snd (snd (lrun cfg st ops))) /\
  (* constructor / add_signature signatures stay active *)
  (forall ops cfg st g, In g (m_sigs st) -> In g (active (snd (fst (lrun cfg st ops))))) /\
  (* learned / imported signatures stay until their exact text is named, and decide *)
  (forall ops cfg st g c,
     In g (m_learned st) -> forallb (fun o => negb (lnames (s_key g) o)) ops = true ->
     let cfg' := fst (fst (lrun cfg st ops)) in
     let st' := snd (fst (lrun cfg st ops)) in
     In g (m_learned st') /\
     (sig_matches (c_cc cfg) g c = true -> m_threshold st' <= s_level g ->
      r_allowed (snd (mfilter cfg' st' c)) = false)) /\
  (* learn_threat while enable_adaptive is off changes nothing *)
  (forall cfg st g, c_adaptive cfg = false -> lstep cfg st (LOp (OLearn g)) = (cfg, st, None)).
Proof.
  split; [exact lrun_plain|]. split; [exact lstep_assign|]. split; [exact lrun_cfg_fixed|].
  split; [exact live_replay_memory|]. split; [exact live_audit|]. split; [|split].
  - intros ops cfg st g H. unfold active. apply in_or_app. left. now apply lrun_sigs_keep.
  - intros ops cfg st g c H N cfg' st'. pose proof (lrun_learned_keeps ops cfg st g H N) as K.
    split; [exact K|]. intros M L.
    assert (E : c_cc cfg' = c_cc cfg) by (apply lrun_cfg_fixed). rewrite <- E in M.
    destruct (learned_blocks cfg' st' g c K M) as [B _]. now apply B.
  - intros cfg st g A. cbn [lstep mstep]. now rewrite A.
Qed.
