(* C10 — lemmas about the membrane and innate-immunity models (Model.v).
   Regex/substring lemmas are in RegexProofs.v. *)
From Coq Require Import String ZArith List Bool Lia ZifyBool.
From Verif Require Import C10.Regex C10.RegexProofs C10.Model.
Import ListNotations.
Open Scope Z_scope.

(* ---- small list facts ------------------------------------------------------ *)

Lemma zl_eq_refl : forall a, zl_eq a a = true.
Proof. induction a; cbn; auto. now rewrite Z.eqb_refl. Qed.

Lemma hmem_app : forall h l1 l2, hmem h (l1 ++ l2) = hmem h l1 || hmem h l2.
Proof. induction l1; intros; cbn; auto. destruct (zl_eq a h); auto. Qed.

Lemma hmem_snoc_self : forall h l, hmem h (l ++ [h]) = true.
Proof. intros. rewrite hmem_app. cbn. rewrite zl_eq_refl. apply orb_true_r. Qed.

Lemma fold_max_ge_acc : forall l m, m <= fold_left (fun m g => Z.max m (s_level g)) l m.
Proof. induction l; intros; cbn; [lia|]. specialize (IHl (Z.max m (s_level a))). lia. Qed.

Lemma fold_max_ge_in : forall l m g, In g l -> s_level g <= fold_left (fun m g => Z.max m (s_level g)) l m.
Proof.
  induction l; intros m g H; [destruct H|]. cbn. destruct H as [->|H].
  - pose proof (fold_max_ge_acc l (Z.max m (s_level g))). lia.
  - now apply IHl.
Qed.

Lemma fold_max_attained : forall l m,
  fold_left (fun m g => Z.max m (s_level g)) l m = m \/
  exists g, In g l /\ fold_left (fun m g => Z.max m (s_level g)) l m = s_level g.
Proof.
  induction l; intros m; cbn; [now left|].
  destruct (IHl (Z.max m (s_level a))) as [E|[g [Hg E]]].
  - rewrite E. destruct (Z.max_spec m (s_level a)) as [[_ ->]|[_ ->]]; [right; exists a; auto | now left].
  - right. exists g. auto.
Qed.

Lemma max_level_ge : forall l g, In g l -> s_level g <= max_level l.
Proof. intros. now apply fold_max_ge_in. Qed.
Lemma max_level_nonneg : forall l, 0 <= max_level l.
Proof. intros. apply fold_max_ge_acc. Qed.
Lemma max_level_attained : forall l, max_level l = 0 \/ exists g, In g l /\ max_level l = s_level g.
Proof. intros. apply fold_max_attained. Qed.

Lemma scan_in : forall cc sigs c g, In g (scan cc sigs c) <-> In g sigs /\ sig_matches cc g c = true.
Proof. intros. unfold scan. apply filter_In. Qed.

Lemma scan_ext : forall cc sigs c c',
  (forall g, In g sigs -> sig_matches cc g c = sig_matches cc g c') -> scan cc sigs c = scan cc sigs c'.
Proof.
  intros cc sigs c c' H. unfold scan. induction sigs as [|g l IH]; cbn; auto.
  rewrite (H g (or_introl eq_refl)), IH; auto. intros g' Hg'. apply H. now right.
Qed.

Lemma scan_case_stable : forall cc, cc_ok cc -> forall sigs c c',
  (forall g, In g sigs -> sig_fold_ok cc g) ->
  lower cc c = lower cc c' -> scan cc sigs c = scan cc sigs c'.
Proof. intros cc OK sigs c c' F E. apply scan_ext. intros g Hg. apply sig_case_stable; auto. Qed.

(* if everything that matched c still matches c2, the level can only grow *)
Lemma max_level_scan_mono : forall cc sigs c c2,
  (forall g, In g sigs -> sig_matches cc g c = true -> sig_matches cc g c2 = true) ->
  max_level (scan cc sigs c) <= max_level (scan cc sigs c2).
Proof.
  intros cc sigs c c2 H. destruct (max_level_attained (scan cc sigs c)) as [E|[g [Hg E]]].
  - rewrite E. apply max_level_nonneg.
  - rewrite E. apply max_level_ge. apply scan_in in Hg. destruct Hg as [Hi Hm].
    apply scan_in. auto.
Qed.

(* ---- mfilter: shape of the result --------------------------------------------- *)

Definition is_limited (k : kind) : bool := match k with RateLimited => true | _ => false end.

Lemma mfilter_cases : forall cfg st c st' r, mfilter cfg st c = (st', r) ->
  (r_kind r = RateLimited /\ r_allowed r = false /\ r_level r = critical /\ r_matched r = [] /\
   fst (rate_check cfg st) = true) \/
  (r_kind r = Replay /\ r_allowed r = false /\ r_level r = critical /\ r_matched r = [] /\
   fst (rate_check cfg st) = false /\ hmem (c_hash cfg c) (m_blocked st) = true) \/
  (r_kind r = Scanned /\ r_matched r = scan (c_cc cfg) (active st) c /\
   r_level r = max_level (scan (c_cc cfg) (active st) c) /\
   r_allowed r = (r_level r <? m_threshold st) /\
   fst (rate_check cfg st) = false /\ hmem (c_hash cfg c) (m_blocked st) = false).
Proof.
  intros cfg st c st' r H. unfold mfilter in H.
  destruct (rate_check cfg st) as [lim ts] eqn:R. cbn [fst].
  destruct lim.
  - inversion H; subst. left. cbn. auto 10.
  - destruct (hmem (c_hash cfg c) (m_blocked st)) eqn:Hm.
    + inversion H; subst. right. left. cbn. auto 10.
    + inversion H; subst. right. right. cbn. auto 10.
Qed.

Lemma mfilter_state : forall cfg st c st' r, mfilter cfg st c = (st', r) ->
  m_sigs st' = m_sigs st /\ m_learned st' = m_learned st /\ m_threshold st' = m_threshold st /\
  m_clock st' = m_clock st /\ m_audit st' = m_audit st ++ [r] /\ m_filtered st' = m_filtered st + 1 /\
  m_times st' = snd (rate_check cfg st) /\
  m_blocked st' = (if is_limited (r_kind r) then m_blocked st
                   else if r_allowed r then m_blocked st
                   else if hmem (c_hash cfg c) (m_blocked st) then m_blocked st
                   else m_blocked st ++ [c_hash cfg c]) /\
  r_time r = m_clock st /\ r_hash r = c_hash cfg c.
Proof.
  intros cfg st c st' r H. unfold mfilter in H.
  destruct (rate_check cfg st) as [lim ts] eqn:R. cbn [snd].
  destruct lim.
  - inversion H; subst. cbn. auto 12.
  - destruct (hmem (c_hash cfg c) (m_blocked st)) eqn:Hm.
    + inversion H; subst. cbn. auto 12.
    + inversion H; subst. cbn.
      destruct (max_level (scan (c_cc cfg) (active st) c) <? m_threshold st); auto 12.
Qed.

(* ---- allowed only if no active signature at/above the threshold matches ----- *)

Lemma m_allowed_sound : forall cfg st c st' r,
  mfilter cfg st c = (st', r) -> r_allowed r = true ->
  r_kind r = Scanned /\
  forall g, In g (active st) -> sig_matches (c_cc cfg) g c = true -> s_level g < m_threshold st.
Proof.
  intros cfg st c st' r H A. destruct (mfilter_cases _ _ _ _ _ H) as [X|[X|X]].
  - destruct X as (_ & F & _). congruence.
  - destruct X as (_ & F & _). congruence.
  - destruct X as (K & Hm & Hl & Ha & _). split; auto. intros g Hg Hs.
    rewrite Ha in A. apply Z.ltb_lt in A. rewrite Hl in A.
    assert (s_level g <= max_level (scan (c_cc cfg) (active st) c)).
    { apply max_level_ge. apply scan_in. auto. }
    lia.
Qed.

Lemma m_level_is_max : forall cfg st c st' r,
  mfilter cfg st c = (st', r) -> r_kind r = Scanned ->
  (forall g, In g (r_matched r) <-> In g (active st) /\ sig_matches (c_cc cfg) g c = true) /\
  (forall g, In g (r_matched r) -> s_level g <= r_level r) /\
  (r_level r = 0 \/ exists g, In g (r_matched r) /\ r_level r = s_level g) /\
  r_allowed r = (r_level r <? m_threshold st).
Proof.
  intros cfg st c st' r H K. destruct (mfilter_cases _ _ _ _ _ H) as [X|[X|X]].
  - destruct X as (K' & _). congruence.
  - destruct X as (K' & _). congruence.
  - destruct X as (_ & Hm & Hl & Ha & _). rewrite Hm, Hl. split; [|split; [|split]].
    + intros g. apply scan_in.
    + intros g Hg. now apply max_level_ge.
    + apply max_level_attained.
    + rewrite Ha, Hl. reflexivity.
Qed.

(* ---- case changes and embedding keep a scan-blocked input blocked ----------- *)

Definition same_rules (st st2 : mstate) : Prop :=
  m_sigs st2 = m_sigs st /\ m_learned st2 = m_learned st /\ m_threshold st2 = m_threshold st.

Lemma not_allowed_if_level : forall cfg st2 c2 st3 r2,
  mfilter cfg st2 c2 = (st3, r2) ->
  m_threshold st2 <= max_level (scan (c_cc cfg) (active st2) c2) -> r_allowed r2 = false.
Proof.
  intros cfg st2 c2 st3 r2 H L. destruct (mfilter_cases _ _ _ _ _ H) as [X|[X|X]].
  - tauto.
  - tauto.
  - destruct X as (_ & _ & Hl & Ha & _). rewrite Ha, Hl. apply Z.ltb_ge. exact L.
Qed.

Lemma blocked_level : forall cfg st c st' r,
  mfilter cfg st c = (st', r) -> r_kind r = Scanned -> r_allowed r = false ->
  m_threshold st <= max_level (scan (c_cc cfg) (active st) c).
Proof.
  intros cfg st c st' r H K A. destruct (mfilter_cases _ _ _ _ _ H) as [X|[X|X]].
  - destruct X as (K' & _). congruence.
  - destruct X as (K' & _). congruence.
  - destruct X as (_ & _ & Hl & Ha & _). rewrite Ha, Hl in A. now apply Z.ltb_ge in A.
Qed.

Lemma active_same : forall st st2, same_rules st st2 -> active st2 = active st.
Proof. intros st st2 (A & B & _). unfold active. now rewrite A, B. Qed.

Lemma m_case_stable_blocked : forall cfg, cc_ok (c_cc cfg) -> forall st c st' r,
  (forall g, In g (active st) -> sig_fold_ok (c_cc cfg) g) ->
  mfilter cfg st c = (st', r) -> r_kind r = Scanned -> r_allowed r = false ->
  forall st2 c', same_rules st st2 -> lower (c_cc cfg) c' = lower (c_cc cfg) c ->
  r_allowed (snd (mfilter cfg st2 c')) = false.
Proof.
  intros cfg OK st c st' r F H K A st2 c' S E.
  destruct (mfilter cfg st2 c') as [st3 r2] eqn:H2. cbn [snd].
  apply (not_allowed_if_level _ _ _ _ _ H2).
  rewrite (active_same _ _ S). destruct S as (_ & _ & ->).
  rewrite (scan_case_stable _ OK _ c' c F E). eapply blocked_level; eauto.
Qed.

Lemma m_embed_blocked_gen : forall cfg st c st' r,
  mfilter cfg st c = (st', r) -> r_kind r = Scanned -> r_allowed r = false ->
  forall st2 c2, same_rules st st2 ->
  (forall g, In g (active st) -> sig_matches (c_cc cfg) g c = true -> sig_matches (c_cc cfg) g c2 = true) ->
  r_allowed (snd (mfilter cfg st2 c2)) = false.
Proof.
  intros cfg st c st' r H K A st2 c2 S Hm.
  destruct (mfilter cfg st2 c2) as [st3 r2] eqn:H2. cbn [snd].
  apply (not_allowed_if_level _ _ _ _ _ H2).
  rewrite (active_same _ _ S). destruct S as (_ & _ & ->).
  pose proof (blocked_level _ _ _ _ _ H K A).
  pose proof (max_level_scan_mono (c_cc cfg) (active st) c c2 Hm). lia.
Qed.

(* a blocking substring (or \b-free regex) signature: any surrounding text *)
Lemma m_embed_blocked_by : forall cfg st g c,
  In g (active st) -> sig_wb_free g = true -> sig_matches (c_cc cfg) g c = true ->
  m_threshold st <= s_level g ->
  forall st2 pre post, same_rules st st2 ->
  r_allowed (snd (mfilter cfg st2 (pre ++ c ++ post))) = false.
Proof.
  intros cfg st g c Hg F Hm L st2 pre post S.
  destruct (mfilter cfg st2 (pre ++ c ++ post)) as [st3 r2] eqn:H2. cbn [snd].
  apply (not_allowed_if_level _ _ _ _ _ H2).
  rewrite (active_same _ _ S). destruct S as (_ & _ & ->).
  assert (s_level g <= max_level (scan (c_cc cfg) (active st) (pre ++ c ++ post))).
  { apply max_level_ge. apply scan_in. split; auto. now apply sig_embed_wb_free. }
  lia.
Qed.

(* ---- replay memory ------------------------------------------------------------ *)

Lemma mstep_blocked_mono : forall cfg st op h,
  hmem h (m_blocked st) = true -> hmem h (m_blocked (fst (mstep cfg st op))) = true.
Proof.
  intros cfg st op h H. destruct op; cbn [mstep fst]; auto.
  - destruct (mfilter cfg st content) as [st' r] eqn:F. cbn [fst].
    destruct (mfilter_state _ _ _ _ _ F) as (_ & _ & _ & _ & _ & _ & _ & B & _). rewrite B.
    destruct (is_limited (r_kind r)); auto. destruct (r_allowed r); auto.
    destruct (hmem (c_hash cfg content) (m_blocked st)); auto.
    rewrite hmem_app, H. reflexivity.
  - destruct (c_adaptive cfg); auto.
Qed.

Lemma mrun_blocked_mono : forall cfg ops st h,
  hmem h (m_blocked st) = true -> hmem h (m_blocked (fst (mrun cfg st ops))) = true.
Proof.
  intros cfg. induction ops as [|op ops IH]; intros st h H; cbn [mrun]; auto.
  pose proof (mstep_blocked_mono cfg st op h H) as H1.
  destruct (mstep cfg st op) as [st1 o]. cbn [fst] in H1.
  specialize (IH st1 h H1). destruct (mrun cfg st1 ops) as [st2 rs]. exact IH.
Qed.

Lemma m_replay_memory : forall cfg st c st1 r,
  mfilter cfg st c = (st1, r) -> r_kind r = Scanned -> r_allowed r = false ->
  forall ops c', c_hash cfg c' = c_hash cfg c ->
  r_allowed (snd (mfilter cfg (fst (mrun cfg st1 ops)) c')) = false.
Proof.
  intros cfg st c st1 r H K A ops c' Eh.
  assert (B : hmem (c_hash cfg c) (m_blocked st1) = true).
  { destruct (mfilter_state _ _ _ _ _ H) as (_ & _ & _ & _ & _ & _ & _ & B & _). rewrite B.
    rewrite K, A. cbn. destruct (hmem (c_hash cfg c) (m_blocked st)) eqn:E; auto. apply hmem_snoc_self. }
  pose proof (mrun_blocked_mono cfg ops st1 _ B) as B2.
  destruct (mfilter cfg (fst (mrun cfg st1 ops)) c') as [st3 r3] eqn:F. cbn [snd].
  destruct (mfilter_cases _ _ _ _ _ F) as [X|[X|X]]; try tauto.
  destruct X as (_ & _ & _ & _ & _ & N). rewrite Eh in N. congruence.
Qed.

(* ---- a learned / imported signature stays active until its exact text is named ---- *)

Lemma zl_eq_true : forall a b, zl_eq a b = true <-> a = b.
Proof.
  induction a as [|x a IH]; destruct b as [|y b]; cbn; split; intro H; try discriminate; auto.
  - destruct (x =? y) eqn:E; [|discriminate]. apply Z.eqb_eq in E. apply IH in H. congruence.
  - inversion H; subst. rewrite Z.eqb_refl. now apply IH.
Qed.

Lemma zl_eq_false : forall a b, zl_eq a b = false <-> a <> b.
Proof. intros. rewrite <- zl_eq_true. destruct (zl_eq a b); split; congruence. Qed.

Lemma existsb_false_forall : forall A (p : A -> bool) l,
  existsb p l = false -> forall x, In x l -> p x = false.
Proof.
  intros A p l H x Hx. destruct (p x) eqn:E; auto.
  assert (existsb p l = true) by (apply existsb_exists; eauto). congruence.
Qed.

Lemma upsert_in : forall l g, In g (upsert l g).
Proof.
  induction l as [|x l IH]; intros g; cbn; [now left|].
  destruct (zl_eq (s_key x) (s_key g)); [now left | right; apply IH].
Qed.

Lemma upsert_keeps : forall l g g', In g l -> s_key g' <> s_key g -> In g (upsert l g').
Proof.
  induction l as [|x l IH]; intros g g' H N; [destruct H|]. cbn.
  destruct (zl_eq (s_key x) (s_key g')) eqn:E.
  - apply zl_eq_true in E. destruct H as [H|H]; [subst x; congruence | now right].
  - destruct H as [H|H]; [now left | right; now apply IH].
Qed.

Lemma fold_upsert_keeps : forall l' l g,
  In g l -> (forall g', In g' l' -> s_key g' <> s_key g) -> In g (fold_left upsert l' l).
Proof.
  induction l' as [|a l' IH]; intros l g H N; cbn; auto.
  apply IH.
  - apply upsert_keeps; auto. apply N. now left.
  - intros g' Hg'. apply N. now right.
Qed.

(* import_antibodies(l1 + [g] + l2): g is held afterwards unless a LATER element
   of the same list carries exactly its text *)
Lemma fold_upsert_in : forall l1 g l2 l,
  (forall g', In g' l2 -> s_key g' <> s_key g) -> In g (fold_left upsert (l1 ++ g :: l2) l).
Proof.
  intros l1 g l2 l N. rewrite fold_left_app. cbn [fold_left].
  apply fold_upsert_keeps; auto. apply upsert_in.
Qed.

Lemma forget_in : forall l k g, In g (forget l k) <-> In g l /\ s_key g <> k.
Proof.
  intros. unfold forget. rewrite filter_In, negb_true_iff, zl_eq_false. tauto.
Qed.

(* names_key is exact equality of the pattern text, nothing coarser *)
Lemma names_key_exact : forall cfg k op, names_key cfg k op = true ->
  op = OForget k \/
  exists g, s_key g = k /\ (op = OLearn g \/ exists l, op = OImport l /\ In g l).
Proof.
  intros cfg k op H. destruct op; cbn [names_key] in H; try discriminate.
  - apply andb_true_iff in H. destruct H as [_ H]. apply zl_eq_true in H. right. exists g. auto.
  - apply zl_eq_true in H. left. now subst.
  - apply existsb_exists in H. destruct H as (g & Hg & E). apply zl_eq_true in E.
    right. exists g. split; auto. right. exists l. auto.
Qed.

Lemma mstep_learned_keeps : forall cfg st op g,
  In g (m_learned st) -> names_key cfg (s_key g) op = false ->
  In g (m_learned (fst (mstep cfg st op))).
Proof.
  intros cfg st op g H N. destruct op; cbn [mstep fst names_key] in *; auto.
  - destruct (mfilter cfg st content) as [st' r] eqn:F. cbn [fst].
    destruct (mfilter_state _ _ _ _ _ F) as (_ & L & _). now rewrite L.
  - destruct (c_adaptive cfg); cbn [andb] in N; auto.
    cbn [set_learned m_learned]. apply upsert_keeps; auto. now apply zl_eq_false.
  - cbn [set_learned m_learned]. apply forget_in. split; auto.
    apply zl_eq_false in N. congruence.
  - cbn [set_learned m_learned]. apply fold_upsert_keeps; auto.
    intros g' Hg'. apply zl_eq_false. exact (existsb_false_forall _ _ _ N g' Hg').
Qed.

Lemma mrun_learned_keeps : forall cfg ops st g,
  In g (m_learned st) -> forallb (fun op => negb (names_key cfg (s_key g) op)) ops = true ->
  In g (m_learned (fst (mrun cfg st ops))).
Proof.
  intros cfg. induction ops as [|op ops IH]; intros st g H N; cbn [mrun fst]; auto.
  cbn [forallb] in N. apply andb_true_iff in N. destruct N as [N1 N2]. apply negb_true_iff in N1.
  pose proof (mstep_learned_keeps cfg st op g H N1) as H1.
  destruct (mstep cfg st op) as [st1 o]. cbn [fst] in H1.
  specialize (IH st1 g H1 N2). destruct (mrun cfg st1 ops) as [st2 rs]. exact IH.
Qed.

(* what a held signature does to a matching input *)
Lemma learned_blocks : forall cfg st g c,
  In g (m_learned st) -> sig_matches (c_cc cfg) g c = true ->
  (m_threshold st <= s_level g -> r_allowed (snd (mfilter cfg st c)) = false) /\
  (r_kind (snd (mfilter cfg st c)) = Scanned ->
   In g (r_matched (snd (mfilter cfg st c))) /\ s_level g <= r_level (snd (mfilter cfg st c))).
Proof.
  intros cfg st g c H M. destruct (mfilter cfg st c) as [st' r] eqn:F. cbn [snd].
  assert (A : In g (active st)) by (unfold active; apply in_or_app; now right).
  split.
  - intros L. destruct (r_allowed r) eqn:E; auto.
    destruct (m_allowed_sound _ _ _ _ _ F E) as (_ & S). specialize (S g A M). lia.
  - intros K. destruct (m_level_is_max _ _ _ _ _ F K) as (I & G & _).
    assert (In g (r_matched r)) by (apply I; auto). auto.
Qed.

Lemma learned_active_all :
  (* learn_threat (adaptive) and import_antibodies put the signature into the memory ... *)
  (forall cfg st g, c_adaptive cfg = true -> In g (m_learned (fst (mstep cfg st (OLearn g))))) /\
  (forall cfg st l1 g l2, (forall g', In g' l2 -> s_key g' <> s_key g) ->
     In g (m_learned (fst (mstep cfg st (OImport (l1 ++ g :: l2)))))) /\
  (* ... it stays there, unchanged, through every history that does not name exactly its text ... *)
  (forall cfg ops st g,
     In g (m_learned st) -> forallb (fun op => negb (names_key cfg (s_key g) op)) ops = true ->
     In g (m_learned (fst (mrun cfg st ops)))) /\
  (* ... "names" is equality of the text as written ... *)
  (forall cfg k op, names_key cfg k op = true ->
     op = OForget k \/
     exists g, s_key g = k /\ (op = OLearn g \/ exists l, op = OImport l /\ In g l)) /\
  (* ... forget_threat(k) removes the signatures whose text is k and no other ... *)
  (forall cfg st k g, In g (m_learned (fst (mstep cfg st (OForget k)))) <-> In g (m_learned st) /\ s_key g <> k) /\
  (* ... and while it is held, a matching input is refused when its level reaches the threshold, and a
     scan reports it with at least its level *)
  (forall cfg ops st g c,
     In g (m_learned st) -> forallb (fun op => negb (names_key cfg (s_key g) op)) ops = true ->
     sig_matches (c_cc cfg) g c = true ->
     let st' := fst (mrun cfg st ops) in
     (m_threshold st' <= s_level g -> r_allowed (snd (mfilter cfg st' c)) = false) /\
     (r_kind (snd (mfilter cfg st' c)) = Scanned ->
      In g (r_matched (snd (mfilter cfg st' c))) /\ s_level g <= r_level (snd (mfilter cfg st' c)))).
Proof.
  split; [|split; [|split; [|split; [|split]]]].
  - intros cfg st g A. cbn [mstep fst]. rewrite A. cbn [set_learned m_learned]. apply upsert_in.
  - intros cfg st l1 g l2 N. cbn [mstep fst set_learned m_learned]. now apply fold_upsert_in.
  - exact mrun_learned_keeps.
  - exact names_key_exact.
  - intros cfg st k g. cbn [mstep fst set_learned m_learned]. apply forget_in.
  - intros cfg ops st g c H N M st'. apply learned_blocks; auto. now apply mrun_learned_keeps.
Qed.

(* ---- audit trail ------------------------------------------------------------------ *)

Definition is_clear (op : mop) : bool := match op with OClearAudit => true | _ => false end.

Lemma m_audit_step : forall cfg st op,
  m_audit (fst (mstep cfg st op)) =
  match op, snd (mstep cfg st op) with
  | OClearAudit, _ => []
  | _, Some r => m_audit st ++ [r]
  | _, None => m_audit st
  end.
Proof.
  intros cfg st op. destruct op; cbn [mstep fst snd]; auto.
  - destruct (mfilter cfg st content) as [st' r] eqn:F. cbn [fst snd].
    now destruct (mfilter_state _ _ _ _ _ F) as (_ & _ & _ & _ & B & _).
  - destruct (c_adaptive cfg); auto.
Qed.

Lemma mstep_filter_only : forall cfg st op r, snd (mstep cfg st op) = Some r ->
  exists c, op = OFilter c /\ mfilter cfg st c = (fst (mstep cfg st op), r).
Proof.
  intros cfg st op r H. destruct op; cbn [mstep snd] in H; try discriminate.
  exists content. split; auto. cbn [mstep]. destruct (mfilter cfg st content) as [st' r'].
  cbn in *. now inversion H.
Qed.

Lemma m_audit_history : forall cfg ops st,
  forallb (fun op => negb (is_clear op)) ops = true ->
  m_audit (fst (mrun cfg st ops)) = m_audit st ++ snd (mrun cfg st ops).
Proof.
  intros cfg. induction ops as [|op ops IH]; intros st H; cbn [mrun].
  - cbn. now rewrite app_nil_r.
  - cbn [forallb] in H. apply andb_prop in H. destruct H as [Hc H].
    destruct op; cbn [mstep]; cbn in Hc; try discriminate.
    + destruct (mfilter cfg st content) as [st1 r] eqn:F.
      destruct (mfilter_state _ _ _ _ _ F) as (_ & _ & _ & _ & B & _).
      specialize (IH st1 H). destruct (mrun cfg st1 ops) as [st2 rs]. cbn [fst snd] in *.
      rewrite IH, B. now rewrite <- app_assoc.
    + destruct (c_adaptive cfg);
      match goal with |- context [mrun cfg ?s ops] => specialize (IH s H); destruct (mrun cfg s ops) as [st2 rs] end;
      cbn [fst snd] in *; exact IH.
    + match goal with |- context [mrun cfg ?s ops] => specialize (IH s H); destruct (mrun cfg s ops) as [st2 rs] end;
      cbn [fst snd] in *; exact IH.
    + match goal with |- context [mrun cfg ?s ops] => specialize (IH s H); destruct (mrun cfg s ops) as [st2 rs] end;
      cbn [fst snd] in *; exact IH.
    + match goal with |- context [mrun cfg ?s ops] => specialize (IH s H); destruct (mrun cfg s ops) as [st2 rs] end;
      cbn [fst snd] in *; exact IH.
    + match goal with |- context [mrun cfg ?s ops] => specialize (IH s H); destruct (mrun cfg s ops) as [st2 rs] end;
      cbn [fst snd] in *; exact IH.
    + match goal with |- context [mrun cfg ?s ops] => specialize (IH s H); destruct (mrun cfg s ops) as [st2 rs] end;
      cbn [fst snd] in *; exact IH.
Qed.

(* ---- rate limit -------------------------------------------------------------------- *)

Definition in_window (a t : Z) : bool := (a <=? t) && (t <? a + window).
Definition count_in (a : Z) (l : list Z) : Z := Z.of_nat (length (filter (in_window a) l)).
Definition admitted (rs : list mresult) : list Z :=
  map r_time (filter (fun r => negb (is_limited (r_kind r))) rs).
Definition nonneg_tick (op : mop) : Prop := match op with OTick d => 0 <= d | _ => True end.

Lemma filter_length_le : forall (p q : Z -> bool) l,
  (forall t, p t = true -> q t = true) -> (length (filter p l) <= length (filter q l))%nat.
Proof.
  intros p q l H. induction l as [|x l IH]; cbn; auto.
  destruct (p x) eqn:P.
  - rewrite (H x P). cbn. lia.
  - destruct (q x); cbn; lia.
Qed.

Lemma filter_filter_weaker : forall (p q : Z -> bool) l,
  (forall t, p t = true -> q t = true) -> filter p (filter q l) = filter p l.
Proof.
  intros p q l H. induction l as [|x l IH]; cbn; auto.
  destruct (q x) eqn:Q; cbn.
  - now rewrite IH.
  - destruct (p x) eqn:P; auto. rewrite (H x P) in Q. discriminate.
Qed.

Definition rate_inv (n : Z) (st : mstate) (adm : list Z) : Prop :=
  (exists c, c <= m_clock st - window /\ m_times st = filter (fun t => c <? t) adm) /\
  (forall a, count_in a adm <= Z.max 0 n).

Lemma rate_inv_filter : forall cfg n st adm c st' r,
  c_rate cfg = Some n -> rate_inv n st adm -> mfilter cfg st c = (st', r) ->
  rate_inv n st' (adm ++ (if is_limited (r_kind r) then [] else [r_time r])).
Proof.
  intros cfg n st adm c st' r Hn [[c0 [Hc Ht]] Hb] F.
  destruct (mfilter_state _ _ _ _ _ F) as (_ & _ & _ & Hclk & _ & _ & Htimes & _ & Htime & _).
  pose proof (mfilter_cases _ _ _ _ _ F) as Cases.
  unfold rate_check in *. rewrite Hn in *.
  set (now := m_clock st) in *.
  assert (Hts : filter (fun t => now - window <? t) (m_times st) = filter (fun t => now - window <? t) adm).
  { rewrite Ht. apply filter_filter_weaker. intros t Hlt. lia. }
  rewrite Hts in *.
  destruct (n <=? Z.of_nat (length (filter (fun t => now - window <? t) adm))) eqn:Lim; cbn [fst snd] in *.
  - (* limited *)
    assert (K : is_limited (r_kind r) = true).
    { destruct Cases as [X|[X|X]]; [destruct X as (-> & _); reflexivity | | ];
      destruct X as (_ & _ & _ & _ & X & _); discriminate. }
    rewrite K, app_nil_r. split; auto.
    exists (now - window). rewrite Hclk. split; [lia | exact Htimes].
  - (* admitted *)
    assert (K : is_limited (r_kind r) = false).
    { destruct Cases as [X|[X|X]]; [destruct X as (_ & _ & _ & _ & X); discriminate | | ];
      destruct X as (-> & _); reflexivity. }
    rewrite K, Htime. fold now. split.
    + exists (now - window). rewrite Hclk. split; [lia|].
      rewrite Htimes, filter_app. cbn [filter].
      assert (W : now - window <? now = true) by (unfold window, ticks_per_second; lia).
      now rewrite W.
    + intros a. unfold count_in. rewrite filter_app, app_length. cbn [filter].
      specialize (Hb a). unfold count_in in Hb.
      destruct (in_window a now) eqn:W; cbn [length]; [|lia].
      assert ((length (filter (in_window a) adm) <= length (filter (fun t => (now - window <? t)%Z) adm))%nat).
      { apply filter_length_le. intros t Hw. unfold in_window in *. lia. }
      lia.
Qed.

Lemma rate_inv_step : forall cfg n st adm op,
  c_rate cfg = Some n -> nonneg_tick op -> rate_inv n st adm ->
  rate_inv n (fst (mstep cfg st op))
           (adm ++ admitted (match snd (mstep cfg st op) with Some r => [r] | None => [] end)).
Proof.
  intros cfg n st adm op Hn Ht Inv. destruct op; cbn [mstep].
  - destruct (mfilter cfg st content) as [st' r] eqn:F. cbn [fst snd].
    pose proof (rate_inv_filter cfg n st adm content st' r Hn Inv F) as H.
    unfold admitted. cbn [filter]. destruct (is_limited (r_kind r)); cbn [negb map]; exact H.
  - cbn [fst snd admitted filter map]. rewrite app_nil_r. destruct (c_adaptive cfg); exact Inv.
  - cbn. rewrite app_nil_r. exact Inv.
  - cbn. rewrite app_nil_r. exact Inv.
  - cbn. rewrite app_nil_r. exact Inv.
  - cbn. rewrite app_nil_r. exact Inv.
  - cbn [fst snd admitted filter map]. rewrite app_nil_r. destruct Inv as [[c0 [Hc Htm]] Hb].
    split; auto. exists c0. cbn in *. split; [lia | exact Htm].
  - cbn. rewrite app_nil_r. exact Inv.
Qed.

Lemma admitted_app : forall a b, admitted (a ++ b) = admitted a ++ admitted b.
Proof. intros. unfold admitted. now rewrite filter_app, map_app. Qed.

Lemma rate_inv_run : forall cfg n ops st adm,
  c_rate cfg = Some n -> Forall nonneg_tick ops -> rate_inv n st adm ->
  rate_inv n (fst (mrun cfg st ops)) (adm ++ admitted (snd (mrun cfg st ops))).
Proof.
  intros cfg n. induction ops as [|op ops IH]; intros st adm Hn Hm Inv; cbn [mrun].
  - cbn. now rewrite app_nil_r.
  - inversion Hm as [|? ? Hop Hops]; subst.
    pose proof (rate_inv_step cfg n st adm op Hn Hop Inv) as S.
    destruct (mstep cfg st op) as [st1 o]. cbn [fst snd] in S.
    specialize (IH st1 _ Hn Hops S). destruct (mrun cfg st1 ops) as [st2 rs]. cbn [fst snd] in *.
    destruct o; [|now rewrite app_nil_r in IH].
    change (m :: rs) with ([m] ++ rs). rewrite admitted_app, app_assoc. exact IH.
Qed.

Lemma m_rate_bound : forall cfg n sigs thr t0 ops,
  c_rate cfg = Some n -> Forall nonneg_tick ops ->
  forall a, count_in a (admitted (snd (mrun cfg (minit sigs thr t0) ops))) <= Z.max 0 n.
Proof.
  intros cfg n sigs thr t0 ops Hn Hm a.
  assert (I0 : rate_inv n (minit sigs thr t0) []).
  { split; [exists (t0 - window); cbn; split; [lia|reflexivity] | intros; cbn; lia]. }
  destruct (rate_inv_run cfg n ops _ _ Hn Hm I0) as [_ Hb]. cbn [app] in Hb. apply Hb.
Qed.

(* ---- colony: membranes are isolated ------------------------------------------------ *)

Lemma nth_upd_other : forall A (l : list A) i j x, j <> i -> nth_error (upd l i x) j = nth_error l j.
Proof.
  induction l as [|y l IH]; intros i j x N; destruct i, j; cbn; auto; try congruence.
Qed.

Lemma nth_upd_same : forall A (l : list A) i x y, nth_error l i = Some y -> nth_error (upd l i x) i = Some x.
Proof.
  induction l as [|z l IH]; intros i x y H; destruct i; cbn in *; try discriminate; auto.
  eapply IH; eauto.
Qed.

Lemma sys_step_untouched : forall sys o j, touches j o = false ->
  nth_error (fst (sys_step sys o)) j = nth_error sys j.
Proof.
  intros sys o j T. destruct o as [i op|s d|dlt]; cbn in T; try discriminate.
  - apply Nat.eqb_neq in T. cbn [sys_step]. destruct (nth_error sys i) as [m|]; auto.
    destruct (member_step m op) as [m' r]. cbn [fst]. apply nth_upd_other. congruence.
  - apply Nat.eqb_neq in T. cbn [sys_step].
    destruct (nth_error sys s) as [ms|]; auto. destruct (nth_error sys d) as [md|]; auto.
    cbn [fst]. apply nth_upd_other. congruence.
Qed.

Lemma sys_run_untouched : forall ops sys j, forallb (fun o => negb (touches j o)) ops = true ->
  nth_error (fst (sys_run sys ops)) j = nth_error sys j.
Proof.
  induction ops as [|o ops IH]; intros sys j H; cbn [sys_run]; auto.
  cbn [forallb] in H. apply andb_prop in H. destruct H as [H1 H2]. apply negb_true_iff in H1.
  pose proof (sys_step_untouched sys o j H1) as S.
  destruct (sys_step sys o) as [s1 r]. cbn [fst] in S.
  specialize (IH s1 j H2). destruct (sys_run s1 ops) as [s2 rs]. cbn [fst] in *. congruence.
Qed.

(* a step local to j: its effect on j and its result are functions of member j alone *)
Lemma sys_step_local : forall o j sys1 sys2, local_to j o = true ->
  nth_error sys1 j = nth_error sys2 j ->
  nth_error (fst (sys_step sys1 o)) j = nth_error (fst (sys_step sys2 o)) j /\
  snd (sys_step sys1 o) = snd (sys_step sys2 o).
Proof.
  intros o j sys1 sys2 L E. destruct o as [i op|s d|dlt]; cbn in L; try discriminate.
  - apply Nat.eqb_eq in L. subst i. cbn [sys_step]. rewrite <- E.
    destruct (nth_error sys1 j) as [m|] eqn:N1.
    + destruct (member_step m op) as [m' r]. cbn [fst snd]. split; auto.
      rewrite (nth_upd_same _ sys1 j m' m N1). symmetry in E.
      now rewrite (nth_upd_same _ sys2 j m' m E).
    + cbn. split; auto. congruence.
  - cbn [sys_step fst snd]. split; auto. rewrite !nth_error_map. now rewrite E.
Qed.

Lemma sys_run_local : forall ops j sys1 sys2, forallb (local_to j) ops = true ->
  nth_error sys1 j = nth_error sys2 j ->
  nth_error (fst (sys_run sys1 ops)) j = nth_error (fst (sys_run sys2 ops)) j /\
  snd (sys_run sys1 ops) = snd (sys_run sys2 ops).
Proof.
  induction ops as [|o ops IH]; intros j sys1 sys2 H E; cbn [sys_run]; auto.
  cbn [forallb] in H. apply andb_prop in H. destruct H as [H1 H2].
  destruct (sys_step_local o j sys1 sys2 H1 E) as [S1 S2].
  destruct (sys_step sys1 o) as [a1 r1], (sys_step sys2 o) as [a2 r2]. cbn [fst snd] in *. subst r2.
  destruct (IH j a1 a2 H2 S1) as [T1 T2].
  destruct (sys_run a1 ops) as [b1 rs1], (sys_run a2 ops) as [b2 rs2]. cbn [fst snd] in *. subst rs2. auto.
Qed.

Lemma membranes_isolated_all :
  (forall sys o j, touches j o = false -> nth_error (fst (sys_step sys o)) j = nth_error sys j) /\
  (forall sys others j, forallb (fun o => negb (touches j o)) others = true ->
     nth_error (fst (sys_run sys others)) j = nth_error sys j) /\
  (forall sys others mine j,
     forallb (fun o => negb (touches j o)) others = true -> forallb (local_to j) mine = true ->
     snd (sys_run (fst (sys_run sys others)) mine) = snd (sys_run sys mine) /\
     nth_error (fst (sys_run (fst (sys_run sys others)) mine)) j = nth_error (fst (sys_run sys mine)) j) /\
  (forall sys s d ms md, nth_error sys s = Some ms -> nth_error sys d = Some md ->
     nth_error (fst (sys_step sys (STransfer s d))) d =
     Some (mkMember (mb_cfg md) (fst (mstep (mb_cfg md) (mb_st md) (OImport (m_learned (mb_st ms))))))).
Proof.
  split; [exact sys_step_untouched | split; [intros sys others j; apply sys_run_untouched | split]].
  - intros sys others mine j H1 H2.
    destruct (sys_run_local mine j _ sys H2 (sys_run_untouched others sys j H1)) as [A B]. auto.
  - intros sys s d ms md Hs Hd. cbn [sys_step]. rewrite Hs, Hd. cbn [fst].
    rewrite (nth_upd_same _ sys d _ md Hd). unfold member_step.
    destruct (mstep (mb_cfg md) (mb_st md) (OImport (m_learned (mb_st ms)))) as [st' r]. reflexivity.
Qed.

(* ---- innate immunity ---------------------------------------------------------------- *)

Lemma run_validators_spec : forall vals c n, run_validators vals c = Some n ->
  0 <= n /\
  (forall v, In v vals -> v c <> VRaises) /\
  (n = 0 -> forall v valid e, In v vals -> v c = VRet valid e -> valid = true \/ e = false).
Proof.
  induction vals as [|v vals IH]; intros c n H; cbn in H.
  - inversion H; subst. repeat split; try lia; intros; contradiction.
  - destruct (v c) as [valid e|] eqn:V; [|discriminate].
    destruct (run_validators vals c) as [m|] eqn:R; [|discriminate].
    destruct (IH c m R) as (P & Q & S). inversion H; subst. repeat split.
    + destruct (negb valid && e); lia.
    + intros v' [<-|Hv]; [congruence | now apply Q].
    + intros Hz v' valid' e' [<-|Hv] Hv'.
      * rewrite V in Hv'. inversion Hv'; subst. destruct valid', e'; cbn in Hz; auto; lia.
      * apply (S ltac:(destruct (negb valid && e); lia) v' valid' e' Hv Hv').
Qed.

Lemma run_validators_none : forall vals c,
  run_validators vals c = None <-> exists v, In v vals /\ v c = VRaises.
Proof.
  induction vals as [|v vals IH]; intros c; cbn.
  - split; [discriminate | intros [v [[] _]]].
  - destruct (v c) as [valid e|] eqn:V.
    + destruct (run_validators vals c) eqn:R.
      * split; [discriminate|]. intros [v' [[<-|Hv] Hr]]; [congruence|].
        assert (run_validators vals c = None) by (apply IH; eauto). congruence.
      * split; auto. intros _. destruct (proj1 (IH c) R) as [v' [Hv Hr]]. exists v'. auto.
    + split; auto. intros _. exists v. auto.
Qed.

Lemma i_allowed_sound : forall cc vals st c st' r,
  icheck cc vals st c = (st', IOk r) -> ir_allowed r = true ->
  (forall g, In g (i_pats st) -> sig_matches cc g c = true -> s_level g < i_threshold st) /\
  (forall v, In v vals -> exists valid e, v c = VRet valid e /\ (valid = true \/ e = false)) /\
  ir_level r < acute.
Proof.
  intros cc vals st c st' r H A. unfold icheck in H.
  destruct (run_validators vals c) as [nerr|] eqn:R; [|inversion H].
  inversion H; subst; clear H. cbn [ir_allowed ir_level] in *.
  apply andb_prop in A. destruct A as [A A3]. apply andb_prop in A. destruct A as [A1 A2].
  destruct (run_validators_spec _ _ _ R) as (_ & Q & S). repeat split.
  - intros g Hg Hm. assert (s_level g <= max_level (scan cc (i_pats st) c)).
    { apply max_level_ge. apply scan_in. auto. } lia.
  - intros v Hv. destruct (v c) as [valid e|] eqn:V.
    + exists valid, e. split; auto. apply (S ltac:(lia) v valid e Hv V).
    + exfalso. now apply (Q v Hv).
  - lia.
Qed.

Lemma i_result_shape : forall cc vals st c st' r,
  icheck cc vals st c = (st', IOk r) ->
  ir_matched r = scan cc (i_pats st) c /\ ir_maxsev r = max_level (scan cc (i_pats st) c) /\
  ir_allowed r = ((ir_maxsev r <? i_threshold st) && (ir_errors r =? 0) && (ir_level r <? acute)) /\
  i_checks st' = i_checks st + 1.
Proof.
  intros cc vals st c st' r H. unfold icheck in H.
  destruct (run_validators vals c) as [nerr|] eqn:R; [|inversion H].
  inversion H; subst; clear H. cbn. auto.
Qed.

Lemma i_total : forall cc vals st c,
  (forall v, In v vals -> v c <> VRaises) <-> exists r, snd (icheck cc vals st c) = IOk r.
Proof.
  intros cc vals st c. unfold icheck. destruct (run_validators vals c) as [n|] eqn:R; cbn [snd].
  - split; [eauto|]. intros _. now destruct (run_validators_spec _ _ _ R) as (_ & Q & _).
  - split.
    + intros H. apply run_validators_none in R. destruct R as [v [Hv Hr]]. now elim (H v Hv).
    + intros [r Hr]. discriminate.
Qed.

(* blocked by a signature at/above the threshold: blocked in every state with
   the same patterns and threshold, for every validator list, under case
   changes and (with the edge condition) embedding *)
Lemma i_blocked_by_signature : forall cc vals st c st' o,
  icheck cc vals st c = (st', o) ->
  i_threshold st <= max_level (scan cc (i_pats st) c) ->
  o = IRaised \/ exists r, o = IOk r /\ ir_allowed r = false.
Proof.
  intros cc vals st c st' o H L. unfold icheck in H.
  destruct (run_validators vals c) as [nerr|]; inversion H; subst; auto.
  right. eexists. split; [reflexivity|]. cbn.
  assert (E : (max_level (scan cc (i_pats st) c) <? i_threshold st) = false) by lia.
  now rewrite E.
Qed.

Lemma i_case_stable_blocked : forall cc, cc_ok cc -> forall st c st2 c' vals2,
  (forall g, In g (i_pats st) -> sig_fold_ok cc g) ->
  i_threshold st <= max_level (scan cc (i_pats st) c) ->
  i_pats st2 = i_pats st -> i_threshold st2 = i_threshold st -> lower cc c' = lower cc c ->
  snd (icheck cc vals2 st2 c') = IRaised \/
  exists r, snd (icheck cc vals2 st2 c') = IOk r /\ ir_allowed r = false.
Proof.
  intros cc OK st c st2 c' vals2 F L P T E.
  destruct (icheck cc vals2 st2 c') as [st3 o] eqn:H. cbn [snd].
  apply (i_blocked_by_signature _ _ _ _ _ _ H). rewrite P, T.
  now rewrite (scan_case_stable cc OK _ c' c F E).
Qed.

Lemma i_embed_blocked : forall cc st c st2 pre post vals2,
  (forall g, In g (i_pats st) -> sig_embed_ok cc g) ->
  i_threshold st <= max_level (scan cc (i_pats st) c) ->
  i_pats st2 = i_pats st -> i_threshold st2 = i_threshold st ->
  last_word cc false pre = false -> head_word cc post = false ->
  snd (icheck cc vals2 st2 (pre ++ c ++ post)) = IRaised \/
  exists r, snd (icheck cc vals2 st2 (pre ++ c ++ post)) = IOk r /\ ir_allowed r = false.
Proof.
  intros cc st c st2 pre post vals2 EO L P T E1 E2.
  destruct (icheck cc vals2 st2 (pre ++ c ++ post)) as [st3 o] eqn:H. cbn [snd].
  apply (i_blocked_by_signature _ _ _ _ _ _ H). rewrite P, T.
  pose proof (max_level_scan_mono cc (i_pats st) c (pre ++ c ++ post)
               (fun g Hg Hm => sig_embed cc g c pre post (EO g Hg) E1 E2 Hm)). lia.
Qed.

(* ---- every signature is judged on its own, host patterns included --------------------- *)

Lemma scan_app : forall cc a b c, scan cc (a ++ b) c = scan cc a c ++ scan cc b c.
Proof. intros. unfold scan. apply filter_app. Qed.

Lemma scan_company : forall cc a g b c, In g (scan cc (a ++ g :: b) c) <-> sig_matches cc g c = true.
Proof.
  intros. rewrite scan_in. split; [tauto|]. intros H. split; auto. apply in_or_app. right. now left.
Qed.

Lemma mstep_sigs_keep : forall cfg st op g, In g (m_sigs st) -> In g (m_sigs (fst (mstep cfg st op))).
Proof.
  intros cfg st op g H. destruct op; cbn [mstep fst set_learned m_sigs]; auto.
  - destruct (mfilter cfg st content) as [st' r] eqn:F. cbn [fst].
    destruct (mfilter_state _ _ _ _ _ F) as (L & _). now rewrite L.
  - destruct (c_adaptive cfg); auto.
  - apply in_or_app. now left.
Qed.

Lemma mrun_sigs_keep : forall cfg ops st g, In g (m_sigs st) -> In g (m_sigs (fst (mrun cfg st ops))).
Proof.
  intros cfg. induction ops as [|op ops IH]; intros st g H; cbn [mrun fst]; auto.
  pose proof (mstep_sigs_keep cfg st op g H) as H1.
  destruct (mstep cfg st op) as [st1 o]. cbn [fst] in H1.
  specialize (IH st1 g H1). destruct (mrun cfg st1 ops) as [st2 rs]. exact IH.
Qed.

Lemma istep_pats_keep : forall cc vals st op g, In g (i_pats st) -> In g (i_pats (fst (istep cc vals st op))).
Proof.
  intros cc vals st op g H. destruct op; cbn [istep fst i_pats]; auto.
  - destruct (icheck cc vals st content) as [st' o] eqn:F. cbn [fst].
    unfold icheck in F. destruct (run_validators vals content); inversion F; subst; cbn [i_pats]; auto.
  - apply in_or_app. now left.
Qed.

Lemma irun_pats_keep : forall cc ops st g, In g (i_pats st) -> In g (i_pats (irun cc st ops)).
Proof.
  intros cc. induction ops as [|[vals op] ops IH]; intros st g H; cbn [irun]; auto.
  apply IH. now apply istep_pats_keep.
Qed.

(* what an active signature does to a matching input, whatever else is active *)
Lemma active_blocks : forall cfg st g c,
  In g (active st) -> sig_matches (c_cc cfg) g c = true ->
  (m_threshold st <= s_level g -> r_allowed (snd (mfilter cfg st c)) = false) /\
  (r_kind (snd (mfilter cfg st c)) = Scanned ->
   In g (r_matched (snd (mfilter cfg st c))) /\ s_level g <= r_level (snd (mfilter cfg st c))).
Proof.
  intros cfg st g c A M. destruct (mfilter cfg st c) as [st' r] eqn:F. cbn [snd].
  split.
  - intros L. destruct (r_allowed r) eqn:E; auto.
    destruct (m_allowed_sound _ _ _ _ _ F E) as (_ & S). specialize (S g A M). lia.
  - intros K. destruct (m_level_is_max _ _ _ _ _ F K) as (I & G & _).
    assert (In g (r_matched r)) by (apply I; auto). auto.
Qed.

Lemma pattern_blocks : forall cc vals st g c,
  In g (i_pats st) -> sig_matches cc g c = true ->
  snd (icheck cc vals st c) = IRaised \/
  exists r, snd (icheck cc vals st c) = IOk r /\ In g (ir_matched r) /\
            (i_threshold st <= s_level g -> ir_allowed r = false).
Proof.
  intros cc vals st g c H M. destruct (icheck cc vals st c) as [st' o] eqn:F. cbn [snd].
  destruct o as [|r]; [now left|]. right. exists r. split; auto.
  destruct (i_result_shape _ _ _ _ _ _ F) as (Hm & _). split.
  - rewrite Hm. apply scan_in. auto.
  - intros L. destruct (ir_allowed r) eqn:E; auto.
    destruct (i_allowed_sound _ _ _ _ _ _ F E) as (S & _). specialize (S g H M). lia.
Qed.

Lemma host_judged_alone_all :
  (* a host pattern's verdict is its own function of the content, nothing else *)
  (forall cc id key f lvl c, sig_matches cc (mkSig id key (KHost f) lvl) c = f c) /\
  (* the scan consults each signature on its own: whatever is installed before and after it *)
  (forall cc a b c, scan cc (a ++ b) c = scan cc a c ++ scan cc b c) /\
  (forall cc a g b c, In g (scan cc (a ++ g :: b) c) <-> sig_matches cc g c = true) /\
  (* a signature given to the constructor or to add_signature / add_pattern is active from then on,
     through every history *)
  (forall cfg st g ops, In g (active (fst (mrun cfg (fst (mstep cfg st (OAddSig g))) ops)))) /\
  (forall cfg ops st g, In g (m_sigs st) -> In g (active (fst (mrun cfg st ops)))) /\
  (forall cc vals st g ops, In g (i_pats (irun cc (fst (istep cc vals st (IAddPattern g))) ops))) /\
  (forall cc ops st g, In g (i_pats st) -> In g (i_pats (irun cc st ops))) /\
  (* and while active it decides every input it matches, in whatever company *)
  (forall cfg st g c,
     In g (active st) -> sig_matches (c_cc cfg) g c = true ->
     (m_threshold st <= s_level g -> r_allowed (snd (mfilter cfg st c)) = false) /\
     (r_kind (snd (mfilter cfg st c)) = Scanned ->
      In g (r_matched (snd (mfilter cfg st c))) /\ s_level g <= r_level (snd (mfilter cfg st c)))) /\
  (forall cc vals st g c,
     In g (i_pats st) -> sig_matches cc g c = true ->
     snd (icheck cc vals st c) = IRaised \/
     exists r, snd (icheck cc vals st c) = IOk r /\ In g (ir_matched r) /\
               (i_threshold st <= s_level g -> ir_allowed r = false)).
Proof.
  split; [reflexivity|]. split; [exact scan_app|]. split; [exact scan_company|].
  split; [|split; [|split; [|split; [|split]]]].
  - intros cfg st g ops. unfold active. apply in_or_app. left. apply mrun_sigs_keep.
    cbn [mstep fst m_sigs]. apply in_or_app. right. now left.
  - intros cfg ops st g H. unfold active. apply in_or_app. left. now apply mrun_sigs_keep.
  - intros cc vals st g ops. apply irun_pats_keep. cbn [istep fst i_pats]. apply in_or_app. right. now left.
  - exact irun_pats_keep.
  - exact active_blocks.
  - exact pattern_blocks.
Qed.

(* ---- the conjunctions stated in Property.v ------------------------------------------ *)

Lemma case_stable_all :
  forall cc, cc_ok cc ->
  (forall g, sig_fold_ok cc g ->
     forall s s', lower cc s = lower cc s' -> sig_matches cc g s = sig_matches cc g s') /\
  (forall sigs s s', (forall g, In g sigs -> sig_fold_ok cc g) ->
     lower cc s = lower cc s' -> scan cc sigs s = scan cc sigs s') /\
  (forall cfg, c_cc cfg = cc -> forall st c st' r,
     (forall g, In g (active st) -> sig_fold_ok cc g) ->
     mfilter cfg st c = (st', r) -> r_kind r = Scanned -> r_allowed r = false ->
     forall st2 c', same_rules st st2 -> lower cc c' = lower cc c ->
     r_allowed (snd (mfilter cfg st2 c')) = false) /\
  (forall st c st2 c' vals2,
     (forall g, In g (i_pats st) -> sig_fold_ok cc g) ->
     i_threshold st <= max_level (scan cc (i_pats st) c) ->
     i_pats st2 = i_pats st -> i_threshold st2 = i_threshold st -> lower cc c' = lower cc c ->
     snd (icheck cc vals2 st2 c') = IRaised \/
     exists r, snd (icheck cc vals2 st2 c') = IOk r /\ ir_allowed r = false).
Proof.
  intros cc OK. split; [|split; [|split]].
  - exact (sig_case_stable cc OK).
  - exact (scan_case_stable cc OK).
  - intros cfg <-. exact (m_case_stable_blocked cfg OK).
  - exact (i_case_stable_blocked cc OK).
Qed.

Lemma embed_stable_regex_all :
  (forall cc r s pre post,
     (edge_free_l r = true \/ last_word cc false pre = false) ->
     (edge_free_r r = true \/ head_word cc post = false) ->
     search cc r s = true -> search cc r (pre ++ s ++ post) = true) /\
  (forall cfg st c st' r,
     mfilter cfg st c = (st', r) -> r_kind r = Scanned -> r_allowed r = false ->
     (forall g, In g (r_matched r) -> sig_embed_ok (c_cc cfg) g) ->
     forall st2 pre post, same_rules st st2 ->
     ((forall g, In g (r_matched r) -> sig_edge_free_l g = true) \/ last_word (c_cc cfg) false pre = false) ->
     ((forall g, In g (r_matched r) -> sig_edge_free_r g = true) \/ head_word (c_cc cfg) post = false) ->
     r_allowed (snd (mfilter cfg st2 (pre ++ c ++ post))) = false) /\
  (forall cc st c st2 pre post vals2,
     (forall g, In g (i_pats st) -> sig_embed_ok cc g) ->
     i_threshold st <= max_level (scan cc (i_pats st) c) ->
     i_pats st2 = i_pats st -> i_threshold st2 = i_threshold st ->
     last_word cc false pre = false -> head_word cc post = false ->
     snd (icheck cc vals2 st2 (pre ++ c ++ post)) = IRaised \/
     exists r, snd (icheck cc vals2 st2 (pre ++ c ++ post)) = IOk r /\ ir_allowed r = false).
Proof.
  split; [exact search_embed_sided | split; [|exact i_embed_blocked]].
  intros cfg st c st' r H K A EO st2 pre post S E1 E2.
  apply (m_embed_blocked_gen cfg st c st' r H K A st2 _ S).
  intros g Hg Hm.
  assert (Hin : In g (r_matched r)).
  { destruct (m_level_is_max _ _ _ _ _ H K) as (Hx & _). apply Hx. auto. }
  apply sig_embed_sided; auto.
  - destruct E1 as [E1|E1]; [left; now apply E1 | now right].
  - destruct E2 as [E2|E2]; [left; now apply E2 | now right].
Qed.

Lemma total_all :
  (forall cc r s, search cc r s = true <-> matches cc r s) /\
  (forall cfg st c, exists st' r, mfilter cfg st c = (st', r) /\
     (r_kind r = Scanned \/ (r_allowed r = false /\ r_level r = critical /\ r_matched r = []))) /\
  (forall cc vals st c,
     (forall v, In v vals -> v c <> VRaises) <-> exists r, snd (icheck cc vals st c) = IOk r).
Proof.
  split; [exact search_spec | split; [|exact i_total]].
  intros cfg st c. destruct (mfilter cfg st c) as [st' r] eqn:H. exists st', r. split; auto.
  destruct (mfilter_cases _ _ _ _ _ H) as [X|[X|X]]; [right|right|left]; tauto.
Qed.

(* ---- the replay memory has no capacity: it is exactly the scan-blocked hashes --------- *)

Lemma hmem_in : forall h l, In h l -> hmem h l = true.
Proof.
  induction l as [|x l IH]; intros H; [contradiction|]. cbn.
  destruct H as [->|H]; [now rewrite zl_eq_refl|]. destruct (zl_eq x h); auto.
Qed.

Definition step_blocked (o : option mresult) : list (list Z) :=
  match o with Some r => if scan_blocked r then [r_hash r] else [] | None => [] end.

Lemma mstep_blocked_exact : forall cfg st op,
  m_blocked (fst (mstep cfg st op)) = m_blocked st ++ step_blocked (snd (mstep cfg st op)).
Proof.
  intros cfg st op. destruct op; cbn [mstep fst snd step_blocked]; try now rewrite app_nil_r.
  - destruct (mfilter cfg st content) as [st' r] eqn:F. cbn [fst snd].
    destruct (mfilter_state _ _ _ _ _ F) as (_ & _ & _ & _ & _ & _ & _ & B & _ & Hh).
    rewrite B. unfold step_blocked, scan_blocked.
    destruct (mfilter_cases _ _ _ _ _ F) as [X|[X|X]].
    + destruct X as (K & _). rewrite K. cbn. now rewrite app_nil_r.
    + destruct X as (K & A & _ & _ & _ & Hm). rewrite K, A, Hm. cbn. now rewrite app_nil_r.
    + destruct X as (K & _ & _ & _ & _ & Hm). rewrite K, Hm, Hh. cbn.
      destruct (r_allowed r); cbn; auto. now rewrite app_nil_r.
  - destruct (c_adaptive cfg); cbn; now rewrite app_nil_r.
Qed.

Lemma mrun_blocked_exact : forall cfg ops st,
  m_blocked (fst (mrun cfg st ops)) =
  m_blocked st ++ map r_hash (filter scan_blocked (snd (mrun cfg st ops))).
Proof.
  intros cfg. induction ops as [|op ops IH]; intros st; cbn [mrun].
  - cbn. now rewrite app_nil_r.
  - pose proof (mstep_blocked_exact cfg st op) as S1.
    destruct (mstep cfg st op) as [st1 o]. cbn [fst snd] in S1.
    specialize (IH st1). destruct (mrun cfg st1 ops) as [st2 rs]. cbn [fst snd] in *.
    rewrite IH, S1, <- app_assoc. f_equal.
    destruct o as [r|]; cbn [step_blocked filter map]; auto.
    destruct (scan_blocked r); reflexivity.
Qed.

Lemma replay_memory_unbounded_all :
  (forall cfg ops st,
     m_blocked (fst (mrun cfg st ops)) =
     m_blocked st ++ map r_hash (filter scan_blocked (snd (mrun cfg st ops)))) /\
  (forall cfg ops st,
     length (m_blocked (fst (mrun cfg st ops))) =
     (length (m_blocked st) + length (filter scan_blocked (snd (mrun cfg st ops))))%nat) /\
  (forall cfg ops st r,
     In r (snd (mrun cfg st ops)) -> r_kind r = Scanned -> r_allowed r = false ->
     forall ops2 c', c_hash cfg c' = r_hash r ->
     r_allowed (snd (mfilter cfg (fst (mrun cfg (fst (mrun cfg st ops)) ops2)) c')) = false).
Proof.
  split; [exact mrun_blocked_exact | split].
  - intros. rewrite mrun_blocked_exact, app_length, map_length. reflexivity.
  - intros cfg ops st r Hin K A ops2 c' Eh.
    assert (B : hmem (r_hash r) (m_blocked (fst (mrun cfg st ops))) = true).
    { rewrite mrun_blocked_exact, hmem_app. apply orb_true_iff. right. apply hmem_in.
      apply in_map. apply filter_In. split; auto. unfold scan_blocked. now rewrite K, A. }
    pose proof (mrun_blocked_mono cfg ops2 _ _ B) as B2.
    destruct (mfilter cfg (fst (mrun cfg (fst (mrun cfg st ops)) ops2)) c') as [st3 r3] eqn:F. cbn [snd].
    destruct (mfilter_cases _ _ _ _ _ F) as [X|[X|X]]; try tauto.
    destruct X as (_ & _ & _ & _ & _ & N). rewrite Eh in N. congruence.
Qed.

(* ---- the shipped structural validators, exactly ----------------------------------------- *)

Section JsonInd.
  Variable P : json -> Prop.
  Hypothesis HA : P JAtom.
  Hypothesis HL : forall l, Forall P l -> P (JArr l).
  Hypothesis HO : forall l, Forall P l -> P (JObj l).
  Fixpoint json_ind' (t : json) : P t :=
    match t with
    | JAtom => HA
    | JArr l => HL l ((fix go (l : list json) : Forall P l :=
                         match l with [] => Forall_nil P | v :: r => Forall_cons v (json_ind' v) (go r) end) l)
    | JObj l => HO l ((fix go (l : list json) : Forall P l :=
                         match l with [] => Forall_nil P | v :: r => Forall_cons v (json_ind' v) (go r) end) l)
    end.
End JsonInd.

Lemma zmax_list_ge : forall l x, In x l -> x <= zmax_list l.
Proof. induction l as [|y l IH]; intros x H; [contradiction|]. cbn. destruct H as [->|H]; [lia|]. specialize (IH x H). unfold zmax_list in IH. lia. Qed.
Lemma zmax_list_nonneg : forall l, 0 <= zmax_list l.
Proof. induction l; cbn; [lia|]. unfold zmax_list in IHl. lia. Qed.
Lemma zmax_list_attained : forall l, zmax_list l = 0 \/ In (zmax_list l) l.
Proof.
  induction l as [|y l IH]; cbn; [now left|]. fold (zmax_list l).
  destruct (Z.max_spec y (zmax_list l)) as [[_ E]|[_ E]]; rewrite E.
  - destruct IH as [IH|IH]; [left; exact IH | right; right; exact IH].
  - right. now left.
Qed.

Lemma max_ne_ge_acc : forall xs x, x <= max_ne x xs.
Proof. unfold max_ne. induction xs as [|y xs IH]; intros x; cbn; [lia|]. specialize (IH (Z.max x y)). lia. Qed.
Lemma max_ne_ge : forall xs x y, In y (x :: xs) -> y <= max_ne x xs.
Proof.
  unfold max_ne. induction xs as [|z xs IH]; intros x y H; cbn.
  - destruct H as [->|[]]. lia.
  - destruct H as [->|[->|H]].
    + pose proof (max_ne_ge_acc xs (Z.max y z)). unfold max_ne in *. lia.
    + pose proof (max_ne_ge_acc xs (Z.max x y)). unfold max_ne in *. lia.
    + apply IH. now right.
Qed.
Lemma max_ne_attained : forall xs x, In (max_ne x xs) (x :: xs).
Proof.
  unfold max_ne. induction xs as [|z xs IH]; intros x; cbn [fold_left]; [now left|].
  destruct (IH (Z.max x z)) as [E|E].
  - rewrite <- E. destruct (Z.max_spec x z) as [[_ M]|[_ M]]; rewrite M; [right; now left | now left].
  - right. now right.
Qed.

Lemma depth_nonneg : forall t, 0 <= depth t.
Proof.
  destruct t as [|l|l]; cbn [depth]; [lia| |]; pose proof (zmax_list_nonneg (map depth l)); lia.
Qed.

(* _measure_depth started at `cur`: the exact value while the limit is not
   exceeded, and above the limit exactly when the real depth is *)
Definition measure_ok (md : Z) (t : json) : Prop :=
  forall cur,
    (md < cur -> measure_depth md t cur = cur) /\
    (cur <= md ->
       (cur + depth t <= md -> measure_depth md t cur = cur + depth t) /\
       (md < cur + depth t -> md < measure_depth md t cur)).

Lemma measure_children : forall md l, Forall (measure_ok md) l -> forall cur, cur <= md ->
  let ms := map (fun v => measure_depth md v (cur + 1)) l in
  let D := zmax_list (map depth l) in
  (cur + (1 + D) <= md -> match ms with [] => cur + 1 | x :: xs => max_ne x xs end = cur + (1 + D)) /\
  (md < cur + (1 + D) -> md < match ms with [] => cur + 1 | x :: xs => max_ne x xs end).
Proof.
  intros md l HF cur Hc ms D.
  destruct l as [|v l]; [cbn in *; subst D; cbn; split; intros; lia|].
  subst ms. cbn [map]. cbv beta iota.
  set (f := fun v => measure_depth md v (cur + 1)).
  change (measure_depth md v (cur + 1)) with (f v).
  set (M := max_ne (f v) (map f l)).
  assert (HM1 : In M (f v :: map f l)) by apply max_ne_attained.
  assert (HM2 : forall y, In y (f v :: map f l) -> y <= M) by (intros y Hy; now apply max_ne_ge).
  clearbody M.
  assert (Hx : forall w, In w (v :: l) -> In (f w) (f v :: map f l)).
  { intros w Hw. change (f v :: map f l) with (map f (v :: l)). now apply in_map. }
  assert (Hd : forall w, In w (v :: l) -> depth w <= D).
  { intros w Hw. apply zmax_list_ge. now apply in_map. }
  assert (HD0 : 0 <= D) by apply zmax_list_nonneg.
  assert (HDa : D = 0 \/ exists w, In w (v :: l) /\ depth w = D).
  { destruct (zmax_list_attained (map depth (v :: l))) as [E|E]; fold D in E; [now left|right].
    apply in_map_iff in E. destruct E as (w & Ew & Hw). exists w. auto. }
  rewrite Forall_forall in HF.
  split.
  - intros Hle.
    assert (Hex : forall w, In w (v :: l) -> f w = cur + 1 + depth w).
    { intros w Hw. destruct (HF w Hw (cur + 1)) as (_ & H2). specialize (Hd w Hw).
      destruct (H2 ltac:(lia)) as (E & _). apply E. lia. }
    apply Z.le_antisymm.
    + change (f v :: map f l) with (map f (v :: l)) in HM1. apply in_map_iff in HM1.
      destruct HM1 as (w & Ew & Hw). rewrite <- Ew, (Hex w Hw). specialize (Hd w Hw). lia.
    + destruct HDa as [E|(w & Hw & E)].
      * pose proof (HM2 _ (Hx v (or_introl eq_refl))) as G. rewrite (Hex v (or_introl eq_refl)) in G.
        pose proof (depth_nonneg v). lia.
      * pose proof (HM2 _ (Hx w Hw)) as G. rewrite (Hex w Hw) in G. lia.
  - intros Hgt.
    assert (Hw' : exists w, In w (v :: l) /\ md < cur + 1 + depth w).
    { destruct HDa as [E|(w & Hw & E)].
      - exists v. split; [now left|]. pose proof (depth_nonneg v). lia.
      - exists w. split; auto. lia. }
    destruct Hw' as (w & Hw & E).
    pose proof (HM2 _ (Hx w Hw)) as G. unfold f in G.
    destruct (HF w Hw (cur + 1)) as (H1 & H2).
    destruct (Z_lt_le_dec md (cur + 1)) as [Hlt|Hge].
    + rewrite (H1 Hlt) in G. lia.
    + destruct (H2 Hge) as (_ & H3). specialize (H3 ltac:(lia)). lia.
Qed.

Lemma measure_depth_ok : forall md t, measure_ok md t.
Proof.
  intros md. induction t as [|l IH|l IH] using json_ind'; intros cur.
  - cbn. destruct (md <? cur) eqn:C; split; intros; try split; intros; lia.
  - cbn [measure_depth depth]. destruct (md <? cur) eqn:C; split; intros H; try lia.
    exact (measure_children md l IH cur H).
  - cbn [measure_depth depth]. destruct (md <? cur) eqn:C; split; intros H; try lia.
    exact (measure_children md l IH cur H).
Qed.

Lemma measure_depth_limit : forall md t, (md <? measure_depth md t 0) = (md <? depth t).
Proof.
  intros md t. destruct (measure_depth_ok md t 0) as (H1 & H2).
  destruct (Z_lt_le_dec md 0) as [Hn|Hp].
  - rewrite (H1 Hn). pose proof (depth_nonneg t). lia.
  - destruct (H2 Hp) as (E & G). destruct (Z_lt_le_dec md (depth t)) as [Hd|Hd].
    + specialize (G ltac:(lia)). lia.
    + rewrite (E ltac:(lia)). lia.
Qed.

Lemma v_json_exact : forall md mx parse c,
  (v_json md mx parse c = VRet true false \/ v_json md mx parse c = VRet false true) /\
  (v_json md mx parse c = VRet true false <->
   Z.of_nat (length c) <= mx /\ exists t, parse c = PTree t /\ depth t <= md).
Proof.
  intros md mx parse c. unfold v_json.
  destruct (mx <? Z.of_nat (length c)) eqn:L.
  - split; [now right|]. split; [discriminate | intros [H _]; lia].
  - destruct (parse c) as [t|] eqn:Pc.
    + rewrite measure_depth_limit. destruct (md <? depth t) eqn:Dp.
      * split; [now right|]. split; [discriminate|]. intros (_ & t' & E & Hd). inversion E; subst. lia.
      * split; [now left|]. split; auto. intros _. split; [lia|]. exists t. split; auto. lia.
    + split; [now right|]. split; [discriminate|]. intros (_ & t' & E & _). discriminate.
Qed.

Lemma v_length_exact : forall mn mx c,
  (v_length mn mx c = VRet true false \/ v_length mn mx c = VRet false true) /\
  (v_length mn mx c = VRet true false <-> mn <= Z.of_nat (length c) <= mx).
Proof.
  intros mn mx c. unfold v_length.
  destruct (Z.of_nat (length c) <? mn) eqn:A; [split; [now right | split; [discriminate | lia]]|].
  destruct (mx <? Z.of_nat (length c)) eqn:B; [split; [now right | split; [discriminate | lia]]|].
  split; [now left | split; auto; lia].
Qed.

Lemma v_charset_exact : forall ac an c,
  (v_charset ac an c = VRet true false \/ v_charset ac an c = VRet false true) /\
  (v_charset ac an c = VRet true false <->
   (an = true \/ forall x, In x c -> x <> 0) /\ (ac = true \/ forall x, In x c -> is_ctrl x = false)).
Proof.
  intros ac an c. unfold v_charset.
  destruct (negb an && existsb (fun x => x =? 0) c) eqn:A.
  - split; [now right|]. split; [discriminate|]. intros [[->|H] _]; [discriminate|].
    apply andb_prop in A. destruct A as [_ A]. apply existsb_exists in A. destruct A as (x & Hx & E).
    specialize (H x Hx). lia.
  - destruct (negb ac && existsb is_ctrl c) eqn:B.
    + split; [now right|]. split; [discriminate|]. intros [_ [->|H]]; [discriminate|].
      apply andb_prop in B. destruct B as [_ B]. apply existsb_exists in B. destruct B as (x & Hx & E).
      rewrite (H x Hx) in E. discriminate.
    + split; [now left|]. split; auto. intros _. split.
      * destruct an; [now left|right]. cbn in A. intros x Hx E. subst x.
        assert (existsb (fun x => x =? 0) c = true) by (apply existsb_exists; exists 0; split; auto).
        congruence.
      * destruct ac; [now left|right]. cbn in B. intros x Hx. destruct (is_ctrl x) eqn:E; auto.
        assert (existsb is_ctrl c = true) by (apply existsb_exists; exists x; split; auto). congruence.
Qed.

(* check() allows only what every shipped validator in the list accepts, in
   terms of the INPUT: its length, its characters, and for JSONValidator that
   json.loads returns a document nested no deeper than max_depth *)
Lemma shipped_validators_all :
  (forall md t, (md <? measure_depth md t 0) = (md <? depth t)) /\
  (forall md mx parse c,
     (v_json md mx parse c = VRet true false \/ v_json md mx parse c = VRet false true) /\
     (v_json md mx parse c = VRet true false <->
      Z.of_nat (length c) <= mx /\ exists t, parse c = PTree t /\ depth t <= md)) /\
  (forall mn mx c,
     (v_length mn mx c = VRet true false \/ v_length mn mx c = VRet false true) /\
     (v_length mn mx c = VRet true false <-> mn <= Z.of_nat (length c) <= mx)) /\
  (forall ac an c,
     (v_charset ac an c = VRet true false \/ v_charset ac an c = VRet false true) /\
     (v_charset ac an c = VRet true false <->
      (an = true \/ forall x, In x c -> x <> 0) /\ (ac = true \/ forall x, In x c -> is_ctrl x = false))) /\
  (forall cc vals st c st' r, icheck cc vals st c = (st', IOk r) -> ir_allowed r = true ->
     (forall md mx parse, In (v_json md mx parse) vals ->
        Z.of_nat (length c) <= mx /\ exists t, parse c = PTree t /\ depth t <= md) /\
     (forall mn mx, In (v_length mn mx) vals -> mn <= Z.of_nat (length c) <= mx) /\
     (forall ac an, In (v_charset ac an) vals ->
        (an = true \/ forall x, In x c -> x <> 0) /\ (ac = true \/ forall x, In x c -> is_ctrl x = false))).
Proof.
  split; [exact measure_depth_limit | split; [exact v_json_exact | split; [exact v_length_exact | split; [exact v_charset_exact|]]]].
  intros cc vals st c st' r H A.
  destruct (i_allowed_sound _ _ _ _ _ _ H A) as (_ & V & _).
  split; [|split].
  - intros md mx parse Hin. destruct (V _ Hin) as (valid & e & E & Hor).
    destruct (v_json_exact md mx parse c) as ([X|X] & Y); [now apply Y|].
    rewrite X in E. inversion E; subst. destruct Hor; discriminate.
  - intros mn mx Hin. destruct (V _ Hin) as (valid & e & E & Hor).
    destruct (v_length_exact mn mx c) as ([X|X] & Y); [now apply Y|].
    rewrite X in E. inversion E; subst. destruct Hor; discriminate.
  - intros ac an Hin. destruct (V _ Hin) as (valid & e & E & Hor).
    destruct (v_charset_exact ac an c) as ([X|X] & Y); [now apply Y|].
    rewrite X in E. inversion E; subst. destruct Hor; discriminate.
Qed.

(* ---- decorated occurrences: a non-word code point right after / before ------------------ *)

(* A combining mark, a zero-width joiner, a variation selector ... is, for
   str.lower and for sre, an ordinary character that is not a \w character.
   Put right after (before) an occurrence of a signature it IS the surrounding
   text's first (last) character, so the edge condition of the embedding
   theorems holds on that side whatever the pattern is and whatever follows. *)
Lemma last_word_snoc : forall cc k pw m, last_word cc pw (k ++ [m]) = cc_word cc m.
Proof. intros cc k. induction k as [|x k IH]; intros pw m; cbn [app last_word]; auto. Qed.

Lemma sig_mark_after : forall cc g s pre post m, sig_embed_ok cc g -> cc_word cc m = false ->
  (sig_edge_free_l g = true \/ last_word cc false pre = false) ->
  sig_matches cc g s = true -> sig_matches cc g (pre ++ s ++ m :: post) = true.
Proof.
  intros cc g s pre post m EO W L H. apply sig_embed_sided; auto; right; cbn [head_word]; exact W.
Qed.

Lemma sig_mark_before : forall cc g s pre post m, sig_embed_ok cc g -> cc_word cc m = false ->
  (sig_edge_free_r g = true \/ head_word cc post = false) ->
  sig_matches cc g s = true -> sig_matches cc g (pre ++ m :: s ++ post) = true.
Proof.
  intros cc g s pre post m EO W R H.
  change (pre ++ m :: s ++ post) with (pre ++ [m] ++ s ++ post). rewrite app_assoc.
  apply sig_embed_sided; auto; right; rewrite last_word_snoc; exact W.
Qed.

Lemma sig_mark_both : forall cc g s pre post m1 m2, sig_embed_ok cc g ->
  cc_word cc m1 = false -> cc_word cc m2 = false ->
  sig_matches cc g s = true -> sig_matches cc g (pre ++ m1 :: s ++ m2 :: post) = true.
Proof.
  intros cc g s pre post m1 m2 EO W1 W2 H.
  apply (sig_mark_before cc g (s) pre (m2 :: post) m1 EO W1); auto; right; cbn [head_word]; exact W2.
Qed.

(* the decoration characters of the generator alphabet, as Python classifies them *)
Definition py_marks : list Z := [768; 769; 771; 776; 803; 807; 8413; 12441; 65039; 8203; 8205; 173].

Lemma py_marks_plain : forallb (fun m => negb (cc_word py_cc m) && negb (cc_space py_cc m) &&
                                         negb (cc_digit py_cc m) && (cc_fold py_cc m =? m)) py_marks = true.
Proof. vm_compute. reflexivity. Qed.

Lemma decorated_all :
  (forall cc g s pre post m, sig_embed_ok cc g -> cc_word cc m = false ->
     (sig_edge_free_l g = true \/ last_word cc false pre = false) ->
     sig_matches cc g s = true -> sig_matches cc g (pre ++ s ++ m :: post) = true) /\
  (forall cc g s pre post m, sig_embed_ok cc g -> cc_word cc m = false ->
     (sig_edge_free_r g = true \/ head_word cc post = false) ->
     sig_matches cc g s = true -> sig_matches cc g (pre ++ m :: s ++ post) = true) /\
  (forall cc g s pre post m1 m2, sig_embed_ok cc g -> cc_word cc m1 = false -> cc_word cc m2 = false ->
     sig_matches cc g s = true -> sig_matches cc g (pre ++ m1 :: s ++ m2 :: post) = true) /\
  (forall cfg st c st' r,
     mfilter cfg st c = (st', r) -> r_kind r = Scanned -> r_allowed r = false ->
     (forall g, In g (r_matched r) -> sig_embed_ok (c_cc cfg) g) ->
     forall st2 pre post m1 m2, same_rules st st2 ->
     cc_word (c_cc cfg) m1 = false -> cc_word (c_cc cfg) m2 = false ->
     r_allowed (snd (mfilter cfg st2 (pre ++ m1 :: c ++ m2 :: post))) = false /\
     (((forall g, In g (r_matched r) -> sig_edge_free_l g = true) \/ last_word (c_cc cfg) false pre = false) ->
      r_allowed (snd (mfilter cfg st2 (pre ++ c ++ m2 :: post))) = false)) /\
  (forall cc st c st2 pre post m1 m2 vals2,
     (forall g, In g (i_pats st) -> sig_embed_ok cc g) ->
     i_threshold st <= max_level (scan cc (i_pats st) c) ->
     i_pats st2 = i_pats st -> i_threshold st2 = i_threshold st ->
     cc_word cc m1 = false -> cc_word cc m2 = false ->
     snd (icheck cc vals2 st2 (pre ++ m1 :: c ++ m2 :: post)) = IRaised \/
     exists r, snd (icheck cc vals2 st2 (pre ++ m1 :: c ++ m2 :: post)) = IOk r /\ ir_allowed r = false) /\
  forallb (fun m => negb (cc_word py_cc m) && negb (cc_space py_cc m) &&
                    negb (cc_digit py_cc m) && (cc_fold py_cc m =? m)) py_marks = true.
Proof.
  split; [exact sig_mark_after|]. split; [exact sig_mark_before|]. split; [exact sig_mark_both|].
  split; [|split; [|exact py_marks_plain]].
  - intros cfg st c st' r H K A EO st2 pre post m1 m2 S W1 W2.
    destruct embed_stable_regex_all as (_ & E & _). split.
    + change (pre ++ m1 :: c ++ m2 :: post) with (pre ++ [m1] ++ c ++ (m2 :: post)). rewrite app_assoc.
      apply (E cfg st c st' r H K A EO st2 (pre ++ [m1]) (m2 :: post) S).
      * right. rewrite last_word_snoc. exact W1.
      * right. cbn [head_word]. exact W2.
    + intros L. apply (E cfg st c st' r H K A EO st2 pre (m2 :: post) S L). right. cbn [head_word]. exact W2.
  - intros cc st c st2 pre post m1 m2 vals2 EO L P T W1 W2.
    change (pre ++ m1 :: c ++ m2 :: post) with (pre ++ [m1] ++ c ++ (m2 :: post)). rewrite app_assoc.
    apply (i_embed_blocked cc st c st2 (pre ++ [m1]) (m2 :: post) vals2 EO L P T).
    + rewrite last_word_snoc. exact W1.
    + cbn [head_word]. exact W2.
Qed.
