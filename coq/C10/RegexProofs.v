(* C10 — proofs about Regex.v: an inductive matching relation, soundness and
   completeness of the position-set matcher (so the Star fuel is never
   exhausted), case stability and embedding stability of [search], the
   substring search, and their lifting to signatures. *)
From Coq Require Import String ZArith List Bool Lia.
From Verif Require Import C10.Regex.
Import ListNotations.
Open Scope Z_scope.

(* ---- what a classification must satisfy for case stability -------------- *)
Record cc_ok (cc : charcls) : Prop := mkOk {
  ok_word : forall x, cc_word cc (cc_fold cc x) = cc_word cc x;
  ok_space : forall x, cc_space cc (cc_fold cc x) = cc_space cc x;
  ok_digit : forall x, cc_digit cc (cc_fold cc x) = cc_digit cc x;
  ok_nl : forall x, (cc_fold cc x =? 10) = (x =? 10) }.

(* ---- substring search ----------------------------------------------------- *)

Lemma prefixb_spec : forall p s, prefixb p s = true <-> exists b, s = p ++ b.
Proof.
  induction p as [|x p IH]; intros s; cbn [prefixb].
  - split; [intros _; exists s; reflexivity | auto].
  - destruct s as [|y s].
    + split; [discriminate | intros [b Hb]; discriminate].
    + destruct (x =? y) eqn:E.
      * apply Z.eqb_eq in E. subst y. rewrite IH. split; intros [b Hb]; exists b.
        -- cbn. now rewrite Hb.
        -- cbn in Hb. now inversion Hb.
      * apply Z.eqb_neq in E. split; [discriminate|]. intros [b Hb]. cbn in Hb. inversion Hb. congruence.
Qed.

Lemma infixb_spec : forall p s, infixb p s = true <-> exists a b, s = a ++ p ++ b.
Proof.
  intros p s. induction s as [|y s IH]; cbn [infixb].
  - destruct (prefixb p []) eqn:E.
    + split; auto. intros _. apply prefixb_spec in E. destruct E as [b Hb]. exists [], b. exact Hb.
    + split; [discriminate|]. intros [a [b Hab]].
      destruct a; [|discriminate]. cbn in Hab.
      assert (prefixb p [] = true) by (apply prefixb_spec; exists b; exact Hab). congruence.
  - destruct (prefixb p (y :: s)) eqn:E.
    + split; auto. intros _. apply prefixb_spec in E. destruct E as [b Hb]. exists [], b. exact Hb.
    + rewrite IH. split.
      * intros [a [b Hab]]. exists (y :: a), b. cbn. now rewrite Hab.
      * intros [a [b Hab]]. destruct a as [|z a].
        -- cbn in Hab. assert (prefixb p (y :: s) = true) by (apply prefixb_spec; exists b; exact Hab). congruence.
        -- cbn in Hab. inversion Hab. exists a, b. reflexivity.
Qed.

Lemma infixb_embed : forall p s pre post,
  infixb p s = true -> infixb p (pre ++ s ++ post) = true.
Proof.
  intros p s pre post H. apply infixb_spec in H. destruct H as [a [b Hab]].
  apply infixb_spec. exists (pre ++ a), (b ++ post). subst s.
  now rewrite <- !app_assoc.
Qed.

Section WithCC.
Variable cc : charcls.

(* ---- the matching relation -------------------------------------------- *)

Inductive M : regex -> state -> state -> Prop :=
| MEps a : M Eps a a
| MChr c pw x l : chr_test cc c x = true -> M (Chr c) (pw, x :: l) (cc_word cc x, l)
| MAny pw x l : any_test x = true -> M Any (pw, x :: l) (cc_word cc x, l)
| MSet neg items pw x l :
    set_test cc neg items x = true -> M (CSet neg items) (pw, x :: l) (cc_word cc x, l)
| MSeq r1 r2 a b c : M r1 a b -> M r2 b c -> M (Seq r1 r2) a c
| MAltL r1 r2 a b : M r1 a b -> M (Alt r1 r2) a b
| MAltR r1 r2 a b : M r2 a b -> M (Alt r1 r2) a b
| MStar0 r a : M (Star r) a a
| MStarS r a b c : M r a b -> M (Star r) b c -> M (Star r) a c
| MWordB pw l : xorb pw (head_word cc l) = true -> M WordB (pw, l) (pw, l).

(* r matches somewhere in s *)
Definition matches (r : regex) (s : list Z) : Prop :=
  exists k rest b, s = k ++ rest /\ M r (last_word cc false k, rest) b.

Lemma one_spec : forall t a b,
  In b (one cc t a) <-> exists pw x l, a = (pw, x :: l) /\ t x = true /\ b = (cc_word cc x, l).
Proof.
  intros t [pw l] b. unfold one. cbn [snd]. destruct l as [|x l].
  - split; [intros []|]. intros (pw' & x & l' & H & _). discriminate.
  - destruct (t x) eqn:E.
    + split.
      * intros [H|[]]. exists pw, x, l. auto.
      * intros (pw' & x' & l' & H & _ & Hb). inversion H; subst. now left.
    + split; [intros []|]. intros (pw' & x' & l' & H & Ht & _). inversion H; subst. congruence.
Qed.

(* ---- soundness ------------------------------------------------------------ *)

Lemma star_iter_sound : forall r f,
  (forall a b, In b (f a) -> M r a b) ->
  forall fuel front c, In c (star_iter f fuel front) -> exists a, In a front /\ M (Star r) a c.
Proof.
  intros r f Hf. induction fuel as [|n IH]; intros front c Hc; cbn [star_iter] in Hc.
  - destruct Hc.
  - destruct front as [|a0 front']; [destruct Hc|].
    apply in_app_or in Hc. destruct Hc as [Hc|Hc].
    + exists c. split; [exact Hc | apply MStar0].
    + apply IH in Hc. destruct Hc as [b [Hb Hbc]].
      apply in_flat_map in Hb. destruct Hb as [a [Ha Hb]].
      apply filter_In in Hb. destruct Hb as [Hb _].
      exists a. split; [exact Ha|]. eapply MStarS; eauto.
Qed.

Lemma ends_sound : forall r a b, In b (ends cc r a) -> M r a b.
Proof.
  induction r; intros a b H; cbn [ends] in H.
  - destruct H as [H|[]]. subst. constructor.
  - apply one_spec in H. destruct H as (pw & x & l & -> & Ht & ->). now constructor.
  - apply one_spec in H. destruct H as (pw & x & l & -> & Ht & ->). now constructor.
  - apply one_spec in H. destruct H as (pw & x & l & -> & Ht & ->). now constructor.
  - apply in_flat_map in H. destruct H as [m [H1 H2]]. eapply MSeq; eauto.
  - apply in_app_or in H. destruct H; [apply MAltL | apply MAltR]; auto.
  - apply star_iter_sound with (r := r) in H; auto.
    destruct H as [a' [[Ha|[]] Hm]]. now subst.
  - destruct a as [pw l]. cbn [fst snd] in H.
    destruct (xorb pw (head_word cc l)) eqn:E; [|destruct H].
    destruct H as [H|[]]. subst. now constructor.
  - destruct H.
Qed.

(* ---- completeness ---------------------------------------------------------- *)

Lemma M_consumes : forall r a b, M r a b ->
  (length (snd b) <= length (snd a))%nat /\ (length (snd b) = length (snd a) -> a = b).
Proof.
  induction 1; cbn [snd length] in *.
  - split; auto.
  - split; [lia | intros; lia].
  - split; [lia | intros; lia].
  - split; [lia | intros; lia].
  - destruct IHM1 as [L1 E1], IHM2 as [L2 E2]. split; [lia|]. intros E.
    assert (a = b) by (apply E1; lia). subst. apply E2. lia.
  - exact IHM.
  - exact IHM.
  - split; auto.
  - destruct IHM1 as [L1 E1], IHM2 as [L2 E2]. split; [lia|]. intros E.
    assert (a = b) by (apply E1; lia). subst. apply E2. lia.
  - split; auto.
Qed.

Lemma star_norm : forall r a c, M (Star r) a c ->
  a = c \/ exists b, M r a b /\ shorter a b = true /\ M (Star r) b c.
Proof.
  intros r a c H. remember (Star r) as sr eqn:E.
  induction H; try discriminate.
  - now left.
  - inversion E; subst r0. clear IHM1. specialize (IHM2 eq_refl).
    destruct (shorter a b) eqn:S.
    + right. exists b. auto.
    + unfold shorter in S. apply Nat.ltb_ge in S.
      destruct (M_consumes _ _ _ H) as [L Eq].
      assert (a = b) by (apply Eq; lia). subst b. exact IHM2.
Qed.

Lemma star_iter_complete : forall r f,
  (forall a b, M r a b -> In b (f a)) ->
  forall fuel front a c, In a front -> M (Star r) a c -> (length (snd a) < fuel)%nat ->
    In c (star_iter f fuel front).
Proof.
  intros r f Hf. induction fuel as [|n IH]; intros front a c Ha Hm Hl; [lia|].
  cbn [star_iter]. destruct front as [|a0 front']; [destruct Ha|].
  apply in_or_app. apply star_norm in Hm. destruct Hm as [->|[b [Hab [S Hbc]]]].
  - now left.
  - right. apply IH with (a := b); auto.
    + apply in_flat_map. exists a. split; [exact Ha|]. apply filter_In. auto.
    + unfold shorter in S. apply Nat.ltb_lt in S. lia.
Qed.

Lemma ends_complete : forall r a b, M r a b -> In b (ends cc r a).
Proof.
  induction r; intros a b H; cbn [ends].
  - inversion H; subst. now left.
  - inversion H; subst. apply one_spec. eauto 6.
  - inversion H; subst. apply one_spec. eauto 6.
  - inversion H; subst. apply one_spec. eauto 6.
  - inversion H; subst. apply in_flat_map. eauto.
  - inversion H; subst; apply in_or_app; auto.
  - apply star_iter_complete with (r := r) (a := a); auto. now left.
  - inversion H as [| | | | | | | | |pw l Hx]; subst. cbn [fst snd]. rewrite Hx. now left.
  - inversion H.
Qed.

Theorem ends_iff : forall r a b, In b (ends cc r a) <-> M r a b.
Proof. split; [apply ends_sound | apply ends_complete]. Qed.

Lemma nonempty_ex : forall A (l : list A), nonempty l = true <-> exists x, In x l.
Proof.
  intros A [|x l]; cbn; split; try discriminate; auto.
  - intros [x []].
  - intros _. exists x. now left.
Qed.

Lemma search_from_spec : forall r rest pw,
  search_from cc r pw rest = true <->
  exists k rest' b, rest = k ++ rest' /\ M r (last_word cc pw k, rest') b.
Proof.
  intros r. induction rest as [|x l IH]; intros pw; cbn [search_from].
  - destruct (nonempty (ends cc r (pw, []))) eqn:E.
    + split; auto. intros _. apply nonempty_ex in E. destruct E as [b Hb].
      exists [], [], b. split; auto. cbn. now apply ends_sound.
    + split; [discriminate|]. intros (k & rest' & b & Hk & Hm).
      destruct k; [|discriminate]. cbn in Hk. subst rest'. cbn in Hm.
      apply ends_complete in Hm.
      assert (nonempty (ends cc r (pw, [])) = true) by (apply nonempty_ex; eauto). congruence.
  - destruct (nonempty (ends cc r (pw, x :: l))) eqn:E.
    + split; auto. intros _. apply nonempty_ex in E. destruct E as [b Hb].
      exists [], (x :: l), b. split; auto. cbn. now apply ends_sound.
    + rewrite IH. split.
      * intros (k & rest' & b & Hk & Hm). exists (x :: k), rest', b. split; [cbn; now rewrite Hk | exact Hm].
      * intros (k & rest' & b & Hk & Hm). destruct k as [|y k].
        -- cbn in Hk. subst rest'. cbn in Hm. apply ends_complete in Hm.
           assert (nonempty (ends cc r (pw, x :: l)) = true) by (apply nonempty_ex; eauto). congruence.
        -- cbn in Hk. inversion Hk; subst. exists k, rest', b. split; auto.
Qed.

(* the executable search decides the relational one: sound, complete, and
   in particular never truncated by the Star fuel *)
Theorem search_spec : forall r s, search cc r s = true <-> matches r s.
Proof. intros. unfold search, matches. apply search_from_spec. Qed.

(* ---- embedding -------------------------------------------------------------- *)

Lemma head_word_app : forall l post,
  head_word cc post = false -> head_word cc (l ++ post) = head_word cc l.
Proof. intros [|x l] post H; cbn; auto. Qed.

Lemma M_app : forall r a b, M r a b -> forall post, head_word cc post = false ->
  M r (fst a, snd a ++ post) (fst b, snd b ++ post).
Proof.
  induction 1; intros post Hp; cbn [fst snd].
  - destruct a. constructor.
  - now constructor.
  - now constructor.
  - now constructor.
  - eapply MSeq; eauto.
  - apply MAltL; auto.
  - apply MAltR; auto.
  - destruct a. constructor.
  - eapply MStarS; eauto.
  - constructor. now rewrite head_word_app.
Qed.

Lemma last_word_app : forall k1 k2 pw,
  last_word cc pw (k1 ++ k2) = last_word cc (last_word cc pw k1) k2.
Proof. induction k1; intros; cbn; auto. Qed.

(* any regex: the surrounding text must not put a \w character next to s *)
Theorem search_embed : forall r s pre post,
  last_word cc false pre = false -> head_word cc post = false ->
  search cc r s = true -> search cc r (pre ++ s ++ post) = true.
Proof.
  intros r s pre post Hpre Hpost H. apply search_spec in H. apply search_spec.
  destruct H as (k & rest & b & Hs & Hm). subst s.
  exists (pre ++ k), (rest ++ post), (fst b, snd b ++ post). split.
  - now rewrite <- !app_assoc.
  - rewrite last_word_app, Hpre. apply (M_app _ _ _ Hm post Hpost).
Qed.

Lemma M_app_free : forall r a b, M r a b -> wb_free r = true ->
  forall pw2 post, exists pw2', M r (pw2, snd a ++ post) (pw2', snd b ++ post).
Proof.
  induction 1; intros F pw2 post; cbn [fst snd wb_free] in *;
    try (apply andb_prop in F; destruct F as [F1 F2]).
  - exists pw2. constructor.
  - eexists. now constructor.
  - eexists. now constructor.
  - eexists. now constructor.
  - destruct (IHM1 F1 pw2 post) as [p1 H1]. destruct (IHM2 F2 p1 post) as [p2 H2].
    exists p2. eapply MSeq; eauto.
  - destruct (IHM F1 pw2 post) as [p1 H1]. exists p1. now apply MAltL.
  - destruct (IHM F2 pw2 post) as [p1 H1]. exists p1. now apply MAltR.
  - exists pw2. constructor.
  - destruct (IHM1 F pw2 post) as [p1 H1]. destruct (IHM2 F p1 post) as [p2 H2].
    exists p2. eapply MStarS; eauto.
  - discriminate.
Qed.

(* a regex without \b: any surrounding text *)
Theorem search_embed_wb_free : forall r s pre post,
  wb_free r = true -> search cc r s = true -> search cc r (pre ++ s ++ post) = true.
Proof.
  intros r s pre post F H. apply search_spec in H. apply search_spec.
  destruct H as (k & rest & b & Hs & Hm). subst s.
  destruct (M_app_free _ _ _ Hm F (last_word cc false (pre ++ k)) post) as [p' H'].
  exists (pre ++ k), (rest ++ post), (p', snd b ++ post). split.
  - now rewrite <- !app_assoc.
  - exact H'.
Qed.

(* ---- embedding, edge by edge ---------------------------------------------------- *)

Lemma nullable_consumes : forall r a b, M r a b -> nullable r = false ->
  (length (snd b) < length (snd a))%nat.
Proof.
  induction 1; cbn [nullable snd length]; intros N; try discriminate; try lia.
  - apply andb_false_iff in N.
    destruct (M_consumes _ _ _ H) as [L1 _], (M_consumes _ _ _ H0) as [L2 _].
    destruct N as [N|N]; [specialize (IHM1 N) | specialize (IHM2 N)]; lia.
  - apply orb_false_iff in N. destruct N as [N _]. auto.
  - apply orb_false_iff in N. destruct N as [_ N]. auto.
Qed.

Lemma nonnil_of_lt : forall (l l' : list Z), (length l' < length l)%nat -> l <> [].
Proof. intros [|x l] l' H; [cbn in H; lia | discriminate]. Qed.
Lemma nonnil_of_le : forall (l l' : list Z), (length l' <= length l)%nat -> l' <> [] -> l <> [].
Proof. intros [|x l] [|y l'] H N; try discriminate; try congruence. cbn in H. lia. Qed.

(* right edge: a \b is only sensitive to post when evaluated at the very end *)
Lemma M_app_r : forall r a b, M r a b -> (edge_free_r r = true \/ snd b <> []) ->
  forall post, M r (fst a, snd a ++ post) (fst b, snd b ++ post).
Proof.
  induction 1; intros E post; cbn [fst snd].
  - destruct a. constructor.
  - now constructor.
  - now constructor.
  - now constructor.
  - destruct (M_consumes _ _ _ H0) as [L2 _].
    assert (E2 : edge_free_r r2 = true \/ snd c <> []).
    { destruct E as [E|E]; [left | now right]. cbn in E. now apply andb_prop in E. }
    assert (E1 : edge_free_r r1 = true \/ snd b <> []).
    { destruct E as [E|E].
      - cbn in E. apply andb_prop in E. destruct E as [E _]. apply orb_prop in E. destruct E as [E|E]; [now left|].
        right. apply negb_true_iff in E. eapply nonnil_of_lt. apply (nullable_consumes _ _ _ H0 E).
      - right. eapply nonnil_of_le; eauto. }
    eapply MSeq; [apply IHM1 | apply IHM2]; auto.
  - apply MAltL. apply IHM. destruct E as [E|E]; [left | now right]. cbn in E. now apply andb_prop in E.
  - apply MAltR. apply IHM. destruct E as [E|E]; [left | now right]. cbn in E. now apply andb_prop in E.
  - destruct a. constructor.
  - destruct (M_consumes _ _ _ H0) as [L2 _].
    eapply MStarS; [apply IHM1 | apply IHM2].
    + destruct E as [E|E]; [now left | right; eapply nonnil_of_le; eauto].
    + exact E.
  - constructor. destruct E as [E|E]; [discriminate|]. cbn in E. destruct l; [congruence | exact H].
Qed.

(* left edge: the start state's "previous character is \w" flag is irrelevant *)
Lemma M_pw_l : forall r a b, M r a b -> edge_free_l r = true -> forall pw2,
  exists b', M r (pw2, snd a) b' /\
    ((length (snd b) < length (snd a))%nat -> b' = b) /\
    (length (snd b) = length (snd a) -> b' = (pw2, snd a)).
Proof.
  induction 1; intros E pw2; cbn [snd length].
  - exists (pw2, snd a). repeat split; auto; try lia. constructor.
  - eexists. split; [now constructor|]. split; auto. intros; lia.
  - eexists. split; [now constructor|]. split; auto. intros; lia.
  - eexists. split; [now constructor|]. split; auto. intros; lia.
  - cbn in E. apply andb_prop in E. destruct E as [E1 E2].
    destruct (M_consumes _ _ _ H) as [L1 Q1], (M_consumes _ _ _ H0) as [L2 Q2].
    destruct (IHM1 E1 pw2) as (b1 & M1 & C1 & N1).
    destruct (Nat.eq_dec (length (snd b)) (length (snd a))) as [EQ|NE].
    + (* r1 consumed nothing *)
      assert (a = b) by auto. subst b. rewrite (N1 eq_refl) in M1.
      assert (E2' : edge_free_l r2 = true).
      { apply orb_prop in E2. destruct E2 as [E2|E2]; auto. apply negb_true_iff in E2.
        pose proof (nullable_consumes _ _ _ H E2). lia. }
      destruct (IHM2 E2' pw2) as (c' & M2 & C2 & N2).
      exists c'. split; [eapply MSeq; eauto|]. split; auto.
    + assert (b1 = b) by (apply C1; lia). subst b1.
      exists c. split; [eapply MSeq; eauto|]. split; auto. intros; lia.
  - cbn in E. apply andb_prop in E. destruct E as [E1 E2].
    destruct (IHM E1 pw2) as (b' & M1 & C1 & N1). exists b'. split; [now apply MAltL | auto].
  - cbn in E. apply andb_prop in E. destruct E as [E1 E2].
    destruct (IHM E2 pw2) as (b' & M1 & C1 & N1). exists b'. split; [now apply MAltR | auto].
  - exists (pw2, snd a). repeat split; auto; try lia. constructor.
  - cbn in E.
    destruct (M_consumes _ _ _ H) as [L1 Q1], (M_consumes _ _ _ H0) as [L2 Q2].
    destruct (IHM1 E pw2) as (b1 & M1 & C1 & N1).
    destruct (Nat.eq_dec (length (snd b)) (length (snd a))) as [EQ|NE].
    + assert (a = b) by auto. subst b. rewrite (N1 eq_refl) in M1.
      destruct (IHM2 E pw2) as (c' & M2 & C2 & N2).
      exists c'. split; [eapply MStarS; eauto|]. split; auto.
    + assert (b1 = b) by (apply C1; lia). subst b1.
      exists c. split; [eapply MStarS; eauto|]. split; auto. intros; lia.
  - discriminate.
Qed.

Lemma last_word_nonnil : forall k pw1 pw2, k <> [] -> last_word cc pw1 k = last_word cc pw2 k.
Proof. intros [|x k] pw1 pw2 N; [congruence | reflexivity]. Qed.

(* The side condition is needed only at an edge where the pattern is
   \b-anchored: on the left unless edge_free_l r, on the right unless
   edge_free_r r. *)
Theorem search_embed_sided : forall r s pre post,
  (edge_free_l r = true \/ last_word cc false pre = false) ->
  (edge_free_r r = true \/ head_word cc post = false) ->
  search cc r s = true -> search cc r (pre ++ s ++ post) = true.
Proof.
  intros r s pre post HL HR H. apply search_spec in H. apply search_spec.
  destruct H as (k & rest & b & Hs & Hm). subst s.
  assert (Hm2 : M r (last_word cc false k, rest ++ post) (fst b, snd b ++ post)).
  { destruct HR as [HR|HR]; [apply (M_app_r _ _ _ Hm (or_introl HR) post) | apply (M_app _ _ _ Hm post HR)]. }
  unfold matches.
  destruct k as [|x k].
  - cbn [app last_word] in *.
    destruct HL as [HL|HL].
    + destruct (M_pw_l _ _ _ Hm2 HL (last_word cc false pre)) as (b' & Hb & _).
      exists pre, (rest ++ post), b'. split; [reflexivity|]. exact Hb.
    + exists pre, (rest ++ post), (fst b, snd b ++ post). split; [reflexivity|]. now rewrite HL.
  - exists (pre ++ x :: k), (rest ++ post), (fst b, snd b ++ post). split.
    + now rewrite <- !app_assoc.
    + rewrite last_word_app. rewrite (last_word_nonnil (x :: k) _ false); [exact Hm2 | discriminate].
Qed.

(* ---- case stability ----------------------------------------------------------- *)

Hypothesis OK : cc_ok cc.

Lemma word_of_fold : forall x y, cc_fold cc x = cc_fold cc y -> cc_word cc x = cc_word cc y.
Proof. intros x y E. rewrite <- (ok_word cc OK x), <- (ok_word cc OK y). now rewrite E. Qed.

Lemma cat_of_fold : forall k x y, cc_fold cc x = cc_fold cc y -> cat_test cc k x = cat_test cc k y.
Proof.
  intros k x y E. destruct k; cbn.
  - rewrite <- (ok_digit cc OK x), <- (ok_digit cc OK y). now rewrite E.
  - rewrite <- (ok_space cc OK x), <- (ok_space cc OK y). now rewrite E.
  - now apply word_of_fold.
Qed.

Lemma item_of_fold : forall it x y, cc_fold cc x = cc_fold cc y -> item_test cc x it = item_test cc y it.
Proof.
  intros [c|k neg] x y E; cbn.
  - now rewrite E.
  - now rewrite (cat_of_fold k x y E).
Qed.

Lemma set_of_fold : forall neg items x y, cc_fold cc x = cc_fold cc y ->
  set_test cc neg items x = set_test cc neg items y.
Proof.
  intros neg items x y E. unfold set_test. f_equal.
  induction items as [|it items IH]; cbn; auto. now rewrite IH, (item_of_fold it x y E).
Qed.

Lemma any_of_fold : forall x y, cc_fold cc x = cc_fold cc y -> any_test x = any_test y.
Proof.
  intros x y E. unfold any_test. rewrite <- (ok_nl cc OK x), <- (ok_nl cc OK y). now rewrite E.
Qed.

Definition steq (a a' : state) : Prop := fst a = fst a' /\ lower cc (snd a) = lower cc (snd a').

Lemma head_word_fold : forall l l', lower cc l = lower cc l' -> head_word cc l = head_word cc l'.
Proof.
  intros [|x l] [|y l'] E; cbn in *; try discriminate; auto.
  inversion E. now apply word_of_fold.
Qed.

Lemma M_fold : forall r a b, M r a b -> forall a', steq a a' -> exists b', steq b b' /\ M r a' b'.
Proof.
  induction 1; intros a' S.
  - exists a'. split; [exact S | constructor].
  - destruct a' as [pw' l']. destruct S as [S1 S2]. cbn [fst snd] in *. subst pw'.
    destruct l' as [|y l']; [discriminate|]. cbn in S2. inversion S2 as [[E1 E2]].
    exists (cc_word cc y, l'). split.
    + split; cbn; [now apply word_of_fold | exact E2].
    + constructor. unfold chr_test in *. now rewrite <- E1.
  - destruct a' as [pw' l']. destruct S as [S1 S2]. cbn [fst snd] in *. subst pw'.
    destruct l' as [|y l']; [discriminate|]. cbn in S2. inversion S2 as [[E1 E2]].
    exists (cc_word cc y, l'). split.
    + split; cbn; [now apply word_of_fold | exact E2].
    + constructor. now rewrite <- (any_of_fold x y E1).
  - destruct a' as [pw' l']. destruct S as [S1 S2]. cbn [fst snd] in *. subst pw'.
    destruct l' as [|y l']; [discriminate|]. cbn in S2. inversion S2 as [[E1 E2]].
    exists (cc_word cc y, l'). split.
    + split; cbn; [now apply word_of_fold | exact E2].
    + constructor. now rewrite <- (set_of_fold neg items x y E1).
  - destruct (IHM1 a' S) as [b' [Sb Hb]]. destruct (IHM2 b' Sb) as [c' [Sc Hc]].
    exists c'. split; auto. eapply MSeq; eauto.
  - destruct (IHM a' S) as [b' [Sb Hb]]. exists b'. split; auto. now apply MAltL.
  - destruct (IHM a' S) as [b' [Sb Hb]]. exists b'. split; auto. now apply MAltR.
  - exists a'. split; [exact S | constructor].
  - destruct (IHM1 a' S) as [b' [Sb Hb]]. destruct (IHM2 b' Sb) as [c' [Sc Hc]].
    exists c'. split; auto. eapply MStarS; eauto.
  - destruct a' as [pw' l']. destruct S as [S1 S2]. cbn [fst snd] in *. subst pw'.
    exists (pw, l'). split; [split; auto|]. constructor.
    now rewrite <- (head_word_fold l l' S2).
Qed.

Lemma last_word_fold : forall k k' pw, lower cc k = lower cc k' -> last_word cc pw k = last_word cc pw k'.
Proof.
  induction k as [|x k IH]; intros [|y k'] pw E; cbn in *; try discriminate; auto.
  inversion E. rewrite (word_of_fold x y); auto.
Qed.

Lemma lower_split : forall s' k rest, lower cc (k ++ rest) = lower cc s' ->
  exists k' rest', s' = k' ++ rest' /\ lower cc k = lower cc k' /\ lower cc rest = lower cc rest'.
Proof.
  intros s' k. revert s'. induction k as [|x k IH]; intros s' rest E.
  - exists [], s'. auto.
  - destruct s' as [|y s']; [discriminate|]. cbn in E. inversion E as [[E1 E2]].
    destruct (IH s' rest E2) as (k' & rest' & -> & Hk & Hr).
    exists (y :: k'), rest'. repeat split; auto. unfold lower in *. cbn [map]. now rewrite E1, Hk.
Qed.

Lemma search_fold_imp : forall r s s', lower cc s = lower cc s' ->
  search cc r s = true -> search cc r s' = true.
Proof.
  intros r s s' E H. apply search_spec in H. apply search_spec.
  destruct H as (k & rest & b & Hs & Hm). subst s.
  destruct (lower_split s' k rest E) as (k' & rest' & -> & Hk & Hr).
  destruct (M_fold _ _ _ Hm (last_word cc false k', rest')) as [b' [_ Hm']].
  - split; cbn [fst snd]; [now apply last_word_fold | exact Hr].
  - exists k', rest', b'. auto.
Qed.

Theorem search_case_stable : forall r s s', lower cc s = lower cc s' -> search cc r s = search cc r s'.
Proof.
  intros r s s' E. destruct (search cc r s) eqn:A, (search cc r s') eqn:B; auto.
  - rewrite (search_fold_imp r s s' E A) in B. discriminate.
  - rewrite (search_fold_imp r s' s (eq_sym E) B) in A. discriminate.
Qed.

(* ---- signatures ------------------------------------------------------------------- *)

(* What case stability needs of a host pattern (KHost, Regex.v): its matcher does
   not tell apart contents with the same lower().  (CPython under IGNORECASE:
   literals, sets and back-references all compare case-insensitively.)  Nothing
   is asked of substring and AST-regex signatures. *)
Definition sig_fold_ok (g : sig) : Prop :=
  match s_kind g with
  | KHost f => forall s s', lower cc s = lower cc s' -> f s = f s'
  | _ => True
  end.

Theorem sig_case_stable : forall g, sig_fold_ok g ->
  forall s s', lower cc s = lower cc s' -> sig_matches cc g s = sig_matches cc g s'.
Proof.
  intros g F s s' E. unfold sig_matches, sig_fold_ok in *. destruct (s_kind g).
  - now rewrite E.
  - now apply search_case_stable.
  - now apply F.
Qed.

End WithCC.

Lemma lower_app : forall cc a b, lower cc (a ++ b) = lower cc a ++ lower cc b.
Proof. intros. apply map_app. Qed.

Theorem sig_embed_substring : forall cc g p s pre post,
  s_kind g = KSub p -> sig_matches cc g s = true -> sig_matches cc g (pre ++ s ++ post) = true.
Proof.
  intros cc g p s pre post K H. unfold sig_matches in *. rewrite K in *.
  rewrite !lower_app. now apply infixb_embed.
Qed.

(* What embedding stability needs of a host pattern: a match survives
   surrounding text that glues no \w character to either edge (the same
   condition a \b-anchored AST regex needs). *)
Definition sig_embed_ok (cc : charcls) (g : sig) : Prop :=
  match s_kind g with
  | KHost f => forall s pre post, last_word cc false pre = false -> head_word cc post = false ->
                                  f s = true -> f (pre ++ s ++ post) = true
  | _ => True
  end.

Theorem sig_embed : forall cc g s pre post, sig_embed_ok cc g ->
  last_word cc false pre = false -> head_word cc post = false ->
  sig_matches cc g s = true -> sig_matches cc g (pre ++ s ++ post) = true.
Proof.
  intros cc g s pre post EO H1 H2 H. destruct (s_kind g) eqn:K.
  - now apply sig_embed_substring with (p := p).
  - unfold sig_matches in *. rewrite K in *. now apply search_embed.
  - unfold sig_matches, sig_embed_ok in *. rewrite K in *. now apply EO.
Qed.

Theorem sig_embed_sided : forall cc g s pre post, sig_embed_ok cc g ->
  (sig_edge_free_l g = true \/ last_word cc false pre = false) ->
  (sig_edge_free_r g = true \/ head_word cc post = false) ->
  sig_matches cc g s = true -> sig_matches cc g (pre ++ s ++ post) = true.
Proof.
  intros cc g s pre post EO H1 H2 H. destruct (s_kind g) eqn:K.
  - now apply sig_embed_substring with (p := p).
  - unfold sig_matches, sig_edge_free_l, sig_edge_free_r in *. rewrite K in *. now apply search_embed_sided.
  - unfold sig_matches, sig_embed_ok, sig_edge_free_l, sig_edge_free_r in *. rewrite K in *.
    destruct H1 as [H1|H1]; [discriminate|]. destruct H2 as [H2|H2]; [discriminate|]. now apply EO.
Qed.

(* a host pattern is never counted as \b-free: nothing is known about it *)
Definition sig_wb_free (g : sig) : bool :=
  match s_kind g with KSub _ => true | KRx r => wb_free r | KHost _ => false end.

Theorem sig_embed_wb_free : forall cc g s pre post,
  sig_wb_free g = true -> sig_matches cc g s = true -> sig_matches cc g (pre ++ s ++ post) = true.
Proof.
  intros cc g s pre post F H. destruct (s_kind g) eqn:K.
  - now apply sig_embed_substring with (p := p).
  - unfold sig_matches, sig_wb_free in *. rewrite K in *. now apply search_embed_wb_free.
  - unfold sig_wb_free in F. rewrite K in F. discriminate.
Qed.

(* the executable classification satisfies cc_ok *)
Ltac decide_cmp :=
  repeat (match goal with
          | |- context [?a <=? ?b] => destruct (Z.leb_spec a b); try (exfalso; lia)
          | |- context [?a =? ?b] => destruct (Z.eqb_spec a b); try (exfalso; lia)
          end); cbn; auto.

Lemma py_fold_cases : forall x,
  py_fold x = x \/ (65 <= x <= 90 /\ py_fold x = x + 32) \/ (65313 <= x <= 65338 /\ py_fold x = x + 32) \/
  (x = 8490 /\ py_fold x = 107) \/ (x = 201 /\ py_fold x = 233) \/ (x = 7728 /\ py_fold x = 7729).
Proof.
  intros x. unfold py_fold, ascii_lower, fw_upper, between.
  destruct (Z.ltb_spec x 128).
  - destruct (Z.leb_spec 65 x), (Z.leb_spec x 90); cbn [andb]; try (right; left; lia); left; reflexivity.
  - destruct (Z.leb_spec 65313 x), (Z.leb_spec x 65338); cbn [andb]; try (right; right; left; lia).
    all: destruct (Z.eqb_spec x 8490); [right; right; right; left; lia|].
    all: destruct (Z.eqb_spec x 201); [right; right; right; right; left; lia|].
    all: destruct (Z.eqb_spec x 7728); [right; right; right; right; right; lia|].
    all: left; reflexivity.
Qed.

(* every comparison is settled by the range hypothesis in context: no case split *)
Ltac settle_cmp :=
  repeat (match goal with
          | |- context [?a <=? ?b] =>
              first [ replace (a <=? b) with true by (symmetry; apply Z.leb_le; lia)
                    | replace (a <=? b) with false by (symmetry; apply Z.leb_gt; lia) ]
          | |- context [?a =? ?b] =>
              first [ replace (a =? b) with true by (symmetry; apply Z.eqb_eq; lia)
                    | replace (a =? b) with false by (symmetry; apply Z.eqb_neq; lia) ]
          | |- context [?a <? ?b] =>
              first [ replace (a <? b) with true by (symmetry; apply Z.ltb_lt; lia)
                    | replace (a <? b) with false by (symmetry; apply Z.ltb_ge; lia) ]
          end); cbn [andb orb]; try reflexivity.

Lemma py_cc_ok : cc_ok py_cc.
Proof.
  constructor; cbn [py_cc cc_fold cc_word cc_space cc_digit]; intros x;
    destruct (py_fold_cases x) as [->|[[R ->]|[[R ->]|[[-> ->]|[[-> ->]|[-> ->]]]]]]; auto;
    try (vm_compute; reflexivity).
  - unfold py_word, fw_digit, fw_upper, fw_lower, between, extra_word, zmem. settle_cmp.
  - unfold py_word, fw_digit, fw_upper, fw_lower, between, extra_word, zmem. settle_cmp.
  - unfold py_space, between, extra_space, zmem. settle_cmp.
  - unfold py_space, between, extra_space, zmem. settle_cmp.
  - unfold py_digit, fw_digit, between, extra_digit, zmem. settle_cmp.
  - unfold py_digit, fw_digit, between, extra_digit, zmem. settle_cmp.
  - settle_cmp.
  - settle_cmp.
Qed.
