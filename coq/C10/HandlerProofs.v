(* C10 — lemmas about CALLBACKS THAT RAISE (Model.v: handler, mfilter_h, hstep,
   hrun; ihandler, icheck_h) and about the absence of any trace of earlier
   INPUTS in what a scan matches (keeps_rules, keeps_patterns).
   A handler cannot change the state transition or the decision of a call, so
   a history with handlers is, as far as the membrane is concerned, the live
   history of the same operations: every history theorem carries over, in
   particular the replay memory. *)
From Coq Require Import String ZArith List Bool Lia ZifyBool.
From Verif Require Import C10.Regex C10.RegexProofs C10.Model C10.Proofs C10.LiveProofs.
Import ListNotations.
Open Scope Z_scope.

(* ---- one call ------------------------------------------------------------------ *)

Lemma mfilter_h_same : forall h cfg st c,
  fst (mfilter_h h cfg st c) = fst (mfilter cfg st c) /\
  fout_result (snd (mfilter_h h cfg st c)) = snd (mfilter cfg st c).
Proof.
  intros h cfg st c. unfold mfilter_h. destruct (mfilter cfg st c) as [st' r]. cbn [fst snd].
  split; [reflexivity|]. destruct (scan_blocked r && h r); reflexivity.
Qed.

(* the handler's exception reaches the caller only for a scan block, and by then the
   decision is the last entry of the audit trail and its hash is in the replay memory *)
Lemma mfilter_h_raised : forall h cfg st c st' r,
  mfilter_h h cfg st c = (st', FHandlerRaised r) ->
  mfilter cfg st c = (st', r) /\ r_kind r = Scanned /\ r_allowed r = false /\ h r = true /\
  m_audit st' = m_audit st ++ [r] /\ hmem (c_hash cfg c) (m_blocked st') = true /\
  m_nblocked st' = m_nblocked st + 1.
Proof.
  intros h cfg st c st' r H. unfold mfilter_h in H.
  destruct (mfilter cfg st c) as [st1 r1] eqn:F.
  destruct (scan_blocked r1 && h r1) eqn:E; inversion H; subst; clear H.
  apply andb_prop in E. destruct E as [Sb Hr].
  unfold scan_blocked in Sb. destruct (r_kind r) eqn:K; try discriminate.
  assert (A : r_allowed r = false) by (destruct (r_allowed r); [discriminate|reflexivity]).
  destruct (mfilter_state _ _ _ _ _ F) as (_ & _ & _ & _ & Ha & _ & _ & B & _).
  repeat split; auto.
  - rewrite B, K, A. cbn. destruct (hmem (c_hash cfg c) (m_blocked st)) eqn:E; auto. apply hmem_snoc_self.
  - unfold mfilter in F. destruct (rate_check cfg st) as [lim ts]. destruct lim.
    + inversion F; subst. discriminate.
    + destruct (hmem (c_hash cfg c) (m_blocked st)).
      * inversion F; subst. discriminate.
      * inversion F; subst. cbn in *. rewrite A. reflexivity.
Qed.

Lemma mfilter_h_no_handler : forall cfg st c,
  mfilter_h no_handler cfg st c = (fst (mfilter cfg st c), FReturned (snd (mfilter cfg st c))).
Proof.
  intros. unfold mfilter_h, no_handler. destruct (mfilter cfg st c) as [st' r]. cbn [fst snd].
  now rewrite andb_false_r.
Qed.

(* ---- histories ------------------------------------------------------------------ *)

Lemma hstep_lstep : forall cfg st o h,
  fst (hstep cfg st o h) = fst (lstep cfg st o) /\
  option_map fout_result (snd (hstep cfg st o h)) = snd (lstep cfg st o).
Proof.
  intros cfg st o h. destruct o as [op| |]; [destruct op|..]; cbn [hstep lstep mstep];
    try (destruct (lstep cfg st _) as [[cfg' st'] r]; cbn; auto; fail).
  - pose proof (mfilter_h_same h cfg st content) as [E1 E2].
    destruct (mfilter_h h cfg st content) as [st1 out]. destruct (mfilter cfg st content) as [st2 r].
    cbn [fst snd option_map] in *. subst. auto.
  - destruct (c_adaptive cfg); cbn; auto.
  - cbn; auto.
  - cbn; auto.
  - cbn; auto.
  - cbn; auto.
  - cbn; auto.
  - cbn; auto.
  - cbn; auto.
  - cbn; auto.
Qed.

(* a history with handlers (raising or not) is the live history of its operations *)
Lemma hrun_lrun : forall ops cfg st,
  fst (hrun cfg st ops) = fst (lrun cfg st (map fst ops)) /\
  map forget_handler (snd (hrun cfg st ops)) = snd (lrun cfg st (map fst ops)).
Proof.
  induction ops as [|[o h] ops IH]; intros cfg st; cbn [hrun lrun map fst]; [cbn; auto|].
  pose proof (hstep_lstep cfg st o h) as [E1 E2].
  destruct (hstep cfg st o h) as [[cfg1 st1] r]. destruct (lstep cfg st o) as [[cfg1' st1'] r'].
  cbn [fst snd] in *. inversion E1; subst cfg1' st1'. clear E1.
  specialize (IH cfg1 st1). destruct (hrun cfg1 st1 ops) as [[cfg2 st2] es].
  destruct (lrun cfg1 st1 (map fst ops)) as [[cfg2' st2'] es']. cbn [fst snd] in *.
  destruct IH as [I1 I2]. split; [exact I1|].
  destruct r as [x|]; cbn [option_map] in E2; subst r'; cbn [map]; [|exact I2].
  unfold forget_handler at 1. cbn [fst snd]. now rewrite I2.
Qed.

(* "keeps blocking an input it has blocked before", whatever handlers do: an input a scan
   blocked - the caller got the result or the handler's exception - is refused after every
   later history of operations, assignments and handler behaviours, under every handler *)
Lemma handler_replay_memory : forall h cfg st c st1 out,
  mfilter_h h cfg st c = (st1, out) -> scan_blocked (fout_result out) = true ->
  forall ops c' h', c_hash cfg c' = c_hash cfg c ->
  r_allowed (fout_result (snd (mfilter_h h' (fst (fst (hrun cfg st1 ops))) (snd (fst (hrun cfg st1 ops))) c'))) = false.
Proof.
  intros h cfg st c st1 out H Sb ops c' h' Eh.
  pose proof (mfilter_h_same h cfg st c) as [E1 E2]. rewrite H in E1, E2. cbn [fst snd] in E1, E2.
  assert (F : mfilter cfg st c = (st1, fout_result out)).
  { destruct (mfilter cfg st c) as [a b]. cbn [fst snd] in *. congruence. }
  unfold scan_blocked in Sb. destruct (r_kind (fout_result out)) eqn:K; try discriminate.
  assert (A : r_allowed (fout_result out) = false)
    by (destruct (r_allowed (fout_result out)); [discriminate|reflexivity]).
  pose proof (live_replay_memory _ _ _ _ _ F K A (map fst ops) c' Eh) as L.
  destruct (hrun_lrun ops cfg st1) as [R _]. rewrite R.
  destruct (mfilter_h_same h' (fst (fst (lrun cfg st1 (map fst ops)))) (snd (fst (lrun cfg st1 (map fst ops)))) c')
    as [_ E]. rewrite E. exact L.
Qed.

(* ---- earlier inputs leave no trace in a scan ----------------------------------- *)

Lemma mstep_keeps_rules : forall cfg st op, keeps_rules op = true ->
  m_sigs (fst (mstep cfg st op)) = m_sigs st /\ m_learned (fst (mstep cfg st op)) = m_learned st.
Proof.
  intros cfg st op K. destruct op; try discriminate; cbn [mstep].
  - destruct (mfilter cfg st content) as [st' r] eqn:F. cbn [fst].
    destruct (mfilter_state _ _ _ _ _ F) as (A & B & _). auto.
  - cbn; auto.
  - cbn; auto.
  - cbn; auto.
Qed.

Lemma mrun_keeps_rules : forall cfg ops st, forallb keeps_rules ops = true ->
  active (fst (mrun cfg st ops)) = active st.
Proof.
  intros cfg. induction ops as [|op ops IH]; intros st H; cbn [mrun]; [reflexivity|].
  cbn [forallb] in H. apply andb_prop in H. destruct H as [H1 H2].
  pose proof (mstep_keeps_rules cfg st op H1) as [A B].
  destruct (mstep cfg st op) as [st1 o]. cbn [fst] in *.
  specialize (IH st1 H2). destruct (mrun cfg st1 ops) as [st2 rs]. cbn [fst] in *.
  rewrite IH. unfold active. now rewrite A, B.
Qed.

(* whatever was submitted before (any number of inputs of any content, clock ticks,
   threshold changes): a scan reports exactly the active signatures that match THIS input,
   and refuses it when one of them is at / above the threshold *)
Lemma m_scan_history_free : forall cfg ops st c st' r,
  forallb keeps_rules ops = true ->
  mfilter cfg (fst (mrun cfg st ops)) c = (st', r) -> r_kind r = Scanned ->
  r_matched r = scan (c_cc cfg) (active st) c /\
  (forall g, In g (active st) -> sig_matches (c_cc cfg) g c = true ->
     m_threshold (fst (mrun cfg st ops)) <= s_level g -> r_allowed r = false).
Proof.
  intros cfg ops st c st' r K F Sc.
  pose proof (mrun_keeps_rules cfg ops st K) as A.
  destruct (mfilter_cases _ _ _ _ _ F) as [X|[X|X]]; try (destruct X as (X & _); congruence).
  destruct X as (_ & Hm & Hl & Ha & _). rewrite A in Hm, Hl. split; [exact Hm|].
  intros g Hg Hs Ht. destruct (r_allowed r) eqn:E; [|reflexivity].
  pose proof (m_allowed_sound _ _ _ _ _ F E) as [_ S]. rewrite A in S. specialize (S g Hg Hs). lia.
Qed.

Lemma istep_keeps_patterns : forall cc vals st op, keeps_patterns op = true ->
  i_pats (fst (istep cc vals st op)) = i_pats st.
Proof.
  intros cc vals st op K. destruct op; try discriminate; cbn [istep]; try reflexivity.
  unfold icheck. destruct (run_validators vals content); reflexivity.
Qed.

Lemma irun_keeps_patterns : forall cc ops st, forallb (fun p => keeps_patterns (snd p)) ops = true ->
  i_pats (irun cc st ops) = i_pats st.
Proof.
  intros cc. induction ops as [|[vals op] ops IH]; intros st H; cbn [irun]; [reflexivity|].
  cbn [forallb snd] in H. apply andb_prop in H. destruct H as [H1 H2].
  rewrite IH by exact H2. now apply istep_keeps_patterns.
Qed.

Lemma i_scan_history_free : forall cc ops st vals c st' r,
  forallb (fun p => keeps_patterns (snd p)) ops = true ->
  icheck cc vals (irun cc st ops) c = (st', IOk r) ->
  ir_matched r = scan cc (i_pats st) c /\
  (forall g, In g (i_pats st) -> sig_matches cc g c = true ->
     i_threshold (irun cc st ops) <= s_level g -> ir_allowed r = false).
Proof.
  intros cc ops st vals c st' r K F.
  pose proof (irun_keeps_patterns cc ops st K) as A. split.
  - unfold icheck in F. destruct (run_validators vals c); inversion F; subst. cbn. now rewrite A.
  - intros g Hg Hs Ht. destruct (ir_allowed r) eqn:E; [|reflexivity].
    pose proof (i_allowed_sound _ _ _ _ _ _ F E) as (S & _). rewrite A in S. specialize (S g Hg Hs). lia.
Qed.

(* ---- on_inflammation that raises ------------------------------------------------ *)

Lemma icheck_h_spec : forall h cc vals st c,
  i_pats (fst (icheck_h h cc vals st c)) = i_pats st /\
  i_threshold (fst (icheck_h h cc vals st c)) = i_threshold st /\
  (forall lvl, snd (icheck_h h cc vals st c) = CHandlerRaised lvl ->
     exists r, snd (icheck cc vals st c) = IOk r /\ ir_level r = lvl /\ 0 < lvl /\ h lvl = true /\
               i_level (fst (icheck_h h cc vals st c)) = lvl) /\
  (forall o, snd (icheck_h h cc vals st c) = CPlain o -> icheck cc vals st c = (fst (icheck_h h cc vals st c), o)).
Proof.
  intros h cc vals st c. unfold icheck_h, icheck.
  destruct (run_validators vals c) as [nerr|]; cbn [fst snd].
  - set (lvl := inflammation st (scan cc (i_pats st) c) nerr (max_level (scan cc (i_pats st) c))).
    cbn [ir_level]. destruct ((0 <? lvl) && h lvl) eqn:E; cbn [fst snd i_pats i_threshold i_level].
    + apply andb_prop in E. destruct E as [E1 E2]. repeat split; auto.
      * intros l H. inversion H; subst. eexists. split; [reflexivity|]. cbn [ir_level].
        rewrite E1. repeat split; auto. lia.
      * intros o H. discriminate.
    + repeat split; auto.
      * intros l H. discriminate.
      * intros o H. inversion H; subst. reflexivity.
  - repeat split; auto.
    + intros l H. discriminate.
    + intros o H. inversion H; subst. reflexivity.
Qed.

Lemma handlers_all :
  (forall h cfg st c,
     fst (mfilter_h h cfg st c) = fst (mfilter cfg st c) /\
     fout_result (snd (mfilter_h h cfg st c)) = snd (mfilter cfg st c)) /\
  (forall h cfg st c st' r,
     mfilter_h h cfg st c = (st', FHandlerRaised r) ->
     mfilter cfg st c = (st', r) /\ r_kind r = Scanned /\ r_allowed r = false /\ h r = true /\
     m_audit st' = m_audit st ++ [r] /\ hmem (c_hash cfg c) (m_blocked st') = true /\
     m_nblocked st' = m_nblocked st + 1) /\
  (forall ops cfg st,
     fst (hrun cfg st ops) = fst (lrun cfg st (map fst ops)) /\
     map forget_handler (snd (hrun cfg st ops)) = snd (lrun cfg st (map fst ops))) /\
  (forall h cfg st c st1 out,
     mfilter_h h cfg st c = (st1, out) -> scan_blocked (fout_result out) = true ->
     forall ops c' h', c_hash cfg c' = c_hash cfg c ->
     r_allowed (fout_result (snd (mfilter_h h' (fst (fst (hrun cfg st1 ops))) (snd (fst (hrun cfg st1 ops))) c')))
     = false) /\
  (forall h cc vals st c,
     i_pats (fst (icheck_h h cc vals st c)) = i_pats st /\
     i_threshold (fst (icheck_h h cc vals st c)) = i_threshold st /\
     (forall lvl, snd (icheck_h h cc vals st c) = CHandlerRaised lvl ->
        exists r, snd (icheck cc vals st c) = IOk r /\ ir_level r = lvl /\ 0 < lvl /\ h lvl = true /\
                  i_level (fst (icheck_h h cc vals st c)) = lvl) /\
     (forall o, snd (icheck_h h cc vals st c) = CPlain o ->
        icheck cc vals st c = (fst (icheck_h h cc vals st c), o))).
Proof.
  split; [exact mfilter_h_same|]. split; [exact mfilter_h_raised|]. split; [exact hrun_lrun|].
  split; [exact handler_replay_memory|exact icheck_h_spec].
Qed.

Lemma history_free_all :
  (forall cfg ops st c st' r,
     forallb keeps_rules ops = true ->
     mfilter cfg (fst (mrun cfg st ops)) c = (st', r) -> r_kind r = Scanned ->
     r_matched r = scan (c_cc cfg) (active st) c /\
     (forall g, In g (active st) -> sig_matches (c_cc cfg) g c = true ->
        m_threshold (fst (mrun cfg st ops)) <= s_level g -> r_allowed r = false)) /\
  (forall cc ops st vals c st' r,
     forallb (fun p => keeps_patterns (snd p)) ops = true ->
     icheck cc vals (irun cc st ops) c = (st', IOk r) ->
     ir_matched r = scan cc (i_pats st) c /\
     (forall g, In g (i_pats st) -> sig_matches cc g c = true ->
        i_threshold (irun cc st ops) <= s_level g -> ir_allowed r = false)).
Proof. split; [exact m_scan_history_free|exact i_scan_history_free]. Qed.
