(* C10 — correspondence entry point: [case], [run_case] (canonical
   observations of the model on a generated case) and the generated-data check
   [gen_ok] over gen/Gen_C10.v.  Executable definitions only. *)
From Coq Require Import String ZArith List Bool.
From Verif Require Import C10.Regex C10.Model gen.Gen_C10.
Import ListNotations.
Open Scope Z_scope.

Definition b2z (b : bool) : Z := if b then 1 else 0.

Fixpoint insert_z (x : Z) (l : list Z) : list Z :=
  match l with [] => [x] | y :: r => if x <=? y then x :: l else y :: insert_z x r end.
Definition sort_z (l : list Z) : list Z := fold_right insert_z [] l.
Definition ids (l : list sig) : list Z := sort_z (map s_id l).

(* ---- generated data ---------------------------------------------------- *)

Fixpoint str_list_eqb (a b : list (string * Z)) : bool :=
  match a, b with
  | [], [] => true
  | (s, x) :: a', (t, y) :: b' => String.eqb s t && (x =? y) && str_list_eqb a' b'
  | _, _ => false
  end.

Definition gen_ok : bool :=
  forallb sig_recognised gen_membrane_sigs && forallb sig_recognised gen_innate_sigs &&
  gen_membrane_flags_ok && gen_membrane_matches_ok &&
  gen_innate_flags_ok && gen_innate_matches_ok &&
  str_list_eqb gen_threat_levels
    [("SAFE"%string, 0); ("SUSPICIOUS"%string, 1); ("DANGEROUS"%string, 2); ("CRITICAL"%string, 3)] &&
  match gen_problems with [] => true | _ => false end.

(* A host pattern (KHost) in a correspondence case: its matcher restricted to the
   contents the case submits, as the list of those contents that CPython's re,
   compiled from that single pattern with IGNORECASE, finds a match in (recorded
   by the harness from re itself, never from the gates under test). *)
Definition tab (l : list (list Z)) : list Z -> bool := fun c => hmem c l.

Definition pick {A} (l : list A) (idx : list nat) : list A :=
  flat_map (fun i => match nth_error l i with Some x => [x] | None => [] end) idx.

(* ---- membrane cases ----------------------------------------------------- *)

(* export_antibodies(): the held signatures in dict order (a re-learned text keeps
   its place, a forgotten and re-learned one goes to the end) *)
Definition exported (st : mstate) : list Z := map s_id (m_learned st).

Definition mobs (st : mstate) (o : option mresult) : list (list Z) :=
  match o with
  | Some r =>
      [ [ b2z (r_allowed r); r_level r; Z.of_nat (length (m_audit st)); m_filtered st; m_nblocked st;
          Z.of_nat (length (m_learned st)); Z.of_nat (length (m_blocked st)) ];
        ids (r_matched r) ]
  | None =>
      [ [ -1; Z.of_nat (length (m_audit st)); Z.of_nat (length (m_learned st)); m_threshold st ];
        exported st ]
  end.

(* ---- long histories in compact form ---------------------------------------

   A case operation is one membrane operation or a counted burst (Model.v:
   burst_ops) of [count] filter calls on pre ++ decimal(start + k) ++ post.
   A burst is observed in counted form: the statistics after its last call and
   the run-length encoding of the per-call decisions
   (allowed, threat level, number of matched signatures). *)
Inductive cop :=
  | COp (op : mop)
  | CBurst (pre post : list Z) (start : Z) (count : nat)
  | CSetRate (r : option Z)            (* m.rate_limit = r on the live membrane *)
  | CSetAdaptive (b : bool)            (* m.enable_adaptive = b on the live membrane *)
  | CSetHandler (raises : bool).       (* m.on_threat = a handler that raises (any exception class) / one that
                                          returns or None, on the live membrane *)

(* a case history as a live history (Model.v: lrun) *)
Definition expand (o : cop) : list lop :=
  match o with
  | COp op => [LOp op]
  | CBurst pre post start count => map LOp (burst_ops pre post start count)
  | CSetRate r => [LSetRate r]
  | CSetAdaptive b => [LSetAdaptive b]
  | CSetHandler _ => []
  end.

Definition rkey (r : mresult) : list Z :=
  [ b2z (r_allowed r); r_level r; Z.of_nat (length (r_matched r)) ].

(* run-length encoding, flattened: key ++ [run length] for every maximal run *)
Fixpoint rle_go (cur : list Z) (n : Z) (l : list (list Z)) : list Z :=
  match l with
  | [] => cur ++ [n]
  | k :: rest => if zl_eq k cur then rle_go cur (n + 1) rest else cur ++ [n] ++ rle_go k 1 rest
  end.
Definition rle (l : list (list Z)) : list Z :=
  match l with [] => [] | k :: rest => rle_go k 1 rest end.

Definition burst_obs (st : mstate) (rs : list mresult) : list (list Z) :=
  [ [ -8; Z.of_nat (length rs); Z.of_nat (length (m_audit st)); m_filtered st; m_nblocked st;
      Z.of_nat (length (m_learned st)); Z.of_nat (length (m_blocked st)) ];
    rle (map rkey rs) ].

(* what the caller of filter() observes: the result, or - when on_threat raised out of
   filter() - the decision as it stands in the audit trail and the statistics *)
Definition hobs (st : mstate) (out : fout) : list (list Z) :=
  match out with
  | FReturned r => mobs st (Some r)
  | FHandlerRaised r =>
      [ [ -10; r_level r; Z.of_nat (length (m_audit st)); m_filtered st; m_nblocked st;
          Z.of_nat (length (m_learned st)); Z.of_nat (length (m_blocked st)) ];
        ids (r_matched r) ]
  end.

(* [h]: does the on_threat handler installed at this point raise when called?  (A burst is
   observed in counted form: the harness handles the handler's exception per call.) *)
Fixpoint mrun_obs (h : bool) (cfg : mconfig) (st : mstate) (ops : list cop) : list (list Z) :=
  match ops with
  | [] => []
  | COp (OFilter c) :: rest =>
      let '(st', out) := mfilter_h (fun _ => h) cfg st c in hobs st' out ++ mrun_obs h cfg st' rest
  | COp op :: rest => let '(st', o) := mstep cfg st op in mobs st' o ++ mrun_obs h cfg st' rest
  | CBurst pre post start count :: rest =>
      let '(st', rs) := mrun cfg st (burst_ops pre post start count) in
      burst_obs st' rs ++ mrun_obs h cfg st' rest
  | CSetRate r :: rest =>
      let '(cfg', st', o) := lstep cfg st (LSetRate r) in mobs st' o ++ mrun_obs h cfg' st' rest
  | CSetAdaptive b :: rest =>
      let '(cfg', st', o) := lstep cfg st (LSetAdaptive b) in mobs st' o ++ mrun_obs h cfg' st' rest
  | CSetHandler b :: rest => mobs st None ++ mrun_obs b cfg st rest
  end.

(* builtin indices kept, custom signatures, threshold, rate_limit,
   enable_adaptive, start time (ticks), does the on_threat handler given to the
   constructor raise, operations *)
Record mcase := mkMCase {
  mc_builtin : list nat; mc_custom : list sig; mc_threshold : Z; mc_rate : option Z;
  mc_adaptive : bool; mc_t0 : Z; mc_raises : bool; mc_ops : list cop }.

Definition run_mcase (c : mcase) : list (list Z) :=
  let cfg := mkMC py_cc (fun x => x) (mc_rate c) (mc_adaptive c) in
  mrun_obs (mc_raises c) cfg (minit (pick gen_membrane_sigs (mc_builtin c) ++ mc_custom c) (mc_threshold c) (mc_t0 c))
           (mc_ops c).

(* ---- colony cases: several membranes, transfers ----------------------------- *)

Definition sobs (sys : msys) (o : sop) (r : option (nat * mresult)) : list (list Z) :=
  match o with
  | SOp i _ =>
      match nth_error sys i with
      | None => [ [ -9 ] ]
      | Some m =>
          let st := mb_st m in
          match r with
          | Some (_, x) =>
              [ [ Z.of_nat i; b2z (r_allowed x); r_level x; Z.of_nat (length (m_audit st)); m_filtered st;
                  m_nblocked st; Z.of_nat (length (m_learned st)); Z.of_nat (length (m_blocked st)) ];
                ids (r_matched x) ]
          | None => [ [ -1; Z.of_nat i; Z.of_nat (length (m_audit st)); Z.of_nat (length (m_learned st));
                        m_threshold st ];
                      exported st ]
          end
      end
  | STransfer _ d =>
      match nth_error sys d with
      | Some m => [ [ -5; Z.of_nat d; Z.of_nat (length (m_learned (mb_st m))) ]; exported (mb_st m) ]
      | None => [ [ -9 ] ]
      end
  | STickAll _ => [ [ -6 ] ]
  end.

Fixpoint srun_obs (sys : msys) (ops : list sop) : list (list Z) :=
  match ops with
  | [] => []
  | o :: rest => let '(sys', r) := sys_step sys o in sobs sys' o r ++ srun_obs sys' rest
  end.

(* per member: builtin indices, custom signatures, threshold, rate_limit, enable_adaptive *)
Definition mspec := (list nat * list sig * Z * option Z * bool)%type.
Definition mk_member (t0 : Z) (m : mspec) : member :=
  let '(b, cust, thr, rate, adaptive) := m in
  mkMember (mkMC py_cc (fun x => x) rate adaptive) (minit (pick gen_membrane_sigs b ++ cust) thr t0).

Record scase := mkSCase { sc_members : list mspec; sc_t0 : Z; sc_ops : list sop }.
Definition run_scase (c : scase) : list (list Z) :=
  srun_obs (map (mk_member (sc_t0 c)) (sc_members c)) (sc_ops c).

(* ---- innate cases -------------------------------------------------------- *)

(* validators: the two transcribed shipped ones, or an oracle whose answer on
   each checked content is recorded from the run (JSONValidator, stubs) *)
Inductive vdesc :=
  | VLen (mn mx : Z) | VChar (allow_ctrl allow_null : bool)
  | VJson (max_depth max_size : Z)       (* transcribed; json.loads is the oracle *)
  | VOracle.

(* what the run recorded for one validator on one checked content: the verdict
   itself (harness stubs; a shipped validator that raised), or - for
   JSONValidator - what json.loads did with the content *)
Inductive answer := AV (v : verdict) | AP (p : parsed).

Definition interp_v (d : vdesc) (ans : answer) : validator :=
  match d, ans with
  | VLen mn mx, _ => v_length mn mx
  | VChar a b, _ => v_charset a b
  | VJson md mx, AP p => v_json md mx (fun _ => p)
  | VJson _ _, AV v => fun _ => v
  | VOracle, AV v => fun _ => v
  | VOracle, AP _ => fun _ => VRet true false
  end.

Fixpoint interp_vs (ds : list vdesc) (answers : list answer) : list validator :=
  match ds with
  | [] => []
  | d :: ds' =>
      match answers with
      | a :: as' => interp_v d a :: interp_vs ds' as'
      | [] => interp_v d (AV (VRet true false)) :: interp_vs ds' []
      end
  end.

Inductive rop :=
  | RI (op : iop) (answers : list answer)      (* answers: one per validator (VOracle, VJson) *)
  | RAddValidator (d : vdesc)
  | RSetHandler (raises : bool)   (* im.on_inflammation = a handler that raises / one that returns or None *)
  | RSibling.     (* an operation on ANOTHER InnateImmunity instance built from the same pattern/validator objects: no effect here *)

Definition iobs (st : istate) (o : option iout) : list (list Z) :=
  match o with
  | Some IRaised => [ [ 2; i_checks st; i_blocks st; i_triggers st; i_level st ] ]
  | Some (IOk r) =>
      [ [ b2z (ir_allowed r); ir_errors r; ir_level r; i_checks st; i_blocks st; i_triggers st; i_level st ];
        ids (ir_matched r) ]
  | None => [ [ -1; Z.of_nat (length (i_pats st)); i_level st; i_triggers st ] ]
  end.

(* check(): the result / a validator's exception, or the exception of on_inflammation *)
Definition cobs (st : istate) (o : cout) : list (list Z) :=
  match o with
  | CPlain o' => iobs st (Some o')
  | CHandlerRaised lvl => [ [ 3; lvl; i_checks st; i_blocks st; i_triggers st; i_level st ] ]
  end.

(* [h]: does the on_inflammation handler installed at this point raise when called? *)
Fixpoint irun_obs (h : bool) (ds : list vdesc) (st : istate) (ops : list rop) : list (list Z) :=
  match ops with
  | [] => []
  | RI (ICheck c) answers :: rest =>
      let '(st', o) := icheck_h (fun _ => h) py_cc (interp_vs ds answers) st c in
      cobs st' o ++ irun_obs h ds st' rest
  | RI op answers :: rest =>
      let '(st', o) := istep py_cc (interp_vs ds answers) st op in
      iobs st' o ++ irun_obs h ds st' rest
  | RAddValidator d :: rest =>
      [ -2; Z.of_nat (length ds + 1) ] :: irun_obs h (ds ++ [d]) st rest
  | RSetHandler b :: rest => [ -11; b2z b ] :: irun_obs b ds st rest
  | RSibling :: rest => [ -4 ] :: irun_obs h ds st rest
  end.

Record icase := mkICase {
  ic_builtin : list nat; ic_custom : list sig; ic_validators : list vdesc; ic_threshold : Z;
  ic_decay_minutes : Z; ic_t0 : Z; ic_raises : bool; ic_ops : list rop }.

Definition run_icase (c : icase) : list (list Z) :=
  irun_obs (ic_raises c) (ic_validators c)
           (iinit (pick gen_innate_sigs (ic_builtin c) ++ ic_custom c) (ic_threshold c)
                  (60 * ic_decay_minutes c) (ic_t0 c))
           (ic_ops c).

(* ---- per-signature cases: model matcher vs. the real .matches ----------- *)

Inductive case :=
  | CMem (c : mcase)
  | CInn (c : icase)
  | CSys (c : scase)
  | CShipped (innate : bool) (idx : nat) (contents : list (list Z))
  | CSig (g : sig) (contents : list (list Z)).

Definition run_case (c : case) : list (list Z) :=
  match c with
  | CMem m => run_mcase m
  | CInn i => run_icase i
  | CSys c => run_scase c
  | CShipped innate idx contents =>
      match nth_error (if innate then gen_innate_sigs else gen_membrane_sigs) idx with
      | Some g => [ map (fun s => b2z (sig_matches py_cc g s)) contents ]
      | None => [ [ -7 ] ]
      end
  | CSig g contents => [ map (fun s => b2z (sig_matches py_cc g s)) contents ]
  end.
