(* C10 — property theorems only.  Each is closed by [exact] of lemmas from
   Proofs.v / RegexProofs.v and followed by Print Assumptions.

   Vocabulary (Model.v, Regex.v):
     cc            a character classification (case fold, \w, \s, \d); the
                   theorems hold for every cc (case stability: every cc with
                   [cc_ok cc], i.e. the classes are invariant under the fold)
     sig_matches   ThreatSignature.matches / TLRPattern.matches: a substring
                   (KSub), a regex of the AST of Regex.v (KRx), or a host pattern
                   (KHost f: any regex outside the AST, f an arbitrary function)
     mfilter       Membrane.filter;  mstep/mrun  one operation / a history of
                   filter, learn, forget, import, add_signature, set_threshold,
                   clock tick, clear_audit_log
     active st     self.signatures ++ self._learned_patterns.values()
     names_key     the operation learns / imports / forgets exactly this pattern
                   text (the key of _learned_patterns)
     icheck        InnateImmunity.check with the validators as arbitrary
                   functions content -> VRet valid err_truthy | VRaises
     v_json, v_length, v_charset   the three shipped validators (json.loads an
                   oracle); depth = nesting depth of a parsed document
     burst_ops     (Model.v) a counted burst of filter calls on pairwise
                   different inputs: an ordinary list of operations, so every
                   theorem about mrun covers histories containing bursts
     lrun          (Model.v) a LIVE history: ordinary operations and assignments
                   m.rate_limit = r / m.enable_adaptive = b on the live membrane;
                   each decision comes with the rate_limit in force at the call
     handler, mfilter_h, hrun   (Model.v) on_threat as a function "does it raise on this
                   result"; filter() with a handler; a live history in which every
                   operation comes with the handler installed at that moment
     icheck_h      InnateImmunity.check with an on_inflammation handler that may raise
     keeps_rules / keeps_patterns   operations that install or remove no signature *)
From Coq Require Import String ZArith List Bool.
From Verif Require Import C10.Regex C10.RegexProofs C10.Model C10.Proofs C10.LiveProofs C10.HandlerProofs C10.Run.
Import ListNotations.
Open Scope Z_scope.

(* generated data: every shipped pattern was translated (no Unrecognised), both
   signature classes compile with exactly re.IGNORECASE, their matches() bodies
   are the transcribed ones, ThreatLevel = SAFE..CRITICAL = 0..3 *)
Theorem Gen_C10_ok : gen_ok = true.
Proof. vm_compute. reflexivity. Qed.
Print Assumptions Gen_C10_ok.

(* Membrane: an input is allowed only if the call was a scan and no active
   signature (built-in, custom, learned, imported) at or above the threshold
   matches it.  Innate: allowed only if additionally no validator rejected it
   (with a message, see ASSUMPTIONS) and inflammation is below ACUTE. *)
Theorem c10_allowed_sound :
  (forall cfg st c st' r,
     mfilter cfg st c = (st', r) -> r_allowed r = true ->
     r_kind r = Scanned /\
     forall g, In g (active st) -> sig_matches (c_cc cfg) g c = true -> s_level g < m_threshold st) /\
  (forall cc vals st c st' r,
     icheck cc vals st c = (st', IOk r) -> ir_allowed r = true ->
     (forall g, In g (i_pats st) -> sig_matches cc g c = true -> s_level g < i_threshold st) /\
     (forall v, In v vals -> exists valid e, v c = VRet valid e /\ (valid = true \/ e = false)) /\
     ir_level r < acute).
Proof. exact (conj m_allowed_sound i_allowed_sound). Qed.
Print Assumptions c10_allowed_sound.

(* A scanned input: matched = exactly the active signatures that match; the
   reported level bounds every matched level and is attained (or SAFE = 0 when
   nothing positive matched); allowed = level < threshold.  Innate: the same for
   the matched patterns and the max severity that feeds the allow rule. *)
Theorem c10_level_is_max :
  (forall cfg st c st' r,
     mfilter cfg st c = (st', r) -> r_kind r = Scanned ->
     (forall g, In g (r_matched r) <-> In g (active st) /\ sig_matches (c_cc cfg) g c = true) /\
     (forall g, In g (r_matched r) -> s_level g <= r_level r) /\
     (r_level r = 0 \/ exists g, In g (r_matched r) /\ r_level r = s_level g) /\
     r_allowed r = (r_level r <? m_threshold st)) /\
  (forall cc vals st c st' r,
     icheck cc vals st c = (st', IOk r) ->
     ir_matched r = scan cc (i_pats st) c /\ ir_maxsev r = max_level (scan cc (i_pats st) c) /\
     ir_allowed r = ((ir_maxsev r <? i_threshold st) && (ir_errors r =? 0) && (ir_level r <? acute)) /\
     i_checks st' = i_checks st + 1).
Proof. exact (conj m_level_is_max i_result_shape). Qed.
Print Assumptions c10_level_is_max.

(* Case changes (= anything preserving lower()): every signature, substring or
   regex, matches s iff it matches s'; hence the same scan; hence an input
   blocked by a scan is not allowed in any state with the same rules, and an
   input blocked by an innate pattern is blocked whatever the validators do.
   [sig_fold_ok cc g] is True for substring and AST-regex signatures; for a host
   pattern (KHost f: back-references etc., matched by the host engine) it asks
   that f itself does not tell apart contents with the same lower(). *)
Theorem c10_case_stable :
  forall cc, cc_ok cc ->
  (forall g, sig_fold_ok cc g ->
     forall s s', lower cc s = lower cc s' -> sig_matches cc g s = sig_matches cc g s') /\
  (forall sigs s s', (forall g, In g sigs -> sig_fold_ok cc g) ->
     lower cc s = lower cc s' -> scan cc sigs s = scan cc sigs s') /\
  (forall cfg, c_cc cfg = cc -> forall st c st' r,
     (forall g, In g (active st) -> sig_fold_ok cc g) ->
     mfilter cfg st c = (st', r) -> r_kind r = Scanned -> r_allowed r = false ->
     forall st2 c', same_rules st st2 -> lower cc c' = lower cc c ->
     r_allowed (snd (mfilter cfg st2 c')) = false) /\
  (forall st c st2 c' vals2,
     (forall g, In g (i_pats st) -> sig_fold_ok cc g) ->
     i_threshold st <= max_level (scan cc (i_pats st) c) ->
     i_pats st2 = i_pats st -> i_threshold st2 = i_threshold st -> lower cc c' = lower cc c ->
     snd (icheck cc vals2 st2 c') = IRaised \/
     exists r, snd (icheck cc vals2 st2 c') = IOk r /\ ir_allowed r = false).
Proof. exact case_stable_all. Qed.
Print Assumptions c10_case_stable.

(* the executable classification used by run_case satisfies cc_ok *)
Theorem c10_case_stable_py_cc : cc_ok py_cc.
Proof. exact py_cc_ok. Qed.
Print Assumptions c10_case_stable_py_cc.

(* Substring signatures (and regexes without \b) survive ANY surrounding text;
   an input a blocking one matches stays blocked under any embedding. *)
Theorem c10_embed_stable_substring :
  (forall cc g p s pre post,
     s_kind g = KSub p -> sig_matches cc g s = true -> sig_matches cc g (pre ++ s ++ post) = true) /\
  (forall cc g s pre post,
     sig_wb_free g = true -> sig_matches cc g s = true -> sig_matches cc g (pre ++ s ++ post) = true) /\
  (forall cfg st g c,
     In g (active st) -> sig_wb_free g = true -> sig_matches (c_cc cfg) g c = true ->
     m_threshold st <= s_level g ->
     forall st2 pre post, same_rules st st2 ->
     r_allowed (snd (mfilter cfg st2 (pre ++ c ++ post))) = false).
Proof. exact (conj sig_embed_substring (conj sig_embed_wb_free m_embed_blocked_by)). Qed.
Print Assumptions c10_embed_stable_substring.

(* Every regex of the AST: a match in s is a match in pre ++ s ++ post provided
   the surrounding text glues no \w character onto a \b-anchored edge of the
   pattern:
     left:  edge_free_l r (no \b of r can be evaluated at the start of a match:
            syntactic, Regex.v)  or  pre is empty or ends with a non-\w character;
     right: edge_free_r r (no \b can be evaluated at the end of a match)
            or  post is empty or starts with a non-\w character.
   (Examples.v: the condition cannot be dropped.)  Hence a scan-blocked input
   stays blocked when so embedded: membrane, any state with the same rules, the
   edge conditions being required only if some matched signature is anchored
   there; innate, any validators (stated with both edges non-\w).
   [sig_embed_ok cc g] is True for substring and AST-regex signatures; for a host
   pattern (KHost f) it asks that a match of f survives surrounding text that
   glues no \w character to either edge (a host pattern counts as anchored on
   both edges: sig_edge_free_l/r are false for it). *)
Theorem c10_embed_stable_regex :
  (forall cc r s pre post,
     (edge_free_l r = true \/ last_word cc false pre = false) ->
     (edge_free_r r = true \/ head_word cc post = false) ->
     search cc r s = true -> search cc r (pre ++ s ++ post) = true) /\
  (forall cfg st c st' r,
     mfilter cfg st c = (st', r) -> r_kind r = Scanned -> r_allowed r = false ->
     (forall g, In g (r_matched r) -> sig_embed_ok (c_cc cfg) g) ->
     forall st2 pre post, same_rules st st2 ->
     ((forall g, In g (r_matched r) -> sig_edge_free_l g = true) \/ last_word (c_cc cfg) false pre = false) ->
     ((forall g, In g (r_matched r) -> sig_edge_free_r g = true) \/ head_word (c_cc cfg) post = false) ->
     r_allowed (snd (mfilter cfg st2 (pre ++ c ++ post))) = false) /\
  (forall cc st c st2 pre post vals2,
     (forall g, In g (i_pats st) -> sig_embed_ok cc g) ->
     i_threshold st <= max_level (scan cc (i_pats st) c) ->
     i_pats st2 = i_pats st -> i_threshold st2 = i_threshold st ->
     last_word cc false pre = false -> head_word cc post = false ->
     snd (icheck cc vals2 st2 (pre ++ c ++ post)) = IRaised \/
     exists r, snd (icheck cc vals2 st2 (pre ++ c ++ post)) = IOk r /\ ir_allowed r = false).
Proof. exact embed_stable_regex_all. Qed.
Print Assumptions c10_embed_stable_regex.

(* DECORATED occurrences.  A code point that is not a \w character - for Python
   (str.lower, sre) that is what a combining mark, an enclosing mark, a
   variation selector, a zero-width joiner / space or a soft hyphen is: nothing
   in the gates composes it with its neighbour - placed right AFTER an
   occurrence is the first character of the surrounding text, so the right edge
   condition of c10_embed_stable_regex holds whatever the pattern and whatever
   follows (1); right BEFORE it, the same on the left (2); one on each side: the
   signature still matches with no condition on the pattern or on the rest of
   the text at all (3).  Hence (4) an input the membrane blocked by a scan stays
   blocked with a mark glued to each side inside any text (and with a mark
   after it under the left edge condition alone), in every state with the same
   rules, and (5) the innate filter likewise, whatever the validators do.
   (6) py_cc, the classification run_case executes (and the harness checks
   against Python on every run), has the twelve decoration characters of the
   generator - U+0300 U+0301 U+0303 U+0308 U+0323 U+0327 U+20DD U+3099 U+FE0F
   U+200B U+200D U+00AD - as case-less non-\w, non-\s, non-\d code points.
   A mark INSIDE an occurrence, or a compatibility spelling of it (fullwidth
   letters, ligatures), is a different string that the signature does not match
   (Examples.v: ex_decorations): the property asks nothing for it, except that
   U+212A KELVIN SIGN is a case variant of k (lower() = k: c10_case_stable). *)
Theorem c10_decorated_occurrence_stays_blocked :
  (forall cc g s pre post m, sig_embed_ok cc g -> cc_word cc m = false ->
     (sig_edge_free_l g = true \/ last_word cc false pre = false) ->
     sig_matches cc g s = true -> sig_matches cc g (pre ++ s ++ m :: post) = true) /\
  (forall cc g s pre post m, sig_embed_ok cc g -> cc_word cc m = false ->
     (sig_edge_free_r g = true \/ head_word cc post = false) ->
     sig_matches cc g s = true -> sig_matches cc g (pre ++ m :: s ++ post) = true) /\
  (forall cc g s pre post m1 m2, sig_embed_ok cc g -> cc_word cc m1 = false -> cc_word cc m2 = false ->
     sig_matches cc g s = true -> sig_matches cc g (pre ++ m1 :: s ++ m2 :: post) = true) /\
  (forall cfg st c st' r,
     mfilter cfg st c = (st', r) -> r_kind r = Scanned -> r_allowed r = false ->
     (forall g, In g (r_matched r) -> sig_embed_ok (c_cc cfg) g) ->
     forall st2 pre post m1 m2, same_rules st st2 ->
     cc_word (c_cc cfg) m1 = false -> cc_word (c_cc cfg) m2 = false ->
     r_allowed (snd (mfilter cfg st2 (pre ++ m1 :: c ++ m2 :: post))) = false /\
     (((forall g, In g (r_matched r) -> sig_edge_free_l g = true) \/ last_word (c_cc cfg) false pre = false) ->
      r_allowed (snd (mfilter cfg st2 (pre ++ c ++ m2 :: post))) = false)) /\
  (forall cc st c st2 pre post m1 m2 vals2,
     (forall g, In g (i_pats st) -> sig_embed_ok cc g) ->
     i_threshold st <= max_level (scan cc (i_pats st) c) ->
     i_pats st2 = i_pats st -> i_threshold st2 = i_threshold st ->
     cc_word cc m1 = false -> cc_word cc m2 = false ->
     snd (icheck cc vals2 st2 (pre ++ m1 :: c ++ m2 :: post)) = IRaised \/
     exists r, snd (icheck cc vals2 st2 (pre ++ m1 :: c ++ m2 :: post)) = IOk r /\ ir_allowed r = false) /\
  forallb (fun m => negb (cc_word py_cc m) && negb (cc_space py_cc m) &&
                    negb (cc_digit py_cc m) && (cc_fold py_cc m =? m)) py_marks = true.
Proof. exact decorated_all. Qed.
Print Assumptions c10_decorated_occurrence_stays_blocked.

(* "No active signature (built-in, CUSTOM, learned or imported) ... matches it",
   for signatures of every kind, HOST patterns included (KHost f: a regex with
   constructs outside the AST - numbered / named back-references, conditional
   groups, lazy quantifiers ... - whose matcher f is an arbitrary function):
   (1) the verdict of a host pattern on an input is f of that input and of
   nothing else; (2,3) the scan consults every signature on its own - the
   matched list of a concatenation is the concatenation of the matched lists,
   and g is reported among a ++ g :: b exactly when g itself matches, whatever
   a and b are (no other signature, built-in or not, can mask or alter it);
   (4-7) a signature given to the constructor, to add_signature or to
   add_pattern is active from then on through EVERY history (membrane: filter,
   learn, forget, import, add_signature, set_threshold, ticks, clear_audit_log;
   innate: check, add_pattern, reset, ticks, any validator lists);
   (8,9) and while active it decides every input it matches: the membrane
   refuses it when its level reaches the threshold and every scan reports it
   with at least its level; check() lists it among the matched patterns and
   does not allow the input when its severity reaches the threshold. *)
Theorem c10_signatures_judged_alone :
  (forall cc id key f lvl c, sig_matches cc (mkSig id key (KHost f) lvl) c = f c) /\
  (forall cc a b c, scan cc (a ++ b) c = scan cc a c ++ scan cc b c) /\
  (forall cc a g b c, In g (scan cc (a ++ g :: b) c) <-> sig_matches cc g c = true) /\
  (forall cfg st g ops, In g (active (fst (mrun cfg (fst (mstep cfg st (OAddSig g))) ops)))) /\
  (forall cfg ops st g, In g (m_sigs st) -> In g (active (fst (mrun cfg st ops)))) /\
  (forall cc vals st g ops, In g (i_pats (irun cc (fst (istep cc vals st (IAddPattern g))) ops))) /\
  (forall cc ops st g, In g (i_pats st) -> In g (i_pats (irun cc st ops))) /\
  (forall cfg st g c,
     In g (active st) -> sig_matches (c_cc cfg) g c = true ->
     (m_threshold st <= s_level g -> r_allowed (snd (mfilter cfg st c)) = false) /\
     (r_kind (snd (mfilter cfg st c)) = Scanned ->
      In g (r_matched (snd (mfilter cfg st c))) /\ s_level g <= r_level (snd (mfilter cfg st c)))) /\
  (forall cc vals st g c,
     In g (i_pats st) -> sig_matches cc g c = true ->
     snd (icheck cc vals st c) = IRaised \/
     exists r, snd (icheck cc vals st c) = IOk r /\ In g (ir_matched r) /\
               (i_threshold st <= s_level g -> ir_allowed r = false)).
Proof. exact host_judged_alone_all. Qed.
Print Assumptions c10_signatures_judged_alone.

(* Once an input was blocked by a scan it is refused by every later filter
   call, whatever operations (learn, forget, import, add_signature,
   set_threshold to anything, clock ticks of any sign, clear_audit_log, other
   filter calls) happened in between — for every hash function. *)
Theorem c10_replay_memory_monotone :
  forall cfg st c st1 r,
    mfilter cfg st c = (st1, r) -> r_kind r = Scanned -> r_allowed r = false ->
    forall ops c', c_hash cfg c' = c_hash cfg c ->
    r_allowed (snd (mfilter cfg (fst (mrun cfg st1 ops)) c')) = false.
Proof. exact m_replay_memory. Qed.
Print Assumptions c10_replay_memory_monotone.

(* The replay memory has NO CAPACITY: over a history of any length (1) the
   memory is the old one followed by the hash of every scan-blocked decision,
   in order - nothing is ever dropped, reordered or replaced; (2) its size (the
   `blocked_hashes` statistic) is the old size plus the number of scan-blocked
   decisions; (3) whichever decision of a history blocked an input by a scan -
   the first of 100 000 or the last - the input is refused after that history
   and after every continuation of it (relaxations included). *)
Theorem c10_replay_memory_unbounded :
  (forall cfg ops st,
     m_blocked (fst (mrun cfg st ops)) =
     m_blocked st ++ map r_hash (filter scan_blocked (snd (mrun cfg st ops)))) /\
  (forall cfg ops st,
     length (m_blocked (fst (mrun cfg st ops))) =
     (length (m_blocked st) + length (filter scan_blocked (snd (mrun cfg st ops))))%nat) /\
  (forall cfg ops st r,
     In r (snd (mrun cfg st ops)) -> r_kind r = Scanned -> r_allowed r = false ->
     forall ops2 c', c_hash cfg c' = r_hash r ->
     r_allowed (snd (mfilter cfg (fst (mrun cfg (fst (mrun cfg st ops)) ops2)) c')) = false).
Proof. exact replay_memory_unbounded_all. Qed.
Print Assumptions c10_replay_memory_unbounded.

(* "No ACTIVE signature (... learned or imported) matches": which learned and
   imported signatures are active.  A signature put into the adaptive memory by
   learn_threat (enable_adaptive) or import_antibodies (1,2) stays there, with
   its own level and kind, through EVERY history - filter calls, learning,
   importing and forgetting other texts, add_signature, threshold changes,
   clock ticks, clear_audit_log - in which no learn / import / forget names
   exactly its pattern text (3); "names" is equality of the text as written
   (4): a text that differs only in letter case, in the case of a regex escape
   class (\s vs \S) or in surrounding blanks is a different signature and
   neither overwrites nor deletes it; forget_threat(k) removes the signatures
   whose text is k and no other (5).  Hence (6) after any such history an input
   the signature matches is refused whenever its level reaches the current
   threshold, and every scan reports it among the matched signatures with a
   level at least its own. *)
Theorem c10_learned_active_until_named :
  (forall cfg st g, c_adaptive cfg = true -> In g (m_learned (fst (mstep cfg st (OLearn g))))) /\
  (forall cfg st l1 g l2, (forall g', In g' l2 -> s_key g' <> s_key g) ->
     In g (m_learned (fst (mstep cfg st (OImport (l1 ++ g :: l2)))))) /\
  (forall cfg ops st g,
     In g (m_learned st) -> forallb (fun op => negb (names_key cfg (s_key g) op)) ops = true ->
     In g (m_learned (fst (mrun cfg st ops)))) /\
  (forall cfg k op, names_key cfg k op = true ->
     op = OForget k \/
     exists g, s_key g = k /\ (op = OLearn g \/ exists l, op = OImport l /\ In g l)) /\
  (forall cfg st k g, In g (m_learned (fst (mstep cfg st (OForget k)))) <-> In g (m_learned st) /\ s_key g <> k) /\
  (forall cfg ops st g c,
     In g (m_learned st) -> forallb (fun op => negb (names_key cfg (s_key g) op)) ops = true ->
     sig_matches (c_cc cfg) g c = true ->
     let st' := fst (mrun cfg st ops) in
     (m_threshold st' <= s_level g -> r_allowed (snd (mfilter cfg st' c)) = false) /\
     (r_kind (snd (mfilter cfg st' c)) = Scanned ->
      In g (r_matched (snd (mfilter cfg st' c))) /\ s_level g <= r_level (snd (mfilter cfg st' c)))).
Proof. exact learned_active_all. Qed.
Print Assumptions c10_learned_active_until_named.

(* A colony of membranes (operations addressed to one membrane, antibody
   transfer dst.import_antibodies(src.export_antibodies()), a shared clock):
   (1,2) an operation, or any history, that is not addressed to membrane j - not
   an operation on j, not a transfer INTO j, not a clock tick - leaves j's state
   exactly as it was, transfers OUT of j included;
   (3) hence every later decision of j is unchanged: whatever happened to the
   other membranes in between, j's own operations (and clock ticks) then produce
   the same results and the same state as if nothing had happened;
   (4) a transfer gives dst exactly import(values held by src at that moment):
   import copies values, so by (1-3) a later re-learn / forget / threshold change
   on src cannot reach dst. *)
Theorem c10_membranes_isolated :
  (forall sys o j, touches j o = false -> nth_error (fst (sys_step sys o)) j = nth_error sys j) /\
  (forall sys others j, forallb (fun o => negb (touches j o)) others = true ->
     nth_error (fst (sys_run sys others)) j = nth_error sys j) /\
  (forall sys others mine j,
     forallb (fun o => negb (touches j o)) others = true -> forallb (local_to j) mine = true ->
     snd (sys_run (fst (sys_run sys others)) mine) = snd (sys_run sys mine) /\
     nth_error (fst (sys_run (fst (sys_run sys others)) mine)) j = nth_error (fst (sys_run sys mine)) j) /\
  (forall sys s d ms md, nth_error sys s = Some ms -> nth_error sys d = Some md ->
     nth_error (fst (sys_step sys (STransfer s d))) d =
     Some (mkMember (mb_cfg md) (fst (mstep (mb_cfg md) (mb_st md) (OImport (m_learned (mb_st ms))))))).
Proof. exact membranes_isolated_all. Qed.
Print Assumptions c10_membranes_isolated.

(* With a monotone clock, in any history from a fresh membrane with
   rate_limit = n, every window [a, a + 60 s) contains at most max(0, n)
   requests that passed the rate check (admitted = not RateLimited; allowed
   requests are among them). *)
Theorem c10_rate_bound :
  forall cfg n sigs thr t0 ops,
    c_rate cfg = Some n -> Forall nonneg_tick ops ->
    forall a, count_in a (admitted (snd (mrun cfg (minit sigs thr t0) ops))) <= Z.max 0 n.
Proof. exact m_rate_bound. Qed.
Print Assumptions c10_rate_bound.

(* "At most rate_limit inputs are admitted per window" when rate_limit is
   RE-ASSIGNED on the live membrane (raised, lowered, switched off with None and
   on again) anywhere in a history of any length, with a monotone clock:
   (1) every decision made while rate_limit was a number n and not refused by
   the rate check finds at most n counted admissions - itself included - among
   the decisions so far whose time stamp is later than its own time - 60 s
   ("counted" = passed the rate check while rate_limit was a number; with
   rate_limit = None the limiter is off, see (3)); in particular none is
   admitted under n <= 0;
   (2) decisions are stamped in order, so those time stamps are exactly the
   ones in the window (t - 60 s, t] ending at the decision;
   (3) while rate_limit is None no request is refused by the rate check.
   With a constant limit this is c10_rate_bound (c10_live_reconfiguration (1)). *)
Theorem c10_rate_bound_live :
  (forall cfg sigs thr t0 ops, Forall lnonneg ops ->
     forall a e b n, snd (lrun cfg (minit sigs thr t0) ops) = a ++ e :: b ->
     fst e = Some n -> is_limited (r_kind (snd e)) = false ->
     trailing (r_time (snd e)) (ladmitted (a ++ [e])) <= n) /\
  (forall cfg st ops, Forall lnonneg ops ->
     forall a e b, snd (lrun cfg st ops) = a ++ e :: b ->
     forall x, In x a -> r_time (snd x) <= r_time (snd e)) /\
  (forall cfg st ops e, In e (snd (lrun cfg st ops)) -> fst e = None -> is_limited (r_kind (snd e)) = false).
Proof. exact live_rate_all. Qed.
Print Assumptions c10_rate_bound_live.

(* Configuration attributes assigned on a LIVE membrane between requests
   (rate_limit, enable_adaptive; threshold is OSetThreshold).  (1) A history
   without assignments is an ordinary history, so every theorem above is about
   live histories that happen to contain none; (2) an assignment replaces that
   one field - the next call reads it - and leaves the state (request times,
   replay memory, audit trail, signatures) alone; (3) it cannot reach the
   matching semantics or the hash.  Across ANY live history: (4) an input
   blocked by a scan is refused afterwards; (5) the audit trail is the old one
   followed by every decision, in order (no clear_audit_log); (6) constructor /
   add_signature signatures stay active; (7) a learned / imported signature
   stays in the adaptive memory until exactly its text is learnt, imported or
   forgotten - switching enable_adaptive off does not drop it - and keeps
   refusing what it matches at or above the threshold; (8) learn_threat while
   enable_adaptive is off changes nothing.  Every single decision obeys
   c10_allowed_sound / c10_level_is_max under the configuration in force
   (those theorems are per call and for every configuration). *)
Theorem c10_live_reconfiguration :
  (forall ops cfg st,
     lrun cfg st (map LOp ops) =
     (cfg, fst (mrun cfg st ops), map (fun r => (c_rate cfg, r)) (snd (mrun cfg st ops)))) /\
  (forall cfg st,
     (forall r, lstep cfg st (LSetRate r) = (set_rate cfg r, st, None) /\ c_rate (set_rate cfg r) = r /\
                c_adaptive (set_rate cfg r) = c_adaptive cfg) /\
     (forall b, lstep cfg st (LSetAdaptive b) = (set_adaptive cfg b, st, None) /\
                c_adaptive (set_adaptive cfg b) = b /\ c_rate (set_adaptive cfg b) = c_rate cfg)) /\
  (forall ops cfg st,
     c_cc (fst (fst (lrun cfg st ops))) = c_cc cfg /\ c_hash (fst (fst (lrun cfg st ops))) = c_hash cfg) /\
  (forall cfg st c st1 r,
     mfilter cfg st c = (st1, r) -> r_kind r = Scanned -> r_allowed r = false ->
     forall ops c', c_hash cfg c' = c_hash cfg c ->
     r_allowed (snd (mfilter (fst (fst (lrun cfg st1 ops))) (snd (fst (lrun cfg st1 ops))) c')) = false) /\
  (forall ops cfg st,
     forallb (fun o => negb (lis_clear o)) ops = true ->
     m_audit (snd (fst (lrun cfg st ops))) = m_audit st ++ map snd (snd (lrun cfg st ops))) /\
  (forall ops cfg st g, In g (m_sigs st) -> In g (active (snd (fst (lrun cfg st ops))))) /\
  (forall ops cfg st g c,
     In g (m_learned st) -> forallb (fun o => negb (lnames (s_key g) o)) ops = true ->
     let cfg' := fst (fst (lrun cfg st ops)) in
     let st' := snd (fst (lrun cfg st ops)) in
     In g (m_learned st') /\
     (sig_matches (c_cc cfg) g c = true -> m_threshold st' <= s_level g ->
      r_allowed (snd (mfilter cfg' st' c)) = false)) /\
  (forall cfg st g, c_adaptive cfg = false -> lstep cfg st (LOp (OLearn g)) = (cfg, st, None)).
Proof. exact live_all. Qed.
Print Assumptions c10_live_reconfiguration.

(* CALLBACKS THAT RAISE.  The gates accept user callbacks (on_threat,
   on_inflammation) and call them in the middle of their bookkeeping; a callback
   may raise anything (an Exception, or a BaseException such as
   KeyboardInterrupt), the caller may handle it and go on using the gate.
   "The membrane keeps blocking an input it has blocked before even after rules
   are relaxed" and "every decision is appended to the audit trail" are stated
   of decisions, whatever the handler then does:
   (1) a handler changes neither the state transition nor the decision of a call;
   (2) when the handler's exception reaches the caller, the decision was a scan
       block, it is the last entry of the audit trail, it is counted, and its
       hash is in the replay memory;
   (3) a history with handlers is the live history of its operations (so every
       theorem about lrun / mrun speaks about it);
   (4) an input blocked by a scan - the caller got the result OR the handler's
       exception - is refused after every later history of operations,
       assignments and handler behaviours, under every handler;
   (5) innate: a raising on_inflammation leaves patterns and threshold alone (the
       next check is judged by c10_allowed_sound as ever), it can only raise
       after the inflammation state took the new level, and otherwise the
       call is the plain check. *)
Theorem c10_raising_handler_keeps_block :
  (forall h cfg st c,
     fst (mfilter_h h cfg st c) = fst (mfilter cfg st c) /\
     fout_result (snd (mfilter_h h cfg st c)) = snd (mfilter cfg st c)) /\
  (forall h cfg st c st' r,
     mfilter_h h cfg st c = (st', FHandlerRaised r) ->
     mfilter cfg st c = (st', r) /\ r_kind r = Scanned /\ r_allowed r = false /\ h r = true /\
     m_audit st' = m_audit st ++ [r] /\ hmem (c_hash cfg c) (m_blocked st') = true /\
     m_nblocked st' = m_nblocked st + 1) /\
  (forall ops cfg st,
     fst (hrun cfg st ops) = fst (lrun cfg st (map fst ops)) /\
     map forget_handler (snd (hrun cfg st ops)) = snd (lrun cfg st (map fst ops))) /\
  (forall h cfg st c st1 out,
     mfilter_h h cfg st c = (st1, out) -> scan_blocked (fout_result out) = true ->
     forall ops c' h', c_hash cfg c' = c_hash cfg c ->
     r_allowed (fout_result (snd (mfilter_h h' (fst (fst (hrun cfg st1 ops))) (snd (fst (hrun cfg st1 ops))) c')))
     = false) /\
  (forall h cc vals st c,
     i_pats (fst (icheck_h h cc vals st c)) = i_pats st /\
     i_threshold (fst (icheck_h h cc vals st c)) = i_threshold st /\
     (forall lvl, snd (icheck_h h cc vals st c) = CHandlerRaised lvl ->
        exists r, snd (icheck cc vals st c) = IOk r /\ ir_level r = lvl /\ 0 < lvl /\ h lvl = true /\
                  i_level (fst (icheck_h h cc vals st c)) = lvl) /\
     (forall o, snd (icheck_h h cc vals st c) = CPlain o ->
        icheck cc vals st c = (fst (icheck_h h cc vals st c), o))).
Proof. exact handlers_all. Qed.
Print Assumptions c10_raising_handler_keeps_block.

(* EARLIER INPUTS LEAVE NO TRACE IN A SCAN.  "Allows an input only if no active
   signature ... matches IT": the verdict is about the input now submitted, as a
   value; whatever was submitted before - any number of inputs of any content
   and length, clock ticks, threshold changes (membrane: filter / tick /
   set_threshold / clear_audit_log; innate: every operation but add_pattern, any
   validator lists) - a scan reports exactly the active signatures that match this
   input and refuses it when one of them is at / above the threshold in force. *)
Theorem c10_scan_history_free :
  (forall cfg ops st c st' r,
     forallb keeps_rules ops = true ->
     mfilter cfg (fst (mrun cfg st ops)) c = (st', r) -> r_kind r = Scanned ->
     r_matched r = scan (c_cc cfg) (active st) c /\
     (forall g, In g (active st) -> sig_matches (c_cc cfg) g c = true ->
        m_threshold (fst (mrun cfg st ops)) <= s_level g -> r_allowed r = false)) /\
  (forall cc ops st vals c st' r,
     forallb (fun p => keeps_patterns (snd p)) ops = true ->
     icheck cc vals (irun cc st ops) c = (st', IOk r) ->
     ir_matched r = scan cc (i_pats st) c /\
     (forall g, In g (i_pats st) -> sig_matches cc g c = true ->
        i_threshold (irun cc st ops) <= s_level g -> ir_allowed r = false)).
Proof. exact history_free_all. Qed.
Print Assumptions c10_scan_history_free.

(* Every filter call appends exactly its own result to the audit list and
   every other operation except clear_audit_log leaves the list untouched;
   there is no size cap.  Over a history without clear_audit_log the audit list
   is the old one followed by every decision in order. *)
Theorem c10_audit_appends_every_decision :
  (forall cfg st op,
     m_audit (fst (mstep cfg st op)) =
     match op, snd (mstep cfg st op) with
     | OClearAudit, _ => []
     | _, Some r => m_audit st ++ [r]
     | _, None => m_audit st
     end) /\
  (forall cfg st op r, snd (mstep cfg st op) = Some r ->
     exists c, op = OFilter c /\ mfilter cfg st c = (fst (mstep cfg st op), r)) /\
  (forall cfg ops st,
     forallb (fun op => negb (is_clear op)) ops = true ->
     m_audit (fst (mrun cfg st ops)) = m_audit st ++ snd (mrun cfg st ops)).
Proof. exact (conj m_audit_step (conj mstep_filter_only m_audit_history)). Qed.
Print Assumptions c10_audit_appends_every_decision.

(* "No structural validator rejects it", for the three SHIPPED validators, in
   terms of the input itself.  json.loads is an oracle [parse] (any function
   from contents to "this document" / "raised ValueError or RecursionError").
   (1) _measure_depth with its early return exceeds max_depth exactly when the
   nesting depth of the document does (for every max_depth, negative ones
   included); (2) JSONValidator accepts iff the content is no longer than
   max_size, parses, and is nested no deeper than max_depth - and otherwise
   rejects WITH a message (so check() counts it), it never raises;
   (3,4) the same for LengthValidator and CharacterSetValidator;
   (5) whatever else is in the validator list: an input check() allows satisfies
   the acceptance condition of every shipped validator in the list. *)
Theorem c10_shipped_validators_exact :
  (forall md t, (md <? measure_depth md t 0) = (md <? depth t)) /\
  (forall md mx parse c,
     (v_json md mx parse c = VRet true false \/ v_json md mx parse c = VRet false true) /\
     (v_json md mx parse c = VRet true false <->
      Z.of_nat (length c) <= mx /\ exists t, parse c = PTree t /\ depth t <= md)) /\
  (forall mn mx c,
     (v_length mn mx c = VRet true false \/ v_length mn mx c = VRet false true) /\
     (v_length mn mx c = VRet true false <-> mn <= Z.of_nat (length c) <= mx)) /\
  (forall ac an c,
     (v_charset ac an c = VRet true false \/ v_charset ac an c = VRet false true) /\
     (v_charset ac an c = VRet true false <->
      (an = true \/ forall x, In x c -> x <> 0) /\ (ac = true \/ forall x, In x c -> is_ctrl x = false))) /\
  (forall cc vals st c st' r, icheck cc vals st c = (st', IOk r) -> ir_allowed r = true ->
     (forall md mx parse, In (v_json md mx parse) vals ->
        Z.of_nat (length c) <= mx /\ exists t, parse c = PTree t /\ depth t <= md) /\
     (forall mn mx, In (v_length mn mx) vals -> mn <= Z.of_nat (length c) <= mx) /\
     (forall ac an, In (v_charset ac an) vals ->
        (an = true \/ forall x, In x c -> x <> 0) /\ (ac = true \/ forall x, In x c -> is_ctrl x = false))).
Proof. exact shipped_validators_all. Qed.
Print Assumptions c10_shipped_validators_exact.

(* Totality.  (1) The regex matcher decides the inductive matching relation
   for every regex and every string: in particular its Star fuel never runs out
   (the model has no OutOfFuel outcome to exclude).  (2) Membrane.filter has no
   raising outcome in the model: every call is one of the three result shapes.
   (3) InnateImmunity.check returns a result iff no validator raises: check()
   does not catch validator exceptions (the shipped validators never raise:
   harness, every run). *)
Theorem c10_total :
  (forall cc r s, search cc r s = true <-> matches cc r s) /\
  (forall cfg st c, exists st' r, mfilter cfg st c = (st', r) /\
     (r_kind r = Scanned \/ (r_allowed r = false /\ r_level r = critical /\ r_matched r = []))) /\
  (forall cc vals st c,
     (forall v, In v vals -> v c <> VRaises) <-> exists r, snd (icheck cc vals st c) = IOk r).
Proof. exact total_all. Qed.
Print Assumptions c10_total.
