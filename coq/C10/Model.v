(* C10 — model of operon_ai/organelles/membrane.py (class Membrane) and
   operon_ai/surveillance/innate.py (class InnateImmunity).
   Executable definitions only (no proofs).  Signature matching (substring and
   regex) is in Regex.v; the shipped signature tables are regenerated from the
   source into gen/Gen_C10.v and used by Run.v (run_case).

   Membrane
   --------
   Time is time.time() read through the module attribute [time]; the model
   counts in ticks of half a second (the harness's virtual clock only takes
   such values, for which `now - 60` is exact in binary64), so the 60 s window
   is [window] = 120 ticks.  filter() reads the clock twice or more but only the
   value read inside _check_rate_limit matters; the virtual clock does not
   move during a call.
   sha256(content)[:16] is [c_hash]: an arbitrary function in every theorem;
   run_case uses the content itself (the harness checks that the real hash is
   injective on the inputs of each case).
   _learned_patterns is a dict keyed by the pattern text: an association list
   in insertion order, [upsert] = d[k] = v.  _blocked_hashes is a set that
   only ever receives an element that is not yet in it (the replay check
   returns earlier), so it is a list without duplicates in insertion order.
   on_threat: a handler that returns is transparent; one that RAISES: [mfilter_h],
   [hrun] below (on_inflammation: [icheck_h]).  silent=True.
   rate_limit / enable_adaptive assigned on a live membrane: [lrun] below.
   Signatures are substrings, regexes of the AST of Regex.v, or HOST patterns
   (KHost f: constructs outside the AST such as back-references; the matcher is
   an arbitrary function of the content alone).  The scan consults every active
   signature on its own: [scan] is a filter, whatever else is installed.
   Long histories: [burst_ops] (a counted burst of filter calls on pairwise
   different inputs) is plain notation for a list of OFilter operations.

   InnateImmunity
   --------------
   Validators are arbitrary functions content -> verdict in every theorem; the
   three shipped ones are transcribed: v_length, v_charset and v_json
   (JSONValidator: size check, json.loads as an oracle, _measure_depth with its
   early return as written, against the nesting [depth] of the document). *)
From Coq Require Import String ZArith List Bool.
From Verif Require Import C10.Regex.
Import ListNotations.
Open Scope Z_scope.

Definition ticks_per_second : Z := 2.
Definition window : Z := 60 * ticks_per_second.
Definition critical : Z := 3.          (* ThreatLevel.CRITICAL.value *)

Fixpoint zl_eq (a b : list Z) : bool :=
  match a, b with
  | [], [] => true
  | x :: a', y :: b' => if x =? y then zl_eq a' b' else false
  | _, _ => false
  end.
Fixpoint hmem (h : list Z) (l : list (list Z)) : bool :=
  match l with [] => false | x :: r => if zl_eq x h then true else hmem h r end.

(* which branch of filter() produced a result *)
Inductive kind := RateLimited | Replay | Scanned.

(* FilterResult (+ ghost fields: branch, clock value of the call) *)
Record mresult := mkMR {
  r_kind : kind; r_allowed : bool; r_level : Z; r_matched : list sig;
  r_hash : list Z; r_time : Z }.

Record mconfig := mkMC {
  c_cc : charcls;
  c_hash : list Z -> list Z;
  c_rate : option Z;            (* rate_limit *)
  c_adaptive : bool }.          (* enable_adaptive *)

Record mstate := mkMS {
  m_sigs : list sig;            (* self.signatures: built-in + custom *)
  m_learned : list sig;         (* self._learned_patterns (values, dict order; key = s_key) *)
  m_blocked : list (list Z);    (* self._blocked_hashes *)
  m_times : list Z;             (* self._request_times *)
  m_audit : list mresult;       (* self._audit_log *)
  m_threshold : Z;              (* self.threshold.value *)
  m_clock : Z;                  (* the virtual clock *)
  m_filtered : Z;               (* _total_filtered *)
  m_nblocked : Z }.             (* _total_blocked *)

Definition minit (sigs : list sig) (threshold t0 : Z) : mstate :=
  mkMS sigs [] [] [] [] threshold t0 0 0.

(* the scan: every active signature that matches, in the code's order *)
Definition scan (cc : charcls) (sigs : list sig) (content : list Z) : list sig :=
  filter (fun g => sig_matches cc g content) sigs.
Definition max_level (matched : list sig) : Z :=
  fold_left (fun m g => Z.max m (s_level g)) matched 0.
Definition active (st : mstate) : list sig := m_sigs st ++ m_learned st.

(* _check_rate_limit: (limited?, new _request_times) *)
Definition rate_check (cfg : mconfig) (st : mstate) : bool * list Z :=
  match c_rate cfg with
  | None => (false, m_times st)
  | Some n =>
      let ts := filter (fun t => m_clock st - window <? t) (m_times st) in
      if n <=? Z.of_nat (length ts) then (true, ts) else (false, ts ++ [m_clock st])
  end.

Definition mfilter (cfg : mconfig) (st : mstate) (content : list Z) : mstate * mresult :=
  let h := c_hash cfg content in
  let now := m_clock st in
  let '(limited, ts) := rate_check cfg st in
  if limited then
    let r := mkMR RateLimited false critical [] h now in
    (mkMS (m_sigs st) (m_learned st) (m_blocked st) ts (m_audit st ++ [r]) (m_threshold st)
          (m_clock st) (m_filtered st + 1) (m_nblocked st + 1), r)
  else if hmem h (m_blocked st) then
    let r := mkMR Replay false critical [] h now in
    (mkMS (m_sigs st) (m_learned st) (m_blocked st) ts (m_audit st ++ [r]) (m_threshold st)
          (m_clock st) (m_filtered st + 1) (m_nblocked st + 1), r)
  else
    let matched := scan (c_cc cfg) (active st) content in
    let lvl := max_level matched in
    let allowed := lvl <? m_threshold st in
    let r := mkMR Scanned allowed lvl matched h now in
    (mkMS (m_sigs st) (m_learned st)
          (if allowed then m_blocked st else m_blocked st ++ [h])
          ts (m_audit st ++ [r]) (m_threshold st) (m_clock st) (m_filtered st + 1)
          (if allowed then m_nblocked st else m_nblocked st + 1), r).

(* d[key] = sig : replace in place or append *)
Fixpoint upsert (l : list sig) (g : sig) : list sig :=
  match l with
  | [] => [g]
  | x :: r => if zl_eq (s_key x) (s_key g) then g :: r else x :: upsert r g
  end.
Definition forget (l : list sig) (k : list Z) : list sig :=
  filter (fun x => negb (zl_eq (s_key x) k)) l.

Inductive mop :=
  | OFilter (content : list Z)
  | OLearn (g : sig)               (* learn_threat (no effect unless enable_adaptive) *)
  | OForget (k : list Z)           (* forget_threat *)
  | OImport (l : list sig)         (* import_antibodies (ignores enable_adaptive) *)
  | OAddSig (g : sig)              (* add_signature *)
  | OSetThreshold (t : Z)          (* set_threshold *)
  | OTick (d : Z)                  (* the clock advances by d ticks *)
  | OClearAudit.                   (* clear_audit_log *)

Definition set_learned (st : mstate) (l : list sig) : mstate :=
  mkMS (m_sigs st) l (m_blocked st) (m_times st) (m_audit st) (m_threshold st) (m_clock st)
       (m_filtered st) (m_nblocked st).

Definition mstep (cfg : mconfig) (st : mstate) (op : mop) : mstate * option mresult :=
  match op with
  | OFilter c => let '(st', r) := mfilter cfg st c in (st', Some r)
  | OLearn g => (if c_adaptive cfg then set_learned st (upsert (m_learned st) g) else st, None)
  | OForget k => (set_learned st (forget (m_learned st) k), None)
  | OImport l => (set_learned st (fold_left upsert l (m_learned st)), None)
  | OAddSig g =>
      (mkMS (m_sigs st ++ [g]) (m_learned st) (m_blocked st) (m_times st) (m_audit st)
            (m_threshold st) (m_clock st) (m_filtered st) (m_nblocked st), None)
  | OSetThreshold t =>
      (mkMS (m_sigs st) (m_learned st) (m_blocked st) (m_times st) (m_audit st) t (m_clock st)
            (m_filtered st) (m_nblocked st), None)
  | OTick d =>
      (mkMS (m_sigs st) (m_learned st) (m_blocked st) (m_times st) (m_audit st) (m_threshold st)
            (m_clock st + d) (m_filtered st) (m_nblocked st), None)
  | OClearAudit =>
      (mkMS (m_sigs st) (m_learned st) (m_blocked st) (m_times st) [] (m_threshold st) (m_clock st)
            (m_filtered st) (m_nblocked st), None)
  end.

(* a history: final state and the result of every filter call, in order *)
Fixpoint mrun (cfg : mconfig) (st : mstate) (ops : list mop) : mstate * list mresult :=
  match ops with
  | [] => (st, [])
  | op :: rest =>
      let '(st1, o) := mstep cfg st op in
      let '(st2, rs) := mrun cfg st1 rest in
      (st2, match o with Some r => r :: rs | None => rs end)
  end.

(* ---- counted bursts: a compact notation for LONG histories ---------------- *)

(* A campaign of [count] filter calls on the pairwise different inputs
   pre ++ decimal(start + k) ++ post, k = 0 .. count-1.  It is notation only:
   [burst_ops] is an ordinary list of OFilter operations, so every theorem
   about mrun speaks about histories with bursts (of any length) as well.
   [dec] prints a non-negative number in decimal (at most 40 digits: enough
   for every number below 10^40; the correspondence cases stay far below). *)
Fixpoint digits_fuel (fuel : nat) (n : Z) (acc : list Z) : list Z :=
  match fuel with
  | O => acc
  | S f => let acc' := (48 + n mod 10) :: acc in
           if n <? 10 then acc' else digits_fuel f (n / 10) acc'
  end.
Definition dec (n : Z) : list Z := digits_fuel 40 n [].

Definition burst_contents (pre post : list Z) (start : Z) (count : nat) : list (list Z) :=
  map (fun k => pre ++ dec (start + Z.of_nat k) ++ post) (seq 0 count).
Definition burst_ops (pre post : list Z) (start : Z) (count : nat) : list mop :=
  map OFilter (burst_contents pre post start count).

(* scan-blocked decisions: the ones that enter the replay memory *)
Definition scan_blocked (r : mresult) : bool :=
  match r_kind r with Scanned => negb (r_allowed r) | _ => false end.

(* Does the operation address the cell of _learned_patterns whose key is the
   pattern text k?  The dict is keyed by the text as written: a learn / import
   of a signature with exactly that text overwrites the cell, forget_threat of
   exactly that text deletes it; a text that differs in any way (letter case,
   the case of a regex escape class such as \s / \S, surrounding blanks) is
   another cell.  learn_threat does nothing unless enable_adaptive. *)
Definition names_key (cfg : mconfig) (k : list Z) (op : mop) : bool :=
  match op with
  | OLearn g => c_adaptive cfg && zl_eq (s_key g) k
  | OForget k' => zl_eq k' k
  | OImport l => existsb (fun g => zl_eq (s_key g) k) l
  | _ => false
  end.

(* ---- live reconfiguration: configuration attributes assigned between requests ----

   rate_limit and enable_adaptive are plain public attributes of a Membrane (as
   is threshold, whose assignment is what set_threshold does: OSetThreshold).
   Nothing in the class copies them at construction: _check_rate_limit reads
   self.rate_limit and learn_threat reads self.enable_adaptive at every call.
   So an assignment on a LIVE membrane is an operation of a history: it
   replaces the corresponding field of the configuration and leaves the state
   (request times, replay memory, audit trail, learned signatures ...) alone.
   [lrun] is a history of ordinary operations and such assignments; every
   decision is returned together with the rate_limit in force at that call.
   A history without assignments is an mrun (Proofs.v: lrun_plain). *)
Inductive lop :=
  | LOp (op : mop)
  | LSetRate (r : option Z)            (* m.rate_limit = r *)
  | LSetAdaptive (b : bool).           (* m.enable_adaptive = b *)

Definition set_rate (cfg : mconfig) (r : option Z) : mconfig :=
  mkMC (c_cc cfg) (c_hash cfg) r (c_adaptive cfg).
Definition set_adaptive (cfg : mconfig) (b : bool) : mconfig :=
  mkMC (c_cc cfg) (c_hash cfg) (c_rate cfg) b.

Definition lstep (cfg : mconfig) (st : mstate) (o : lop) : mconfig * mstate * option mresult :=
  match o with
  | LOp op => let '(st', r) := mstep cfg st op in (cfg, st', r)
  | LSetRate r => (set_rate cfg r, st, None)
  | LSetAdaptive b => (set_adaptive cfg b, st, None)
  end.

(* a decision of a live history: the rate_limit in force at the call, the result *)
Definition levent := (option Z * mresult)%type.

Fixpoint lrun (cfg : mconfig) (st : mstate) (ops : list lop) : mconfig * mstate * list levent :=
  match ops with
  | [] => (cfg, st, [])
  | o :: rest =>
      let '(cfg1, st1, r) := lstep cfg st o in
      let '(cfg2, st2, es) := lrun cfg1 st1 rest in
      (cfg2, st2, match r with Some x => (c_rate cfg, x) :: es | None => es end)
  end.

(* the decisions that count against a limit: made while rate_limit was a
   number, and not refused by the rate check (with rate_limit = None the
   limiter is off: the request is neither counted nor limited) *)
Definition counted (e : levent) : bool :=
  match fst e with
  | Some _ => match r_kind (snd e) with RateLimited => false | _ => true end
  | None => false
  end.
Definition ladmitted (es : list levent) : list Z := map (fun e => r_time (snd e)) (filter counted es).

(* number of the time stamps of l later than t - 60 s: with a monotone clock
   and l the stamps up to a call at time t, the ones in the window (t - 60 s, t] *)
Definition trailing (t : Z) (l : list Z) : Z :=
  Z.of_nat (length (filter (fun u => t - window <? u) l)).

(* ---- callbacks that raise -----------------------------------------------------

   on_threat is a plain public attribute (given to the constructor or assigned
   on the live membrane).  filter() calls it as the LAST thing it does for a
   decision that a scan blocked: by then the decision is in the audit trail,
   _total_blocked is counted and the content hash is in the replay memory.
   Nothing in filter() catches what the handler raises (an Exception or a
   BaseException such as KeyboardInterrupt): it propagates to the caller of
   filter(), who may handle it and go on using the membrane.  The rate-limited
   and replay branches never call the handler.
   A [handler] says whether on_threat(result) raises; no handler installed, or a
   handler that returns: [no_handler].  What a handler does may differ from
   call to call (a flaky alert sink), so a history pairs every operation with
   the handler in force at that moment ([hrun]).  The state transition is that
   of [mfilter] whatever the handler does: this is what makes "keeps blocking
   an input it has blocked before" survive a failing handler. *)
Definition handler := mresult -> bool.
Definition no_handler : handler := fun _ => false.

(* what the caller of filter() gets: the result, or the handler's exception
   (r = the decision that was made and audited before the handler ran) *)
Inductive fout := FReturned (r : mresult) | FHandlerRaised (r : mresult).
Definition fout_result (o : fout) : mresult := match o with FReturned r | FHandlerRaised r => r end.
Definition fout_raised (o : fout) : bool := match o with FReturned _ => false | FHandlerRaised _ => true end.

Definition mfilter_h (h : handler) (cfg : mconfig) (st : mstate) (content : list Z) : mstate * fout :=
  let '(st', r) := mfilter cfg st content in
  (st', if scan_blocked r && h r then FHandlerRaised r else FReturned r).

Definition hevent := (option Z * fout)%type.

Definition hstep (cfg : mconfig) (st : mstate) (o : lop) (h : handler) : mconfig * mstate * option fout :=
  match o with
  | LOp (OFilter c) => let '(st', out) := mfilter_h h cfg st c in (cfg, st', Some out)
  | _ => let '(cfg', st', _) := lstep cfg st o in (cfg', st', None)
  end.

Fixpoint hrun (cfg : mconfig) (st : mstate) (ops : list (lop * handler)) : mconfig * mstate * list hevent :=
  match ops with
  | [] => (cfg, st, [])
  | (o, h) :: rest =>
      let '(cfg1, st1, r) := hstep cfg st o h in
      let '(cfg2, st2, es) := hrun cfg1 st1 rest in
      (cfg2, st2, match r with Some x => (c_rate cfg, x) :: es | None => es end)
  end.

(* the live history a caller who ignores the handler's exceptions has performed *)
Definition forget_handler (e : hevent) : levent := (fst e, fout_result (snd e)).

(* operations that change no rule (signatures, learned patterns): what was
   submitted before leaves no trace in what a later scan matches *)
Definition keeps_rules (op : mop) : bool :=
  match op with OFilter _ | OTick _ | OClearAudit | OSetThreshold _ => true | _ => false end.

(* ---- a colony: several membranes, antibody transfer ------------------------ *)

(* Each Membrane object owns its state; export_antibodies() returns the values
   of _learned_patterns (dict order) and import_antibodies() stores them under
   their pattern text.  ThreatSignature objects are never mutated by the code,
   so passing the very objects between membranes is passing VALUES: nothing
   one membrane does later can change what another one holds.  (That is what
   c10_membranes_isolated states; the harness passes the real objects and its
   monitor keeps per-membrane values of its own, so aliasing would show.)
   All membranes read the same clock: STickAll. *)
Record member := mkMember { mb_cfg : mconfig; mb_st : mstate }.
Definition msys := list member.

Fixpoint upd {A : Type} (l : list A) (i : nat) (x : A) : list A :=
  match l, i with
  | [], _ => []
  | _ :: r, O => x :: r
  | y :: r, S k => y :: upd r k x
  end.

Inductive sop :=
  | SOp (i : nat) (op : mop)          (* an operation addressed to membrane i *)
  | STransfer (src dst : nat)         (* dst.import_antibodies(src.export_antibodies()) *)
  | STickAll (d : Z).                 (* the shared clock advances *)

Definition member_step (m : member) (op : mop) : member * option mresult :=
  let '(st', r) := mstep (mb_cfg m) (mb_st m) op in (mkMember (mb_cfg m) st', r).

Definition sys_step (sys : msys) (o : sop) : msys * option (nat * mresult) :=
  match o with
  | SOp i op =>
      match nth_error sys i with
      | None => (sys, None)
      | Some m => let '(m', r) := member_step m op in
                  (upd sys i m', match r with Some x => Some (i, x) | None => None end)
      end
  | STransfer s d =>
      match nth_error sys s, nth_error sys d with
      | Some ms, Some md => (upd sys d (fst (member_step md (OImport (m_learned (mb_st ms))))), None)
      | _, _ => (sys, None)
      end
  | STickAll dlt => (map (fun m => fst (member_step m (OTick dlt))) sys, None)
  end.

Fixpoint sys_run (sys : msys) (ops : list sop) : msys * list (nat * mresult) :=
  match ops with
  | [] => (sys, [])
  | o :: rest =>
      let '(s1, r) := sys_step sys o in
      let '(s2, rs) := sys_run s1 rest in
      (s2, match r with Some x => x :: rs | None => rs end)
  end.

(* does the operation act on (or move the clock of) membrane j? *)
Definition touches (j : nat) (o : sop) : bool :=
  match o with
  | SOp i _ => Nat.eqb i j
  | STransfer _ d => Nat.eqb d j
  | STickAll _ => true
  end.
(* an operation whose effect on membrane j depends on membrane j alone *)
Definition local_to (j : nat) (o : sop) : bool :=
  match o with
  | SOp i _ => Nat.eqb i j
  | STransfer _ _ => false
  | STickAll _ => true
  end.

(* ---------------------------------------------------------------------- *)
(* InnateImmunity                                                          *)
(* ---------------------------------------------------------------------- *)

(* validator.validate(content): returns (valid, error) or raises.  Only the
   truthiness of `error` matters to check(): `if not valid and error:`. *)
Inductive verdict := VRet (valid : bool) (err_truthy : bool) | VRaises.
Definition validator := list Z -> verdict.

Definition acute : Z := 4.             (* InflammationLevel.ACUTE *)

Record istate := mkIS {
  i_pats : list sig;                   (* self.patterns; s_level = severity *)
  i_threshold : Z;                     (* severity_threshold *)
  i_decay : Z;                         (* inflammation_decay, in clock ticks (seconds) *)
  i_clock : Z;                         (* datetime.now(), seconds *)
  i_level : Z;                         (* inflammation_state.level *)
  i_cooldown : option Z;               (* inflammation_state.cooldown_until *)
  i_triggers : Z;                      (* inflammation_state.trigger_count *)
  i_checks : Z;                        (* _check_count *)
  i_blocks : Z }.                      (* _block_count *)

Definition iinit (pats : list sig) (threshold decay t0 : Z) : istate :=
  mkIS pats threshold decay t0 0 None 0 0 0.

Record iresult := mkIR {
  ir_allowed : bool; ir_matched : list sig; ir_errors : Z;
  ir_level : Z;                        (* result.inflammation.level *)
  ir_maxsev : Z }.                     (* ghost: max_severity *)

Inductive iout := IRaised | IOk (r : iresult).

(* Phase 2: number of counted structural errors, None when a validator raised
   (the exception propagates out of check(): nothing catches it) *)
Fixpoint run_validators (vals : list validator) (content : list Z) : option Z :=
  match vals with
  | [] => Some 0
  | v :: rest =>
      match v content with
      | VRaises => None
      | VRet valid e =>
          match run_validators rest content with
          | None => None
          | Some n => Some (if negb valid && e then n + 1 else n)
          end
      end
  end.

Definition sum_levels (l : list sig) : Z := fold_left (fun a g => a + s_level g) l 0.

Definition in_cooldown (st : istate) : bool :=
  match i_cooldown st with None => false | Some u => i_clock st <? u end.

Definition inflammation (st : istate) (matched : list sig) (nerr maxsev : Z) : Z :=
  let total := sum_levels matched + nerr * 2 in
  let count := Z.of_nat (length matched) + nerr in
  if (10 <=? total) || (5 <=? maxsev) then 4
  else if (6 <=? total) || (4 <=? maxsev) then 3
  else if (3 <=? total) || (2 <=? count) then 2
  else if 1 <=? count then 1
  else if in_cooldown st then 1 else 0.

Definition icheck (cc : charcls) (vals : list validator) (st : istate) (content : list Z)
  : istate * iout :=
  let matched := scan cc (i_pats st) content in
  let maxsev := max_level matched in
  match run_validators vals content with
  | None =>
      (mkIS (i_pats st) (i_threshold st) (i_decay st) (i_clock st) (i_level st) (i_cooldown st)
            (i_triggers st) (i_checks st + 1) (i_blocks st), IRaised)
  | Some nerr =>
      let lvl := inflammation st matched nerr maxsev in
      let allowed := (maxsev <? i_threshold st) && (nerr =? 0) && (lvl <? acute) in
      let fired := 0 <? lvl in
      (mkIS (i_pats st) (i_threshold st) (i_decay st) (i_clock st)
            (if fired then lvl else i_level st)
            (if fired then Some (i_clock st + i_decay st) else i_cooldown st)
            (if fired then i_triggers st + 1 else i_triggers st)
            (i_checks st + 1)
            (if allowed then i_blocks st else i_blocks st + 1),
       IOk (mkIR allowed matched nerr lvl maxsev))
  end.

Inductive iop :=
  | ICheck (content : list Z)
  | ITick (d : Z)
  | IAddPattern (g : sig)
  | IReset                             (* reset_inflammation *)
  | ISetThreshold (t : Z).             (* im.severity_threshold = t on the live object (a plain attribute,
                                          read by check() at every call) *)

Definition istep (cc : charcls) (vals : list validator) (st : istate) (op : iop)
  : istate * option iout :=
  match op with
  | ICheck c => let '(st', o) := icheck cc vals st c in (st', Some o)
  | ITick d =>
      (mkIS (i_pats st) (i_threshold st) (i_decay st) (i_clock st + d) (i_level st) (i_cooldown st)
            (i_triggers st) (i_checks st) (i_blocks st), None)
  | IAddPattern g =>
      (mkIS (i_pats st ++ [g]) (i_threshold st) (i_decay st) (i_clock st) (i_level st) (i_cooldown st)
            (i_triggers st) (i_checks st) (i_blocks st), None)
  | IReset =>
      (mkIS (i_pats st) (i_threshold st) (i_decay st) (i_clock st) 0 None 0 (i_checks st) (i_blocks st),
       None)
  | ISetThreshold t =>
      (mkIS (i_pats st) t (i_decay st) (i_clock st) (i_level st) (i_cooldown st)
            (i_triggers st) (i_checks st) (i_blocks st), None)
  end.

(* a history of innate operations; each one comes with the validator list in
   force at that moment (add_validator = the list grows between operations) *)
Fixpoint irun (cc : charcls) (st : istate) (ops : list (list validator * iop)) : istate :=
  match ops with
  | [] => st
  | (vals, op) :: rest => irun cc (fst (istep cc vals st op)) rest
  end.

(* on_inflammation: a plain attribute; _evaluate_inflammation calls it, when the
   new level is above NONE, AFTER the inflammation state has been updated and
   BEFORE check() counts the block and builds its result.  Nothing catches
   what it raises: check() then raises out to the caller with _check_count
   and the inflammation state updated and _block_count not.  [ihandler]: does
   on_inflammation(response) raise, given the level of the response. *)
Definition ihandler := Z -> bool.
Inductive cout := CPlain (o : iout) | CHandlerRaised (lvl : Z).

Definition icheck_h (h : ihandler) (cc : charcls) (vals : list validator) (st : istate) (content : list Z)
  : istate * cout :=
  let '(st', o) := icheck cc vals st content in
  match o with
  | IRaised => (st', CPlain o)
  | IOk r =>
      if (0 <? ir_level r) && h (ir_level r) then
        (mkIS (i_pats st') (i_threshold st') (i_decay st') (i_clock st') (i_level st') (i_cooldown st')
              (i_triggers st') (i_checks st') (i_blocks st), CHandlerRaised (ir_level r))
      else (st', CPlain o)
  end.

(* operations that install no pattern *)
Definition keeps_patterns (op : iop) : bool := match op with IAddPattern _ => false | _ => true end.

(* ---- the shipped validators that are simple enough to transcribe ------- *)

(* LengthValidator(min_length, max_length) *)
Definition v_length (mn mx : Z) : validator := fun c =>
  let n := Z.of_nat (length c) in
  if n <? mn then VRet false true else if mx <? n then VRet false true else VRet true false.

(* CharacterSetValidator(allow_control_chars, allow_null) *)
Definition is_ctrl (x : Z) : bool :=
  (x <? 32) && negb ((x =? 9) || (x =? 10) || (x =? 13)).
Definition v_charset (allow_ctrl allow_null : bool) : validator := fun c =>
  if negb allow_null && existsb (fun x => x =? 0) c then VRet false true
  else if negb allow_ctrl && existsb is_ctrl c then VRet false true
  else VRet true false.

(* JSONValidator(max_depth, max_size).  json.loads is a trusted host library:
   an oracle [parse] that either returns the parsed document or raises one of
   the two exception classes validate() catches (ValueError, of which
   JSONDecodeError is a subclass, and RecursionError) = [PFails].  Of the parsed
   document only its container structure matters: [JArr] the items of a list,
   [JObj] the VALUES of a dict (keys are strings: never containers), [JAtom]
   everything else (str, int, float, bool, None).
   [measure_depth] is _measure_depth as written: early return once `current`
   exceeds max_depth, an empty container counts one level, otherwise max() over
   the (non-empty) generator of the children's measures.  [depth] is the
   nesting depth the validator is documented to bound. *)
Inductive json := JAtom | JArr (items : list json) | JObj (values : list json).
Inductive parsed := PTree (t : json) | PFails.

Definition zmax_list (l : list Z) : Z := fold_right Z.max 0 l.
Fixpoint depth (t : json) : Z :=
  match t with
  | JAtom => 0
  | JArr l | JObj l => 1 + zmax_list (map depth l)
  end.

(* Python's max() of a non-empty sequence *)
Definition max_ne (x : Z) (xs : list Z) : Z := fold_left Z.max xs x.

Fixpoint measure_depth (md : Z) (t : json) (cur : Z) {struct t} : Z :=
  if md <? cur then cur
  else match t with
       | JAtom => cur
       | JArr l | JObj l =>
           match map (fun v => measure_depth md v (cur + 1)) l with
           | [] => cur + 1
           | x :: xs => max_ne x xs
           end
       end.

Definition v_json (md mx : Z) (parse : list Z -> parsed) : validator := fun c =>
  if mx <? Z.of_nat (length c) then VRet false true
  else match parse c with
       | PFails => VRet false true
       | PTree t => if md <? measure_depth md t 0 then VRet false true else VRet true false
       end.

(* ---- pre-repair behaviour (documentation / refutation only) ------------- *)

(* Before 6201060 filter() computed sha256(content.encode()) with the strict
   error handler as its first statement: UnicodeEncodeError for any content
   with a lone surrogate, before any state change.  None = raised. *)
Definition is_surrogate (x : Z) : bool := (55296 <=? x) && (x <=? 57343).
Definition mfilter_legacy (cfg : mconfig) (st : mstate) (content : list Z)
  : option (mstate * mresult) :=
  if existsb is_surrogate content then None else Some (mfilter cfg st content).
