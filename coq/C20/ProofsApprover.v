(* C20 — approvers that raise or call back into the genome, and the clock.
   Lemmas about Model.g_mutate_x / g_step_x / xstep / xrun / trun. *)
From Coq Require Import ZArith List Bool Lia.
From Verif Require Import C20.Model C20.Proofs.
Import ListNotations.
Open Scope Z_scope.

(* ---- what the approver does is acted out only when the gate asks it ---- *)

Lemma act_of_consulted : forall beh G n v r,
  act_of beh G n v r <> XNone ->
  exists e, lookup (tbl G) n = Some e /\ allow G = false /\ cb G <> None /\
            act_of beh G n v r = beh n (value e) v r.
Proof.
  intros beh G n v r H. unfold act_of, consulted in *.
  destruct (lookup (tbl G) n) as [e|]; [|congruence].
  destruct (allow G); [congruence|]. destruct (cb G); [|congruence].
  exists e. repeat split; try congruence. destruct r; congruence.
Qed.

Lemma act_of_enabled : forall beh G n v r, allow G = true -> act_of beh G n v r = XNone.
Proof. intros beh G n v r H. unfold act_of, consulted. destruct (lookup (tbl G) n); [now rewrite H | reflexivity]. Qed.

Lemma mutate_x_quiet : forall beh G n v r,
  act_of beh G n v r = XNone ->
  g_mutate_x beh G n v r = (fst (g_mutate G n v r), Ret (snd (g_mutate G n v r))).
Proof. intros beh G n v r H. unfold g_mutate_x. rewrite H. now destruct (g_mutate G n v r). Qed.

(* an approver that raises: the exception leaves mutate, nothing was logged, nothing was written *)
Lemma mutate_x_raise : forall beh G n v r k,
  act_of beh G n v r = XRaise k -> g_mutate_x beh G n v r = (G, Raised k).
Proof. intros beh G n v r k H. unfold g_mutate_x. now rewrite H. Qed.

Lemma g_mutate_finish : forall G1 e n v r,
  lookup (tbl G1) n = Some e ->
  g_mutate G1 n v r =
  (finish_mutate G1 e (approved_by G1 n (value e) v r) n v r, approved_by G1 n (value e) v r).
Proof.
  intros G1 e n v r L. unfold g_mutate, finish_mutate. rewrite L.
  destruct (approved_by G1 n (value e) v r); reflexivity.
Qed.

Lemma mutate_meta : forall G n v r, same_meta G (fst (g_mutate G n v r)).
Proof. intros. apply (fr_meta _ _ (mutate_frame G n v r)). Qed.

(* an approver that first calls mutate(n', v') on another gene (or whose own
   call is refused) and then answers: the two calls one after the other *)
Lemma mutate_x_call_seq : forall beh G n v r n' v',
  act_of beh G n v r = XCall n' v' ->
  n' <> n \/ snd (g_mutate G n' v' RUser) = false ->
  g_mutate_x beh G n v r =
  (fst (g_mutate (fst (g_mutate G n' v' RUser)) n v r),
   RetN (snd (g_mutate (fst (g_mutate G n' v' RUser)) n v r)) (snd (g_mutate G n' v' RUser))).
Proof.
  intros beh G n v r n' v' H Hd.
  destruct (act_of_consulted beh G n v r) as (e & L & _); [congruence|].
  unfold g_mutate_x. rewrite H, L.
  assert (L1 : lookup (tbl (fst (g_mutate G n' v' RUser))) n = Some e).
  { destruct Hd as [Hn|Hf].
    - now rewrite mutate_lookup_other.
    - destruct (g_mutate G n' v' RUser) as [G1 nb] eqn:E. cbn [snd] in Hf. subst nb. cbn [fst].
      destruct (mutate_false _ _ _ _ _ E) as [(_ & ->)|(old & _ & _ & ->)]; exact L. }
  destruct (mutate_meta G n' v' RUser) as (Ma & Mc & _).
  destruct (g_mutate G n' v' RUser) as [G1 nb] eqn:E. cbn [fst snd] in *.
  rewrite (g_mutate_finish G1 e n v r L1). cbn [fst snd].
  now rewrite (approved_by_meta G1 G n (value e) v r Ma Mc).
Qed.

(* ---- the replay invariant without [origs] ---------------------------------
   (an approver that changes the very gene it is being asked about makes the
   outer entry record the value the gene had when the outer call was made, not
   the one its own call left: [origs] is not an invariant of such histories;
   everything else of gchain is) *)
Record xchain (P : option oracle -> Prop) (G G' : genome) (l : list mrec) : Prop := mkXChain {
  xc_allow : allow G' = false;
  xc_cb : P (cb G');
  xc_log : mlog G' = mlog G ++ l;
  xc_ok : Forall (entry_ok_in P) l;
  xc_val : forall n v, stored G n = Some v -> stored G' n = Some (replay l n v) }.

Lemma gchain_xchain : forall P G G' l, gchain P G G' l -> xchain P G G' l.
Proof. intros P G G' l [A C L O V]. constructor; auto. intros n v H. now destruct (V n v H). Qed.

Lemma xchain_refl : forall (P : option oracle -> Prop) G, allow G = false -> P (cb G) -> xchain P G G [].
Proof. intros. apply gchain_xchain. now apply gchain_refl. Qed.

Lemma xchain_trans : forall P A B C l1 l2,
  xchain P A B l1 -> xchain P B C l2 -> xchain P A C (l1 ++ l2).
Proof.
  intros P A B C l1 l2 [A1 P1 L1 O1 V1] [A2 P2 L2 O2 V2]. constructor; auto.
  - rewrite L2, L1. now rewrite app_assoc.
  - apply Forall_app. auto.
  - intros n v H. rewrite replay_app. apply V2. now apply V1.
Qed.

Lemma mutate_xchain : forall (P : option oracle -> Prop) G n v r,
  allow G = false -> P (cb G) -> exists l, xchain P G (fst (g_mutate G n v r)) l.
Proof.
  intros P G n v r Hal Hp. destruct (mutate_chain G n v r Hal) as (l & C).
  exists l. apply gchain_xchain. now apply chainrel_gchain.
Qed.

(* the part of mutate after the gate, whatever the callback did to the table meanwhile *)
Lemma finish_xchain : forall (P : option oracle -> Prop) G G1 e ok n v r,
  allow G = false -> allow G1 = false -> cb G1 = cb G -> P (cb G) ->
  key e = n -> stored G1 n <> None ->
  ok = approved_by G n (value e) v r ->
  xchain P G1 (finish_mutate G1 e ok n v r) [mkM n (value e) v r ok].
Proof.
  intros P G G1 e ok n v r Hal Hal1 Hcb Hp K S Hok. unfold finish_mutate.
  destruct ok.
  - constructor; cbn [add_log set_tbl allow cb mlog tbl]; auto; try congruence.
    + constructor; [|constructor]. intros _. exists (cb G). split; [assumption|].
      symmetry in Hok. rewrite (approved_by_gate G n (value e) v r true) in Hok.
      unfold gate in Hok. now rewrite Hal in Hok.
    + intros k x Hk. unfold stored in *. cbn [add_log set_tbl tbl].
      unfold replay, upd; cbn [fold_left m_approved m_gene m_new andb].
      destruct (n =? k) eqn:E.
      * apply Z.eqb_eq in E; subst k.
        assert (K' : key (mkEntry (with_value (e_gene e) v) (e_level e)) = n) by exact K.
        rewrite <- K' at 1. rewrite lookup_put_same. reflexivity.
      * apply Z.eqb_neq in E. rewrite lookup_put_other; [exact Hk|]. exact (fun H => E (eq_trans (eq_sym K) H)).
  - constructor; cbn [add_log allow cb mlog tbl]; auto; try congruence.
    constructor; [|constructor]. intros H; discriminate.
Qed.

Lemma mutate_x_xchain : forall (P : option oracle -> Prop) beh G n v r,
  allow G = false -> P (cb G) -> exists l, xchain P G (fst (g_mutate_x beh G n v r)) l.
Proof.
  intros P beh G n v r Hal Hp. destruct (act_of beh G n v r) as [|k|n' v'] eqn:A.
  - rewrite (mutate_x_quiet _ _ _ _ _ A). cbn [fst]. now apply mutate_xchain.
  - rewrite (mutate_x_raise _ _ _ _ _ _ A). cbn [fst]. exists []. now apply xchain_refl.
  - destruct (act_of_consulted beh G n v r) as (e & L & _); [congruence|].
    unfold g_mutate_x. rewrite A, L.
    destruct (mutate_xchain P G n' v' RUser Hal Hp) as (l1 & C1).
    destruct (mutate_meta G n' v' RUser) as (Ma & Mc & _).
    destruct (g_mutate G n' v' RUser) as [G1 nb]. cbn [fst] in *.
    exists (l1 ++ [mkM n (value e) v r (approved_by G n (value e) v r)]).
    eapply xchain_trans; [exact C1|].
    apply finish_xchain with (G := G); auto; try congruence.
    + now apply lookup_key in L.
    + assert (S : stored G n = Some (value e)) by (unfold stored; now rewrite L).
      rewrite (xc_val _ _ _ _ C1 n _ S). discriminate.
Qed.

Lemma step_x_plain : forall beh G o, gated o = false -> g_step_x beh G o = (fst (g_step G o), Ret (snd (g_step G o))).
Proof.
  intros beh G o H. destruct o; try discriminate; cbn [g_step_x]; destruct (g_step G _); reflexivity.
Qed.

Lemma step_x_xchain : forall (P : option oracle -> Prop) beh G o,
  is_config o = false -> allow G = false -> P (cb G) ->
  exists l, xchain P G (fst (g_step_x beh G o)) l.
Proof.
  intros P beh G o Hc Hal Hp. destruct (gated o) eqn:Eg.
  - destruct o; try discriminate; cbn [g_step_x].
    + now apply mutate_x_xchain.
    + unfold g_rollback_x. destruct (last_approved (mlog G) n).
      * now apply mutate_x_xchain.
      * exists []. now apply xchain_refl.
  - rewrite (step_x_plain beh G o Eg). cbn [fst].
    destruct (step_chain G o Hc Hal) as (l & C).
    exists l. apply gchain_xchain. now apply chainrel_gchain.
Qed.

Lemma g_run_x_cons : forall beh G o ops, g_run_x beh G (o :: ops) = g_run_x beh (fst (g_step_x beh G o)) ops.
Proof. reflexivity. Qed.

Lemma step_x_config : forall beh G o, is_config o = true -> fst (g_step_x beh G o) = fst (g_step G o).
Proof. intros beh G o H. rewrite step_x_plain; [reflexivity|]. destruct o; try discriminate; reflexivity. Qed.

Lemma run_x_xchain : forall (P : option oracle -> Prop) beh ops G,
  allow G = false -> P (cb G) -> never_enabled ops -> (forall c, In (OSetCb c) ops -> P c) ->
  exists l, xchain P G (g_run_x beh G ops) l.
Proof.
  intros P beh. induction ops as [|o ops IH]; intros G Hal Hp Hne Hcb.
  - exists []. now apply xchain_refl.
  - assert (Hne' : never_enabled ops) by (intros x Hx; apply Hne; now right).
    assert (Hcb' : forall c, In (OSetCb c) ops -> P c) by (intros c Hc; apply Hcb; now right).
    assert (C1 : exists l1, xchain P G (fst (g_step_x beh G o)) l1).
    { destruct (is_config o) eqn:Ec.
      - rewrite (step_x_config beh G o Ec).
        destruct (run_gchain P [o] G Hal Hp) as (l1 & C).
        + intros x [<-|[]]. apply Hne. now left.
        + intros c [E|[]]. apply Hcb. left. exact E.
        + exists l1. apply gchain_xchain. exact C.
      - now apply step_x_xchain. }
    destruct C1 as (l1 & C1).
    destruct (IH _ (xc_allow _ _ _ _ C1) (xc_cb _ _ _ _ C1) Hne' Hcb') as (l2 & C2).
    exists (l1 ++ l2). rewrite g_run_x_cons. eapply xchain_trans; eauto.
Qed.

(* ---- the lineage ---------------------------------------------------------- *)

Lemma xstep_world : forall beh W i o G,
  nth_error W i = Some G ->
  fst (xstep beh W (i, o)) = set_nth W i (fst (g_step_x beh G o)) ++ born G o.
Proof.
  intros beh W i o G H. unfold xstep. rewrite H.
  destruct (gated o) eqn:Eg.
  - destruct (g_step_x beh G o) as [G' x]. cbn [fst].
    destruct o; try discriminate; cbn [born]; now rewrite app_nil_r.
  - pose proof (step_world W i o G H) as S. destruct (step W (i, o)) as [W' r]. cbn [fst] in *.
    rewrite S. destruct o; try discriminate; cbn [g_step_x]; try reflexivity;
      destruct (g_step G _); reflexivity.
Qed.

Lemma xstep_bad : forall beh W i o, nth_error W i = None -> xstep beh W (i, o) = (W, XO RetBadTarget).
Proof. intros beh W i o H. unfold xstep. now rewrite H. Qed.

Lemma xstep_target : forall beh W i o G,
  nth_error W i = Some G ->
  nth_error (fst (xstep beh W (i, o))) i = Some (fst (g_step_x beh G o)).
Proof.
  intros beh W i o G H. rewrite (xstep_world beh W i o G H).
  rewrite nth_error_app1.
  - eapply nth_set_nth_same; eauto.
  - rewrite set_nth_length. apply nth_error_Some. congruence.
Qed.

Lemma xstep_other : forall beh W i j o G,
  nth_error W i = Some G -> j <> i ->
  nth_error (fst (xstep beh W (j, o))) i = Some G.
Proof.
  intros beh W i j o G H Hj. destruct (nth_error W j) as [Gj|] eqn:Ej.
  - rewrite (xstep_world beh W j o Gj Ej). rewrite nth_error_app1.
    + rewrite nth_set_nth_other by congruence. exact H.
    + rewrite set_nth_length. apply nth_error_Some. congruence.
  - rewrite xstep_bad by assumption. exact H.
Qed.

Lemma xrun_cons : forall beh W io ops, xrun beh W (io :: ops) = xrun beh (fst (xstep beh W io)) ops.
Proof. reflexivity. Qed.

(* what happens to a genome is determined by the calls addressed to it *)
Lemma xrun_proj : forall beh ops W i G,
  nth_error W i = Some G ->
  nth_error (xrun beh W ops) i = Some (g_run_x beh G (ops_for i ops)).
Proof.
  intros beh. induction ops as [|[j o] ops IH]; intros W i G H; [exact H|].
  rewrite xrun_cons. unfold ops_for. cbn [filter fst].
  destruct (Nat.eqb j i) eqn:E.
  - apply Nat.eqb_eq in E; subst j. cbn [map snd]. rewrite g_run_x_cons.
    apply IH. now apply xstep_target.
  - apply Nat.eqb_neq in E. apply IH. now apply xstep_other.
Qed.

(* ---- 1. a locked genome stays gated, whatever the approvers do ------------- *)
Lemma approver_gated_proof : forall beh W ops i G,
  nth_error W i = Some G -> allow G = false -> never_enabled (ops_for i ops) ->
  exists G' newlog,
    nth_error (xrun beh W ops) i = Some G' /\ allow G' = false /\ mlog G' = mlog G ++ newlog /\
    Forall (entry_ok_in (installed G (ops_for i ops))) newlog /\
    forall n v, stored G n = Some v -> stored G' n = Some (replay newlog n v).
Proof.
  intros beh W ops i G H Hal Hne.
  destruct (run_x_xchain (installed G (ops_for i ops)) beh (ops_for i ops) G Hal) as (l & [A _ L O V]);
    [now left | assumption | intros c Hc; now right |].
  exists (g_run_x beh G (ops_for i ops)), l. split; [now apply xrun_proj | auto].
Qed.

(* ... so when no installed callback approves anything, nothing is applied *)
Lemma approver_nothing_approved_proof : forall beh W ops i G,
  nth_error W i = Some G -> allow G = false -> never_enabled (ops_for i ops) ->
  (forall c, installed G (ops_for i ops) c -> cb_denies c) ->
  exists G' newlog,
    nth_error (xrun beh W ops) i = Some G' /\ mlog G' = mlog G ++ newlog /\
    Forall (fun m => m_approved m = false) newlog /\
    forall n v, stored G n = Some v -> stored G' n = Some v.
Proof.
  intros beh W ops i G H Hal Hne Hd.
  destruct (approver_gated_proof beh W ops i G H Hal Hne) as (G' & l & N & _ & L & O & V).
  assert (U : Forall (fun m => m_approved m = false) l).
  { eapply Forall_impl; [|exact O]. intros m Hm. destruct (m_approved m) eqn:Em; [|reflexivity].
    destruct (Hm Em) as (c & Pc & Ac). now rewrite (Hd c Pc m) in Ac. }
  exists G', l. repeat split; auto.
  intros n v S. rewrite (V n v S). f_equal. now apply replay_unapproved.
Qed.

(* ---- 2. the exception of a raising approver --------------------------------- *)
Lemma raising_approver_proof : forall beh W i G o k W' ,
  nth_error W i = Some G -> xstep beh W (i, o) = (W', XRaised k) ->
  W' = W /\
  exists n v r, act_of beh G n v r = XRaise k /\ stored G n <> None /\ allow G = false /\ cb G <> None /\
    (o = OMutate n v /\ r = RUser \/
     exists m, o = ORollback n /\ last_approved (mlog G) n = Some m /\ v = m_orig m /\ r = RRollback).
Proof.
  intros beh W i G o k W' H E. unfold xstep in E. rewrite H in E.
  assert (MX : forall n v r G' , g_mutate_x beh G n v r = (G', Raised k) ->
               G' = G /\ act_of beh G n v r = XRaise k /\ stored G n <> None /\ allow G = false /\ cb G <> None).
  { intros n v r G' X. unfold g_mutate_x in X. destruct (act_of beh G n v r) as [|k'|n' v'] eqn:A.
    - destruct (g_mutate G n v r); discriminate.
    - injection X as EG EK. subst G' k'. destruct (act_of_consulted beh G n v r) as (e & L & Ha & Hc & _); [congruence|].
      repeat split; auto. unfold stored. rewrite L. discriminate.
    - destruct (lookup (tbl G) n); [destruct (g_mutate G n' v' RUser)|]; discriminate. }
  destruct o; cbn [gated] in E;
    try (destruct (step W _) as [W1 r1]; discriminate).
  - cbn [g_step_x] in E. destruct (g_mutate_x beh G n v RUser) as [G' x] eqn:X.
    destruct x; try discriminate. inversion E; subst.
    destruct (MX _ _ _ _ X) as (-> & A & S & Ha & Hc).
    split; [now apply set_nth_id|]. exists n, v, RUser. repeat split; auto.
  - cbn [g_step_x] in E. unfold g_rollback_x in E.
    destruct (last_approved (mlog G) n) as [m|] eqn:LA; [|discriminate].
    destruct (g_mutate_x beh G n (m_orig m) RRollback) as [G' x] eqn:X.
    destruct x; try discriminate. inversion E; subst.
    destruct (MX _ _ _ _ X) as (-> & A & S & Ha & Hc).
    split; [now apply set_nth_id|]. exists n, (m_orig m), RRollback. repeat split; auto.
    right. exists m. auto.
Qed.

(* ---- 3. a quiet approver: the plain semantics -------------------------------- *)
Definition quiet (beh : behaviour) : Prop := forall n old v r, beh n old v r = XNone.

Lemma quiet_act : forall beh G n v r, quiet beh -> act_of beh G n v r = XNone.
Proof.
  intros beh G n v r Q. unfold act_of. destruct (consulted G n); [|reflexivity].
  destruct r; auto.
Qed.

Lemma quiet_g_step : forall beh G o, quiet beh -> fst (g_step_x beh G o) = fst (g_step G o).
Proof.
  intros beh G o Q. destruct (gated o) eqn:Eg; [|now rewrite step_x_plain].
  destruct o; try discriminate; cbn [g_step_x g_step].
  - rewrite mutate_x_quiet by now apply quiet_act. reflexivity.
  - unfold g_rollback_x, g_rollback. destruct (last_approved (mlog G) n); [|reflexivity].
    rewrite mutate_x_quiet by now apply quiet_act. reflexivity.
Qed.

Lemma quiet_xstep : forall beh W io, quiet beh -> fst (xstep beh W io) = fst (step W io).
Proof.
  intros beh W [i o] Q. destruct (nth_error W i) as [G|] eqn:E.
  - rewrite (xstep_world beh W i o G E), (step_world W i o G E). now rewrite quiet_g_step.
  - rewrite xstep_bad, step_bad by assumption. reflexivity.
Qed.

Lemma quiet_xrun_proof : forall beh ops W, quiet beh -> xrun beh W ops = run W ops.
Proof.
  intros beh. induction ops as [|io ops IH]; intros W Q; [reflexivity|].
  rewrite xrun_cons, run_cons, quiet_xstep by assumption. now apply IH.
Qed.

(* ---- 4. an approver that changes the gene it is being asked about ---------- *)
Lemma same_gene_callback_proof : forall beh G n v r v' old,
  act_of beh G n v r = XCall n v' -> stored G n = Some old ->
  approved_by G n old v' RUser = true ->
  let ok := approved_by G n old v r in
  let G' := fst (g_mutate_x beh G n v r) in
  snd (g_mutate_x beh G n v r) = RetN ok true /\
  mlog G' = mlog G ++ [mkM n old v' RUser true; mkM n old v r ok] /\
  stored G' n = Some (if ok then v else v') /\
  (forall k, k <> n -> stored G' k = stored G k).
Proof.
  intros beh G n v r v' old A S Ap ok G'. subst G'.
  destruct (act_of_consulted beh G n v r) as (e & L & Hal & _); [congruence|].
  assert (Ev : value e = old) by (unfold stored in S; rewrite L in S; now inversion S).
  unfold g_mutate_x. rewrite A, L.
  rewrite (g_mutate_finish G e n v' RUser L). rewrite Ev, Ap. cbn [fst snd]. fold ok.
  pose proof (lookup_key _ _ _ L) as K.
  assert (K1 : forall w, key (mkEntry (with_value (e_gene e) w) (e_level e)) = n) by (intros; exact K).
  assert (PS : forall t e', key e' = n -> lookup (put t e') n = Some e') by (intros t e' <-; apply lookup_put_same).
  unfold finish_mutate. rewrite ?Ev.
  split; [reflexivity|].
  destruct ok; unfold stored; cbn [add_log set_tbl tbl mlog]; (split; [now rewrite <- app_assoc|]).
  - split.
    + rewrite PS by apply K1. reflexivity.
    + intros k Hk. rewrite !lookup_put_other; auto; rewrite K1; congruence.
  - split.
    + rewrite PS by apply K1. reflexivity.
    + intros k Hk. rewrite lookup_put_other; auto. rewrite K1; congruence.
Qed.

(* ---- 5. the clock ------------------------------------------------------------ *)
Lemma trun_world : forall beh ops W c, fst (fst (trun beh W c ops)) = xrun beh W ops.
Proof.
  intros beh. induction ops as [|io ops IH]; intros W c; [reflexivity|].
  cbn [trun]. destruct (take_reads (nreads W io) c) as [l c1].
  specialize (IH (fst (xstep beh W io)) c1).
  destruct (trun beh (fst (xstep beh W io)) c1 ops) as [[W' c'] rows]. cbn [fst] in *.
  now rewrite xrun_cons.
Qed.

Lemma clock_irrelevant_proof : forall beh W ops c1 c2,
  fst (fst (trun beh W c1 ops)) = fst (fst (trun beh W c2 ops)) /\
  map (@length Z) (snd (trun beh W c1 ops)) = map (@length Z) (snd (trun beh W c2 ops)).
Proof.
  intros beh W ops c1 c2. split; [now rewrite !trun_world|].
  revert W c1 c2. induction ops as [|io ops IH]; intros W c1 c2; [reflexivity|].
  cbn [trun].
  assert (TL : forall k c, length (fst (take_reads k c)) = k).
  { induction k as [|k IHk]; intros c; [reflexivity|]. cbn [take_reads].
    destruct (tick c) as [x c']. specialize (IHk c'). destruct (take_reads k c') as [l c'']. cbn [fst length] in *. now rewrite IHk. }
  pose proof (TL (nreads W io) c1) as T1. pose proof (TL (nreads W io) c2) as T2.
  destruct (take_reads (nreads W io) c1) as [l1 d1]. destruct (take_reads (nreads W io) c2) as [l2 d2].
  specialize (IH (fst (xstep beh W io)) d1 d2).
  destruct (trun beh (fst (xstep beh W io)) d1 ops) as [[W1 e1] rows1].
  destruct (trun beh (fst (xstep beh W io)) d2 ops) as [[W2 e2] rows2].
  cbn [fst snd map] in *. now rewrite T1, T2, IH.
Qed.

(* the repetitions of the generated cases' history notation, with approver behaviours *)
Lemma xrep_compact_world : forall beh k t W i o,
  snd (fst (xrep_compact beh t W i o k)) = xrun beh W (repeat (i, o) k).
Proof.
  intros beh. induction k as [|k IH]; intros t W i o; [reflexivity|].
  cbn [xrep_compact repeat]. rewrite xrun_cons.
  destruct (xstep beh W (i, o)) as [W1 r]. cbn [fst].
  destruct (match nth_error W1 i with Some G' => light_row t G' | None => (t, []) end) as [t1 lr].
  specialize (IH t1 W1 i o). destruct (xrep_compact beh t1 W1 i o k) as [[t2 W2] rows]. exact IH.
Qed.
