(* C20 — lemmas about the Genome model. *)
From Coq Require Import ZArith List Bool Lia.
From Verif Require Import C20.Model.
Import ListNotations.
Open Scope Z_scope.

(* ====================================================================== *)
(* 1. the dictionary                                                       *)

Lemma lookup_key : forall t n e, lookup t n = Some e -> key e = n.
Proof.
  induction t as [|a t IH]; cbn [lookup]; intros n e H; [discriminate|].
  destruct (key a =? n) eqn:E.
  - inversion H; subst. now apply Z.eqb_eq.
  - eauto.
Qed.

Lemma lookup_In : forall t n e, lookup t n = Some e -> In e t.
Proof.
  induction t as [|a t IH]; cbn [lookup]; intros n e H; [discriminate|].
  destruct (key a =? n); [inversion H; subst; now left | right; eauto].
Qed.

Lemma lookup_put_same : forall t e, lookup (put t e) (key e) = Some e.
Proof.
  induction t as [|a t IH]; intros e; cbn [put lookup].
  - now rewrite Z.eqb_refl.
  - destruct (key a =? key e) eqn:E; cbn [lookup].
    + now rewrite Z.eqb_refl.
    + rewrite E. apply IH.
Qed.

Lemma lookup_put_other : forall t e n, key e <> n -> lookup (put t e) n = lookup t n.
Proof.
  induction t as [|a t IH]; intros e n H; cbn [put lookup].
  - destruct (key e =? n) eqn:E; [apply Z.eqb_eq in E; contradiction | reflexivity].
  - destruct (key a =? key e) eqn:E; cbn [lookup].
    + apply Z.eqb_eq in E. rewrite E.
      destruct (key e =? n) eqn:E2; [apply Z.eqb_eq in E2; contradiction | reflexivity].
    + destruct (key a =? n); [reflexivity | now apply IH].
Qed.

Lemma put_new : forall t e, lookup t (key e) = None -> put t e = t ++ [e].
Proof.
  induction t as [|a t IH]; intros e H; cbn [put lookup app] in *; [reflexivity|].
  destruct (key a =? key e); [discriminate|]. f_equal. now apply IH.
Qed.

Lemma map_put_existing : forall (A : Type) (f : entry -> A) t e e0,
  lookup t (key e) = Some e0 -> f e = f e0 -> map f (put t e) = map f t.
Proof.
  induction t as [|a t IH]; intros e e0 H Hf; cbn [put lookup map] in *; [discriminate|].
  destruct (key a =? key e) eqn:E; cbn [map].
  - inversion H; subst. now rewrite Hf.
  - f_equal. eapply IH; eauto.
Qed.

Lemma lookup_None_iff : forall t n, lookup t n = None <-> ~ In n (map key t).
Proof.
  induction t as [|a t IH]; intros n; cbn [lookup map In]; [tauto|].
  destruct (key a =? n) eqn:E.
  - apply Z.eqb_eq in E. split; [discriminate | intros H; exfalso; apply H; now left].
  - apply Z.eqb_neq in E. rewrite IH. tauto.
Qed.

Lemma lookup_app : forall t u n,
  lookup (t ++ u) n = match lookup t n with Some e => Some e | None => lookup u n end.
Proof.
  induction t as [|a t IH]; intros u n; cbn [lookup app]; [reflexivity|].
  destruct (key a =? n); [reflexivity | apply IH].
Qed.

Lemma NoDup_lookup : forall t e, NoDup (map key t) -> In e t -> lookup t (key e) = Some e.
Proof.
  induction t as [|a t IH]; intros e Hnd Hin; [inversion Hin|].
  cbn [map] in Hnd. inversion Hnd as [|? ? Hnot Hnd']; subst.
  cbn [lookup]. destruct Hin as [->|Hin].
  - now rewrite Z.eqb_refl.
  - destruct (key a =? key e) eqn:E.
    + apply Z.eqb_eq in E. exfalso. apply Hnot. rewrite E. now apply in_map.
    + now apply IH.
Qed.

Lemma NoDup_snoc : forall (l : list Z) x, NoDup l -> ~ In x l -> NoDup (l ++ [x]).
Proof.
  induction l as [|a l IH]; intros x Hnd Hx; cbn [app].
  - constructor; [intros []| constructor].
  - inversion Hnd; subst. constructor.
    + rewrite in_app_iff. cbn [In]. intros [H|[H|[]]]; [contradiction|].
      subst. apply Hx. now left.
    + apply IH; [assumption|]. intros H. apply Hx. now right.
Qed.

Lemma keys_put_existing : forall t e e0,
  lookup t (key e) = Some e0 -> map key (put t e) = map key t.
Proof.
  intros t e e0 H. eapply map_put_existing; eauto.
  symmetry. eapply lookup_key; eauto.
Qed.

Lemma NoDup_put : forall t e, NoDup (map key t) -> NoDup (map key (put t e)).
Proof.
  intros t e H. destruct (lookup t (key e)) as [e0|] eqn:L.
  - erewrite keys_put_existing; eauto.
  - rewrite put_new by assumption. rewrite map_app. cbn [map].
    apply NoDup_snoc; [assumption|]. now apply lookup_None_iff.
Qed.

(* ====================================================================== *)
(* 2. single operations on one genome                                      *)

(* what the callback said about a logged change; the gate of mutate *)
Definition cb_approves (c : option oracle) (m : mrec) : bool :=
  match c with
  | Some f => f (m_gene m) (m_orig m) (m_new m) (m_reason m)
  | None => false
  end.
Definition gate (a : bool) (c : option oracle) (m : mrec) : bool := a || cb_approves c m.

Lemma approved_by_gate : forall G n o v r b,
  approved_by G n o v r = gate (allow G) (cb G) (mkM n o v r b).
Proof.
  intros. unfold approved_by, gate, cb_approves. cbn [m_gene m_orig m_new m_reason].
  destruct (allow G); [reflexivity|]. destruct (cb G); reflexivity.
Qed.

(* a gene without its value, and the part of an entry mutate never touches *)
Definition skel (e : entry) : gene := with_value (e_gene e) VNone.

Definition same_meta (G G' : genome) : Prop :=
  allow G' = allow G /\ cb G' = cb G /\ generation G' = generation G /\ parent G' = parent G /\
  mrate G' = mrate G.

Lemma same_meta_refl : forall G, same_meta G G.
Proof. intros; repeat split. Qed.
Lemma same_meta_trans : forall A B C, same_meta A B -> same_meta B C -> same_meta A C.
Proof. unfold same_meta; intros A B C (a&b&c&d&d') (e&f&g&h&h'); repeat split; congruence. Qed.

Lemma stored_lookup : forall G n v,
  stored G n = Some v <-> exists e, lookup (tbl G) n = Some e /\ value e = v.
Proof.
  unfold stored; intros G n v. destruct (lookup (tbl G) n) as [e|].
  - split; [intros H; inversion H; eauto | intros (e0 & H & <-); now inversion H].
  - split; [discriminate | intros (e0 & H & _); discriminate].
Qed.

Lemma stored_None : forall G n, stored G n = None <-> lookup (tbl G) n = None.
Proof. unfold stored; intros G n; destruct (lookup (tbl G) n); split; congruence. Qed.

Lemma stored_None_vals : forall G n, stored G n = None <-> ~ In n (map fst (vals G)).
Proof.
  intros. rewrite stored_None, lookup_None_iff. unfold vals. rewrite map_map.
  cbn [kv fst]. tauto.
Qed.

(* replacing the value of an existing entry *)
Definition revalue (e : entry) (v : val) : entry := mkEntry (with_value (e_gene e) v) (e_level e).

Lemma revalue_facts : forall t n e v,
  lookup t n = Some e ->
  let t' := put t (revalue e v) in
  lookup t' n = Some (revalue e v) /\
  (forall n', n' <> n -> lookup t' n' = lookup t n') /\
  map skel t' = map skel t /\ map e_level t' = map e_level t /\ map key t' = map key t.
Proof.
  intros t n e v L t'. pose proof (lookup_key _ _ _ L) as K.
  assert (K' : key (revalue e v) = n) by exact K.
  assert (L' : lookup t (key (revalue e v)) = Some e) by (rewrite K'; exact L).
  repeat split.
  - subst t'. rewrite <- K'. apply lookup_put_same.
  - intros n' Hn. subst t'. apply lookup_put_other. congruence.
  - subst t'. eapply map_put_existing; eauto.
  - subst t'. eapply map_put_existing; eauto.
  - subst t'. eapply map_put_existing; eauto.
Qed.

(* changing the level of an existing entry *)
Definition relevel (e : entry) (l : level) : entry := mkEntry (e_gene e) l.

Lemma relevel_facts : forall t n e l,
  lookup t n = Some e ->
  let t' := put t (relevel e l) in
  lookup t' n = Some (relevel e l) /\
  (forall n', n' <> n -> lookup t' n' = lookup t n') /\
  map e_gene t' = map e_gene t /\ map kv t' = map kv t /\ map key t' = map key t.
Proof.
  intros t n e l L t'. pose proof (lookup_key _ _ _ L) as K.
  assert (K' : key (relevel e l) = n) by exact K.
  assert (L' : lookup t (key (relevel e l)) = Some e) by (rewrite K'; exact L).
  repeat split.
  - subst t'. rewrite <- K'. apply lookup_put_same.
  - intros n' Hn. subst t'. apply lookup_put_other. congruence.
  - subst t'. eapply map_put_existing; eauto.
  - subst t'. eapply map_put_existing; eauto.
  - subst t'. eapply map_put_existing; eauto.
Qed.

(* ---- mutate ---- *)

Definition applied (G : genome) (n : Z) (v : val) (r : reason) (e : entry) : genome :=
  add_log (set_tbl G (put (tbl G) (revalue e v))) (mkM n (value e) v r true).

Lemma mutate_cases : forall G n v r,
  (stored G n = None /\ g_mutate G n v r = (G, false)) \/
  (exists old, stored G n = Some old /\ approved_by G n old v r = false /\
               g_mutate G n v r = (add_log G (mkM n old v r false), false)) \/
  (exists e, lookup (tbl G) n = Some e /\ approved_by G n (value e) v r = true /\
             g_mutate G n v r = (applied G n v r e, true)).
Proof.
  intros G n v r. unfold g_mutate, stored, applied, revalue.
  destruct (lookup (tbl G) n) as [e|] eqn:L.
  - destruct (approved_by G n (value e) v r) eqn:A.
    + right; right. exists e. auto.
    + right; left. exists (value e). auto.
  - left. auto.
Qed.

Lemma applied_facts : forall G n v r e,
  lookup (tbl G) n = Some e ->
  let G' := applied G n v r e in
  same_meta G G' /\ mlog G' = mlog G ++ [mkM n (value e) v r true] /\
  stored G' n = Some v /\ (forall n', n' <> n -> stored G' n' = stored G n') /\
  map skel (tbl G') = map skel (tbl G) /\ map e_level (tbl G') = map e_level (tbl G) /\
  map key (tbl G') = map key (tbl G).
Proof.
  intros G n v r e L G'.
  destruct (revalue_facts _ _ _ v L) as (A & B & C & D & E).
  subst G'. unfold applied, stored. cbn [add_log set_tbl tbl mlog allow cb generation parent].
  repeat split; try assumption.
  - rewrite A. reflexivity.
  - intros n' Hn. now rewrite B.
Qed.

Lemma mutate_true : forall G n v r G',
  g_mutate G n v r = (G', true) ->
  exists e, lookup (tbl G) n = Some e /\ approved_by G n (value e) v r = true /\ G' = applied G n v r e.
Proof.
  intros G n v r G' H.
  destruct (mutate_cases G n v r) as [(_ & E)|[(old & _ & _ & E)|(e & L & A & E)]];
    rewrite E in H; inversion H; subst; eauto.
Qed.

Lemma mutate_false : forall G n v r G',
  g_mutate G n v r = (G', false) ->
  (stored G n = None /\ G' = G) \/
  (exists old, stored G n = Some old /\ approved_by G n old v r = false /\
               G' = add_log G (mkM n old v r false)).
Proof.
  intros G n v r G' H.
  destruct (mutate_cases G n v r) as [(S & E)|[(old & S & A & E)|(e & L & A & E)]];
    rewrite E in H; inversion H; subst; eauto.
Qed.

(* ====================================================================== *)
(* 3. with allow_mutations off, values are the replay of the approved,     *)
(*    callback-authorised log entries                                       *)

Definition upd (n : Z) (v : val) (m : mrec) : val :=
  if m_approved m && (m_gene m =? n) then m_new m else v.
Definition replay (l : list mrec) (n : Z) (v : val) : val := fold_left (upd n) l v.

(* every entry on gene n records as original value the value n had then *)
Fixpoint origs (n : Z) (v : val) (l : list mrec) : Prop :=
  match l with
  | [] => True
  | m :: r => (m_gene m = n -> m_orig m = v) /\ origs n (upd n v m) r
  end.

(* an approved entry was approved by the callback, for exactly that change *)
Definition entry_ok (c : option oracle) (m : mrec) : Prop :=
  m_approved m = true -> cb_approves c m = true.

Record chainrel (G G' : genome) (l : list mrec) : Prop := mkChain {
  cr_meta : same_meta G G';
  cr_log : mlog G' = mlog G ++ l;
  cr_ok : Forall (entry_ok (cb G)) l;
  cr_val : forall n v, stored G n = Some v -> stored G' n = Some (replay l n v) /\ origs n v l }.

Lemma replay_app : forall l1 l2 n v, replay (l1 ++ l2) n v = replay l2 n (replay l1 n v).
Proof. intros. unfold replay. apply fold_left_app. Qed.

Lemma origs_app : forall l1 l2 n v,
  origs n v (l1 ++ l2) <-> origs n v l1 /\ origs n (replay l1 n v) l2.
Proof.
  induction l1 as [|m l1 IH]; intros l2 n v; cbn [app origs].
  - unfold replay; cbn [fold_left]. tauto.
  - rewrite IH. unfold replay; cbn [fold_left]. tauto.
Qed.

Lemma chainrel_nil : forall G G',
  same_meta G G' -> mlog G' = mlog G ->
  (forall n v, stored G n = Some v -> stored G' n = Some v) -> chainrel G G' [].
Proof.
  intros G G' M L S. constructor; auto.
  - now rewrite app_nil_r.
  - intros n v H. split; [now apply S | exact I].
Qed.

Lemma chainrel_refl : forall G, chainrel G G [].
Proof. intros. apply chainrel_nil; auto using same_meta_refl. Qed.

Lemma chainrel_trans : forall A B C l1 l2,
  chainrel A B l1 -> chainrel B C l2 -> chainrel A C (l1 ++ l2).
Proof.
  intros A B C l1 l2 [M1 L1 O1 V1] [M2 L2 O2 V2]. constructor.
  - eapply same_meta_trans; eauto.
  - rewrite L2, L1. now rewrite app_assoc.
  - apply Forall_app. split; [assumption|].
    destruct M1 as (_ & E & _). now rewrite <- E.
  - intros n v H. destruct (V1 n v H) as (S1 & R1).
    destruct (V2 n _ S1) as (S2 & R2).
    rewrite replay_app. split; [assumption|]. apply origs_app. auto.
Qed.

Lemma add_log_stored : forall G m n, stored (add_log G m) n = stored G n.
Proof. reflexivity. Qed.

Lemma mutate_chain : forall G n v r,
  allow G = false -> exists l, chainrel G (fst (g_mutate G n v r)) l.
Proof.
  intros G n v r Hal.
  destruct (mutate_cases G n v r) as [(S & E)|[(old & S & A & E)|(e & L & A & E)]];
    rewrite E; cbn [fst].
  - exists []. apply chainrel_refl.
  - exists [mkM n old v r false]. constructor.
    + repeat split.
    + reflexivity.
    + constructor; [|constructor]. intros H; discriminate.
    + intros n' v' H. rewrite add_log_stored. unfold replay, upd; cbn.
      split; [assumption|]. split; [|exact I]. intros <-. congruence.
  - destruct (applied_facts G n v r e L) as (M & Lg & Sn & So & _).
    exists [mkM n (value e) v r true]. constructor; auto.
    + constructor; [|constructor]. intros _.
      rewrite (approved_by_gate G n (value e) v r true) in A.
      unfold gate in A. now rewrite Hal in A.
    + intros n' v' H. unfold replay, upd; cbn.
      destruct (n =? n') eqn:E'.
      * apply Z.eqb_eq in E'; subst n'. split; [assumption|]. split; [|exact I].
        intros _. apply stored_lookup in H. destruct H as (e' & L' & <-). congruence.
      * apply Z.eqb_neq in E'. rewrite So by congruence. split; [assumption|].
        split; [|exact I]. intros; contradiction.
Qed.

Lemma set_level_cases : forall G n l,
  (stored G n = None /\ g_set_level G n l = (G, false)) \/
  (exists e, lookup (tbl G) n = Some e /\
             g_set_level G n l = (set_tbl G (put (tbl G) (relevel e l)), true)).
Proof.
  intros G n l. unfold g_set_level, stored, relevel.
  destruct (lookup (tbl G) n) as [e|] eqn:L; [right; eauto | left; auto].
Qed.

Lemma relevel_stored : forall G n e l n',
  lookup (tbl G) n = Some e ->
  stored (set_tbl G (put (tbl G) (relevel e l))) n' = stored G n'.
Proof.
  intros G n e l n' L. destruct (relevel_facts _ _ _ l L) as (A & B & _).
  unfold stored. cbn [set_tbl tbl].
  destruct (Z.eq_dec n' n) as [->|Hn].
  - rewrite A, L. reflexivity.
  - now rewrite B.
Qed.

Lemma set_level_chain : forall G n l, chainrel G (fst (g_set_level G n l)) [].
Proof.
  intros G n l. destruct (set_level_cases G n l) as [(_ & E)|(e & L & E)]; rewrite E; cbn [fst].
  - apply chainrel_refl.
  - apply chainrel_nil; [repeat split | reflexivity |].
    intros n' v H. now rewrite (relevel_stored G n e l n' L).
Qed.

Lemma add_cases : forall G g,
  (stored G (g_name g) <> None /\ allow G = false /\ g_add G g = (G, false)) \/
  ((stored G (g_name g) = None \/ allow G = true) /\
   g_add G g = (set_tbl G (put (tbl G) (mkEntry g (g_default g))), true)).
Proof.
  intros G g. unfold g_add, stored.
  destruct (lookup (tbl G) (g_name g)) as [e|] eqn:L.
  - destruct (allow G) eqn:A; [right; auto | left; repeat split; congruence].
  - right; auto.
Qed.

Lemma add_chain : forall G g, allow G = false -> chainrel G (fst (g_add G g)) [].
Proof.
  intros G g Hal. destruct (add_cases G g) as [(_ & _ & E)|([S|A] & E)]; rewrite E; cbn [fst].
  - apply chainrel_refl.
  - apply chainrel_nil; [repeat split | reflexivity |].
    intros n v H. unfold stored in *. cbn [set_tbl tbl].
    rewrite lookup_put_other; [assumption|].
    change (key (mkEntry g (g_default g))) with (g_name g).
    intros Hk. subst n. rewrite S in H. discriminate.
  - congruence.
Qed.

Lemma rollback_cases : forall G n,
  (last_approved (mlog G) n = None /\ g_rollback G n = (G, false)) \/
  (exists m, last_approved (mlog G) n = Some m /\ g_rollback G n = g_mutate G n (m_orig m) RRollback).
Proof.
  intros G n. unfold g_rollback. destruct (last_approved (mlog G) n); [right; eauto | left; auto].
Qed.

Lemma step_chain : forall G o, is_config o = false -> allow G = false ->
  exists l, chainrel G (fst (g_step G o)) l.
Proof.
  intros G o Hcf Hal. destruct o; try discriminate; cbn [g_step].
  - exists []. now apply add_chain.
  - now apply mutate_chain.
  - destruct (rollback_cases G n) as [(_ & E)|(m & _ & E)]; rewrite E.
    + exists []. apply chainrel_refl.
    + now apply mutate_chain.
  - exists []. apply set_level_chain.
  - exists []. apply set_level_chain.
  - exists []. apply set_level_chain.
  - exists []. apply chainrel_refl.
  - exists []. apply chainrel_refl.
Qed.

Lemma g_run_cons_early : forall G o ops, g_run G (o :: ops) = g_run (fst (g_step G o)) ops.
Proof. reflexivity. Qed.

(* ---- histories with configuration assignments ----
   allow_mutations / on_mutation / mutation_rate may be assigned on the live
   genome between calls.  As long as no assignment switches allow_mutations on,
   the replay invariant holds with "the callback" read as "a callback that was
   installed at some moment of the history" (P below); which callback decides
   a given call is pinned down by [change_attributed] further down: the one
   installed when the call is made. *)
Definition enables (o : gop) : bool :=
  match o with OSetAllow true => true | _ => false end.
Definition never_enabled (ops : list gop) : Prop := forall o, In o ops -> enables o = false.
(* the callbacks in force at some moment of a history that starts in G *)
Definition installed (G : genome) (ops : list gop) (c : option oracle) : Prop :=
  c = cb G \/ In (OSetCb c) ops.

Definition entry_ok_in (P : option oracle -> Prop) (m : mrec) : Prop :=
  m_approved m = true -> exists c, P c /\ cb_approves c m = true.

Record gchain (P : option oracle -> Prop) (G G' : genome) (l : list mrec) : Prop := mkGChain {
  gc_allow : allow G' = false;
  gc_cb : P (cb G');
  gc_log : mlog G' = mlog G ++ l;
  gc_ok : Forall (entry_ok_in P) l;
  gc_val : forall n v, stored G n = Some v -> stored G' n = Some (replay l n v) /\ origs n v l }.

Lemma chainrel_gchain : forall (P : option oracle -> Prop) G G' l,
  chainrel G G' l -> allow G = false -> P (cb G) -> gchain P G G' l.
Proof.
  intros P G G' l [(Ma & Mc & _) L O V] Hal Hp. constructor; auto; try congruence.
  eapply Forall_impl; [|exact O]. intros m Hm A. exists (cb G). split; [assumption | now apply Hm].
Qed.

Lemma gchain_refl : forall (P : option oracle -> Prop) G, allow G = false -> P (cb G) -> gchain P G G [].
Proof. intros P G Hal Hp. apply chainrel_gchain; auto. apply chainrel_refl. Qed.

Lemma gchain_trans : forall P A B C l1 l2,
  gchain P A B l1 -> gchain P B C l2 -> gchain P A C (l1 ++ l2).
Proof.
  intros P A B C l1 l2 [A1 P1 L1 O1 V1] [A2 P2 L2 O2 V2]. constructor; auto.
  - rewrite L2, L1. now rewrite app_assoc.
  - apply Forall_app. auto.
  - intros n v H. destruct (V1 n v H) as (S1 & R1).
    destruct (V2 n _ S1) as (S2 & R2).
    rewrite replay_app. split; [assumption|]. apply origs_app. auto.
Qed.

(* an assignment of a configuration attribute touches nothing else *)
Lemma config_step_facts : forall G o, is_config o = true ->
  tbl (fst (g_step G o)) = tbl G /\ mlog (fst (g_step G o)) = mlog G /\
  generation (fst (g_step G o)) = generation G /\ parent (fst (g_step G o)) = parent G /\
  snd (g_step G o) = true.
Proof. intros G o H. destruct o; try discriminate; repeat split. Qed.

Lemma config_stored : forall G o n, is_config o = true -> stored (fst (g_step G o)) n = stored G n.
Proof. intros G o n H. unfold stored. now destruct (config_step_facts G o H) as (-> & _). Qed.

Lemma run_gchain : forall (P : option oracle -> Prop) ops G,
  allow G = false -> P (cb G) -> never_enabled ops -> (forall c, In (OSetCb c) ops -> P c) ->
  exists l, gchain P G (g_run G ops) l.
Proof.
  intros P. induction ops as [|o ops IH]; intros G Hal Hp Hne Hcb.
  - exists []. now apply gchain_refl.
  - assert (Hne' : never_enabled ops) by (intros x Hx; apply Hne; now right).
    assert (Hcb' : forall c, In (OSetCb c) ops -> P c) by (intros c Hc; apply Hcb; now right).
    assert (C1 : exists l1, gchain P G (fst (g_step G o)) l1).
    { destruct (is_config o) eqn:Ec.
      - exists []. pose proof (Hne o (or_introl eq_refl)) as En.
        assert (Hc : P (cb (fst (g_step G o))) /\ allow (fst (g_step G o)) = false).
        { destruct o; try discriminate; cbn [g_step fst set_allow set_cb set_rate allow cb].
          - destruct b; [discriminate | auto].
          - split; [apply Hcb; now left | assumption].
          - auto. }
        destruct Hc as (Hc1 & Hc2).
        destruct (config_step_facts G o Ec) as (_ & Lg & _).
        constructor; auto.
        + now rewrite app_nil_r.
        + intros n v S. rewrite (config_stored G o n Ec). split; [exact S | exact I].
      - destruct (step_chain G o Ec Hal) as (l1 & C1). exists l1. now apply chainrel_gchain. }
    destruct C1 as (l1 & C1).
    destruct (IH _ (gc_allow _ _ _ _ C1) (gc_cb _ _ _ _ C1) Hne' Hcb') as (l2 & C2).
    exists (l1 ++ l2). rewrite g_run_cons_early. eapply gchain_trans; eauto.
Qed.

Lemma muts_chain : forall muts C, allow C = false -> exists l, chainrel C (apply_muts C muts) l.
Proof.
  induction muts as [|[n v] muts IH]; intros C Hal.
  - exists []. apply chainrel_refl.
  - destruct (mutate_chain C n v RReplication Hal) as (l1 & C1).
    assert (Hal1 : allow (fst (g_mutate C n v RReplication)) = false).
    { destruct (cr_meta _ _ _ C1) as (E & _). congruence. }
    destruct (IH _ Hal1) as (l2 & C2).
    exists (l1 ++ l2). eapply chainrel_trans; eauto.
Qed.

(* nothing approved => nothing replayed *)
Definition cb_denies (c : option oracle) : Prop := forall m, cb_approves c m = false.

Lemma denied_log : forall c l, cb_denies c -> Forall (entry_ok c) l ->
  Forall (fun m => m_approved m = false) l.
Proof.
  intros c l D H. induction H as [|m l Hm _ IH]; constructor; [|assumption].
  destruct (m_approved m) eqn:A; [|reflexivity].
  specialize (Hm A). rewrite D in Hm. discriminate.
Qed.

Lemma denied_log_in : forall (P : option oracle -> Prop) l,
  (forall c, P c -> cb_denies c) -> Forall (entry_ok_in P) l ->
  Forall (fun m => m_approved m = false) l.
Proof.
  intros P l D H. induction H as [|m l Hm _ IH]; constructor; [|assumption].
  destruct (m_approved m) eqn:A; [|reflexivity].
  destruct (Hm A) as (c & Hc & Ha). rewrite (D c Hc) in Ha. discriminate.
Qed.

Lemma replay_unapproved : forall l n v,
  Forall (fun m => m_approved m = false) l -> replay l n v = v.
Proof.
  induction l as [|m l IH]; intros n v H; [reflexivity|].
  inversion H; subst. unfold replay in *; cbn [fold_left].
  unfold upd at 2. rewrite H2. cbn [andb]. now apply IH.
Qed.

(* ====================================================================== *)
(* 4. frame facts that hold for every allow setting                        *)

Definition wf (G : genome) : Prop := NoDup (map key (tbl G)).

Record frame (G G' : genome) : Prop := mkFrame {
  fr_meta : same_meta G G';
  fr_log : exists l, mlog G' = mlog G ++ l;
  fr_keep : forall n, stored G n <> None -> stored G' n <> None;
  fr_wf : wf G -> wf G' }.

Lemma frame_refl : forall G, frame G G.
Proof.
  intros G. constructor; auto using same_meta_refl.
  exists []. now rewrite app_nil_r.
Qed.

Lemma frame_trans : forall A B C, frame A B -> frame B C -> frame A C.
Proof.
  intros A B C [M1 (l1 & L1) K1 W1] [M2 (l2 & L2) K2 W2]. constructor; auto.
  - eapply same_meta_trans; eauto.
  - exists (l1 ++ l2). now rewrite L2, L1, app_assoc.
Qed.

Lemma mutate_frame : forall G n v r, frame G (fst (g_mutate G n v r)).
Proof.
  intros G n v r.
  destruct (mutate_cases G n v r) as [(S & E)|[(old & S & A & E)|(e & L & A & E)]];
    rewrite E; cbn [fst].
  - apply frame_refl.
  - constructor; auto; [repeat split | eexists; reflexivity].
  - destruct (applied_facts G n v r e L) as (M & Lg & Sn & So & _ & _ & K).
    constructor; auto.
    + eexists; eassumption.
    + intros n' H. destruct (Z.eq_dec n' n) as [->|Hn]; [congruence | now rewrite So].
    + unfold wf. now rewrite K.
Qed.

Lemma set_level_frame : forall G n l, frame G (fst (g_set_level G n l)).
Proof.
  intros G n l. destruct (set_level_cases G n l) as [(_ & E)|(e & L & E)]; rewrite E; cbn [fst].
  - apply frame_refl.
  - constructor.
    + repeat split.
    + exists []. now rewrite app_nil_r.
    + intros n' H. now rewrite (relevel_stored G n e l n' L).
    + unfold wf. cbn [set_tbl tbl]. apply NoDup_put.
Qed.

Lemma add_frame : forall G g, frame G (fst (g_add G g)).
Proof.
  intros G g. destruct (add_cases G g) as [(_ & _ & E)|(_ & E)]; rewrite E; cbn [fst].
  - apply frame_refl.
  - constructor.
    + repeat split.
    + exists []. now rewrite app_nil_r.
    + intros n H. unfold stored in *. cbn [set_tbl tbl].
      destruct (Z.eq_dec (key (mkEntry g (g_default g))) n) as [<-|Hn].
      * rewrite lookup_put_same. discriminate.
      * now rewrite lookup_put_other.
    + unfold wf. cbn [set_tbl tbl]. apply NoDup_put.
Qed.

(* every method leaves the configuration attributes alone ... *)
Lemma step_frame : forall G o, is_config o = false -> frame G (fst (g_step G o)).
Proof.
  intros G o Hcf. destruct o; try discriminate; cbn [g_step fst];
    auto using add_frame, mutate_frame, set_level_frame, frame_refl.
  destruct (rollback_cases G n) as [(_ & E)|(m & _ & E)]; rewrite E;
    auto using mutate_frame, frame_refl.
Qed.

Lemma g_run_cons : forall G o ops, g_run G (o :: ops) = g_run (fst (g_step G o)) ops.
Proof. reflexivity. Qed.

(* ... and what holds of every call, assignments of the configuration
   attributes included: lineage data, log (append-only), gene set, dict shape *)
Record wframe (G G' : genome) : Prop := mkWFrame {
  wfr_lin : generation G' = generation G /\ parent G' = parent G;
  wfr_log : exists l, mlog G' = mlog G ++ l;
  wfr_keep : forall n, stored G n <> None -> stored G' n <> None;
  wfr_wf : wf G -> wf G' }.

Lemma frame_wframe : forall G G', frame G G' -> wframe G G'.
Proof. intros G G' [(_ & _ & g & p & _) L K W]. constructor; auto. Qed.

Lemma wframe_refl : forall G, wframe G G.
Proof. intros. apply frame_wframe, frame_refl. Qed.

Lemma wframe_trans : forall A B C, wframe A B -> wframe B C -> wframe A C.
Proof.
  intros A B C [(g1 & p1) (l1 & L1) K1 W1] [(g2 & p2) (l2 & L2) K2 W2]. constructor; auto.
  - split; congruence.
  - exists (l1 ++ l2). now rewrite L2, L1, app_assoc.
Qed.

Lemma step_wframe : forall G o, wframe G (fst (g_step G o)).
Proof.
  intros G o. destruct (is_config o) eqn:Ec.
  - destruct (config_step_facts G o Ec) as (T & L & Ge & Pa & _). constructor; auto.
    + exists []. now rewrite app_nil_r.
    + intros n. now rewrite (config_stored G o n Ec).
    + unfold wf. now rewrite T.
  - apply frame_wframe. now apply step_frame.
Qed.

Lemma run_wframe : forall ops G, wframe G (g_run G ops).
Proof.
  induction ops as [|o ops IH]; intros G; [apply wframe_refl|].
  eapply wframe_trans; [apply (step_wframe G o) | apply IH].
Qed.

(* the configuration at any moment is the constructor's, overwritten by the
   assignments made so far: no method changes it *)
Definition last_allow (ops : list gop) (d : bool) : bool :=
  fold_left (fun a o => match o with OSetAllow b => b | _ => a end) ops d.
Definition last_cb (ops : list gop) (d : option oracle) : option oracle :=
  fold_left (fun a o => match o with OSetCb c => c | _ => a end) ops d.
Definition last_rate (ops : list gop) (d : Z) : Z :=
  fold_left (fun a o => match o with OSetRate k => k | _ => a end) ops d.

Lemma run_config : forall ops G,
  allow (g_run G ops) = last_allow ops (allow G) /\
  cb (g_run G ops) = last_cb ops (cb G) /\
  mrate (g_run G ops) = last_rate ops (mrate G).
Proof.
  induction ops as [|o ops IH]; intros G; [repeat split|].
  rewrite g_run_cons. unfold last_allow, last_cb, last_rate. cbn [fold_left].
  fold (last_allow ops). fold (last_cb ops). fold (last_rate ops).
  destruct (IH (fst (g_step G o))) as (A & C & R). rewrite A, C, R.
  destruct (is_config o) eqn:Ec.
  - destruct o; try discriminate; repeat split.
  - destruct (fr_meta _ _ (step_frame G o Ec)) as (Ma & Mc & _ & _ & Mr).
    rewrite Ma, Mc, Mr. destruct o; try discriminate; repeat split.
Qed.

Lemma muts_frame : forall muts C, frame C (apply_muts C muts).
Proof.
  induction muts as [|[n v] muts IH]; intros C; [apply frame_refl|].
  eapply frame_trans; [apply (mutate_frame C n v RReplication) | apply IH].
Qed.

(* ====================================================================== *)
(* 5. nothing approved: the value map only grows by brand-new genes         *)

Lemma deny_gate : forall G n o v r,
  allow G = false -> cb_denies (cb G) -> approved_by G n o v r = false.
Proof.
  intros G n o v r Hal D. rewrite (approved_by_gate G n o v r false).
  unfold gate. rewrite Hal. apply D.
Qed.

Lemma deny_mutate_vals : forall G n v r,
  allow G = false -> cb_denies (cb G) -> tbl (fst (g_mutate G n v r)) = tbl G.
Proof.
  intros G n v r Hal D.
  destruct (mutate_cases G n v r) as [(S & E)|[(old & S & A & E)|(e & L & A & E)]];
    rewrite E; cbn [fst]; try reflexivity.
  rewrite deny_gate in A by assumption. discriminate.
Qed.

Lemma set_level_vals : forall G n l, vals (fst (g_set_level G n l)) = vals G.
Proof.
  intros G n l. destruct (set_level_cases G n l) as [(_ & E)|(e & L & E)]; rewrite E; cbn [fst].
  - reflexivity.
  - destruct (relevel_facts _ _ _ l L) as (_ & _ & _ & K & _). exact K.
Qed.

Lemma deny_step_vals : forall G o,
  allow G = false -> cb_denies (cb G) ->
  vals (fst (g_step G o)) = vals G \/
  exists g, o = OAdd g /\ stored G (g_name g) = None /\
            vals (fst (g_step G o)) = vals G ++ [(g_name g, g_value g)].
Proof.
  intros G o Hal D. destruct o; cbn [g_step]; auto using set_level_vals.
  - destruct (add_cases G g) as [(_ & _ & E)|([S|A] & E)]; rewrite E; cbn [fst]; auto.
    + right. exists g. repeat split; [assumption|].
      unfold vals. cbn [set_tbl tbl]. rewrite put_new.
      * now rewrite map_app.
      * now apply stored_None.
    + congruence.
  - left. unfold vals. now rewrite deny_mutate_vals.
  - left. destruct (rollback_cases G n) as [(_ & E)|(m & _ & E)]; rewrite E; [reflexivity|].
    unfold vals. now rewrite deny_mutate_vals.
Qed.

Lemma stored_None_prefix : forall G G1 f n,
  vals G1 = vals G ++ f -> stored G1 n = None -> stored G n = None.
Proof.
  intros G G1 f n E H. apply stored_None_vals. apply stored_None_vals in H.
  rewrite E, map_app, in_app_iff in H. tauto.
Qed.

Lemma deny_run_vals : forall ops G,
  allow G = false -> cb_denies (cb G) ->
  never_enabled ops -> (forall c, In (OSetCb c) ops -> cb_denies c) ->
  exists fresh, vals (g_run G ops) = vals G ++ fresh /\
    Forall (fun nv => stored G (fst nv) = None /\
                      exists g, In (OAdd g) ops /\ nv = (g_name g, g_value g)) fresh.
Proof.
  induction ops as [|o ops IH]; intros G Hal D Hne Hcb.
  - exists []. split; [now rewrite app_nil_r | constructor].
  - assert (Hne' : never_enabled ops) by (intros x Hx; apply Hne; now right).
    assert (Hcb' : forall c, In (OSetCb c) ops -> cb_denies c) by (intros c Hc; apply Hcb; now right).
    assert (H1 : allow (fst (g_step G o)) = false /\ cb_denies (cb (fst (g_step G o)))).
    { destruct (is_config o) eqn:Ec.
      - pose proof (Hne o (or_introl eq_refl)) as En.
        destruct o; try discriminate; cbn [g_step fst set_allow set_cb set_rate allow cb].
        + destruct b; [discriminate | auto].
        + split; [assumption | apply Hcb; now left].
        + auto.
      - destruct (fr_meta _ _ (step_frame G o Ec)) as (Ea & Ec' & _). rewrite Ea, Ec'. auto. }
    destruct H1 as (Hal1 & D1).
    destruct (IH _ Hal1 D1 Hne' Hcb') as (f2 & V2 & F2). rewrite g_run_cons.
    destruct (deny_step_vals G o Hal D) as [V1|(g & -> & S & V1)].
    + exists f2. split; [now rewrite V2, V1|].
      eapply Forall_impl; [|exact F2]. intros nv (Hs & g & Hin & ->). split.
      * eapply stored_None_prefix with (f := []); [rewrite app_nil_r; exact V1 | exact Hs].
      * exists g. split; [now right | reflexivity].
    + exists ((g_name g, g_value g) :: f2). split.
      * rewrite V2, V1, <- app_assoc. reflexivity.
      * constructor.
        -- split; [exact S|]. exists g. split; [now left | reflexivity].
        -- eapply Forall_impl; [|exact F2]. intros nv (Hs & g' & Hin & ->). split.
           ++ eapply stored_None_prefix; [exact V1 | exact Hs].
           ++ exists g'. split; [now right | reflexivity].
Qed.

(* ====================================================================== *)
(* 6. the lineage: an operation touches only the genome it is addressed to *)

Definition ops_for (i : nat) (ops : list op) : list gop :=
  map snd (filter (fun io => Nat.eqb (fst io) i) ops).

Lemma set_nth_length : forall W i G, length (set_nth W i G) = length W.
Proof. induction W as [|x W IH]; intros [|i] G; cbn [set_nth length]; auto. Qed.

Lemma nth_set_nth_same : forall W i G G',
  nth_error W i = Some G -> nth_error (set_nth W i G') i = Some G'.
Proof.
  induction W as [|x W IH]; intros [|i] G G' H; cbn in *; try discriminate; eauto.
Qed.

Lemma nth_set_nth_other : forall W i j G',
  i <> j -> nth_error (set_nth W j G') i = nth_error W i.
Proof.
  induction W as [|x W IH]; intros [|i] [|j] G' H; cbn; auto; try contradiction.
Qed.

Lemma set_nth_id : forall W i G, nth_error W i = Some G -> set_nth W i G = W.
Proof.
  induction W as [|x W IH]; intros [|i] G H; cbn in *; try discriminate.
  - now inversion H.
  - f_equal. now apply IH.
Qed.

Lemma step_world : forall W i o G,
  nth_error W i = Some G ->
  fst (step W (i, o)) = set_nth W i (fst (g_step G o)) ++ born G o.
Proof. intros W i o G H. unfold step. rewrite H. reflexivity. Qed.

Lemma step_bad : forall W i o, nth_error W i = None -> step W (i, o) = (W, RetBadTarget).
Proof. intros W i o H. unfold step. now rewrite H. Qed.

Lemma step_target : forall W i o G,
  nth_error W i = Some G ->
  nth_error (fst (step W (i, o))) i = Some (fst (g_step G o)).
Proof.
  intros W i o G H. rewrite (step_world W i o G H).
  rewrite nth_error_app1.
  - eapply nth_set_nth_same; eauto.
  - rewrite set_nth_length. apply nth_error_Some. congruence.
Qed.

Lemma step_other : forall W i j o G,
  nth_error W i = Some G -> j <> i ->
  nth_error (fst (step W (j, o))) i = Some G.
Proof.
  intros W i j o G H Hj. destruct (nth_error W j) as [Gj|] eqn:Ej.
  - rewrite (step_world W j o Gj Ej). rewrite nth_error_app1.
    + rewrite nth_set_nth_other by congruence. exact H.
    + rewrite set_nth_length. apply nth_error_Some. congruence.
  - rewrite step_bad by assumption. exact H.
Qed.

Lemma run_cons : forall W io ops, run W (io :: ops) = run (fst (step W io)) ops.
Proof. reflexivity. Qed.

Lemma run_proj : forall ops W i G,
  nth_error W i = Some G ->
  nth_error (run W ops) i = Some (g_run G (ops_for i ops)).
Proof.
  induction ops as [|[j o] ops IH]; intros W i G H; [exact H|].
  rewrite run_cons. unfold ops_for. cbn [filter fst].
  destruct (Nat.eqb j i) eqn:E.
  - apply Nat.eqb_eq in E; subst j. cbn [map snd]. rewrite g_run_cons.
    apply IH. now apply step_target.
  - apply Nat.eqb_neq in E. apply IH. now apply step_other.
Qed.

Lemma step_replicate : forall W i G muts inh ds,
  nth_error W i = Some G ->
  step W (i, OReplicate muts inh ds) = (W ++ [g_replicate_full G muts inh ds], RetChild (length W)).
Proof.
  intros W i G muts inh ds H. unfold step. rewrite H. cbn [g_step fst born].
  now rewrite set_nth_id.
Qed.

Lemma step_length : forall W io, (length W <= length (fst (step W io)))%nat.
Proof.
  intros W [i o]. destruct (nth_error W i) as [G|] eqn:E.
  - rewrite (step_world W i o G E), app_length, set_nth_length. lia.
  - rewrite step_bad by assumption. cbn [fst]. lia.
Qed.

(* ====================================================================== *)
(* 7. express                                                               *)

Lemma expressed_iff : forall ctx e,
  expressed ctx e = true <->
  e_level e <> Silenced /\ g_type (e_gene e) <> Dormant /\
  (g_type (e_gene e) = Conditional -> In (key e) ctx).
Proof.
  intros ctx e. unfold expressed. destruct (is_silenced (e_level e)) eqn:S.
  - split; [discriminate|]. intros (H & _). destruct (e_level e); try discriminate. congruence.
  - assert (Hl : e_level e <> Silenced) by (intros E; rewrite E in S; discriminate).
    destruct (g_type (e_gene e)) eqn:T.
    + split; [intros _; repeat split; auto; discriminate | reflexivity].
    + split; [intros _; repeat split; auto; discriminate | reflexivity].
    + split; [intros _; repeat split; auto; discriminate | reflexivity].
    + rewrite existsb_exists. split.
      * intros (x & Hin & Hx). apply Z.eqb_eq in Hx. subst x.
        repeat split; auto; discriminate.
      * intros (_ & _ & H). exists (key e). split; [now apply H | apply Z.eqb_refl].
    + split; [discriminate | intros (_ & H & _); congruence].
Qed.

Definition expressible (ctx : list Z) (e : entry) : Prop :=
  e_level e <> Silenced /\ g_type (e_gene e) <> Dormant /\
  (g_type (e_gene e) = Conditional -> In (key e) ctx).

Lemma express_exact_proof : forall G ctx n v,
  In (n, v) (g_express G ctx) <->
  exists e, In e (tbl G) /\ key e = n /\ value e = v /\ expressible ctx e.
Proof.
  intros G ctx n v. unfold g_express, expressible. rewrite in_map_iff. split.
  - intros (e & K & F). apply filter_In in F. destruct F as (I & X).
    apply expressed_iff in X. unfold kv in K. inversion K; subst. eauto 6.
  - intros (e & I & <- & <- & X). exists e. split; [reflexivity|].
    apply filter_In. split; [assumption|]. now apply expressed_iff.
Qed.

Lemma express_lookup_proof : forall G ctx n v,
  wf G ->
  (In (n, v) (g_express G ctx) <->
   exists e, lookup (tbl G) n = Some e /\ value e = v /\ expressible ctx e).
Proof.
  intros G ctx n v W. rewrite express_exact_proof. split.
  - intros (e & I & <- & V & X). exists e. split; [now apply NoDup_lookup | auto].
  - intros (e & L & V & X). exists e.
    split; [eapply lookup_In; eauto|]. split; [eapply lookup_key; eauto | auto].
Qed.

Lemma NoDup_map_filter : forall (f : entry -> bool) t,
  NoDup (map key t) -> NoDup (map key (filter f t)).
Proof.
  induction t as [|a t IH]; intros H; cbn [filter map] in *; [constructor|].
  inversion H; subst. destruct (f a); cbn [map]; [constructor|]; auto.
  intros Hin. apply H2. apply in_map_iff in Hin. destruct Hin as (e & K & F).
  apply filter_In in F. apply in_map_iff. exists e. tauto.
Qed.

Lemma express_keys_unique : forall G ctx, wf G -> NoDup (map fst (g_express G ctx)).
Proof.
  intros G ctx W. unfold g_express. rewrite map_map. cbn [kv fst].
  now apply NoDup_map_filter.
Qed.

(* ====================================================================== *)
(* 8. rollback                                                              *)

Lemma last_approved_hit : forall l m n,
  m_gene m = n -> m_approved m = true -> last_approved (l ++ [m]) n = Some m.
Proof.
  intros l m n Hg Ha. unfold last_approved. rewrite rev_app_distr. cbn [rev app find].
  rewrite Hg, Ha, Z.eqb_refl. reflexivity.
Qed.

Lemma last_approved_skip : forall l l2 n,
  (forall m, In m l2 -> m_gene m = n -> m_approved m = false) ->
  last_approved (l ++ l2) n = last_approved l n.
Proof.
  intros l l2 n. induction l2 as [|x l2 IH] using rev_ind; intros H.
  - now rewrite app_nil_r.
  - rewrite app_assoc. unfold last_approved in *. rewrite rev_app_distr. cbn [rev app find].
    assert (E : (m_gene x =? n) && m_approved x = false).
    { destruct (m_gene x =? n) eqn:E; [|reflexivity]. apply Z.eqb_eq in E.
      rewrite (H x); [reflexivity | | assumption]. apply in_app_iff. right. now left. }
    rewrite E. apply IH. intros m Hin. apply H. apply in_app_iff. now left.
Qed.

Lemma last_approved_sound : forall l n m,
  last_approved l n = Some m -> In m l /\ m_gene m = n /\ m_approved m = true.
Proof.
  intros l n m H. unfold last_approved in H. apply find_some in H.
  destruct H as (I & B). apply andb_true_iff in B. destruct B as (B1 & B2).
  apply Z.eqb_eq in B1. rewrite <- in_rev in I. auto.
Qed.

Lemma rollback_true_proof : forall G n G',
  g_rollback G n = (G', true) ->
  exists m cur, last_approved (mlog G) n = Some m /\ stored G n = Some cur /\
    approved_by G n cur (m_orig m) RRollback = true /\
    stored G' n = Some (m_orig m) /\
    mlog G' = mlog G ++ [mkM n cur (m_orig m) RRollback true].
Proof.
  intros G n G' H. destruct (rollback_cases G n) as [(_ & E)|(m & Lm & E)]; rewrite E in H.
  - discriminate.
  - apply mutate_true in H. destruct H as (e & L & A & ->).
    destruct (applied_facts G n (m_orig m) RRollback e L) as (_ & Lg & Sn & _).
    exists m, (value e). repeat split; auto.
    apply stored_lookup. eauto.
Qed.

Lemma rollback_false_proof : forall G n G',
  g_rollback G n = (G', false) ->
  (last_approved (mlog G) n = None /\ G' = G) \/
  (exists m, last_approved (mlog G) n = Some m /\
     ((stored G n = None /\ G' = G) \/
      exists cur, stored G n = Some cur /\ approved_by G n cur (m_orig m) RRollback = false /\
                  G' = add_log G (mkM n cur (m_orig m) RRollback false))).
Proof.
  intros G n G' H. destruct (rollback_cases G n) as [(N & E)|(m & Lm & E)]; rewrite E in H.
  - left. inversion H; subst; auto.
  - right. exists m. split; [assumption|]. apply mutate_false in H.
    destruct H as [(S & ->)|(cur & S & A & ->)]; [left; auto | right; eauto].
Qed.

Lemma rollback_restores_proof : forall G n w r G1 v ops l2,
  g_mutate G n w r = (G1, true) -> stored G n = Some v ->
  mlog (g_run G1 ops) = mlog G1 ++ l2 ->
  (forall m, In m l2 -> m_gene m = n -> m_approved m = false) ->
  exists cur, stored (g_run G1 ops) n = Some cur /\
    (approved_by (g_run G1 ops) n cur v RRollback = true ->
       exists G3, g_rollback (g_run G1 ops) n = (G3, true) /\ stored G3 n = Some v /\
                  mlog G3 = mlog (g_run G1 ops) ++ [mkM n cur v RRollback true]) /\
    (approved_by (g_run G1 ops) n cur v RRollback = false ->
       g_rollback (g_run G1 ops) n =
         (add_log (g_run G1 ops) (mkM n cur v RRollback false), false)).
Proof.
  intros G n w r G1 v ops l2 Hm Sv Hl Hno.
  apply mutate_true in Hm. destruct Hm as (e & L & A & ->).
  destruct (applied_facts G n w r e L) as (_ & Lg & Sn & _).
  assert (Ev : value e = v).
  { apply stored_lookup in Sv. destruct Sv as (e' & L' & <-). congruence. }
  set (G1 := applied G n w r e) in *. set (G2 := g_run G1 ops) in *.
  assert (Hlast : last_approved (mlog G2) n = Some (mkM n v w r true)).
  { rewrite Hl, Lg, Ev. rewrite last_approved_skip by assumption.
    now apply last_approved_hit. }
  assert (Hroll : g_rollback G2 n = g_mutate G2 n v RRollback).
  { unfold g_rollback. rewrite Hlast. reflexivity. }
  assert (Hk : stored G2 n <> None).
  { apply (wfr_keep _ _ (run_wframe ops G1)). congruence. }
  destruct (stored G2 n) as [cur|] eqn:Sc; [|congruence].
  exists cur. split; [reflexivity|]. rewrite Hroll.
  destruct (mutate_cases G2 n v RRollback) as [(S & E)|[(old & S & A' & E)|(e2 & L2 & A' & E)]].
  - congruence.
  - assert (old = cur) by congruence. subst old. split; [congruence|]. intros _. exact E.
  - assert (Ec : value e2 = cur).
    { apply stored_lookup in Sc. destruct Sc as (e' & L' & <-). congruence. }
    rewrite Ec in *. split; [|congruence]. intros _.
    destruct (applied_facts G2 n v RRollback e2 L2) as (_ & Lg2 & Sn2 & _).
    rewrite Ec in Lg2. eauto.
Qed.

(* [last_approved] finds an entry exactly when the log holds an approved entry
   on the gene, and it is the last such one — whatever values the entries
   record (an original value None is a value, not "nothing to roll back") *)
Lemma last_approved_complete : forall l n m,
  In m l -> m_gene m = n -> m_approved m = true ->
  exists m' l1 l2, last_approved l n = Some m' /\ l = l1 ++ m' :: l2 /\
    m_gene m' = n /\ m_approved m' = true /\
    (forall x, In x l2 -> m_gene x = n -> m_approved x = false).
Proof.
  induction l as [|x l IH] using rev_ind; intros n m Hin Hg Ha; [destruct Hin|].
  destruct ((m_gene x =? n) && m_approved x) eqn:E.
  - apply andb_true_iff in E. destruct E as (E1 & E2). apply Z.eqb_eq in E1.
    exists x, l, []. split; [now apply last_approved_hit|]. repeat split; auto.
    intros y [].
  - assert (Hx : forall y, In y [x] -> m_gene y = n -> m_approved y = false).
    { intros y [<-|[]] Hy. apply Z.eqb_eq in Hy. rewrite Hy in E. exact E. }
    apply in_app_iff in Hin. destruct Hin as [Hin|[<-|[]]].
    + destruct (IH n m Hin Hg Ha) as (m' & l1 & l2 & L & -> & G' & A' & N).
      exists m', l1, (l2 ++ [x]). split; [|split; [|split; [|split]]]; auto.
      * rewrite last_approved_skip by exact Hx. exact L.
      * now rewrite <- app_assoc.
      * intros y Hy. apply in_app_iff in Hy. destruct Hy as [Hy|Hy]; [now apply N | now apply Hx].
    + rewrite (Hx x (or_introl eq_refl) Hg) in Ha. discriminate.
Qed.

(* once an approved mutation on gene n is in the log, rollback_mutation(n) is
   never a silent no-op: with m' the LAST approved entry on n, it either
   restores m_orig m' (authorised; logged approved) or is refused and logged
   unapproved — for every recorded original value, None included *)
Lemma rollback_never_silent_proof : forall G n m cur,
  In m (mlog G) -> m_gene m = n -> m_approved m = true -> stored G n = Some cur ->
  exists m' l1 l2,
    mlog G = l1 ++ m' :: l2 /\ m_gene m' = n /\ m_approved m' = true /\
    (forall x, In x l2 -> m_gene x = n -> m_approved x = false) /\
    (approved_by G n cur (m_orig m') RRollback = true ->
       exists G', g_rollback G n = (G', true) /\ stored G' n = Some (m_orig m') /\
                  mlog G' = mlog G ++ [mkM n cur (m_orig m') RRollback true]) /\
    (approved_by G n cur (m_orig m') RRollback = false ->
       g_rollback G n = (add_log G (mkM n cur (m_orig m') RRollback false), false)).
Proof.
  intros G n m cur Hin Hg Ha Sc.
  destruct (last_approved_complete _ _ _ Hin Hg Ha) as (m' & l1 & l2 & L & E & G' & A' & N).
  exists m', l1, l2. repeat split; auto.
  - intros A. unfold g_rollback. rewrite L.
    destruct (mutate_cases G n (m_orig m') RRollback) as [(S & _)|[(old & S & A2 & _)|(e & L2 & A2 & E2)]].
    + congruence.
    + assert (old = cur) by congruence. subst old. congruence.
    + assert (Ec : value e = cur).
      { apply stored_lookup in Sc. destruct Sc as (e' & L' & <-). congruence. }
      destruct (applied_facts G n (m_orig m') RRollback e L2) as (_ & Lg & Sn & _).
      rewrite Ec in Lg. eauto.
  - intros A. unfold g_rollback. rewrite L.
    destruct (mutate_cases G n (m_orig m') RRollback) as [(S & _)|[(old & S & A2 & E2)|(e & L2 & A2 & _)]].
    + congruence.
    + assert (old = cur) by congruence. subst old. exact E2.
    + assert (Ec : value e = cur).
      { apply stored_lookup in Sc. destruct Sc as (e' & L' & <-). congruence. }
      rewrite Ec in A2. congruence.
Qed.

(* get_value(name, default) is the stored value of a known, non-silenced gene
   (None included) and the default otherwise *)
Lemma get_value_proof : forall G n d,
  (exists e, lookup (tbl G) n = Some e /\ e_level e <> Silenced /\ g_get_value G n d = value e) \/
  ((lookup (tbl G) n = None \/ exists e, lookup (tbl G) n = Some e /\ e_level e = Silenced) /\
   g_get_value G n d = d).
Proof.
  intros G n d. unfold g_get_value. destruct (lookup (tbl G) n) as [e|]; [|right; auto].
  destruct (e_level e) eqn:E; cbn [is_silenced];
    try (left; exists e; repeat split; auto; rewrite E; discriminate).
  right. split; [right; eauto | reflexivity].
Qed.

(* identity of values is decided by val_eqb (used by the scripted callbacks
   and the hash ids of the observations) *)
Lemma zl_eqb_eq : forall a b, zl_eqb a b = true <-> a = b.
Proof.
  induction a as [|x a IH]; destruct b as [|y b]; cbn [zl_eqb]; try (split; [discriminate|congruence]).
  - tauto.
  - rewrite andb_true_iff, Z.eqb_eq, IH. split; [intros (-> & ->); reflexivity | intros H; inversion H; auto].
Qed.

Lemma val_eqb_eq : forall a b, val_eqb a b = true <-> a = b.
Proof.
  intros a b. destruct a, b; cbn [val_eqb]; try (split; [discriminate|congruence]).
  - tauto.
  - rewrite Bool.eqb_true_iff. split; congruence.
  - rewrite Z.eqb_eq. split; congruence.
  - rewrite andb_true_iff, !Z.eqb_eq. split; [intros (-> & ->); reflexivity | intros H; inversion H; auto].
  - rewrite zl_eqb_eq. split; congruence.
Qed.

(* ====================================================================== *)
(* 9. replicate                                                             *)

Definition fresh_entry (g : gene) : entry := mkEntry g (g_default g).

Lemma init_fold : forall genes G0,
  NoDup (map g_name genes) ->
  (forall g, In g genes -> lookup (tbl G0) (g_name g) = None) ->
  let G' := fold_left (fun G g => fst (g_add G g)) genes G0 in
  tbl G' = tbl G0 ++ map fresh_entry genes /\ mlog G' = mlog G0 /\ same_meta G0 G'.
Proof.
  induction genes as [|g genes IH]; intros G0 ND Hnew; cbn [fold_left map].
  - rewrite app_nil_r. repeat split.
  - inversion ND as [|? ? Hnot ND']; subst.
    assert (E : g_add G0 g = (set_tbl G0 (tbl G0 ++ [fresh_entry g]), true)).
    { unfold g_add. rewrite (Hnew g (or_introl eq_refl)). fold (fresh_entry g).
      rewrite put_new; [reflexivity|]. exact (Hnew g (or_introl eq_refl)). }
    rewrite E. cbn [fst].
    destruct (IH (set_tbl G0 (tbl G0 ++ [fresh_entry g])) ND') as (T & L & M).
    { intros g' Hin. cbn [set_tbl tbl]. rewrite lookup_app.
      rewrite (Hnew g' (or_intror Hin)). cbn [lookup].
      change (key (fresh_entry g)) with (g_name g).
      destruct (g_name g =? g_name g') eqn:X; [|reflexivity].
      apply Z.eqb_eq in X. exfalso. apply Hnot. rewrite X. now apply in_map. }
    split; [|split].
    + rewrite T. cbn [set_tbl tbl]. now rewrite <- app_assoc.
    + rewrite L. reflexivity.
    + eapply same_meta_trans; [|exact M]. repeat split.
Qed.

Lemma child_base_facts : forall G, wf G ->
  tbl (child_base G) = map (fun e => fresh_entry (e_gene e)) (tbl G) /\
  mlog (child_base G) = [] /\ allow (child_base G) = allow G /\ cb (child_base G) = cb G /\
  generation (child_base G) = generation G + 1 /\ parent (child_base G) = Some (ghash G) /\
  mrate (child_base G) = mrate G.
Proof.
  intros G W. unfold child_base, init_genome_r.
  destruct (init_fold (map e_gene (tbl G)) (empty_genome_r (allow G) (cb G) (mrate G))) as (T & L & M).
  - rewrite map_map. exact W.
  - intros; reflexivity.
  - cbn [tbl mlog allow cb generation parent mrate]. cbn [empty_genome_r tbl app] in T.
    rewrite T, L, map_map. destruct M as (Ma & Mc & _ & _ & Mr). rewrite Ma, Mc, Mr.
    repeat split.
Qed.

Lemma inherit_facts : forall P C,
  map e_gene (tbl (inherit_levels C P)) = map e_gene (tbl C) /\
  mlog (inherit_levels C P) = mlog C /\ same_meta C (inherit_levels C P).
Proof.
  induction P as [|p P IH]; intros C; cbn [inherit_levels fold_left].
  - repeat split.
  - fold (inherit_levels (fst (g_set_level C (key p) (e_level p))) P).
    destruct (IH (fst (g_set_level C (key p) (e_level p)))) as (Hg & Hl & Hm).
    destruct (set_level_cases C (key p) (e_level p)) as [(_ & E)|(e & L & E)];
      rewrite E in *; cbn [fst] in *; [auto|].
    destruct (relevel_facts _ _ _ (e_level p) L) as (_ & _ & Kg & _).
    cbn [set_tbl tbl mlog] in *. split; [congruence|]. split; [assumption|].
    eapply same_meta_trans; [|exact Hm]. repeat split.
Qed.

Lemma lookup_genes : forall t1 t2 n,
  map e_gene t1 = map e_gene t2 ->
  option_map value (lookup t1 n) = option_map value (lookup t2 n).
Proof.
  induction t1 as [|a t1 IH]; intros [|b t2] n H; cbn [map] in H; try discriminate; [reflexivity|].
  inversion H as [[Hab Ht]]. cbn [lookup]. unfold key. rewrite Hab.
  destruct (g_name (e_gene b) =? n); [|now apply IH].
  cbn [option_map]. unfold value. now rewrite Hab.
Qed.

Lemma stored_genes : forall A B n,
  map e_gene (tbl A) = map e_gene (tbl B) -> stored A n = stored B n.
Proof.
  intros A B n H. pose proof (lookup_genes _ _ n H) as E. unfold stored.
  destruct (lookup (tbl A) n), (lookup (tbl B) n); cbn [option_map] in E; congruence.
Qed.

Definition pre_muts (G : genome) (inh : bool) : genome :=
  if inh then inherit_levels (child_base G) (tbl G) else child_base G.

Lemma replicate_unfold : forall G muts inh,
  g_replicate G muts inh = apply_muts (pre_muts G inh) muts.
Proof. reflexivity. Qed.

Lemma pre_muts_facts : forall G inh, wf G ->
  map e_gene (tbl (pre_muts G inh)) = map e_gene (tbl G) /\
  mlog (pre_muts G inh) = [] /\ allow (pre_muts G inh) = allow G /\ cb (pre_muts G inh) = cb G /\
  generation (pre_muts G inh) = generation G + 1 /\ parent (pre_muts G inh) = Some (ghash G) /\
  mrate (pre_muts G inh) = mrate G.
Proof.
  intros G inh W. destruct (child_base_facts G W) as (T & L & A & C & Ge & P & R).
  assert (Tg : map e_gene (tbl (child_base G)) = map e_gene (tbl G)).
  { rewrite T, map_map. cbn [fresh_entry e_gene]. apply map_ext. reflexivity. }
  unfold pre_muts. destruct inh; [|repeat split; assumption].
  destruct (inherit_facts (tbl G) (child_base G)) as (Hg & Hl & (Ma & Mc & Mg & Mp & Mr)).
  repeat split; congruence.
Qed.

Lemma mutate_skel : forall G n v r,
  map skel (tbl (fst (g_mutate G n v r))) = map skel (tbl G) /\
  map e_level (tbl (fst (g_mutate G n v r))) = map e_level (tbl G).
Proof.
  intros G n v r.
  destruct (mutate_cases G n v r) as [(S & E)|[(old & S & A & E)|(e & L & A & E)]];
    rewrite E; cbn [fst]; auto.
  destruct (applied_facts G n v r e L) as (_ & _ & _ & _ & K1 & K2 & _). auto.
Qed.

Lemma muts_skel : forall muts C,
  map skel (tbl (apply_muts C muts)) = map skel (tbl C) /\
  map e_level (tbl (apply_muts C muts)) = map e_level (tbl C).
Proof.
  induction muts as [|[n v] muts IH]; intros C; [auto|].
  cbn [apply_muts fold_left fst snd].
  fold (apply_muts (fst (g_mutate C n v RReplication)) muts).
  destruct (IH (fst (g_mutate C n v RReplication))) as (A & B).
  destruct (mutate_skel C n v RReplication) as (A' & B'). split; congruence.
Qed.

Lemma apply_muts_cons : forall C n v muts,
  apply_muts C ((n, v) :: muts) = apply_muts (fst (g_mutate C n v RReplication)) muts.
Proof. reflexivity. Qed.

Lemma apply_muts_app : forall C m1 m2,
  apply_muts C (m1 ++ m2) = apply_muts (apply_muts C m1) m2.
Proof. intros. unfold apply_muts. apply fold_left_app. Qed.

Lemma val_eq_dec : forall a b : val, {a = b} + {a <> b}.
Proof.
  decide equality; try apply Z.eq_dec; try apply Bool.bool_dec.
  apply list_eq_dec, Z.eq_dec.
Qed.

Lemma optZ_dec : forall a b : option val, {a = b} + {a <> b}.
Proof. decide equality. apply val_eq_dec. Qed.

(* a replication mutation that changed a value was authorised and logged *)
Definition authorised_entry (a : bool) (c : option oracle) (muts : list (Z * val)) (n : Z) (m : mrec) : Prop :=
  m_gene m = n /\ m_approved m = true /\ m_reason m = RReplication /\
  In (n, m_new m) muts /\ gate a c m = true.

Lemma muts_changed : forall muts C n,
  exists l, mlog (apply_muts C muts) = mlog C ++ l /\
    (stored (apply_muts C muts) n <> stored C n ->
     exists m, In m l /\ authorised_entry (allow C) (cb C) muts n m).
Proof.
  induction muts as [|[n' v'] muts IH]; intros C n.
  - exists []. split; [now rewrite app_nil_r|]. intros H. now contradiction H.
  - rewrite apply_muts_cons.
    destruct (IH (fst (g_mutate C n' v' RReplication)) n) as (l2 & L2 & H2).
    assert (Hup : forall m, authorised_entry (allow C) (cb C) muts n m ->
                            authorised_entry (allow C) (cb C) ((n', v') :: muts) n m).
    { intros m (a & b & c & d & e). repeat split; auto. now right. }
    destruct (mutate_cases C n' v' RReplication)
      as [(S & E)|[(old & S & A & E)|(e & L & A & E)]]; rewrite E in *; cbn [fst] in *.
    + exists l2. split; [assumption|]. intros H. destruct (H2 H) as (m & I & Au). eauto.
    + exists (mkM n' old v' RReplication false :: l2). split.
      * rewrite L2. cbn [add_log mlog]. now rewrite <- app_assoc.
      * intros H. destruct (H2 H) as (m & I & Au). exists m. split; [now right | auto].
    + destruct (applied_facts C n' v' RReplication e L) as ((Ma & Mc & _) & Lg & Sn & So & _).
      exists (mkM n' (value e) v' RReplication true :: l2). split.
      * rewrite L2, Lg. now rewrite <- app_assoc.
      * intros H.
        destruct (optZ_dec (stored (apply_muts (applied C n' v' RReplication e) muts) n)
                           (stored (applied C n' v' RReplication e) n)) as [Eq|Ne].
        -- assert (n = n').
           { destruct (Z.eq_dec n n') as [|Hn]; [assumption|]. exfalso. apply H.
             rewrite Eq. now apply So. }
           subst n'. exists (mkM n (value e) v' RReplication true). split; [now left|].
           repeat split; cbn; auto.
        -- destruct (H2 Ne) as (m & I & Au). exists m. split; [now right|].
           rewrite Ma, Mc in Au. auto.
Qed.

Lemma child_facts_proof : forall G muts inh, wf G ->
  let c := g_replicate G muts inh in
  allow c = allow G /\ cb c = cb G /\ generation c = generation G + 1 /\
  parent c = Some (ghash G) /\ wf c /\
  map skel (tbl c) = map skel (tbl G).
Proof.
  intros G muts inh W c. subst c. rewrite replicate_unfold.
  destruct (pre_muts_facts G inh W) as (Tg & L & A & C & Ge & P & R).
  destruct (muts_frame muts (pre_muts G inh)) as [(Ma & Mc & Mg & Mp & Mr) _ _ Wf].
  destruct (muts_skel muts (pre_muts G inh)) as (Sk & _).
  assert (Wp : wf (pre_muts G inh)).
  { unfold wf in *. replace (map key (tbl (pre_muts G inh))) with (map key (tbl G)); [assumption|].
    change key with (fun e => g_name (e_gene e)). rewrite <- !(map_map e_gene g_name). now rewrite Tg. }
  repeat split; try congruence; auto.
  rewrite Sk. unfold skel. rewrite <- !(map_map e_gene (fun g => with_value g VNone)). now rewrite Tg.
Qed.

Lemma child_differs_proof : forall G muts inh n, wf G ->
  let c := g_replicate G muts inh in
  stored c n <> stored G n ->
  exists m, In m (mlog c) /\ authorised_entry (allow G) (cb G) muts n m.
Proof.
  intros G muts inh n W c H. subst c. rewrite replicate_unfold in *.
  destruct (pre_muts_facts G inh W) as (Tg & L & A & C & _).
  destruct (muts_changed muts (pre_muts G inh) n) as (l & Lg & Hc).
  rewrite L in Lg. cbn [app] in Lg. rewrite Lg.
  rewrite (stored_genes (pre_muts G inh) G n Tg) in Hc.
  destruct (Hc H) as (m & I & Au). rewrite A, C in Au. eauto.
Qed.

Lemma child_replay_proof : forall G muts inh, wf G -> allow G = false ->
  let c := g_replicate G muts inh in
  Forall (entry_ok (cb G)) (mlog c) /\
  forall n v, stored G n = Some v ->
    stored c n = Some (replay (mlog c) n v) /\ origs n v (mlog c).
Proof.
  intros G muts inh W Hal c. subst c. rewrite replicate_unfold.
  destruct (pre_muts_facts G inh W) as (Tg & L & A & C & _).
  destruct (muts_chain muts (pre_muts G inh)) as (l & [_ Lg Ok Val]); [congruence|].
  rewrite L in Lg. cbn [app] in Lg. rewrite Lg. rewrite C in Ok. split; [assumption|].
  intros n v S. apply Val. now rewrite (stored_genes (pre_muts G inh) G n Tg).
Qed.

(* ---- refused replication mutations are logged in the child ---- *)

Lemma approved_by_meta : forall A B n o v r,
  allow A = allow B -> cb A = cb B -> approved_by A n o v r = approved_by B n o v r.
Proof. intros A B n o v r Ha Hc. unfold approved_by. now rewrite Ha, Hc. Qed.

Lemma mutate_other : forall C n' v r n,
  n' <> n -> stored (fst (g_mutate C n' v r)) n = stored C n.
Proof.
  intros C n' v r n Hn.
  destruct (mutate_cases C n' v r) as [(S & E)|[(old & S & A & E)|(e & L & A & E)]];
    rewrite E; cbn [fst]; auto.
  destruct (applied_facts C n' v r e L) as (_ & _ & _ & So & _). apply So. congruence.
Qed.

Lemma muts_other : forall muts C n,
  ~ In n (map fst muts) -> stored (apply_muts C muts) n = stored C n.
Proof.
  induction muts as [|[n' v'] muts IH]; intros C n H; [reflexivity|].
  rewrite apply_muts_cons. cbn [map fst In] in H.
  rewrite IH by tauto. apply mutate_other. tauto.
Qed.

Lemma replicate_refused_logged_proof : forall G pre n v post inh old,
  let C := g_replicate G pre inh in
  stored C n = Some old -> approved_by C n old v RReplication = false ->
  let c := g_replicate G (pre ++ (n, v) :: post) inh in
  In (mkM n old v RReplication false) (mlog c) /\
  exists l, mlog c = mlog C ++ mkM n old v RReplication false :: l.
Proof.
  intros G pre n v post inh old C S A c. subst c C.
  rewrite !replicate_unfold in *. rewrite apply_muts_app, apply_muts_cons.
  set (C := apply_muts (pre_muts G inh) pre) in *.
  destruct (mutate_cases C n v RReplication) as [(S' & E)|[(old' & S' & A' & E)|(e & L & A' & E)]].
  - congruence.
  - assert (old' = old) by congruence. subst old'. rewrite E. cbn [fst].
    destruct (fr_log _ _ (muts_frame post (add_log C (mkM n old v RReplication false)))) as (l & Hl).
    cbn [add_log mlog] in Hl. rewrite <- app_assoc in Hl. cbn [app] in Hl.
    split; [|eauto]. rewrite Hl. apply in_app_iff. right. now left.
  - assert (value e = old).
    { apply stored_lookup in S. destruct S as (e' & L' & <-). congruence. }
    congruence.
Qed.

Lemma replicate_refused_dict_proof : forall G muts inh n v old,
  wf G -> NoDup (map fst muts) -> In (n, v) muts ->
  stored G n = Some old -> approved_by G n old v RReplication = false ->
  let c := g_replicate G muts inh in
  In (mkM n old v RReplication false) (mlog c) /\ stored c n = Some old.
Proof.
  intros G muts inh n v old W ND Hin S A c.
  destruct (in_split _ _ Hin) as (pre & post & ->).
  rewrite map_app in ND. cbn [map fst] in ND.
  assert (Hpre : ~ In n (map fst pre)).
  { intros H. apply NoDup_remove_2 in ND. apply ND. apply in_app_iff. now left. }
  assert (Hpost : ~ In n (map fst post)).
  { intros H. apply NoDup_remove_2 in ND. apply ND. apply in_app_iff. now right. }
  destruct (pre_muts_facts G inh W) as (Tg & _ & Ha & Hc & _).
  destruct (child_facts_proof G pre inh W) as (Ha' & Hc' & _).
  assert (S1 : stored (g_replicate G pre inh) n = Some old).
  { rewrite replicate_unfold, muts_other by assumption.
    now rewrite (stored_genes (pre_muts G inh) G n Tg). }
  assert (A1 : approved_by (g_replicate G pre inh) n old v RReplication = false).
  { rewrite <- A. now apply approved_by_meta. }
  destruct (replicate_refused_logged_proof G pre n v post inh old S1 A1) as (I & _).
  split; [exact I|]. subst c.
  rewrite replicate_unfold, apply_muts_app, apply_muts_cons, muts_other by assumption.
  rewrite replicate_unfold in S1, A1.
  destruct (mutate_cases (apply_muts (pre_muts G inh) pre) n v RReplication)
    as [(S' & E)|[(old' & S' & A' & E)|(e & L & A' & E)]]; rewrite E; cbn [fst].
  - congruence.
  - exact S1.
  - assert (value e = old).
    { apply stored_lookup in S1. destruct S1 as (e' & L' & <-). congruence. }
    congruence.
Qed.

(* ====================================================================== *)
(* 9b. random mutations during replication (mutation_rate > 0)             *)

(* a list of proposed changes, each handed to mutate with reason r *)
Definition apply_muts_r (r : reason) (C : genome) (props : list (Z * val)) : genome :=
  fold_left (fun C nv => fst (g_mutate C (fst nv) (snd nv) r)) props C.
Definition apply_random : genome -> list (Z * val) -> genome := apply_muts_r RRandom.

Lemma apply_r_cons : forall r C n v props,
  apply_muts_r r C ((n, v) :: props) = apply_muts_r r (fst (g_mutate C n v r)) props.
Proof. reflexivity. Qed.

Lemma apply_r_app : forall r C p1 p2,
  apply_muts_r r C (p1 ++ p2) = apply_muts_r r (apply_muts_r r C p1) p2.
Proof. intros. unfold apply_muts_r. apply fold_left_app. Qed.

(* the loop is a sequence of calls of mutate with reason "random_mutation":
   there is no other way in which it touches the child *)
Lemma random_muts_props : forall names C rate ds,
  exists props, random_muts C rate names ds = apply_random C props.
Proof.
  induction names as [|a names IH]; intros C rate ds; cbn [random_muts].
  - exists []. reflexivity.
  - destruct (draw ds) as [u ds1]. destruct (u <? rate); [|apply IH].
    destruct (stored C a) as [v|]; [|apply IH].
    destruct (is_numeric v); [|apply IH].
    destruct (draw ds1) as [k ds2]. destruct (perturb v k) as [w|]; [|apply IH].
    destruct (IH (fst (g_mutate C a w RRandom)) rate ds2) as (props & E).
    exists ((a, w) :: props). unfold apply_random. rewrite apply_r_cons. exact E.
Qed.

Lemma replicate_full_props : forall G muts inh ds,
  exists props, g_replicate_full G muts inh ds = apply_random (g_replicate G muts inh) props /\
                (mrate G <= 0 -> props = []).
Proof.
  intros G muts inh ds. unfold g_replicate_full. destruct (0 <? mrate G) eqn:E.
  - destruct (random_muts_props (map key (tbl (g_replicate G muts inh))) (g_replicate G muts inh) (mrate G) ds)
      as (props & Ep).
    exists props. split; [exact Ep|]. intros H. apply Z.ltb_lt in E. lia.
  - exists []. split; reflexivity.
Qed.

Lemma r_chain : forall r props C, allow C = false -> exists l, chainrel C (apply_muts_r r C props) l.
Proof.
  induction props as [|[n v] props IH]; intros C Hal.
  - exists []. apply chainrel_refl.
  - rewrite apply_r_cons.
    destruct (mutate_chain C n v r Hal) as (l1 & C1).
    assert (Hal1 : allow (fst (g_mutate C n v r)) = false).
    { destruct (cr_meta _ _ _ C1) as (E & _). congruence. }
    destruct (IH _ Hal1) as (l2 & C2).
    exists (l1 ++ l2). eapply chainrel_trans; eauto.
Qed.

Lemma r_frame : forall r props C, frame C (apply_muts_r r C props).
Proof.
  induction props as [|[n v] props IH]; intros C; [apply frame_refl|].
  rewrite apply_r_cons. eapply frame_trans; [apply (mutate_frame C n v r) | apply IH].
Qed.

Lemma r_skel : forall r props C,
  map skel (tbl (apply_muts_r r C props)) = map skel (tbl C) /\
  map e_level (tbl (apply_muts_r r C props)) = map e_level (tbl C).
Proof.
  induction props as [|[n v] props IH]; intros C; [auto|].
  rewrite apply_r_cons.
  destruct (IH (fst (g_mutate C n v r))) as (A & B).
  destruct (mutate_skel C n v r) as (A' & B'). split; congruence.
Qed.

(* a random mutation that changed a value passed the gate and is logged *)
Definition random_entry (a : bool) (c : option oracle) (n : Z) (m : mrec) : Prop :=
  m_gene m = n /\ m_approved m = true /\ m_reason m = RRandom /\ gate a c m = true.

Lemma r_changed : forall r props C n,
  exists l, mlog (apply_muts_r r C props) = mlog C ++ l /\
    (stored (apply_muts_r r C props) n <> stored C n ->
     exists m, In m l /\ m_gene m = n /\ m_approved m = true /\ m_reason m = r /\
               In (n, m_new m) props /\ gate (allow C) (cb C) m = true).
Proof.
  induction props as [|[n' v'] props IH]; intros C n.
  - exists []. split; [now rewrite app_nil_r|]. intros H. now contradiction H.
  - rewrite apply_r_cons.
    destruct (IH (fst (g_mutate C n' v' r)) n) as (l2 & L2 & H2).
    destruct (mutate_cases C n' v' r)
      as [(S & E)|[(old & S & A & E)|(e & L & A & E)]]; rewrite E in *; cbn [fst] in *.
    + exists l2. split; [assumption|]. intros H.
      destruct (H2 H) as (m & I & a & b & c & d & g). exists m. repeat split; auto. now right.
    + exists (mkM n' old v' r false :: l2). split.
      * rewrite L2. cbn [add_log mlog]. now rewrite <- app_assoc.
      * intros H. destruct (H2 H) as (m & I & a & b & c & d & g). exists m.
        split; [now right|]. repeat split; auto. now right.
    + destruct (applied_facts C n' v' r e L) as ((Ma & Mc & _) & Lg & Sn & So & _).
      exists (mkM n' (value e) v' r true :: l2). split.
      * rewrite L2, Lg. now rewrite <- app_assoc.
      * intros H.
        destruct (optZ_dec (stored (apply_muts_r r (applied C n' v' r e) props) n)
                           (stored (applied C n' v' r e) n)) as [Eq|Ne].
        -- assert (n = n').
           { destruct (Z.eq_dec n n') as [|Hn]; [assumption|]. exfalso. apply H.
             rewrite Eq. now apply So. }
           subst n'. exists (mkM n (value e) v' r true). split; [now left|].
           repeat split; cbn; auto.
        -- destruct (H2 Ne) as (m & I & a & b & c & d & g). exists m. split; [now right|].
           rewrite Ma, Mc in g. repeat split; auto. now right.
Qed.

(* a refused proposal is logged as unapproved, whatever the reason *)
Lemma r_refused_logged : forall r C pre n v post old,
  let C1 := apply_muts_r r C pre in
  stored C1 n = Some old -> approved_by C1 n old v r = false ->
  let c := apply_muts_r r C (pre ++ (n, v) :: post) in
  In (mkM n old v r false) (mlog c) /\
  exists l, mlog c = mlog C1 ++ mkM n old v r false :: l.
Proof.
  intros r C pre n v post old C1 S A c. subst c.
  rewrite apply_r_app, apply_r_cons. fold C1.
  destruct (mutate_cases C1 n v r) as [(S' & E)|[(old' & S' & A' & E)|(e & L & A' & E)]].
  - congruence.
  - assert (old' = old) by congruence. subst old'. rewrite E. cbn [fst].
    destruct (fr_log _ _ (r_frame r post (add_log C1 (mkM n old v r false)))) as (l & Hl).
    cbn [add_log mlog] in Hl. rewrite <- app_assoc in Hl. cbn [app] in Hl.
    split; [|eauto]. rewrite Hl. apply in_app_iff. right. now left.
  - assert (value e = old).
    { apply stored_lookup in S. destruct S as (e' & L' & <-). congruence. }
    congruence.
Qed.

(* ---- the complete child: specified mutations, then random ones ---- *)

Definition authorised_entry_full (a : bool) (c : option oracle) (muts : list (Z * val)) (n : Z) (m : mrec) : Prop :=
  m_gene m = n /\ m_approved m = true /\ gate a c m = true /\
  ((m_reason m = RReplication /\ In (n, m_new m) muts) \/ m_reason m = RRandom).

Lemma child_full_facts_proof : forall G muts inh ds, wf G ->
  let c := g_replicate_full G muts inh ds in
  allow c = allow G /\ cb c = cb G /\ generation c = generation G + 1 /\
  parent c = Some (ghash G) /\ mrate c = mrate G /\ wf c /\
  map skel (tbl c) = map skel (tbl G) /\
  exists l, mlog c = mlog (g_replicate G muts inh) ++ l.
Proof.
  intros G muts inh ds W c. subst c.
  destruct (replicate_full_props G muts inh ds) as (props & -> & _).
  destruct (child_facts_proof G muts inh W) as (A & C & Ge & P & Wc & Sk).
  assert (R : mrate (g_replicate G muts inh) = mrate G).
  { rewrite replicate_unfold.
    destruct (pre_muts_facts G inh W) as (_ & _ & _ & _ & _ & _ & R0).
    destruct (muts_frame muts (pre_muts G inh)) as [(_ & _ & _ & _ & Mr) _ _ _]. congruence. }
  unfold apply_random.
  destruct (r_frame RRandom props (g_replicate G muts inh)) as [(Ma & Mc & Mg & Mp & Mr) Lg _ Wf].
  destruct (r_skel RRandom props (g_replicate G muts inh)) as (Sk' & _).
  repeat split; try congruence; auto.
Qed.

Lemma child_full_differs_proof : forall G muts inh ds n, wf G ->
  let c := g_replicate_full G muts inh ds in
  stored c n <> stored G n ->
  exists m, In m (mlog c) /\ authorised_entry_full (allow G) (cb G) muts n m.
Proof.
  intros G muts inh ds n W c H. subst c.
  destruct (replicate_full_props G muts inh ds) as (props & E & _). rewrite E in *. clear E.
  destruct (child_facts_proof G muts inh W) as (A & C & _).
  unfold apply_random in *.
  destruct (r_changed RRandom props (g_replicate G muts inh) n) as (l & Lg & Hc).
  rewrite Lg.
  destruct (optZ_dec (stored (apply_muts_r RRandom (g_replicate G muts inh) props) n)
                     (stored (g_replicate G muts inh) n)) as [Eq|Ne].
  - rewrite Eq in H. destruct (child_differs_proof G muts inh n W H) as (m & I & a & b & c & d & g).
    exists m. split; [apply in_app_iff; now left|]. repeat split; auto.
  - destruct (Hc Ne) as (m & I & a & b & c & d & g). rewrite A, C in g.
    exists m. split; [apply in_app_iff; now right|]. repeat split; auto.
Qed.

Lemma child_full_replay_proof : forall G muts inh ds, wf G -> allow G = false ->
  let c := g_replicate_full G muts inh ds in
  Forall (entry_ok (cb G)) (mlog c) /\
  forall n v, stored G n = Some v ->
    stored c n = Some (replay (mlog c) n v) /\ origs n v (mlog c).
Proof.
  intros G muts inh ds W Hal c. subst c.
  destruct (replicate_full_props G muts inh ds) as (props & -> & _).
  destruct (child_facts_proof G muts inh W) as (A & C & _).
  destruct (child_replay_proof G muts inh W Hal) as (Ok1 & V1).
  unfold apply_random.
  destruct (r_chain RRandom props (g_replicate G muts inh)) as (l & [_ Lg Ok Val]); [congruence|].
  rewrite Lg. rewrite C in Ok. split; [apply Forall_app; auto|].
  intros n v S. destruct (V1 n v S) as (S1 & O1). destruct (Val n _ S1) as (S2 & O2).
  rewrite replay_app. split; [assumption|]. apply origs_app. auto.
Qed.

Lemma replicate_full_wf : forall G muts inh ds, wf G -> wf (g_replicate_full G muts inh ds).
Proof.
  intros G muts inh ds W.
  now destruct (child_full_facts_proof G muts inh ds W) as (_ & _ & _ & _ & _ & Wc & _).
Qed.

(* ====================================================================== *)
(* 10. well-formedness (the table is a dict) is invariant                   *)

Lemma empty_wf : forall a c rate, wf (empty_genome_r a c rate).
Proof. intros. unfold wf. cbn. constructor. Qed.

Lemma init_wf : forall a c rate genes, wf (init_genome_r a c rate genes).
Proof.
  intros a c rate genes. unfold init_genome_r.
  assert (H : forall G0, wf G0 -> wf (fold_left (fun G g => fst (g_add G g)) genes G0)).
  { induction genes as [|g genes IH]; intros G0 W0; [exact W0|].
    cbn [fold_left]. apply IH. now apply (fr_wf _ _ (add_frame G0 g)). }
  apply H. apply empty_wf.
Qed.

Lemma replicate_wf : forall G muts inh, wf G -> wf (g_replicate G muts inh).
Proof. intros G muts inh W. now destruct (child_facts_proof G muts inh W) as (_ & _ & _ & _ & Wc & _). Qed.

Lemma Forall_set_nth : forall (P : genome -> Prop) W i G,
  Forall P W -> P G -> Forall P (set_nth W i G).
Proof.
  induction W as [|x W IH]; intros [|i] G H HG; cbn [set_nth]; auto;
    inversion H; subst; constructor; auto.
Qed.

Lemma step_wf : forall W io, Forall wf W -> Forall wf (fst (step W io)).
Proof.
  intros W [i o] H. destruct (nth_error W i) as [G|] eqn:E.
  - rewrite (step_world W i o G E).
    assert (WG : wf G) by (eapply Forall_forall; [exact H | eapply nth_error_In; eauto]).
    apply Forall_app. split.
    + apply Forall_set_nth; [assumption|]. now apply (wfr_wf _ _ (step_wframe G o)).
    + destruct o; cbn [born]; try constructor; [now apply replicate_full_wf | constructor].
  - now rewrite step_bad.
Qed.

Lemma run_wf : forall ops W, Forall wf W -> Forall wf (run W ops).
Proof.
  induction ops as [|io ops IH]; intros W H; [exact H|].
  rewrite run_cons. apply IH. now apply step_wf.
Qed.

(* ====================================================================== *)
(* 11. the statements used by Property.v                                    *)

Lemma unauthorised_ops_proof : forall W ops i G,
  nth_error W i = Some G -> allow G = false -> never_enabled (ops_for i ops) ->
  exists G' newlog,
    nth_error (run W ops) i = Some G' /\ allow G' = false /\ mlog G' = mlog G ++ newlog /\
    Forall (entry_ok_in (installed G (ops_for i ops))) newlog /\
    forall n v, stored G n = Some v ->
      stored G' n = Some (replay newlog n v) /\ origs n v newlog.
Proof.
  intros W ops i G H Hal Hne.
  destruct (run_gchain (installed G (ops_for i ops)) (ops_for i ops) G Hal) as (l & [A _ L O V]);
    [now left | assumption | intros c Hc; now right |].
  exists (g_run G (ops_for i ops)), l. split; [now apply run_proj | auto].
Qed.

(* without assignments of on_mutation the callbacks in force are the one the
   history starts with *)
Lemma installed_plain : forall G ops,
  (forall c, ~ In (OSetCb c) ops) -> forall c, installed G ops c -> c = cb G.
Proof. intros G ops H c [E|I]; [exact E | exfalso; eapply H; eauto]. Qed.

Definition adds_no_new_gene (G : genome) (ops : list gop) : Prop :=
  forall g, In (OAdd g) ops -> stored G (g_name g) <> None.

Lemma nothing_approved_proof : forall W ops i G,
  nth_error W i = Some G -> allow G = false -> never_enabled (ops_for i ops) ->
  (forall c, installed G (ops_for i ops) c -> cb_denies c) ->
  exists G' newlog fresh,
    nth_error (run W ops) i = Some G' /\
    mlog G' = mlog G ++ newlog /\ Forall (fun m => m_approved m = false) newlog /\
    (forall n v, stored G n = Some v -> stored G' n = Some v) /\
    vals G' = vals G ++ fresh /\
    Forall (fun nv => stored G (fst nv) = None /\
              exists g, In (OAdd g) (ops_for i ops) /\ nv = (g_name g, g_value g)) fresh /\
    (adds_no_new_gene G (ops_for i ops) -> vals G' = vals G /\ ghash G' = ghash G).
Proof.
  intros W ops i G H Hal Hne D.
  destruct (run_gchain (installed G (ops_for i ops)) (ops_for i ops) G Hal) as (l & [_ _ L O V]);
    [now left | assumption | intros c Hc; now right |].
  destruct (deny_run_vals (ops_for i ops) G Hal) as (fresh & Vf & Ff);
    [apply D; now left | assumption | intros c Hc; apply D; now right |].
  pose proof (denied_log_in _ _ D O) as Un.
  exists (g_run G (ops_for i ops)), l, fresh.
  split; [now apply run_proj|]. split; [assumption|]. split; [assumption|].
  split; [|split; [assumption|split; [assumption|]]].
  - intros n v S. destruct (V n v S) as (S' & _). now rewrite replay_unapproved in S'.
  - intros Hno. assert (fresh = []).
    { destruct fresh as [|nv fresh]; [reflexivity|]. exfalso.
      inversion Ff as [|? ? (Sn & g & Hin & ->) _]; subst. exact (Hno g Hin Sn). }
    subst fresh. rewrite app_nil_r in Vf. split; [assumption|]. unfold ghash. now rewrite Vf.
Qed.

Lemma refused_mutate_world_proof : forall W i G n v W',
  nth_error W i = Some G -> step W (i, OMutate n v) = (W', RetBool false) ->
  forall old, stored G n = Some old ->
  approved_by G n old v RUser = false /\
  nth_error W' i = Some (add_log G (mkM n old v RUser false)).
Proof.
  intros W i G n v W' H St old S.
  pose proof (step_target W i (OMutate n v) G H) as T. rewrite St in T. cbn [fst g_step] in T.
  assert (Hb : snd (g_mutate G n v RUser) = false).
  { unfold step in St. rewrite H in St. cbn [g_step] in St. now inversion St. }
  destruct (g_mutate G n v RUser) as [G1 b] eqn:E. cbn [snd fst] in *. subst b.
  apply mutate_false in E. destruct E as [(S' & _)|(old' & S' & A & ->)]; [congruence|].
  assert (old' = old) by congruence. subst old'. auto.
Qed.

Lemma refused_rollback_world_proof : forall W i G n W',
  nth_error W i = Some G -> step W (i, ORollback n) = (W', RetBool false) ->
  forall m cur, last_approved (mlog G) n = Some m -> stored G n = Some cur ->
  approved_by G n cur (m_orig m) RRollback = false /\
  nth_error W' i = Some (add_log G (mkM n cur (m_orig m) RRollback false)).
Proof.
  intros W i G n W' H St m cur Lm S.
  pose proof (step_target W i (ORollback n) G H) as T. rewrite St in T. cbn [fst g_step] in T.
  assert (Hb : snd (g_rollback G n) = false).
  { unfold step in St. rewrite H in St. cbn [g_step] in St. now inversion St. }
  destruct (g_rollback G n) as [G1 b] eqn:E. cbn [snd fst] in *. subst b.
  apply rollback_false_proof in E.
  destruct E as [(N & _)|(m' & Lm' & [(S' & _)|(cur' & S' & A & ->)])]; try congruence.
  assert (m' = m) by congruence. assert (cur' = cur) by congruence. subst. auto.
Qed.

Lemma log_append_only_proof : forall W ops i G,
  nth_error W i = Some G ->
  exists G' l, nth_error (run W ops) i = Some G' /\ mlog G' = mlog G ++ l.
Proof.
  intros W ops i G H. destruct (wfr_log _ _ (run_wframe (ops_for i ops) G)) as (l & L).
  exists (g_run G (ops_for i ops)), l. split; [now apply run_proj | assumption].
Qed.

Lemma replicate_preserves_proof : forall W i G muts inh ds W' r,
  nth_error W i = Some G -> step W (i, OReplicate muts inh ds) = (W', r) ->
  W' = W ++ [g_replicate_full G muts inh ds] /\ r = RetChild (length W) /\
  forall j Gj, nth_error W j = Some Gj -> nth_error W' j = Some Gj.
Proof.
  intros W i G muts inh ds W' r H St. rewrite (step_replicate W i G muts inh ds H) in St.
  inversion St; subst. repeat split. intros j Gj Hj.
  rewrite nth_error_app1; [assumption|]. apply nth_error_Some. congruence.
Qed.

Lemma untouched_proof : forall W ops i G,
  nth_error W i = Some G -> ops_for i ops = [] -> nth_error (run W ops) i = Some G.
Proof. intros W ops i G H E. rewrite (run_proj ops W i G H), E. reflexivity. Qed.

Lemma step_bool : forall W i G o,
  nth_error W i = Some G ->
  (forall muts inh ds, o <> OReplicate muts inh ds) -> (forall ctx, o <> OExpress ctx) ->
  is_config o = false ->
  step W (i, o) = (set_nth W i (fst (g_step G o)), RetBool (snd (g_step G o))).
Proof.
  intros W i G o H Hr He Hc. unfold step. rewrite H.
  destruct o; try discriminate; cbn [born]; try (now rewrite app_nil_r).
  - exfalso. eapply Hr; reflexivity.
  - exfalso. eapply He; reflexivity.
Qed.

Lemma rollback_world_proof : forall W i G n w W1 v ops,
  nth_error W i = Some G -> step W (i, OMutate n w) = (W1, RetBool true) ->
  stored G n = Some v ->
  exists G1 G2 l2,
    nth_error W1 i = Some G1 /\ stored G1 n = Some w /\
    nth_error (run W1 ops) i = Some G2 /\ mlog G2 = mlog G1 ++ l2 /\
    ((forall m, In m l2 -> m_gene m = n -> m_approved m = false) ->
     exists cur, stored G2 n = Some cur /\
       forall W3 r, step (run W1 ops) (i, ORollback n) = (W3, r) ->
         (approved_by G2 n cur v RRollback = true ->
            r = RetBool true /\ exists G3, nth_error W3 i = Some G3 /\ stored G3 n = Some v) /\
         (approved_by G2 n cur v RRollback = false ->
            r = RetBool false /\
            nth_error W3 i = Some (add_log G2 (mkM n cur v RRollback false)))).
Proof.
  intros W i G n w W1 v ops H St Sv.
  rewrite (step_bool W i G (OMutate n w) H) in St by (intros; (discriminate || reflexivity)).
  cbn [g_step] in St. inversion St as [[HW Hb]]. clear St.
  destruct (g_mutate G n w RUser) as [G1 b] eqn:E. cbn [fst snd] in *. subst b.
  assert (H1 : nth_error (set_nth W i G1) i = Some G1) by (eapply nth_set_nth_same; eauto).
  pose proof (run_proj ops _ i G1 H1) as H2.
  destruct (wfr_log _ _ (run_wframe (ops_for i ops) G1)) as (l2 & L2).
  pose proof (mutate_true _ _ _ _ _ E) as (e & Le & _ & EG1).
  destruct (applied_facts G n w RUser e Le) as (_ & _ & Sw & _). rewrite <- EG1 in Sw.
  exists G1, (g_run G1 (ops_for i ops)), l2.
  split; [assumption|]. split; [assumption|]. split; [assumption|]. split; [assumption|].
  intros Hno.
  destruct (rollback_restores_proof G n w RUser G1 v (ops_for i ops) l2 E Sv L2 Hno)
    as (cur & Sc & Hyes & Hnot).
  exists cur. split; [assumption|]. intros W3 r St3.
  rewrite (step_bool _ i _ (ORollback n) H2) in St3 by (intros; (discriminate || reflexivity)).
  cbn [g_step] in St3. inversion St3 as [[HW3 Hr]]. split.
  - intros A. destruct (Hyes A) as (G3 & E3 & S3 & _). rewrite E3. cbn [fst snd].
    split; [reflexivity|]. exists G3. split; [|assumption].
    eapply nth_set_nth_same; eauto.
  - intros A. rewrite (Hnot A). cbn [fst snd]. split; [reflexivity|].
    eapply nth_set_nth_same; eauto.
Qed.

(* ====================================================================== *)
(* 12. the child's expression levels                                        *)

Lemma map_id_on : forall (f : entry -> entry) t, (forall e, In e t -> f e = e) -> map f t = t.
Proof.
  induction t as [|a t IH]; intros H; cbn [map]; [reflexivity|].
  rewrite H by now left. f_equal. apply IH. intros e He. apply H. now right.
Qed.

Lemma put_relevel_map : forall t n e0 l,
  NoDup (map key t) -> lookup t n = Some e0 ->
  put t (relevel e0 l) = map (fun e => if key e =? n then relevel e l else e) t.
Proof.
  induction t as [|a t IH]; intros n e0 l ND L; [discriminate|].
  cbn [lookup] in L. cbn [put map]. cbn [map] in ND. inversion ND as [|? ? Hnot ND']; subst.
  change (key (relevel e0 l)) with (key e0).
  destruct (key a =? n) eqn:E.
  - inversion L; subst a. rewrite Z.eqb_refl. f_equal. symmetry. apply map_id_on.
    intros e He. destruct (key e =? n) eqn:E2; [|reflexivity].
    apply Z.eqb_eq in E2. apply Z.eqb_eq in E. exfalso. apply Hnot. rewrite E, <- E2.
    now apply in_map.
  - rewrite (lookup_key _ _ _ L), E. f_equal. now apply IH.
Qed.

Lemma inherit_tbl : forall P C,
  NoDup (map key P) -> wf C ->
  tbl (inherit_levels C P) =
  map (fun e => match lookup P (key e) with Some p => relevel e (e_level p) | None => e end) (tbl C).
Proof.
  induction P as [|p P IH]; intros C NP WC; cbn [inherit_levels fold_left].
  - cbn [lookup]. symmetry. apply map_id.
  - fold (inherit_levels (fst (g_set_level C (key p) (e_level p))) P).
    cbn [map] in NP. inversion NP as [|? ? Hnot NP']; subst.
    set (C1 := fst (g_set_level C (key p) (e_level p))).
    assert (T1 : tbl C1 = map (fun e => if key e =? key p then relevel e (e_level p) else e) (tbl C)).
    { subst C1. destruct (set_level_cases C (key p) (e_level p)) as [(S & E)|(e & L & E)];
        rewrite E; cbn [fst set_tbl tbl].
      - symmetry. apply map_id_on. intros e He.
        destruct (key e =? key p) eqn:E2; [|reflexivity]. apply Z.eqb_eq in E2.
        apply stored_None in S. apply lookup_None_iff in S. exfalso. apply S.
        rewrite <- E2. now apply in_map.
      - now apply put_relevel_map. }
    assert (W1 : wf C1) by (apply (fr_wf _ _ (set_level_frame C (key p) (e_level p))); exact WC).
    rewrite (IH C1 NP' W1), T1, map_map. apply map_ext. intros e. cbn [lookup].
    destruct (key e =? key p) eqn:E.
    + change (key (relevel e (e_level p))) with (key e). apply Z.eqb_eq in E. rewrite E.
      rewrite (proj2 (lookup_None_iff P (key p)) Hnot), Z.eqb_refl. reflexivity.
    + rewrite Z.eqb_sym, E. reflexivity.
Qed.

Lemma child_levels_proof : forall G muts ds, wf G ->
  map e_level (tbl (g_replicate_full G muts true ds)) = map e_level (tbl G) /\
  map e_level (tbl (g_replicate_full G muts false ds)) = map (fun e => g_default (e_gene e)) (tbl G).
Proof.
  intros G muts ds W. destruct (child_base_facts G W) as (T & _).
  destruct (replicate_full_props G muts true ds) as (p1 & -> & _).
  destruct (replicate_full_props G muts false ds) as (p2 & -> & _).
  unfold apply_random.
  destruct (r_skel RRandom p1 (g_replicate G muts true)) as (_ & R1).
  destruct (r_skel RRandom p2 (g_replicate G muts false)) as (_ & R2).
  rewrite R1, R2. clear R1 R2.
  rewrite !replicate_unfold.
  destruct (muts_skel muts (pre_muts G true)) as (_ & L1).
  destruct (muts_skel muts (pre_muts G false)) as (_ & L2).
  rewrite L1, L2. unfold pre_muts. split.
  - assert (Wc : wf (child_base G)).
    { unfold wf. rewrite T, map_map. exact W. }
    rewrite (inherit_tbl (tbl G) (child_base G) W Wc), T, !map_map.
    apply map_ext_in. intros e He.
    change (key (fresh_entry (e_gene e))) with (key e).
    now rewrite (NoDup_lookup _ _ W He).
  - rewrite T, map_map. reflexivity.
Qed.

Lemma express_dict_proof : forall G ctx n v, wf G ->
  (In (n, v) (g_express G ctx) <->
   exists e, lookup (tbl G) n = Some e /\ value e = v /\
     e_level e <> Silenced /\ g_type (e_gene e) <> Dormant /\
     (g_type (e_gene e) = Conditional -> In (key e) ctx)) /\
  NoDup (map fst (g_express G ctx)).
Proof.
  intros G ctx n v W. split; [now apply express_lookup_proof | now apply express_keys_unique].
Qed.

Lemma wf_invariant_proof : forall a c rate genes ops, Forall wf (run [init_genome_r a c rate genes] ops).
Proof.
  intros a c rate genes ops. apply run_wf. constructor; [apply init_wf | constructor].
Qed.

(* ====================================================================== *)
(* 13. operations whose specific change is not authorised change nothing    *)

(* the call is a re-add, or a mutate / rollback whose specific change the
   gate does not pass; expression changes, replicate and express never need
   authorisation *)
Definition unauthorised (G : genome) (o : gop) : Prop :=
  match o with
  | OAdd g => stored G (g_name g) <> None /\ allow G = false
  | OMutate n v => forall old, stored G n = Some old -> approved_by G n old v RUser = false
  | ORollback n => forall m cur, last_approved (mlog G) n = Some m -> stored G n = Some cur ->
                     approved_by G n cur (m_orig m) RRollback = false
  | _ => True
  end.

Fixpoint all_unauthorised (G : genome) (ops : list gop) : Prop :=
  match ops with
  | [] => True
  | o :: r => unauthorised G o /\ all_unauthorised (fst (g_step G o)) r
  end.

Lemma unauthorised_mutate_tbl : forall G n v r,
  (forall old, stored G n = Some old -> approved_by G n old v r = false) ->
  tbl (fst (g_mutate G n v r)) = tbl G /\
  Forall (fun m => m_approved m = false) (skipn (length (mlog G)) (mlog (fst (g_mutate G n v r)))).
Proof.
  intros G n v r H.
  destruct (mutate_cases G n v r) as [(S & E)|[(old & S & A & E)|(e & L & A & E)]];
    rewrite E; cbn [fst].
  - split; [reflexivity|]. rewrite skipn_all. constructor.
  - split; [reflexivity|]. cbn [add_log mlog]. rewrite skipn_app, skipn_all, Nat.sub_diag.
    cbn [skipn app]. constructor; [reflexivity | constructor].
  - rewrite (H (value e)) in A; [discriminate|]. apply stored_lookup. eauto.
Qed.

Lemma unauthorised_step : forall G o,
  unauthorised G o ->
  vals (fst (g_step G o)) = vals G /\
  Forall (fun m => m_approved m = false) (skipn (length (mlog G)) (mlog (fst (g_step G o)))).
Proof.
  intros G o U.
  assert (Hnil : forall X : genome, mlog X = mlog G ->
            Forall (fun m => m_approved m = false) (skipn (length (mlog G)) (mlog X))).
  { intros X ->. rewrite skipn_all. constructor. }
  destruct o; cbn [g_step unauthorised] in *.
  - destruct U as (U & Hal).
    destruct (add_cases G g) as [(_ & _ & E)|([S|A] & E)]; rewrite E; cbn [fst]; try congruence.
    split; [reflexivity | now apply Hnil].
  - destruct (unauthorised_mutate_tbl G n v RUser U) as (T & F). unfold vals. now rewrite T.
  - destruct (rollback_cases G n) as [(_ & E)|(m & Lm & E)]; rewrite E.
    + split; [reflexivity | now apply Hnil].
    + destruct (unauthorised_mutate_tbl G n (m_orig m) RRollback) as (T & F).
      * intros old S. now apply (U m old).
      * unfold vals. now rewrite T.
  - split; [apply set_level_vals|]. apply Hnil.
    destruct (set_level_cases G n l) as [(_ & E)|(e & L & E)]; rewrite E; reflexivity.
  - split; [apply set_level_vals|]. apply Hnil.
    destruct (set_level_cases G n Silenced) as [(_ & E)|(e & L & E)]; rewrite E; reflexivity.
  - split; [apply set_level_vals|]. apply Hnil.
    destruct (set_level_cases G n Normal) as [(_ & E)|(e & L & E)]; rewrite E; reflexivity.
  - split; [reflexivity | now apply Hnil].
  - split; [reflexivity | now apply Hnil].
  - split; [reflexivity | now apply Hnil].
  - split; [reflexivity | now apply Hnil].
  - split; [reflexivity | now apply Hnil].
Qed.

Lemma unauthorised_run : forall ops G,
  all_unauthorised G ops ->
  vals (g_run G ops) = vals G /\ ghash (g_run G ops) = ghash G /\
  exists l, mlog (g_run G ops) = mlog G ++ l /\ Forall (fun m => m_approved m = false) l.
Proof.
  induction ops as [|o ops IH]; intros G U.
  - repeat split. exists []. split; [now rewrite app_nil_r | constructor].
  - destruct U as (U1 & U2). rewrite g_run_cons.
    destruct (unauthorised_step G o U1) as (V1 & F1).
    destruct (wfr_log _ _ (step_wframe G o)) as (l1 & L1).
    destruct (IH (fst (g_step G o))) as (V2 & _ & l2 & L2 & F2); [assumption |].
    rewrite L1, skipn_app, skipn_all, Nat.sub_diag in F1. cbn [skipn app] in F1.
    split; [congruence|]. split; [unfold ghash; congruence|].
    exists (l1 ++ l2). split; [now rewrite L2, L1, app_assoc | now apply Forall_app].
Qed.

Lemma unauthorised_sequence_proof : forall W ops i G,
  nth_error W i = Some G -> all_unauthorised G (ops_for i ops) ->
  exists G' l,
    nth_error (run W ops) i = Some G' /\ vals G' = vals G /\ ghash G' = ghash G /\
    mlog G' = mlog G ++ l /\ Forall (fun m => m_approved m = false) l.
Proof.
  intros W ops i G H U.
  destruct (unauthorised_run (ops_for i ops) G U) as (V & Hh & l & L & F).
  exists (g_run G (ops_for i ops)), l. split; [now apply run_proj | auto].
Qed.

(* ====================================================================== *)
(* 14. gene names are strings: every spelling is its own gene               *)

(* a Python str: code points 0 .. 0x10FFFF *)
Definition valid_name (s : list Z) : Prop := Forall (fun c => 0 <= c < name_base) s.

Lemma raw_code_nonneg : forall s, valid_name s -> 0 <= raw_code s.
Proof.
  induction s as [|c s IH]; intros H; cbn [raw_code]; [lia|].
  inversion H as [|? ? Hc Hs]; subst. specialize (IH Hs). unfold name_base in *. lia.
Qed.

Lemma raw_code_inj : forall s s',
  valid_name s -> valid_name s' -> raw_code s = raw_code s' -> s = s'.
Proof.
  induction s as [|c s IH]; intros [|c' s'] H H' E; cbn [raw_code] in E.
  - reflexivity.
  - inversion H' as [|? ? Hc Hs]; subst. pose proof (raw_code_nonneg s' Hs). unfold name_base in *. lia.
  - inversion H as [|? ? Hc Hs]; subst. pose proof (raw_code_nonneg s Hs). unfold name_base in *. lia.
  - inversion H as [|? ? Hc Hs]; inversion H' as [|? ? Hc' Hs']; subst.
    pose proof (raw_code_nonneg s Hs). pose proof (raw_code_nonneg s' Hs').
    assert (raw_code s = raw_code s' /\ c = c') as [E1 ->] by (unfold name_base in *; lia).
    f_equal. now apply IH.
Qed.

Lemma plain_index_spec : forall s i, plain_index s = Some i -> s = [103; 48 + i] /\ 0 <= i <= 9.
Proof.
  intros [|g [|d [|x r]]] i H; cbn [plain_index] in H; try discriminate.
  destruct (g =? 103) eqn:E1; [|discriminate]. destruct (48 <=? d) eqn:E2; [|discriminate].
  destruct (d <=? 57) eqn:E3; [|discriminate]. cbn [andb] in H. inversion H; subst.
  apply Z.eqb_eq in E1. apply Z.leb_le in E2. apply Z.leb_le in E3. subst g.
  split; [f_equal; f_equal; lia | lia].
Qed.

(* the integer the model keeps for a name determines the string *)
Lemma name_code_inj : forall s s',
  valid_name s -> valid_name s' -> name_code s = name_code s' -> s = s'.
Proof.
  intros s s' V V' E. unfold name_code in E.
  pose proof (raw_code_nonneg s V). pose proof (raw_code_nonneg s' V').
  destruct (plain_index s) as [i|] eqn:P; destruct (plain_index s') as [i'|] eqn:P'.
  - apply plain_index_spec in P. apply plain_index_spec in P'.
    destruct P as [-> _]. destruct P' as [-> _]. now subst.
  - apply plain_index_spec in P. lia.
  - apply plain_index_spec in P'. lia.
  - apply raw_code_inj; auto. lia.
Qed.

(* the name a call is made with (add_gene: the name of the gene handed in);
   replicate and express name no single gene and change nothing in the genome
   they are called on *)
Definition addresses (o : gop) (n : Z) : bool :=
  match o with
  | OAdd g => g_name g =? n
  | OMutate m _ | ORollback m | OSetExpr m _ | OSilence m | OActivate m => m =? n
  | OReplicate _ _ _ | OExpress _ | OSetAllow _ | OSetCb _ | OSetRate _ => false
  end.

Lemma mutate_lookup_other : forall G m v r n, m <> n ->
  lookup (tbl (fst (g_mutate G m v r))) n = lookup (tbl G) n.
Proof.
  intros G m v r n Hn. unfold g_mutate.
  destruct (lookup (tbl G) m) as [e|] eqn:L; [|reflexivity].
  destruct (approved_by G m (value e) v r); cbn [fst add_log set_tbl tbl]; [|reflexivity].
  apply lookup_put_other. change (key (mkEntry (with_value (e_gene e) v) (e_level e))) with (g_name (e_gene e)).
  apply lookup_key in L. unfold key in L. congruence.
Qed.

Lemma set_level_lookup_other : forall G m l n, m <> n ->
  lookup (tbl (fst (g_set_level G m l))) n = lookup (tbl G) n.
Proof.
  intros G m l n Hn. unfold g_set_level.
  destruct (lookup (tbl G) m) as [e|] eqn:L; [|reflexivity].
  cbn [fst set_tbl tbl]. apply lookup_put_other.
  change (key (mkEntry (e_gene e) l)) with (key e). apply lookup_key in L. congruence.
Qed.

(* one call made with another name leaves the whole entry of n alone: gene
   (value, type, description, required, default expression) and expression
   level -- for every allow_mutations setting and every callback *)
Lemma step_lookup_other : forall G o n, addresses o n = false ->
  lookup (tbl (fst (g_step G o))) n = lookup (tbl G) n.
Proof.
  intros G o n H. destruct o; cbn [g_step addresses fst] in *; try reflexivity;
    try (apply Z.eqb_neq in H).
  - unfold g_add. destruct (lookup (tbl G) (g_name g)); [destruct (allow G)|]; cbn [fst set_tbl tbl];
      try reflexivity; now apply lookup_put_other.
  - now apply mutate_lookup_other.
  - unfold g_rollback. destruct (last_approved (mlog G) n0); [now apply mutate_lookup_other | reflexivity].
  - now apply set_level_lookup_other.
  - now apply set_level_lookup_other.
  - now apply set_level_lookup_other.
Qed.

Lemma run_lookup_other : forall ops G n,
  (forall o, In o ops -> addresses o n = false) ->
  lookup (tbl (g_run G ops)) n = lookup (tbl G) n.
Proof.
  induction ops as [|o ops IH]; intros G n H; [reflexivity|].
  rewrite g_run_cons, IH by (intros; apply H; now right).
  apply step_lookup_other. apply H. now left.
Qed.

Lemma other_names_untouched_proof : forall W ops i G n,
  nth_error W i = Some G ->
  (forall o, In o (ops_for i ops) -> addresses o n = false) ->
  exists G', nth_error (run W ops) i = Some G' /\ lookup (tbl G') n = lookup (tbl G) n.
Proof.
  intros W ops i G n H Ho. exists (g_run G (ops_for i ops)). split.
  - now apply run_proj.
  - now apply run_lookup_other.
Qed.

(* in terms of spellings: whatever is done to genome i under the name s' --
   and to its relatives under any name -- the gene named s <> s' is untouched *)
Lemma other_spelling_untouched_proof : forall W ops i G s s',
  valid_name s -> valid_name s' -> s <> s' ->
  nth_error W i = Some G ->
  (forall o n, In o (ops_for i ops) -> addresses o n = true -> n = name_code s') ->
  exists G', nth_error (run W ops) i = Some G' /\
             lookup (tbl G') (name_code s) = lookup (tbl G) (name_code s) /\
             stored G' (name_code s) = stored G (name_code s).
Proof.
  intros W ops i G s s' Vs Vs' Hne H Ho.
  destruct (other_names_untouched_proof W ops i G (name_code s) H) as (G' & R & L).
  - intros o Hin. destruct (addresses o (name_code s)) eqn:A; [|reflexivity].
    exfalso. apply Hne. apply name_code_inj; auto. eapply Ho; eauto.
  - exists G'. repeat split; auto. unfold stored. now rewrite L.
Qed.

(* ====================================================================== *)
(* 15. configuration attributes assigned on a live genome: the             *)
(*     authorisation of a call is the configuration when the call is made  *)

(* the call o, made on a genome in state Gk, is one that changes the value
   stored under n AND passes the gate as Gk is configured: a re-add while
   allow_mutations is on, or a mutate / rollback that allow_mutations or the
   callback installed in Gk authorises for that very change *)
Definition authorised_change (Gk : genome) (o : gop) (n : Z) : Prop :=
  match o with
  | OAdd g => g_name g = n /\ allow Gk = true
  | OMutate m v => m = n /\ exists old, stored Gk n = Some old /\ approved_by Gk n old v RUser = true
  | ORollback m => m = n /\ exists mr old, last_approved (mlog Gk) n = Some mr /\ stored Gk n = Some old /\
                             approved_by Gk n old (m_orig mr) RRollback = true
  | _ => False
  end.

Lemma mutate_keeps_or_authorised : forall G m w r n v,
  stored G n = Some v ->
  stored (fst (g_mutate G m w r)) n = Some v \/
  (m = n /\ approved_by G n v w r = true).
Proof.
  intros G m w r n v S.
  destruct (mutate_cases G m w r) as [(S' & E)|[(old & S' & A & E)|(e & L & A & E)]]; rewrite E; cbn [fst]; auto.
  destruct (Z.eq_dec m n) as [->|Hn].
  - right. split; [reflexivity|]. apply stored_lookup in S. destruct S as (e' & L' & <-). congruence.
  - left. destruct (applied_facts G m w r e L) as (_ & _ & _ & So & _). rewrite So by congruence. exact S.
Qed.

Lemma step_keeps_or_authorised : forall G o n v,
  stored G n = Some v ->
  stored (fst (g_step G o)) n = Some v \/ authorised_change G o n.
Proof.
  intros G o n v S. destruct o; cbn [g_step authorised_change fst]; auto.
  - destruct (add_cases G g) as [(_ & _ & E)|([S'|A] & E)]; rewrite E; cbn [fst]; auto.
    + left. unfold stored in *. cbn [set_tbl tbl]. rewrite lookup_put_other; [exact S|].
      change (key (mkEntry g (g_default g))) with (g_name g). intros Hk. rewrite Hk in S'.
      unfold stored in S'. rewrite S' in S. discriminate.
    + destruct (Z.eq_dec (g_name g) n) as [Hn|Hn]; [right; auto|].
      left. unfold stored in *. cbn [set_tbl tbl]. rewrite lookup_put_other; [exact S|]. exact Hn.
  - destruct (mutate_keeps_or_authorised G n0 v0 RUser n v S) as [K|(-> & A)]; [now left|].
    right. split; [reflexivity|]. eauto.
  - destruct (rollback_cases G n0) as [(_ & E)|(m & Lm & E)]; rewrite E; [now left|].
    destruct (mutate_keeps_or_authorised G n0 (m_orig m) RRollback n v S) as [K|(-> & A)]; [now left|].
    right. split; [reflexivity|]. eauto.
  - left. destruct (set_level_cases G n0 l) as [(_ & E)|(e & L & E)]; rewrite E; cbn [fst]; [exact S|].
    now rewrite (relevel_stored G n0 e l n L).
  - left. destruct (set_level_cases G n0 Silenced) as [(_ & E)|(e & L & E)]; rewrite E; cbn [fst]; [exact S|].
    now rewrite (relevel_stored G n0 e Silenced n L).
  - left. destruct (set_level_cases G n0 Normal) as [(_ & E)|(e & L & E)]; rewrite E; cbn [fst]; [exact S|].
    now rewrite (relevel_stored G n0 e Normal n L).
Qed.

(* over any history: a stored value that is no longer what it was has been
   changed by a call that the configuration OF THE MOMENT OF THAT CALL
   authorised -- whatever the configuration was before (at construction
   included) and whatever it became afterwards *)
Lemma run_change_attributed : forall ops G n v,
  stored G n = Some v ->
  stored (g_run G ops) n = Some v \/
  exists pre o post, ops = pre ++ o :: post /\ stored (g_run G pre) n = Some v /\
                     authorised_change (g_run G pre) o n.
Proof.
  induction ops as [|o ops IH]; intros G n v S; [now left|].
  rewrite g_run_cons.
  destruct (step_keeps_or_authorised G o n v S) as [K|A].
  - destruct (IH _ n v K) as [K'|(pre & o' & post & -> & Sp & A)]; [now left|].
    right. exists (o :: pre), o', post. split; [reflexivity|]. rewrite g_run_cons. auto.
  - right. exists [], o, ops. auto.
Qed.

Lemma change_attributed_proof : forall W ops i G n v,
  nth_error W i = Some G -> stored G n = Some v ->
  exists G', nth_error (run W ops) i = Some G' /\
    (stored G' n = Some v \/
     exists pre o post Gk, ops_for i ops = pre ++ o :: post /\ Gk = g_run G pre /\
                           stored Gk n = Some v /\ authorised_change Gk o n).
Proof.
  intros W ops i G n v H S. exists (g_run G (ops_for i ops)). split; [now apply run_proj|].
  destruct (run_change_attributed (ops_for i ops) G n v S) as [K|(pre & o & post & E & Sp & A)]; [now left|].
  right. exists pre, o, post, (g_run G pre). auto.
Qed.

(* an assignment changes the attribute and nothing else: genes, expression
   levels, values, hash, log and lineage data of the genome stay, and no other
   genome of the lineage notices (children keep the configuration they were
   handed when they were made) *)
Lemma config_world_proof : forall W i G o W' r,
  nth_error W i = Some G -> is_config o = true -> step W (i, o) = (W', r) ->
  r = RetNothing /\ length W' = length W /\
  (forall j, j <> i -> nth_error W' j = nth_error W j) /\
  exists G', nth_error W' i = Some G' /\ tbl G' = tbl G /\ vals G' = vals G /\ ghash G' = ghash G /\
             mlog G' = mlog G /\ generation G' = generation G /\ parent G' = parent G /\
             allow G' = last_allow [o] (allow G) /\ cb G' = last_cb [o] (cb G) /\
             mrate G' = last_rate [o] (mrate G).
Proof.
  intros W i G o W' r H Hc St.
  destruct (config_step_facts G o Hc) as (T & L & Ge & Pa & _).
  pose proof (step_target W i o G H) as Tg. rewrite St in Tg. cbn [fst] in Tg.
  assert (EW : W' = set_nth W i (fst (g_step G o)) /\ r = RetNothing).
  { unfold step in St. rewrite H in St. destruct o; try discriminate; cbn [born] in St;
      rewrite app_nil_r in St; inversion St; auto. }
  destruct EW as (-> & ->). split; [reflexivity|]. split; [apply set_nth_length|]. split.
  - intros j Hj. apply nth_set_nth_other. exact Hj.
  - exists (fst (g_step G o)). split; [exact Tg|].
    destruct (run_config [o] G) as (A & C & R). cbn [g_run fold_left] in A, C, R.
    unfold vals, ghash, vals. rewrite T. repeat split; auto.
Qed.

(* the gate of mutate reads allow_mutations and on_mutation of the genome as
   it is when mutate is called: G is ANY state (reached through any history
   of calls and assignments) *)
Lemma live_gate_proof : forall W i G n v old,
  nth_error W i = Some G -> stored G n = Some old ->
  (allow G = false -> cb_approves (cb G) (mkM n old v RUser false) = false ->
     step W (i, OMutate n v) = (set_nth W i (add_log G (mkM n old v RUser false)), RetBool false)) /\
  (allow G = true \/ cb_approves (cb G) (mkM n old v RUser false) = true ->
     exists G', step W (i, OMutate n v) = (set_nth W i G', RetBool true) /\
                stored G' n = Some v /\ mlog G' = mlog G ++ [mkM n old v RUser true] /\
                allow G' = allow G /\ cb G' = cb G).
Proof.
  intros W i G n v old H S.
  assert (St : step W (i, OMutate n v) = (set_nth W i (fst (g_mutate G n v RUser)), RetBool (snd (g_mutate G n v RUser)))).
  { rewrite (step_bool W i G (OMutate n v) H) by (intros; (discriminate || reflexivity)). reflexivity. }
  rewrite St. pose proof (approved_by_gate G n old v RUser false) as Ga. unfold gate in Ga.
  destruct (mutate_cases G n v RUser) as [(S' & E)|[(old' & S' & A & E)|(e & L & A & E)]]; [congruence| |].
  - assert (old' = old) by congruence. subst old'. rewrite E. cbn [fst snd]. split; [reflexivity|].
    intros Hyes. rewrite A in Ga. symmetry in Ga. apply orb_false_iff in Ga. destruct Ga as (Ga1 & Ga2).
    destruct Hyes; congruence.
  - assert (Ev : value e = old).
    { apply stored_lookup in S. destruct S as (e' & L' & <-). congruence. }
    rewrite Ev in *. rewrite E. cbn [fst snd]. split.
    + intros Hal Hcb. rewrite A, Hal, Hcb in Ga. discriminate.
    + intros _. destruct (applied_facts G n v RUser e L) as ((Ma & Mc & _) & Lg & Sn & _).
      rewrite Ev in Lg. eexists. split; [reflexivity|]. auto.
Qed.

Lemma config_last_proof : forall W ops i G,
  nth_error W i = Some G ->
  exists G', nth_error (run W ops) i = Some G' /\
    allow G' = last_allow (ops_for i ops) (allow G) /\
    cb G' = last_cb (ops_for i ops) (cb G) /\
    mrate G' = last_rate (ops_for i ops) (mrate G).
Proof.
  intros W ops i G H. exists (g_run G (ops_for i ops)). split; [now apply run_proj|]. apply run_config.
Qed.

(* ====================================================================== *)
(* 16. long histories: the log keeps every attempt, however many            *)

(* one attempted mutation of an existing gene = exactly one new log entry,
   approved or not *)
Lemma mutate_logs_one : forall G n v r old,
  stored G n = Some old ->
  exists b, mlog (fst (g_mutate G n v r)) = mlog G ++ [mkM n old v r b] /\ snd (g_mutate G n v r) = b /\
            stored (fst (g_mutate G n v r)) n <> None.
Proof.
  intros G n v r old S.
  destruct (mutate_cases G n v r) as [(S' & E)|[(old' & S' & A & E)|(e & L & A & E)]]; [congruence| |]; rewrite E.
  - assert (old' = old) by congruence. subst. exists false. cbn [fst snd add_log mlog]. repeat split. 
    rewrite add_log_stored. congruence.
  - assert (Ev : value e = old).
    { apply stored_lookup in S. destruct S as (e' & L' & <-). congruence. }
    destruct (applied_facts G n v r e L) as (_ & Lg & Sn & _). rewrite Ev in Lg.
    exists true. cbn [fst snd]. repeat split; [assumption | congruence].
Qed.

(* k attempts in a row, refused or not, leave k entries: nothing is ever
   dropped from the front to make room *)
Lemma repeated_mutate_log : forall k G n v,
  stored G n <> None ->
  exists l, mlog (g_run G (repeat (OMutate n v) k)) = mlog G ++ l /\ length l = k /\
            Forall (fun m => m_gene m = n /\ m_new m = v /\ m_reason m = RUser) l.
Proof.
  induction k as [|k IH]; intros G n v S.
  - exists []. cbn [repeat g_run fold_left]. split; [now rewrite app_nil_r | split; [reflexivity | constructor]].
  - cbn [repeat]. rewrite g_run_cons. cbn [g_step].
    destruct (stored G n) as [old|] eqn:So; [|congruence].
    destruct (mutate_logs_one G n v RUser old So) as (b & L1 & _ & S1).
    destruct (IH (fst (g_mutate G n v RUser)) n v S1) as (l & L2 & Len & F).
    exists (mkM n old v RUser b :: l). split; [|split].
    + rewrite L2, L1, <- app_assoc. reflexivity.
    + cbn [length]. now rewrite Len.
    + constructor; [cbn; auto | assumption].
Qed.

(* the k-fold repetition of the cases' history language is the k-fold
   repetition in the history language of the theorems *)
Lemma rep_compact_world : forall k t W i o,
  snd (fst (rep_compact t W i o k)) = run W (repeat (i, o) k).
Proof.
  induction k as [|k IH]; intros t W i o; [reflexivity|].
  cbn [rep_compact repeat]. rewrite run_cons.
  destruct (step W (i, o)) as [W1 r] eqn:St. cbn [fst].
  destruct (match nth_error W1 i with Some G' => light_row t G' | None => (t, []) end) as [t1 lr].
  specialize (IH t1 W1 i o). destruct (rep_compact t1 W1 i o k) as [[t2 W2] rows]. exact IH.
Qed.

Lemma ops_for_repeat : forall i j o k,
  ops_for i (repeat (j, o) k) = if Nat.eqb j i then repeat o k else [].
Proof.
  intros i j o k. unfold ops_for. induction k as [|k IH]; cbn [repeat filter fst].
  - now destruct (Nat.eqb j i).
  - destruct (Nat.eqb j i) eqn:E; cbn [map snd]; [now rewrite IH | exact IH].
Qed.

Lemma long_history_log_proof : forall W i G n v k,
  nth_error W i = Some G -> stored G n <> None ->
  exists G' l, nth_error (run W (repeat (i, OMutate n v) k)) i = Some G' /\
    mlog G' = mlog G ++ l /\ length l = k /\
    Forall (fun m => m_gene m = n /\ m_new m = v /\ m_reason m = RUser) l.
Proof.
  intros W i G n v k H S.
  destruct (repeated_mutate_log k G n v S) as (l & L & Len & F).
  exists (g_run G (repeat (OMutate n v) k)), l. split; [|auto].
  rewrite (run_proj _ W i G H), ops_for_repeat, Nat.eqb_refl. reflexivity.
Qed.
