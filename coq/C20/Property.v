(* C20 — property theorems only.  Each is closed by [exact] of a lemma from
   Proofs.v and followed by Print Assumptions.

   Vocabulary (defined in Model.v / Proofs.v):
     val = a configuration value: VNone | VBool | VInt | VFloat (exact
     fraction) | VStr (code points) — stored, logged and handed to the callback,
     computed with only by the random mutations of replicate; None is a value, distinct from "no such gene/entry";
     world = list genome, op = (index of the genome the call is made on, gop);
     run W ops = the lineage after the calls; stored G n = _genes[n].value;
     vals G = the name->value map in dict order; ghash G = its sorted form
     (get_hash); mlog = _mutations; approved_by G n old new reason = the gate of
     mutate (allow_mutations, else the callback's verdict on that very change);
     cb_approves c m = what callback c says about the change recorded in m;
     entry_ok c m = "m approved -> cb_approves c m"; replay l n v = v overwritten
     by the new values of the approved entries of l on gene n, in order;
     origs n v l = every entry of l on gene n records as original value the
     value n had at that moment; cb_denies c = c approves nothing (or is
     absent); ops_for i ops = the calls of ops addressed to genome i;
     wf G = gene names are unique (the table is a dict; invariant, see
     c20_wf_invariant); skel e = the gene without its value;
     g_replicate G muts inh = the child up to and including the specified
     mutations; g_replicate_full G muts inh ds = the child replicate returns:
     the former followed, when mutation_rate > 0, by the random-mutation loop
     with random.random() returning the numbers ds (in 64ths);
     apply_random C props = C after mutate(n, v, "random_mutation") for each
     (n, v) of props in order;
     a gene name n : Z is name_code s, the integer code of the str s (its
     code points); valid_name s = every code point is in 0 .. 0x10FFFF;
     addresses o n = the call o is made with the name n (add_gene: the name of
     the gene handed in; replicate / express name no single gene).
     The configuration attributes are plain attributes of the live object and
     the history language contains their assignment: OSetAllow b
     (genome.allow_mutations = b), OSetCb c (genome.on_mutation = c), OSetRate k
     (genome.mutation_rate = k/64); is_config o = o is such an assignment.
     allow G / cb G / mrate G are the attributes AS THEY ARE in state G, so
     approved_by G .. is the gate as configured at that moment;
     never_enabled ops = no call of ops is OSetAllow true; installed G ops c =
     c is the callback of G or one assigned by a call of ops; entry_ok_in P m =
     "m approved -> some callback c with P c approves the change m records";
     last_allow ops d (last_cb, last_rate) = the value of the last assignment
     in ops, d when there is none; authorised_change Gk o n = the call o,
     made in state Gk, changes the value of n and passes the gate as Gk is
     configured (a re-add with allow_mutations on; a mutate / rollback that
     allow_mutations or the callback of Gk authorises for that very change);
     repeat (i, o) k = the call o made k times in a row on genome i.
     The approval callback is arbitrary user code: besides answering it may
     RAISE or CALL BACK into the genome that is consulting it.  behaviour =
     what it does besides answering, a function of the proposed change: XNone
     | XRaise k (exception class k: Exception and BaseException subclasses
     alike) | XCall n' v' (it calls mutate(n', v') on the consulting genome,
     then answers).  act_of beh G n v r = what is acted out when mutate(n, v)
     with reason r is called in state G: nothing unless the gate gets as far
     as asking the callback (gene exists, allow_mutations off, a callback
     installed) on a call the user makes (mutate / rollback_mutation), one
     level deep.  g_mutate_x / g_step_x / xstep / xrun beh = the calls and
     histories with such approvers; an xstep ends XO r (returned), XRaised k
     (the approver's exception reached the caller, who handles it and goes on
     with the history) or XNested b nb (returned b; the approver's own mutate
     returned nb); quiet beh = the approver only answers.
     clock = (step, last reading, script): what datetime.now() of the module
     returns; trun beh W c ops = the history run under clock c: (world, clock
     afterwards, the readings each call made). *)
From Coq Require Import ZArith List Bool.
From Verif Require Import C20.Model C20.Proofs C20.ProofsApprover.
Import ListNotations.
Open Scope Z_scope.

(* ---- 1. no unauthorised change ---------------------------------------- *)

(* With allow_mutations off and never switched on by an assignment on genome
   i, after ANY calls on ANY genomes of the lineage (assignments of
   on_mutation / mutation_rate and of allow_mutations = False included), every
   value stored in genome i is its old value overwritten by exactly the logged
   entries that are marked approved, each of which a callback installed on
   genome i at some moment of the history approved for that specific change
   (gene, original, new, reason), the original being the value at that moment.
   Nothing else (re-adding, expression changes, rollback, replication, calls
   and assignments on relatives) changes it.  (WHICH callback decides a call:
   the one installed when the call is made, c20_change_needs_authorisation_at_call_time.) *)
Theorem c20_unauthorised_ops_change_nothing :
  forall W ops i G,
    nth_error W i = Some G -> allow G = false -> never_enabled (ops_for i ops) ->
    exists G' newlog,
      nth_error (run W ops) i = Some G' /\ allow G' = false /\ mlog G' = mlog G ++ newlog /\
      Forall (entry_ok_in (installed G (ops_for i ops))) newlog /\
      forall n v, stored G n = Some v ->
        stored G' n = Some (replay newlog n v) /\ origs n v newlog.
Proof. exact unauthorised_ops_proof. Qed.
Print Assumptions c20_unauthorised_ops_change_nothing.

(* ... so when no callback ever installed approves anything (or there is
   none): no stored value changes, every new log entry is unapproved, the value
   map only grows by brand-new genes, and without those map and hash are
   unchanged. *)
Theorem c20_nothing_approved_nothing_changes :
  forall W ops i G,
    nth_error W i = Some G -> allow G = false -> never_enabled (ops_for i ops) ->
    (forall c, installed G (ops_for i ops) c -> cb_denies c) ->
    exists G' newlog fresh,
      nth_error (run W ops) i = Some G' /\
      mlog G' = mlog G ++ newlog /\ Forall (fun m => m_approved m = false) newlog /\
      (forall n v, stored G n = Some v -> stored G' n = Some v) /\
      vals G' = vals G ++ fresh /\
      Forall (fun nv => stored G (fst nv) = None /\
                exists g, In (OAdd g) (ops_for i ops) /\ nv = (g_name g, g_value g)) fresh /\
      (adds_no_new_gene G (ops_for i ops) -> vals G' = vals G /\ ghash G' = ghash G).
Proof. exact nothing_approved_proof. Qed.
Print Assumptions c20_nothing_approved_nothing_changes.

(* Operation by operation, for EVERY configuration and every history of
   assignments: as long as each call on genome i is one whose specific change
   the gate does not pass AS THE GENOME IS CONFIGURED AT THE MOMENT OF THAT CALL
   ([unauthorised], evaluated in the state the call finds: a re-add while
   allow_mutations is off, a mutate or rollback that neither allow_mutations
   nor the callback then installed authorises; expression changes, replicate,
   express and the assignments themselves), the value map (in dict order) and
   the hash of genome i are unchanged and everything logged meanwhile is
   unapproved — whatever the configuration was earlier (at construction
   included) or would say about other changes, and whatever is done to the
   relatives. *)
Theorem c20_unauthorised_sequence_changes_nothing :
  forall W ops i G,
    nth_error W i = Some G -> all_unauthorised G (ops_for i ops) ->
    exists G' l,
      nth_error (run W ops) i = Some G' /\ vals G' = vals G /\ ghash G' = ghash G /\
      mlog G' = mlog G ++ l /\ Forall (fun m => m_approved m = false) l.
Proof. exact unauthorised_sequence_proof. Qed.
Print Assumptions c20_unauthorised_sequence_changes_nothing.

(* The converse reading, over any history and any configuration: a stored value
   of genome i that is no longer what it was has been changed by a call that
   the configuration of genome i AT THE MOMENT OF THAT CALL authorised (Gk is
   the state that call found; the value was still v then). *)
Theorem c20_change_needs_authorisation_at_call_time :
  forall W ops i G n v,
    nth_error W i = Some G -> stored G n = Some v ->
    exists G', nth_error (run W ops) i = Some G' /\
      (stored G' n = Some v \/
       exists pre o post Gk, ops_for i ops = pre ++ o :: post /\ Gk = g_run G pre /\
                             stored Gk n = Some v /\ authorised_change Gk o n).
Proof. exact change_attributed_proof. Qed.
Print Assumptions c20_change_needs_authorisation_at_call_time.

(* ---- 1b. the configuration attributes of a live genome --------------------- *)

(* mutate's gate reads allow_mutations and on_mutation of the genome as it is
   when mutate is called -- G is any state, reached through any history of
   calls and assignments: locked now (whatever it was built with) -> refused,
   logged unapproved, nothing else changes; enabled now or approved by the
   callback installed now -> applied and logged approved. *)
Theorem c20_gate_reads_live_configuration :
  forall W i G n v old,
    nth_error W i = Some G -> stored G n = Some old ->
    (allow G = false -> cb_approves (cb G) (mkM n old v RUser false) = false ->
       step W (i, OMutate n v) = (set_nth W i (add_log G (mkM n old v RUser false)), RetBool false)) /\
    (allow G = true \/ cb_approves (cb G) (mkM n old v RUser false) = true ->
       exists G', step W (i, OMutate n v) = (set_nth W i G', RetBool true) /\
                  stored G' n = Some v /\ mlog G' = mlog G ++ [mkM n old v RUser true] /\
                  allow G' = allow G /\ cb G' = cb G).
Proof. exact live_gate_proof. Qed.
Print Assumptions c20_gate_reads_live_configuration.

(* an assignment changes that attribute and nothing else: genes, values, hash,
   expression levels, log and lineage data stay, and no other genome of the
   lineage notices (a child keeps the configuration it was handed at birth) *)
Theorem c20_config_assignment_changes_only_config :
  forall W i G o W' r,
    nth_error W i = Some G -> is_config o = true -> step W (i, o) = (W', r) ->
    r = RetNothing /\ length W' = length W /\
    (forall j, j <> i -> nth_error W' j = nth_error W j) /\
    exists G', nth_error W' i = Some G' /\ tbl G' = tbl G /\ vals G' = vals G /\ ghash G' = ghash G /\
               mlog G' = mlog G /\ generation G' = generation G /\ parent G' = parent G /\
               allow G' = last_allow [o] (allow G) /\ cb G' = last_cb [o] (cb G) /\
               mrate G' = last_rate [o] (mrate G).
Proof. exact config_world_proof. Qed.
Print Assumptions c20_config_assignment_changes_only_config.

(* ... and nothing but an assignment changes it: after any history the
   configuration of genome i is the last value assigned to it on genome i, the
   initial one when there was no assignment *)
Theorem c20_configuration_is_last_assignment :
  forall W ops i G,
    nth_error W i = Some G ->
    exists G', nth_error (run W ops) i = Some G' /\
      allow G' = last_allow (ops_for i ops) (allow G) /\
      cb G' = last_cb (ops_for i ops) (cb G) /\
      mrate G' = last_rate (ops_for i ops) (mrate G).
Proof. exact config_last_proof. Qed.
Print Assumptions c20_configuration_is_last_assignment.

(* ---- 2. refused attempts are logged as unapproved ----------------------- *)

Theorem c20_refused_mutations_logged :
  forall W i G n v W',
    nth_error W i = Some G -> step W (i, OMutate n v) = (W', RetBool false) ->
    forall old, stored G n = Some old ->
      approved_by G n old v RUser = false /\
      nth_error W' i = Some (add_log G (mkM n old v RUser false)).
Proof. exact refused_mutate_world_proof. Qed.
Print Assumptions c20_refused_mutations_logged.

Theorem c20_refused_rollback_logged :
  forall W i G n W',
    nth_error W i = Some G -> step W (i, ORollback n) = (W', RetBool false) ->
    forall m cur, last_approved (mlog G) n = Some m -> stored G n = Some cur ->
      approved_by G n cur (m_orig m) RRollback = false /\
      nth_error W' i = Some (add_log G (mkM n cur (m_orig m) RRollback false)).
Proof. exact refused_rollback_world_proof. Qed.
Print Assumptions c20_refused_rollback_logged.

(* replication mutation (n, v), applied to the child C built from the earlier
   mutations of the same call, refused -> logged unapproved in the child *)
Theorem c20_refused_replication_logged :
  forall G pre n v post inh old,
    let C := g_replicate G pre inh in
    stored C n = Some old -> approved_by C n old v RReplication = false ->
    let c := g_replicate G (pre ++ (n, v) :: post) inh in
    In (mkM n old v RReplication false) (mlog c) /\
    exists l, mlog c = mlog C ++ mkM n old v RReplication false :: l.
Proof. exact replicate_refused_logged_proof. Qed.
Print Assumptions c20_refused_replication_logged.

(* the same for a mutations dict (distinct names), in terms of the parent *)
Theorem c20_refused_replication_logged_dict :
  forall G muts inh n v old,
    wf G -> NoDup (map fst muts) -> In (n, v) muts ->
    stored G n = Some old -> approved_by G n old v RReplication = false ->
    let c := g_replicate G muts inh in
    In (mkM n old v RReplication false) (mlog c) /\ stored c n = Some old.
Proof. exact replicate_refused_dict_proof. Qed.
Print Assumptions c20_refused_replication_logged_dict.

(* nothing ever removes or rewrites a log entry *)
Theorem c20_log_append_only :
  forall W ops i G,
    nth_error W i = Some G ->
    exists G' l, nth_error (run W ops) i = Some G' /\ mlog G' = mlog G ++ l.
Proof. exact log_append_only_proof. Qed.
Print Assumptions c20_log_append_only.

(* the log keeps every attempt, however many: k calls of mutate in a row on an
   existing gene -- refused or not -- leave exactly k new entries behind
   everything that was logged before (no entry is ever dropped to make room),
   for every k *)
Theorem c20_log_keeps_every_attempt :
  forall W i G n v k,
    nth_error W i = Some G -> stored G n <> None ->
    exists G' l, nth_error (run W (repeat (i, OMutate n v) k)) i = Some G' /\
      mlog G' = mlog G ++ l /\ length l = k /\
      Forall (fun m => m_gene m = n /\ m_new m = v /\ m_reason m = RUser) l.
Proof. exact long_history_log_proof. Qed.
Print Assumptions c20_log_keeps_every_attempt.

(* the k-fold repetition of the generated cases' history notation (Model.rop,
   observed compactly by rep_compact) is the k-fold repetition in the history
   language of these theorems *)
Theorem c20_repetition_is_iteration :
  forall k t W i o, snd (fst (rep_compact t W i o k)) = run W (repeat (i, o) k).
Proof. exact rep_compact_world. Qed.
Print Assumptions c20_repetition_is_iteration.

(* ---- 3. replication never alters the parent; no aliasing ---------------- *)

Theorem c20_replicate_preserves_parent :
  forall W i G muts inh ds W' r,
    nth_error W i = Some G -> step W (i, OReplicate muts inh ds) = (W', r) ->
    W' = W ++ [g_replicate_full G muts inh ds] /\ r = RetChild (length W) /\
    forall j Gj, nth_error W j = Some Gj -> nth_error W' j = Some Gj.
Proof. exact replicate_preserves_proof. Qed.
Print Assumptions c20_replicate_preserves_parent.

(* what happens to a genome is determined by the calls addressed to it:
   calls on its parent, children or siblings never change it *)
Theorem c20_lineage_isolation :
  forall ops W i G,
    nth_error W i = Some G ->
    nth_error (run W ops) i = Some (g_run G (ops_for i ops)).
Proof. exact run_proj. Qed.
Print Assumptions c20_lineage_isolation.

(* ---- 4. the child differs only where a mutation was authorised ---------- *)

(* the child replicate returns (for every mutation_rate and whatever
   random.random() returns): same genes in the same order with the same
   type/description/required/default expression; same allow_mutations,
   callback and mutation_rate; the log of the specified mutations is a prefix
   of its log *)
Theorem c20_child_same_genes :
  forall G muts inh ds, wf G ->
    let c := g_replicate_full G muts inh ds in
    allow c = allow G /\ cb c = cb G /\ generation c = generation G + 1 /\
    parent c = Some (ghash G) /\ mrate c = mrate G /\ wf c /\
    map skel (tbl c) = map skel (tbl G) /\
    exists l, mlog c = mlog (g_replicate G muts inh) ++ l.
Proof. exact child_full_facts_proof. Qed.
Print Assumptions c20_child_same_genes.

(* a value that differs from the parent's comes from a mutation of this call
   on that gene — a specified replication mutation or a random one — that
   passed the gate (allow_mutations or the callback's approval of that
   change) and is logged approved in the child *)
Theorem c20_child_differs_only_authorised :
  forall G muts inh ds n, wf G ->
    let c := g_replicate_full G muts inh ds in
    stored c n <> stored G n ->
    exists m, In m (mlog c) /\ authorised_entry_full (allow G) (cb G) muts n m.
Proof. exact child_full_differs_proof. Qed.
Print Assumptions c20_child_differs_only_authorised.

(* with allow_mutations off the child's values are exactly the parent's
   overwritten by the callback-approved entries of the child's own log *)
Theorem c20_child_values_replay :
  forall G muts inh ds, wf G -> allow G = false ->
    let c := g_replicate_full G muts inh ds in
    Forall (entry_ok (cb G)) (mlog c) /\
    forall n v, stored G n = Some v ->
      stored c n = Some (replay (mlog c) n v) /\ origs n v (mlog c).
Proof. exact child_full_replay_proof. Qed.
Print Assumptions c20_child_values_replay.

Theorem c20_child_expression :
  forall G muts ds, wf G ->
    map e_level (tbl (g_replicate_full G muts true ds)) = map e_level (tbl G) /\
    map e_level (tbl (g_replicate_full G muts false ds)) = map (fun e => g_default (e_gene e)) (tbl G).
Proof. exact child_levels_proof. Qed.
Print Assumptions c20_child_expression.

(* random mutations (mutation_rate > 0) reach the child only through mutate:
   whatever the rate and whatever random.random() returns, the child is the
   child of the specified mutations followed by calls of
   mutate(gene, value, "random_mutation"), none when mutation_rate <= 0 *)
Theorem c20_random_mutations_gated :
  forall G muts inh ds,
    exists props, g_replicate_full G muts inh ds = apply_random (g_replicate G muts inh) props /\
                  (mrate G <= 0 -> props = []).
Proof. exact replicate_full_props. Qed.
Print Assumptions c20_random_mutations_gated.

(* ... and a refused one is logged unapproved in the child *)
Theorem c20_refused_random_logged :
  forall C pre n v post old,
    let C1 := apply_random C pre in
    stored C1 n = Some old -> approved_by C1 n old v RRandom = false ->
    let c := apply_random C (pre ++ (n, v) :: post) in
    In (mkM n old v RRandom false) (mlog c) /\
    exists l, mlog c = mlog C1 ++ mkM n old v RRandom false :: l.
Proof. exact (r_refused_logged RRandom). Qed.
Print Assumptions c20_refused_random_logged.

(* ---- 5. express ---------------------------------------------------------- *)

Theorem c20_express_exact :
  forall G ctx n v,
    In (n, v) (g_express G ctx) <->
    exists e, In e (tbl G) /\ key e = n /\ value e = v /\
      e_level e <> Silenced /\ g_type (e_gene e) <> Dormant /\
      (g_type (e_gene e) = Conditional -> In (key e) ctx).
Proof. exact express_exact_proof. Qed.
Print Assumptions c20_express_exact.

Theorem c20_express_exact_dict :
  forall G ctx n v, wf G ->
    (In (n, v) (g_express G ctx) <->
     exists e, lookup (tbl G) n = Some e /\ value e = v /\
       e_level e <> Silenced /\ g_type (e_gene e) <> Dormant /\
       (g_type (e_gene e) = Conditional -> In (key e) ctx)) /\
    NoDup (map fst (g_express G ctx)).
Proof. exact express_dict_proof. Qed.
Print Assumptions c20_express_exact_dict.

(* ---- 6. rollback --------------------------------------------------------- *)

(* a successful rollback re-applies the original value of the last approved
   log entry on that gene, and logs it *)
Theorem c20_rollback_target :
  forall G n G',
    g_rollback G n = (G', true) ->
    exists m cur, last_approved (mlog G) n = Some m /\ stored G n = Some cur /\
      approved_by G n cur (m_orig m) RRollback = true /\
      stored G' n = Some (m_orig m) /\
      mlog G' = mlog G ++ [mkM n cur (m_orig m) RRollback true].
Proof. exact rollback_true_proof. Qed.
Print Assumptions c20_rollback_target.

(* after an approved mutation of n from v to w on genome i and any further
   calls on the lineage -- ANY NUMBER of them, hundreds of logged attempts,
   refused ones and assignments of the configuration included -- that apply
   no mutation to n of genome i, rollback(n)
   restores v when it is authorised, and otherwise is refused, logged
   unapproved and changes nothing *)
Theorem c20_rollback_restores :
  forall W i G n w W1 v ops,
    nth_error W i = Some G -> step W (i, OMutate n w) = (W1, RetBool true) ->
    stored G n = Some v ->
    exists G1 G2 l2,
      nth_error W1 i = Some G1 /\ stored G1 n = Some w /\
      nth_error (run W1 ops) i = Some G2 /\ mlog G2 = mlog G1 ++ l2 /\
      ((forall m, In m l2 -> m_gene m = n -> m_approved m = false) ->
       exists cur, stored G2 n = Some cur /\
         forall W3 r, step (run W1 ops) (i, ORollback n) = (W3, r) ->
           (approved_by G2 n cur v RRollback = true ->
              r = RetBool true /\ exists G3, nth_error W3 i = Some G3 /\ stored G3 n = Some v) /\
           (approved_by G2 n cur v RRollback = false ->
              r = RetBool false /\
              nth_error W3 i = Some (add_log G2 (mkM n cur v RRollback false)))).
Proof. exact rollback_world_proof. Qed.
Print Assumptions c20_rollback_restores.

(* rollback_mutation(n) is never a silent no-op once an approved mutation of n
   is in the log — whatever values the log records, None included (values are
   [val]: None, booleans, integers, floats, strings; "no such entry" is not a
   value).  With m' the LAST approved entry on n (nothing approved on n after
   it), the rollback either restores the value that preceded it, m_orig m',
   and logs that approved, or — when neither allow_mutations nor the callback
   authorises that specific change — is refused and logged unapproved. *)
Theorem c20_rollback_never_silent :
  forall G n m cur,
    In m (mlog G) -> m_gene m = n -> m_approved m = true -> stored G n = Some cur ->
    exists m' l1 l2,
      mlog G = l1 ++ m' :: l2 /\ m_gene m' = n /\ m_approved m' = true /\
      (forall x, In x l2 -> m_gene x = n -> m_approved x = false) /\
      (approved_by G n cur (m_orig m') RRollback = true ->
         exists G', g_rollback G n = (G', true) /\ stored G' n = Some (m_orig m') /\
                    mlog G' = mlog G ++ [mkM n cur (m_orig m') RRollback true]) /\
      (approved_by G n cur (m_orig m') RRollback = false ->
         g_rollback G n = (add_log G (mkM n cur (m_orig m') RRollback false), false)).
Proof. exact rollback_never_silent_proof. Qed.
Print Assumptions c20_rollback_never_silent.

(* ---- 7. names are exact spellings ----------------------------------------- *)

(* The model keeps a gene name as the integer name_code s.  That integer
   determines the string: names that differ in ANY code point -- trailing or
   leading white space, letter case, digits, look-alike characters, the empty
   name -- are different keys, so every theorem of this file, stated for
   names n : Z, holds for arbitrary strings with Python's str equality. *)
Theorem c20_name_spellings_distinct :
  forall s s', valid_name s -> valid_name s' -> name_code s = name_code s' -> s = s'.
Proof. exact name_code_inj. Qed.
Print Assumptions c20_name_spellings_distinct.

(* No call made under another name changes the gene stored under n: after
   ANY calls on the lineage (re-adds that are applied because allow_mutations
   is on included; any callback) of which those addressed to genome i all
   carry names other than n, the entry of n in genome i -- value, type,
   description, required flag, default expression, expression level, or its
   absence -- is what it was. *)
Theorem c20_other_names_untouched :
  forall W ops i G n,
    nth_error W i = Some G ->
    (forall o, In o (ops_for i ops) -> addresses o n = false) ->
    exists G', nth_error (run W ops) i = Some G' /\ lookup (tbl G') n = lookup (tbl G) n.
Proof. exact other_names_untouched_proof. Qed.
Print Assumptions c20_other_names_untouched.

(* ... in particular a differently spelled name never reaches the gene: if
   every named call on genome i spells the name s', the gene named s <> s'
   keeps its entry and its stored value. *)
Theorem c20_other_spelling_is_another_gene :
  forall W ops i G s s',
    valid_name s -> valid_name s' -> s <> s' ->
    nth_error W i = Some G ->
    (forall o n, In o (ops_for i ops) -> addresses o n = true -> n = name_code s') ->
    exists G', nth_error (run W ops) i = Some G' /\
               lookup (tbl G') (name_code s) = lookup (tbl G) (name_code s) /\
               stored G' (name_code s) = stored G (name_code s).
Proof. exact other_spelling_untouched_proof. Qed.
Print Assumptions c20_other_spelling_is_another_gene.

(* ---- the wf hypothesis is an invariant of every reachable lineage ------- *)

Theorem c20_wf_invariant :
  forall a c rate genes ops, Forall wf (run [init_genome_r a c rate genes] ops).
Proof. exact wf_invariant_proof. Qed.
Print Assumptions c20_wf_invariant.

(* ---- 8. approvers that raise or call back ---------------------------------- *)

(* A locked genome stays gated whatever its approvers do besides answering:
   with allow_mutations off and never switched on, after ANY history in which
   approvers raise (any exception class, the caller handling it and going on)
   or call back into the genome before they answer, every stored value of
   genome i is its old value overwritten by exactly the log entries marked
   approved, and each of those was approved, for that specific change, by the
   verdict of a callback installed on genome i at some moment of the history.
   No state survives a raising or re-entrant approver that would let a later
   mutate through unasked. *)
Theorem c20_locked_genome_stays_gated :
  forall beh W ops i G,
    nth_error W i = Some G -> allow G = false -> never_enabled (ops_for i ops) ->
    exists G' newlog,
      nth_error (xrun beh W ops) i = Some G' /\ allow G' = false /\ mlog G' = mlog G ++ newlog /\
      Forall (entry_ok_in (installed G (ops_for i ops))) newlog /\
      forall n v, stored G n = Some v -> stored G' n = Some (replay newlog n v).
Proof. exact approver_gated_proof. Qed.
Print Assumptions c20_locked_genome_stays_gated.

(* ... so when no callback ever installed approves anything, no stored value
   changes and everything logged is unapproved -- however the approvers fail
   and whatever they themselves try to change *)
Theorem c20_approvers_that_approve_nothing_change_nothing :
  forall beh W ops i G,
    nth_error W i = Some G -> allow G = false -> never_enabled (ops_for i ops) ->
    (forall c, installed G (ops_for i ops) c -> cb_denies c) ->
    exists G' newlog,
      nth_error (xrun beh W ops) i = Some G' /\ mlog G' = mlog G ++ newlog /\
      Forall (fun m => m_approved m = false) newlog /\
      forall n v, stored G n = Some v -> stored G' n = Some v.
Proof. exact approver_nothing_approved_proof. Qed.
Print Assumptions c20_approvers_that_approve_nothing_change_nothing.

(* a call that ends with the approver's exception has changed nothing at all
   (no value, no log entry, no configuration, no other genome), and it is a
   mutate / rollback of an existing gene of a locked genome with a callback,
   whose approver raises on exactly that proposal *)
Theorem c20_raising_approver_changes_nothing :
  forall beh W i G o k W',
    nth_error W i = Some G -> xstep beh W (i, o) = (W', XRaised k) ->
    W' = W /\
    exists n v r, act_of beh G n v r = XRaise k /\ stored G n <> None /\ allow G = false /\ cb G <> None /\
      (o = OMutate n v /\ r = RUser \/
       exists m, o = ORollback n /\ last_approved (mlog G) n = Some m /\ v = m_orig m /\ r = RRollback).
Proof. exact raising_approver_proof. Qed.
Print Assumptions c20_raising_approver_changes_nothing.

(* an approver that calls mutate(n', v') on another gene (or whose own call is
   refused) before it answers: exactly the two calls made one after the other,
   each through the gate *)
Theorem c20_reentrant_approver_is_two_gated_calls :
  forall beh G n v r n' v',
    act_of beh G n v r = XCall n' v' ->
    n' <> n \/ snd (g_mutate G n' v' RUser) = false ->
    g_mutate_x beh G n v r =
    (fst (g_mutate (fst (g_mutate G n' v' RUser)) n v r),
     RetN (snd (g_mutate (fst (g_mutate G n' v' RUser)) n v r)) (snd (g_mutate G n' v' RUser))).
Proof. exact mutate_x_call_seq. Qed.
Print Assumptions c20_reentrant_approver_is_two_gated_calls.

(* an approver whose own, approved, call changes the very gene it is being
   asked about: both changes went through the gate and are logged, the inner
   one first; the outer entry records the value the gene had when the outer
   call was made (old), which is what a later rollback restores *)
Theorem c20_approver_changing_the_gene_in_question :
  forall beh G n v r v' old,
    act_of beh G n v r = XCall n v' -> stored G n = Some old ->
    approved_by G n old v' RUser = true ->
    let ok := approved_by G n old v r in
    let G' := fst (g_mutate_x beh G n v r) in
    snd (g_mutate_x beh G n v r) = RetN ok true /\
    mlog G' = mlog G ++ [mkM n old v' RUser true; mkM n old v r ok] /\
    stored G' n = Some (if ok then v else v') /\
    (forall k, k <> n -> stored G' k = stored G k).
Proof. exact same_gene_callback_proof. Qed.
Print Assumptions c20_approver_changing_the_gene_in_question.

(* approvers that only answer: the histories of sections 1-7 *)
Theorem c20_quiet_approvers_plain_histories :
  forall beh ops W, quiet beh -> xrun beh W ops = run W ops.
Proof. exact quiet_xrun_proof. Qed.
Print Assumptions c20_quiet_approvers_plain_histories.

(* lineage isolation with such approvers (an approver calls back into the
   genome that consults it, never into a relative) *)
Theorem c20_lineage_isolation_with_approvers :
  forall beh ops W i G,
    nth_error W i = Some G ->
    nth_error (xrun beh W ops) i = Some (g_run_x beh G (ops_for i ops)).
Proof. exact xrun_proj. Qed.
Print Assumptions c20_lineage_isolation_with_approvers.

Theorem c20_repetition_is_iteration_with_approvers :
  forall beh k t W i o, snd (fst (xrep_compact beh t W i o k)) = xrun beh W (repeat (i, o) k).
Proof. exact xrep_compact_world. Qed.
Print Assumptions c20_repetition_is_iteration_with_approvers.

(* ---- 9. the clock ----------------------------------------------------------- *)

(* The module reads the clock (constructor, set_expression) and never looks at
   the readings again: under ANY two clocks -- standing still, stepping back,
   running backwards -- a history leaves the same lineage (values, logs in
   call order, hashes; so rollback's "last approved mutation" is the last one
   made, never the one with the greatest timestamp) and every call makes the
   same number of readings. *)
Theorem c20_clock_irrelevant :
  forall beh W ops c1 c2,
    fst (fst (trun beh W c1 ops)) = fst (fst (trun beh W c2 ops)) /\
    map (@length Z) (snd (trun beh W c1 ops)) = map (@length Z) (snd (trun beh W c2 ops)).
Proof. exact clock_irrelevant_proof. Qed.
Print Assumptions c20_clock_irrelevant.

(* ... namely the lineage of the clock-free semantics *)
Theorem c20_timed_history_is_history :
  forall beh ops W c, fst (fst (trun beh W c ops)) = xrun beh W ops.
Proof. exact trun_world. Qed.
Print Assumptions c20_timed_history_is_history.
