(* C20 — model of operon_ai/state/genome.py (class Genome).
   Executable definitions only (no proofs).

   A genome is: allow_mutations, the approval callback (on_mutation, a pure
   function of the proposed change: gene, original value, new value, reason),
   the gene table, the mutation log, generation and parent hash.
   allow_mutations, on_mutation and mutation_rate are plain public attributes
   of the Python object: they are fields of the state here, every method reads
   the field of the state it is called in, and their ASSIGNMENT on a live genome
   is an operation of the history language (OSetAllow / OSetCb / OSetRate).
   The log is an unbounded list: histories may be arbitrarily long, and the
   generated cases write "k calls in a row" compactly ([rop], [expand]).  The two
   Python dicts _genes and _expression always have the same keys in the same
   order (add_gene writes both, nothing deletes), so they are one association
   list here whose entries carry the gene and its current expression level;
   the harness checks list(_genes) == list(_expression) on every observation.
   A gene name is a Python str; the two dicts are keyed by it, so two names are
   the same gene exactly when they are the same string ("model", "model ",
   " model", "Model", "model\n" are five different names).  A name is stored
   here as ONE integer, [name_code] of its code points (below), which is injective on
   strings (Proofs.name_code_inj): "same integer" is "same spelling", and
   every definition and theorem below that speaks of names n : Z speaks of
   arbitrary strings.  Descriptions are integers.  Values are Python configuration
   values [val]: None, booleans, integers, finite floats (as their exact
   fraction) and strings (code points).  They are never computed with, only
   stored, handed to the callback and compared for identity; in particular
   None is a value like any other, distinct from "no such gene" / "no such log
   entry" (which are [option]s here and `dict.get` / loop fall-through
   sentinels in the Python).  The only place where the code computes with a
   value is the random-mutation loop of replicate (mutation_rate > 0): there
   `value + value * 0.1 * (random.random() - 0.5)` is evaluated in IEEE
   binary64 by the Gallina specification of floating-point arithmetic
   (Coq.Floats.SpecFloat: pure definitions, no primitive floats, no axioms);
   mutation_rate and the numbers random.random() returns are k/64 (the
   harness scripts random.random), so `random.random() < rate` is exact.

   get_hash is md5 of the JSON of the sorted name->value map; it is modelled
   by that sorted association list itself ([ghash]), so "same hash" is "same
   value map" (JSON is injective on [val]: null / true / 1 / 1.0 / "1" are all
   different texts); the correspondence compares hashes only for (in)equality
   through ids given in order of first appearance. *)
From Coq Require Import ZArith List Bool.
From Coq Require Import Floats.SpecFloat.
Import ListNotations.
Open Scope Z_scope.

Inductive gtype := Structural | Regulatory | Housekeeping | Conditional | Dormant.
Inductive level := Silenced | Low | Normal | High | Over.
Inductive reason := RUser | RRollback | RReplication | RRandom.

(* a configuration value (Gene.value : Any, restricted to what json renders
   injectively) *)
Inductive val :=
| VNone
| VBool (b : bool)
| VInt (z : Z)
| VFloat (num den : Z)        (* a finite float, as its exact fraction *)
| VStr (s : list Z).          (* code points *)

Fixpoint zl_eqb (a b : list Z) : bool :=
  match a, b with
  | [], [] => true
  | x :: a', y :: b' => (x =? y) && zl_eqb a' b'
  | _, _ => false
  end.

(* identity of values: type and content (True is not 1, 1.0 is not 1) *)
Definition val_eqb (a b : val) : bool :=
  match a, b with
  | VNone, VNone => true
  | VBool x, VBool y => Bool.eqb x y
  | VInt x, VInt y => x =? y
  | VFloat n d, VFloat n' d' => (n =? n') && (d =? d')
  | VStr s, VStr s' => zl_eqb s s'
  | _, _ => false
  end.

(* ---- gene names ----------------------------------------------------------
   the code of a str.  [raw_code]: its code points (0 .. 0x10FFFF) as the digits
   1 .. base of a little-endian bijective numeral; the empty name is 0.  The
   ten names "g0" .. "g9" (the plain names of the generated cases) get the
   codes 0 .. 9, every other string 10 + its raw code: still one integer per
   string and one string per integer (Proofs.name_code_inj). *)
Definition name_base : Z := 1114112.
Fixpoint raw_code (s : list Z) : Z :=
  match s with
  | [] => 0
  | c :: r => (c + 1) + name_base * raw_code r
  end.
Definition plain_index (s : list Z) : option Z :=
  match s with
  | [g; d] => if (g =? 103) && (48 <=? d) && (d <=? 57) then Some (d - 48) else None
  | _ => None
  end.
Definition name_code (s : list Z) : Z :=
  match plain_index s with
  | Some i => i
  | None => 10 + raw_code s
  end.

(* the plain names of the generated cases: "g0" .. "g9" *)
Definition gn (i : Z) : Z := name_code [103; 48 + i].

Record gene := mkGene {
  g_name : Z; g_value : val; g_type : gtype; g_desc : Z;
  g_required : bool; g_default : level }.

(* one key of _genes/_expression *)
Record entry := mkEntry { e_gene : gene; e_level : level }.
Definition key (e : entry) : Z := g_name (e_gene e).
Definition value (e : entry) : val := g_value (e_gene e).
Definition table := list entry.

Record mrec := mkM {
  m_gene : Z; m_orig : val; m_new : val; m_reason : reason; m_approved : bool }.

(* on_mutation(Mutation(gene_name, original_value, new_value, reason)) *)
Definition oracle := Z -> val -> val -> reason -> bool.

Record genome := mkGenome {
  allow : bool;
  cb : option oracle;
  tbl : table;
  mlog : list mrec;
  generation : Z;
  parent : option (list (Z * val));        (* _parent_hash *)
  mrate : Z }.                             (* mutation_rate, in 64ths *)

(* ---- dict operations -------------------------------------------------- *)

Fixpoint lookup (t : table) (n : Z) : option entry :=
  match t with
  | [] => None
  | e :: r => if key e =? n then Some e else lookup r n
  end.

(* d[key e] = e : replace in place, or append a new key *)
Fixpoint put (t : table) (e : entry) : table :=
  match t with
  | [] => [e]
  | x :: r => if key x =? key e then e :: r else x :: put r e
  end.

Definition set_tbl (G : genome) (t : table) : genome :=
  mkGenome (allow G) (cb G) t (mlog G) (generation G) (parent G) (mrate G).
Definition add_log (G : genome) (m : mrec) : genome :=
  mkGenome (allow G) (cb G) (tbl G) (mlog G ++ [m]) (generation G) (parent G) (mrate G).

Definition set_allow (G : genome) (b : bool) : genome :=
  mkGenome b (cb G) (tbl G) (mlog G) (generation G) (parent G) (mrate G).
Definition set_cb (G : genome) (c : option oracle) : genome :=
  mkGenome (allow G) c (tbl G) (mlog G) (generation G) (parent G) (mrate G).
Definition set_rate (G : genome) (k : Z) : genome :=
  mkGenome (allow G) (cb G) (tbl G) (mlog G) (generation G) (parent G) k.

Definition stored (G : genome) (n : Z) : option val :=
  match lookup (tbl G) n with Some e => Some (value e) | None => None end.

(* the name -> value map, in dict order, and its canonical (sorted) form *)
Definition kv (e : entry) : Z * val := (key e, value e).
Definition vals (G : genome) : list (Z * val) := map kv (tbl G).

Fixpoint insert_kv (x : Z * val) (l : list (Z * val)) : list (Z * val) :=
  match l with
  | [] => [x]
  | y :: r => if fst x <=? fst y then x :: l else y :: insert_kv x r
  end.
Definition canon (l : list (Z * val)) : list (Z * val) := fold_right insert_kv [] l.
Definition ghash (G : genome) : list (Z * val) := canon (vals G).

(* ---- Genome methods --------------------------------------------------- *)

(* add_gene: refused (False, nothing changes, nothing logged) when the name
   exists and allow_mutations is off; otherwise _genes[name] = gene and the
   expression state is reset to the gene's default. *)
Definition g_add (G : genome) (g : gene) : genome * bool :=
  match lookup (tbl G) (g_name g) with
  | Some _ =>
      if allow G then (set_tbl G (put (tbl G) (mkEntry g (g_default g))), true)
      else (G, false)
  | None => (set_tbl G (put (tbl G) (mkEntry g (g_default g))), true)
  end.

(* the gate of mutate: allow_mutations, else the callback's verdict on this
   very change, else refuse.  The callback is not consulted when
   allow_mutations is on. *)
Definition approved_by (G : genome) (n : Z) (old v : val) (r : reason) : bool :=
  if allow G then true
  else match cb G with Some f => f n old v r | None => false end.

Definition with_value (g : gene) (v : val) : gene :=
  mkGene (g_name g) v (g_type g) (g_desc g) (g_required g) (g_default g).

Definition g_mutate (G : genome) (n : Z) (v : val) (r : reason) : genome * bool :=
  match lookup (tbl G) n with
  | None => (G, false)
  | Some e =>
      if approved_by G n (value e) v r then
        (add_log (set_tbl G (put (tbl G) (mkEntry (with_value (e_gene e) v) (e_level e))))
                 (mkM n (value e) v r true), true)
      else (add_log G (mkM n (value e) v r false), false)
  end.

(* for mutation in reversed(self._mutations): first approved one on the gene.
   Whether there is one is independent of the values it records: an entry
   whose original value is None is found like any other. *)
Definition last_approved (l : list mrec) (n : Z) : option mrec :=
  find (fun m => (m_gene m =? n) && m_approved m) (rev l).

Definition g_rollback (G : genome) (n : Z) : genome * bool :=
  match last_approved (mlog G) n with
  | Some m => g_mutate G n (m_orig m) RRollback
  | None => (G, false)
  end.

Definition g_set_level (G : genome) (n : Z) (l : level) : genome * bool :=
  match lookup (tbl G) n with
  | None => (G, false)
  | Some e => (set_tbl G (put (tbl G) (mkEntry (e_gene e) l)), true)
  end.

Definition is_silenced (l : level) : bool :=
  match l with Silenced => true | _ => false end.

Definition expressed (ctx : list Z) (e : entry) : bool :=
  if is_silenced (e_level e) then false
  else match g_type (e_gene e) with
       | Conditional => existsb (Z.eqb (key e)) ctx
       | Dormant => false
       | _ => true
       end.

Definition g_express (G : genome) (ctx : list Z) : list (Z * val) :=
  map kv (filter (expressed ctx) (tbl G)).

(* get_value(name, default): the default for an unknown or silenced gene,
   else the stored value (which may itself be None) *)
Definition g_get_value (G : genome) (n : Z) (default : val) : val :=
  match lookup (tbl G) n with
  | None => default
  | Some e => if is_silenced (e_level e) then default else value e
  end.

Definition empty_genome_r (a : bool) (c : option oracle) (rate : Z) : genome :=
  mkGenome a c [] [] 0 None rate.

(* Genome(genes=..., allow_mutations=a, on_mutation=c, mutation_rate=rate/64) *)
Definition init_genome_r (a : bool) (c : option oracle) (rate : Z) (genes : list gene) : genome :=
  fold_left (fun G g => fst (g_add G g)) genes (empty_genome_r a c rate).

(* mutation_rate = 0 (the constructor's default) *)
Definition empty_genome (a : bool) (c : option oracle) : genome := empty_genome_r a c 0.
Definition init_genome (a : bool) (c : option oracle) (genes : list gene) : genome :=
  init_genome_r a c 0 genes.

(* replicate(mutations, inherit_expression): the child is a fresh Genome built
   from the parent's (frozen) genes with the parent's allow_mutations, callback
   and mutation_rate *)
Definition child_base (G : genome) : genome :=
  let c0 := init_genome_r (allow G) (cb G) (mrate G) (map e_gene (tbl G)) in
  mkGenome (allow c0) (cb c0) (tbl c0) (mlog c0) (generation G + 1) (Some (ghash G)) (mrate c0).

Definition inherit_levels (C : genome) (ptbl : table) : genome :=
  fold_left (fun C e => fst (g_set_level C (key e) (e_level e))) ptbl C.

Definition apply_muts (C : genome) (muts : list (Z * val)) : genome :=
  fold_left (fun C nv => fst (g_mutate C (fst nv) (snd nv) RReplication)) muts C.

(* the child up to and including the specified mutations *)
Definition g_replicate (G : genome) (muts : list (Z * val)) (inh : bool) : genome :=
  let c1 := child_base G in
  let c2 := if inh then inherit_levels c1 (tbl G) else c1 in
  apply_muts c2 muts.

(* ---- random mutations during replication (mutation_rate > 0) ----------

     for gene_name in child._genes:
         if random.random() < self.mutation_rate:
             gene = child._genes[gene_name]
             if isinstance(gene.value, (int, float)):
                 delta = gene.value * 0.1 * (random.random() - 0.5)
                 new_value = gene.value + delta
                 if isinstance(gene.value, int): new_value = int(new_value)
                 child.mutate(gene_name, new_value, "random_mutation")

   IEEE binary64 arithmetic, round to nearest even. *)
Definition fl_norm (m e : Z) : spec_float := binary_normalize 53 1024 m e false.   (* the float nearest m * 2^e *)
Definition fl_tenth : spec_float := fl_norm 3602879701896397 (-55).                 (* the literal 0.1 *)

(* v + (v * 0.1) * (k/64 - 0.5); k/64 - 0.5 = (k - 32) / 64 is exact *)
Definition fl_perturb (fv : spec_float) (k : Z) : spec_float :=
  SFadd 53 1024 fv (SFmul 53 1024 (SFmul 53 1024 fv fl_tenth) (fl_norm (k - 32) (-6))).

(* int(x) of a finite float: truncation toward zero *)
Definition fl_trunc (f : spec_float) : option Z :=
  match f with
  | S754_zero _ => Some 0
  | S754_finite s m e =>
      let z := cond_Zopp s (Zpos m) in
      Some (if 0 <=? e then z * 2 ^ e else Z.quot z (2 ^ (- e)))
  | _ => None
  end.

(* a finite float as a configuration value (its exact fraction in lowest
   terms); -0.0, infinities and nan are outside the modelled values *)
Definition fl_val (f : spec_float) : option val :=
  match f with
  | S754_zero false => Some (VFloat 0 1)
  | S754_finite s m e =>
      let z := cond_Zopp s (Zpos m) in
      if 0 <=? e then Some (VFloat (z * 2 ^ e) 1)
      else let d := 2 ^ (- e) in let g := Z.gcd z d in Some (VFloat (z / g) (d / g))
  | _ => None
  end.

(* the value a random mutation proposes for a gene holding v when
   random.random() returns k/64; None: v is not an int/bool/float (no attempt
   is made), or the result is not a finite float (Python raises OverflowError
   or produces inf/nan: outside the modelled values, not generated) *)
Definition perturb (v : val) (k : Z) : option val :=
  match v with
  | VInt z => option_map VInt (fl_trunc (fl_perturb (fl_norm z 0) k))
  | VBool b => option_map VInt (fl_trunc (fl_perturb (fl_norm (if b then 1 else 0) 0) k))   (* bool is an int *)
  | VFloat n d => fl_val (fl_perturb (fl_norm n (- Z.log2 d)) k)                            (* d = 2^j *)
  | _ => None
  end.

Definition is_numeric (v : val) : bool :=
  match v with VInt _ | VBool _ | VFloat _ _ => true | _ => false end.

(* the scripted random.random(): the next number of the script, 32/64 once it
   is exhausted *)
Definition draw (ds : list Z) : Z * list Z :=
  match ds with [] => (32, []) | k :: r => (k, r) end.

(* the loop over the child's gene names; every change goes through mutate *)
Fixpoint random_muts (C : genome) (rate : Z) (names : list Z) (ds : list Z) : genome :=
  match names with
  | [] => C
  | n :: rest =>
      let '(u, ds1) := draw ds in
      if u <? rate then
        match stored C n with
        | Some v =>
            if is_numeric v then
              let '(k, ds2) := draw ds1 in
              match perturb v k with
              | Some w => random_muts (fst (g_mutate C n w RRandom)) rate rest ds2
              | None => random_muts C rate rest ds2
              end
            else random_muts C rate rest ds1
        | None => random_muts C rate rest ds1
        end
      else random_muts C rate rest ds1
  end.

(* replicate(mutations, inherit_expression) with random.random() scripted by ds *)
Definition g_replicate_full (G : genome) (muts : list (Z * val)) (inh : bool) (ds : list Z) : genome :=
  let c := g_replicate G muts inh in
  if 0 <? mrate G then random_muts c (mrate G) (map key (tbl c)) ds else c.

(* ---- the lineage: genomes addressed by index --------------------------- *)

Inductive gop :=
| OAdd (g : gene)
| OMutate (n : Z) (v : val)
| ORollback (n : Z)
| OSetExpr (n : Z) (l : level)
| OSilence (n : Z)
| OActivate (n : Z)
| OReplicate (muts : list (Z * val)) (inh : bool) (ds : list Z)   (* ds: what random.random() returns, in 64ths *)
| OExpress (ctx : list Z)
(* the configuration attributes are plain public attributes of a live Genome:
   they can be ASSIGNED between calls.  Every method reads them when it runs
   (mutate / add_gene: allow_mutations and on_mutation; replicate: all three,
   handing the values of that moment to the child), so the authorisation that
   applies to a call is the configuration at the time of the call. *)
| OSetAllow (b : bool)                 (* genome.allow_mutations = b *)
| OSetCb (c : option oracle)           (* genome.on_mutation = c  (None: no callback) *)
| OSetRate (k : Z).                    (* genome.mutation_rate = k/64 *)

Inductive out :=
| RetBool (b : bool)
| RetChild (i : nat)
| RetConfig (c : list (Z * val))
| RetBadTarget
| RetNothing.                          (* an attribute assignment returns nothing *)

(* effect of an operation on the genome it is called on *)
Definition g_step (G : genome) (o : gop) : genome * bool :=
  match o with
  | OAdd g => g_add G g
  | OMutate n v => g_mutate G n v RUser
  | ORollback n => g_rollback G n
  | OSetExpr n l => g_set_level G n l
  | OSilence n => g_set_level G n Silenced
  | OActivate n => g_set_level G n Normal
  | OReplicate _ _ _ => (G, true)
  | OExpress _ => (G, true)
  | OSetAllow b => (set_allow G b, true)
  | OSetCb c => (set_cb G c, true)
  | OSetRate k => (set_rate G k, true)
  end.

(* an assignment of a configuration attribute *)
Definition is_config (o : gop) : bool :=
  match o with OSetAllow _ | OSetCb _ | OSetRate _ => true | _ => false end.

Definition g_run (G : genome) (ops : list gop) : genome :=
  fold_left (fun G o => fst (g_step G o)) ops G.

Definition world := list genome.
Definition op := (nat * gop)%type.

Fixpoint set_nth (W : world) (i : nat) (G : genome) : world :=
  match W, i with
  | [], _ => []
  | _ :: r, O => G :: r
  | x :: r, S j => x :: set_nth r j G
  end.

Definition born (G : genome) (o : gop) : list genome :=
  match o with
  | OReplicate muts inh ds => [g_replicate_full G muts inh ds]
  | _ => []
  end.

Definition step (W : world) (io : op) : world * out :=
  let '(i, o) := io in
  match nth_error W i with
  | None => (W, RetBadTarget)
  | Some G =>
      (set_nth W i (fst (g_step G o)) ++ born G o,
       match o with
       | OReplicate _ _ _ => RetChild (length W)
       | OExpress ctx => RetConfig (g_express G ctx)
       | OSetAllow _ | OSetCb _ | OSetRate _ => RetNothing
       | _ => RetBool (snd (g_step G o))
       end)
  end.

Definition run (W : world) (ops : list op) : world :=
  fold_left (fun W io => fst (step W io)) ops W.

(* ---------------------------------------------------------------------- *)
(* scripted approval callbacks used by the generated cases                 *)

(* a number read off a value, for the arithmetic rules below (the scripted
   callbacks of the harness compute the same number) *)
Definition val_num (v : val) : Z :=
  match v with
  | VNone => 0
  | VBool b => if b then 1 else 0
  | VInt z => z
  | VFloat n _ => n
  | VStr s => Z.of_nat (length s)
  end.

Inductive orule :=
| RMatch (g : option Z) (o v : option val) (r : option reason)   (* None = wildcard *)
| RNewMod (m k : Z)                                (* num(new_value) mod m = k *)
| RGrow.                                           (* num(new_value) > num(original) *)

Definition reason_code (r : reason) : Z :=
  match r with RUser => 0 | RRollback => 1 | RReplication => 2 | RRandom => 3 end.

Definition opt_match (p : option Z) (x : Z) : bool :=
  match p with None => true | Some y => y =? x end.

Definition opt_vmatch (p : option val) (x : val) : bool :=
  match p with None => true | Some y => val_eqb y x end.

Definition rule_ok (n : Z) (old v : val) (r : reason) (q : orule) : bool :=
  match q with
  | RMatch g o w rr =>
      opt_match g n && opt_vmatch o old && opt_vmatch w v &&
      match rr with None => true | Some r' => reason_code r' =? reason_code r end
  | RNewMod m k => (val_num v mod m) =? k
  | RGrow => val_num old <? val_num v
  end.

Definition interp_oracle (rules : list orule) : oracle :=
  fun n old v r => existsb (rule_ok n old v r) rules.

(* ---------------------------------------------------------------------- *)
(* canonical observations                                                   *)

Definition b2z (b : bool) : Z := if b then 1 else 0.
Definition type_code (t : gtype) : Z :=
  match t with Structural => 0 | Regulatory => 1 | Housekeeping => 2 | Conditional => 3 | Dormant => 4 end.
Definition level_code (l : level) : Z :=
  match l with Silenced => 0 | Low => 1 | Normal => 2 | High => 3 | Over => 4 end.

(* self-delimiting code of a value *)
Definition val_code (v : val) : list Z :=
  match v with
  | VNone => [0]
  | VBool b => [1; b2z b]
  | VInt z => [2; z]
  | VFloat n d => [3; n; d]
  | VStr s => 4 :: Z.of_nat (length s) :: s
  end.

Definition kv_flat (l : list (Z * val)) : list Z := flat_map (fun p => fst p :: val_code (snd p)) l.

Definition gene_row (e : entry) : list Z :=
  let g := e_gene e in
  g_name g :: val_code (g_value g) ++
  [type_code (g_type g); g_desc g; b2z (g_required g);
   level_code (g_default g); level_code (e_level e)].

(* get_value(name) (default None) and get_value(name, -1000) *)
Definition getvalue_row (G : genome) (e : entry) : list Z :=
  val_code (g_get_value G (key e) VNone) ++ val_code (g_get_value G (key e) (VInt (-1000))).

Definition mrec_row (m : mrec) : list Z :=
  m_gene m :: val_code (m_orig m) ++ val_code (m_new m) ++
  [reason_code (m_reason m); b2z (m_approved m)].

(* the second context every genome is expressed in: g0 g2 g4 g6 g8 and three
   names that are other spellings of g1, g3, g5: "g1 ", "G3", " g5" *)
Definition ctx_b : list Z :=
  map name_code [[103; 48]; [103; 50]; [103; 52]; [103; 54]; [103; 56];
                 [103; 49; 32]; [71; 51]; [32; 103; 53]].

(* everything about one genome; log entries from position [from] on *)
Definition detail_rows (G : genome) (from : nat) : list (list Z) :=
  [ flat_map gene_row (tbl G);
    flat_map (getvalue_row G) (tbl G);
    kv_flat (g_express G []);
    kv_flat (g_express G ctx_b);
    flat_map mrec_row (skipn from (mlog G)) ].

(* hash ids in order of first appearance *)
Definition htable := list (list (Z * val)).

Fixpoint kvl_eqb (a b : list (Z * val)) : bool :=
  match a, b with
  | [], [] => true
  | (x1, y1) :: a', (x2, y2) :: b' => (x1 =? x2) && val_eqb y1 y2 && kvl_eqb a' b'
  | _, _ => false
  end.

Fixpoint index_of (k : list (Z * val)) (t : htable) (i : Z) : option Z :=
  match t with
  | [] => None
  | x :: r => if kvl_eqb x k then Some i else index_of k r (i + 1)
  end.

Definition intern (t : htable) (k : list (Z * val)) : htable * Z :=
  match index_of k t 0 with
  | Some i => (t, i)
  | None => (t ++ [k], Z.of_nat (length t))
  end.

(* get_statistics(): hash, parent_hash, generation, total_genes,
   mutations_count, approved_mutations; the configuration attributes
   allow_mutations and mutation_rate (64ths) as they are now; then the
   expression levels *)
Definition light_row (t : htable) (G : genome) : htable * list Z :=
  let '(t1, h) := intern t (ghash G) in
  let '(t2, ph) := match parent G with
                   | None => (t1, -1)
                   | Some k => intern t1 k
                   end in
  (t2, [h; ph; generation G; Z.of_nat (length (tbl G)); Z.of_nat (length (mlog G));
        Z.of_nat (length (filter m_approved (mlog G))); b2z (allow G); mrate G]
       ++ map (fun e => level_code (e_level e)) (tbl G)).

Fixpoint light_rows (t : htable) (W : world) : htable * list (list Z) :=
  match W with
  | [] => (t, [])
  | G :: r =>
      let '(t1, row) := light_row t G in
      let '(t2, rows) := light_rows t1 r in
      (t2, row :: rows)
  end.

Definition out_row (o : out) : list Z :=
  match o with
  | RetBool b => [0; b2z b]
  | RetChild i => [1; Z.of_nat i]
  | RetConfig c => 2 :: kv_flat c
  | RetBadTarget => [3]
  | RetNothing => [4]
  end.

(* ---- long histories ------------------------------------------------------
   A history element of a case is (genome index, k, operation): the operation
   is called k times in a row on that genome (k = 1: an ordinary call; k = 0:
   no call).  This is notation for the k-fold repetition in the history
   language [list op] of the theorems ([expand]); it keeps a history of
   hundreds of calls small to write down.  The first k-1 calls of a repetition
   are observed compactly (return value, statistics row of the genome called),
   the last one like every ordinary call; the complete state, whole log
   included, of every genome is observed at the end of the case. *)
Definition rop := (nat * nat * gop)%type.

Definition expand (rops : list rop) : list op :=
  flat_map (fun r => let '(i, k, o) := r in repeat (i, o) k) rops.

Fixpoint rep_compact (t : htable) (W : world) (i : nat) (o : gop) (k : nat)
  : htable * world * list (list Z) :=
  match k with
  | O => (t, W, [])
  | S k' =>
      let '(W1, r) := step W (i, o) in
      let '(t1, lr) := match nth_error W1 i with
                       | Some G' => light_row t G'
                       | None => (t, [])
                       end in
      let '(t2, W2, rows) := rep_compact t1 W1 i o k' in
      (t2, W2, out_row r :: lr :: rows)
  end.

Fixpoint run_obs (t : htable) (W : world) (ops : list rop) : list (list Z) :=
  match ops with
  | [] => flat_map (fun G => detail_rows G 0) W
  | (_, O, _) :: rest => run_obs t W rest
  | (i, S k, o) :: rest =>
      let '(t0, W0, pre) := rep_compact t W i o k in
      let '(W', r) := step W0 (i, o) in
      let before := match nth_error W0 i with Some G => length (mlog G) | None => O end in
      let acted := match nth_error W' i with Some G' => detail_rows G' before | None => [] end in
      let child := match r with
                   | RetChild j => match nth_error W' j with Some C => detail_rows C 0 | None => [] end
                   | _ => []
                   end in
      let '(t', lr) := light_rows t0 W' in
      (pre ++ out_row r :: acted ++ child ++ lr) ++ run_obs t' W' rest
  end.

(* ---------------------------------------------------------------------- *)
(* approvers that RAISE or CALL BACK, and the clock                         *)

(* on_mutation is arbitrary user code.  Besides answering it may
     - raise (an Exception or any other BaseException: KeyboardInterrupt from
       a human-in-the-loop prompt, SystemExit, GeneratorExit ...): mutate has
       no handler, the exception leaves mutate before anything was appended to
       the log or written to the gene table, and the caller may handle it and
       go on using the genome;
     - call back into the genome that is consulting it (a re-entrant
       mutate(n', v')) before it answers: that inner call is an ordinary call
       of mutate -- it consults the callback itself (which, one level down,
       only answers), is logged and applied on its own -- and the outer call
       then goes on with the `original_gene` / `original_value` it read BEFORE
       the callback ran.
   What the approver does besides answering is a function of the proposed
   change ([behaviour]); it is exercised for the calls a user makes (mutate:
   reason "", rollback_mutation: reason "rollback"), one level deep. *)
Inductive xaction :=
| XNone                       (* just answers *)
| XRaise (k : Z)              (* raises exception class number k *)
| XCall (n : Z) (v : val).    (* calls mutate(n, v) on the consulting genome, then answers *)

Definition behaviour := Z -> val -> val -> reason -> xaction.

(* how a call of mutate / rollback_mutation ends *)
Inductive xres :=
| Ret (b : bool)              (* returned b *)
| Raised (k : Z)              (* the approver's exception came out of the call *)
| RetN (b nb : bool).         (* returned b; the approver's own mutate returned nb *)

(* the entry of n when mutate(n, ..) gets as far as asking the callback *)
Definition consulted (G : genome) (n : Z) : option entry :=
  match lookup (tbl G) n with
  | Some e => if allow G then None else match cb G with Some _ => Some e | None => None end
  | None => None
  end.

Definition act_of (beh : behaviour) (G : genome) (n : Z) (v : val) (r : reason) : xaction :=
  match consulted G n with
  | Some e => match r with
              | RUser | RRollback => beh n (value e) v r
              | _ => XNone
              end
  | None => XNone
  end.

(* the part of mutate after the gate: e is the entry read before the callback
   ran, G1 the genome as the callback left it *)
Definition finish_mutate (G1 : genome) (e : entry) (ok : bool) (n : Z) (v : val) (r : reason) : genome :=
  if ok then add_log (set_tbl G1 (put (tbl G1) (mkEntry (with_value (e_gene e) v) (e_level e))))
                     (mkM n (value e) v r true)
  else add_log G1 (mkM n (value e) v r false).

Definition g_mutate_x (beh : behaviour) (G : genome) (n : Z) (v : val) (r : reason) : genome * xres :=
  match act_of beh G n v r with
  | XNone => let '(G', b) := g_mutate G n v r in (G', Ret b)
  | XRaise k => (G, Raised k)
  | XCall n' v' =>
      match lookup (tbl G) n with
      | None => (G, Ret false)
      | Some e =>
          let '(G1, nb) := g_mutate G n' v' RUser in
          let ok := approved_by G n (value e) v r in
          (finish_mutate G1 e ok n v r, RetN ok nb)
      end
  end.

Definition g_rollback_x (beh : behaviour) (G : genome) (n : Z) : genome * xres :=
  match last_approved (mlog G) n with
  | Some m => g_mutate_x beh G n (m_orig m) RRollback
  | None => (G, Ret false)
  end.

Definition g_step_x (beh : behaviour) (G : genome) (o : gop) : genome * xres :=
  match o with
  | OMutate n v => g_mutate_x beh G n v RUser
  | ORollback n => g_rollback_x beh G n
  | _ => let '(G', b) := g_step G o in (G', Ret b)
  end.

Definition g_run_x (beh : behaviour) (G : genome) (ops : list gop) : genome :=
  fold_left (fun G o => fst (g_step_x beh G o)) ops G.

Inductive xout :=
| XO (o : out)
| XRaised (k : Z)
| XNested (b nb : bool).

Definition gated (o : gop) : bool :=
  match o with OMutate _ _ | ORollback _ => true | _ => false end.

Definition xstep (beh : behaviour) (W : world) (io : op) : world * xout :=
  let '(i, o) := io in
  match nth_error W i with
  | None => (W, XO RetBadTarget)
  | Some G =>
      if gated o then
        let '(G', x) := g_step_x beh G o in
        (set_nth W i G',
         match x with Ret b => XO (RetBool b) | Raised k => XRaised k | RetN b nb => XNested b nb end)
      else let '(W', r) := step W io in (W', XO r)
  end.

Definition xrun (beh : behaviour) (W : world) (ops : list op) : world :=
  fold_left (fun W io => fst (xstep beh W io)) ops W.

(* the scripted behaviours of the generated cases: the first rule that matches
   the proposed change decides *)
Definition arule := (orule * xaction)%type.
Definition interp_beh (acts : list arule) : behaviour :=
  fun n old v r =>
    match find (fun a => rule_ok n old v r (fst a)) acts with
    | Some a => snd a
    | None => XNone
    end.

(* ---- the clock -----------------------------------------------------------
   The module reads `datetime.now()` in Genome.__init__ (_created_at: once per
   constructed genome, replicate's child included) and in set_expression
   (modified_at, when the gene exists); the readings are stored and never
   looked at again.  A clock is (step, last reading, script): a reading is the
   next number of the script, and last + step once the script is exhausted
   (step 0: the clock stands still; negative: it runs backwards). *)
Definition clock := (Z * Z * list Z)%type.

Definition tick (c : clock) : Z * clock :=
  let '(s, last, l) := c in
  match l with
  | x :: r => (x, (s, x, r))
  | [] => (last + s, (s, last + s, []))
  end.

Fixpoint take_reads (k : nat) (c : clock) : list Z * clock :=
  match k with
  | O => ([], c)
  | S k' => let '(x, c1) := tick c in
            let '(l, c2) := take_reads k' c1 in (x :: l, c2)
  end.

(* how often a call reads the clock *)
Definition nreads (W : world) (io : op) : nat :=
  let '(i, o) := io in
  match nth_error W i with
  | None => O
  | Some G =>
      match o with
      | OSetExpr n _ | OSilence n | OActivate n =>
          match lookup (tbl G) n with Some _ => 1%nat | None => O end
      | OReplicate _ _ _ => 1%nat
      | _ => O
      end
  end.

(* the history under a clock: the world, the clock afterwards, and what each
   call read *)
Fixpoint trun (beh : behaviour) (W : world) (c : clock) (ops : list op) : world * clock * list (list Z) :=
  match ops with
  | [] => (W, c, [])
  | io :: rest =>
      let '(l, c1) := take_reads (nreads W io) c in
      let '(W', c', rows) := trun beh (fst (xstep beh W io)) c1 rest in
      (W', c', l :: rows)
  end.

(* two rows: the number of readings of the constructor and of every call, and
   the readings themselves in order *)
Definition clock_rows (beh : behaviour) (W : world) (c : clock) (ops : list op) : list (list Z) :=
  let '(l0, c1) := take_reads 1 c in
  let '(_, _, rows) := trun beh W c1 ops in
  [map (fun l => Z.of_nat (length l)) (l0 :: rows); concat (l0 :: rows)].

Definition xout_row (o : xout) : list Z :=
  match o with
  | XO r => out_row r
  | XRaised k => [5; k]
  | XNested b nb => [0; b2z b; b2z nb]
  end.

Fixpoint xrep_compact (beh : behaviour) (t : htable) (W : world) (i : nat) (o : gop) (k : nat)
  : htable * world * list (list Z) :=
  match k with
  | O => (t, W, [])
  | S k' =>
      let '(W1, r) := xstep beh W (i, o) in
      let '(t1, lr) := match nth_error W1 i with
                       | Some G' => light_row t G'
                       | None => (t, [])
                       end in
      let '(t2, W2, rows) := xrep_compact beh t1 W1 i o k' in
      (t2, W2, xout_row r :: lr :: rows)
  end.

Fixpoint xrun_obs (beh : behaviour) (t : htable) (W : world) (ops : list rop) : list (list Z) :=
  match ops with
  | [] => flat_map (fun G => detail_rows G 0) W
  | (_, O, _) :: rest => xrun_obs beh t W rest
  | (i, S k, o) :: rest =>
      let '(t0, W0, pre) := xrep_compact beh t W i o k in
      let '(W', r) := xstep beh W0 (i, o) in
      let before := match nth_error W0 i with Some G => length (mlog G) | None => O end in
      let acted := match nth_error W' i with Some G' => detail_rows G' before | None => [] end in
      let child := match r with
                   | XO (RetChild j) => match nth_error W' j with Some C => detail_rows C 0 | None => [] end
                   | _ => []
                   end in
      let '(t', lr) := light_rows t0 W' in
      (pre ++ xout_row r :: acted ++ child ++ lr) ++ xrun_obs beh t' W' rest
  end.

(* allow_mutations, callback (None = no on_mutation), mutation_rate (64ths), initial genes, operations,
   what the approver does besides answering, the clock *)
Definition case := (bool * option (list orule) * Z * list gene * list rop * list arule * clock)%type.

Definition run_case (c : case) : list (list Z) :=
  let '(a, orc, rate, genes, ops, acts, clk) := c in
  let beh := interp_beh acts in
  let G0 := init_genome_r a (option_map interp_oracle orc) rate genes in
  let '(t, lr) := light_rows [] [G0] in
  (detail_rows G0 0 ++ lr) ++ xrun_obs beh t [G0] ops ++ clock_rows beh [G0] clk (expand ops).
