(* C20 — non-vacuity: concrete, non-trivial lineages meet the hypotheses of
   each theorem of Property.v and show the conclusions are not empty.
   (The unchanged code satisfies C20, so there is no legacy refutation.) *)
From Coq Require Import ZArith List Bool Lia.
From Verif Require Import C20.Model C20.Proofs C20.ProofsApprover.
Import ListNotations.
Open Scope Z_scope.

(* integer literals in value position are integer VALUES *)
Local Coercion VInt : Z >-> val.

Definition genes0 : list gene :=
  [ mkGene 0 1 Structural 0 true Normal;
    mkGene 1 5 Conditional 1 false Normal;
    mkGene 2 7 Dormant 2 false High;
    mkGene 3 9 Regulatory 3 false Silenced ].

(* callback approving every change of gene 0, and nothing else *)
Definition only0 : option oracle := Some (interp_oracle [RMatch (Some 0) None None None]).
(* callback approving user mutations only (so rollbacks are refused) *)
Definition user_only : option oracle := Some (interp_oracle [RMatch None None None (Some RUser)]).

Definition P0 := init_genome false only0 genes0.       (* allow_mutations off *)
Definition D0 := init_genome false None genes0.        (* no callback at all *)
Definition U0 := init_genome false user_only genes0.
Definition A0 := init_genome true None genes0.         (* allow_mutations on *)

(* a history on parent and child: approved and refused mutations, a refused
   re-add, expression changes, a replication with one authorised and one
   unauthorised mutation, calls on the child *)
Definition hist : list op :=
  [ (0%nat, OMutate 0 2); (0%nat, OMutate 1 6); (0%nat, OAdd (mkGene 1 8 Structural 0 false Low));
    (0%nat, OSilence 0); (0%nat, OReplicate [(0, VInt 4); (1, VInt 3)] true []);
    (1%nat, OMutate 0 11); (1%nat, ORollback 0); (0%nat, ORollback 1); (0%nat, OExpress [1]) ].

(* c20_unauthorised_ops_change_nothing: hypotheses hold, and the run is not
   trivial: gene 0 changed through one approved entry, gene 1 did not *)
Example ex_unauthorised :
  nth_error [P0] 0 = Some P0 /\ allow P0 = false /\
  exists G', nth_error (run [P0] hist) 0 = Some G' /\
    stored P0 0 = Some (VInt 1) /\ stored G' 0 = Some (VInt 2) /\ stored G' 1 = Some (VInt 5) /\
    mlog G' = [mkM 0 1 2 RUser true; mkM 1 5 6 RUser false] /\
    length (run [P0] hist) = 2%nat.
Proof. vm_compute. repeat split. eexists. repeat split. Qed.

(* c20_nothing_approved_nothing_changes: with no callback the same history
   leaves values and hash alone and logs the refused attempts *)
Example ex_denied :
  allow D0 = false /\ cb_denies (cb D0) /\ adds_no_new_gene D0 (ops_for 0 hist) /\
  exists G', nth_error (run [D0] hist) 0 = Some G' /\
    vals G' = vals D0 /\ ghash G' = ghash D0 /\
    mlog G' = [mkM 0 1 2 RUser false; mkM 1 5 6 RUser false].
Proof.
  split; [reflexivity|]. split; [intros m; reflexivity|]. split.
  - intros g Hin. vm_compute in Hin.
    repeat (destruct Hin as [Hin|Hin]; [try discriminate; inversion Hin; subst; vm_compute; discriminate|]).
    destruct Hin.
  - vm_compute. eexists. repeat split.
Qed.

(* c20_refused_mutations_logged / c20_refused_rollback_logged *)
Example ex_refused_mutate :
  exists W', step [P0] (0%nat, OMutate 1 6) = (W', RetBool false) /\ stored P0 1 = Some (VInt 5).
Proof. vm_compute. eexists. split; reflexivity. Qed.

Definition U1 := g_run U0 [OMutate 0 2].
Example ex_refused_rollback :
  stored U1 0 = Some (VInt 2) /\
  last_approved (mlog U1) 0 = Some (mkM 0 1 2 RUser true) /\
  exists W', step [U1] (0%nat, ORollback 0) = (W', RetBool false) /\
    nth_error W' 0 = Some (add_log U1 (mkM 0 2 1 RRollback false)).
Proof. vm_compute. repeat split. eexists. split; reflexivity. Qed.

(* c20_refused_replication_logged(_dict), c20_child_*: one replication
   mutation authorised (gene 0), one refused (gene 1) *)
Example ex_replication :
  let c := g_replicate P0 [(0, VInt 4); (1, VInt 3)] true in
  NoDup (map fst [(0, VInt 4); (1, VInt 3)]) /\
  stored P0 1 = Some (VInt 5) /\ approved_by P0 1 5 3 RReplication = false /\
  stored c 0 = Some (VInt 4) /\ stored c 0 <> stored P0 0 /\ stored c 1 = Some (VInt 5) /\
  mlog c = [mkM 0 1 4 RReplication true; mkM 1 5 3 RReplication false] /\
  map e_level (tbl c) = [Normal; Normal; High; Silenced].
Proof.
  vm_compute. repeat split; try discriminate.
  repeat constructor; cbn; intuition discriminate.
Qed.

Example ex_wf : wf P0 /\ wf A0 /\ wf (g_replicate P0 [(0, VInt 4)] false).
Proof. repeat split; apply NoDup_cons_iff || idtac; vm_compute; repeat constructor; cbn; intuition discriminate. Qed.

(* c20_replicate_preserves_parent *)
Example ex_replicate_step :
  exists W' r, step [P0] (0%nat, OReplicate [(0, VInt 4)] true []) = (W', r) /\
    nth_error W' 0 = Some P0 /\ length W' = 2%nat.
Proof. eexists. eexists. split; [reflexivity|]. vm_compute. split; reflexivity. Qed.

(* c20_express_exact: the silenced (3) and dormant (2) genes never appear,
   the conditional one (1) only when named *)
Example ex_express :
  g_express P0 [] = [(0, VInt 1)] /\ g_express P0 [1; 2; 3] = [(0, VInt 1); (1, VInt 5)] /\
  g_express (fst (g_set_level P0 3 Low)) [] = [(0, VInt 1); (3, VInt 9)].
Proof. vm_compute. repeat split. Qed.

(* c20_rollback_restores: approved mutation 1 -> 2 of gene 0, other calls,
   then an authorised rollback gives 1 back; under [user_only] the rollback is
   refused and logged *)
Definition between : list op :=
  [ (0%nat, OMutate 1 6); (0%nat, OSilence 0); (0%nat, OReplicate [(0, VInt 9)] true []); (1%nat, OMutate 0 3) ].

Example ex_rollback :
  exists W1, step [P0] (0%nat, OMutate 0 2) = (W1, RetBool true) /\ stored P0 0 = Some (VInt 1) /\
    exists W3, step (run W1 between) (0%nat, ORollback 0) = (W3, RetBool true) /\
      exists G3, nth_error W3 0 = Some G3 /\ stored G3 0 = Some (VInt 1) /\
        mlog G3 = [mkM 0 1 2 RUser true; mkM 1 5 6 RUser false; mkM 0 2 1 RRollback true].
Proof.
  eexists. split; [reflexivity|]. split; [reflexivity|].
  eexists. split; [vm_compute; reflexivity|].
  eexists. split; [vm_compute; reflexivity|]. vm_compute. split; reflexivity.
Qed.

(* with allow_mutations on, the same calls do change values (the theorems'
   allow = false hypothesis is what protects them), and a re-add overwrites *)
Example ex_allowed_changes :
  stored (g_run A0 [OMutate 1 6]) 1 = Some (VInt 6) /\
  stored (g_run A0 [OAdd (mkGene 1 8 Structural 0 false Low)]) 1 = Some (VInt 8) /\
  stored (g_run D0 [OAdd (mkGene 1 8 Structural 0 false Low)]) 1 = Some (VInt 5).
Proof. vm_compute. repeat split. Qed.

(* c20_unauthorised_sequence_changes_nothing: a callback that approves changes
   of gene 0 only; calls on other genes, a re-add, expression changes,
   replication and a rollback with nothing to roll back are all unauthorised *)
Definition unauth_ops : list gop :=
  [ OMutate 1 6; OAdd (mkGene 1 8 Structural 0 false Low); OSilence 0; OMutate 3 0;
    OReplicate [(0, VInt 4)] true []; ORollback 1; OSetExpr 2 Low; OExpress [1] ].

Example ex_all_unauthorised :
  all_unauthorised P0 unauth_ops /\ length (mlog (g_run P0 unauth_ops)) = 2%nat.
Proof.
  split; [|reflexivity].
  cbn [all_unauthorised unauth_ops unauthorised].
  repeat split; intros; vm_compute; congruence.
Qed.

(* ---- values other than integers --------------------------------------- *)

(* c20_rollback_never_silent / c20_rollback_target with the value None: a gene
   configured as None ("no limit") is mutated with approval and rolled back;
   the log's last approved entry on it records the original value None, and
   the rollback restores None.  Also after mutating TO None and on to a string. *)
Definition str (s : list Z) : val := VStr s.
Definition genesN : list gene :=
  [ mkGene 0 VNone Structural 0 false Normal;
    mkGene 1 (VBool false) Structural 1 false Normal;
    mkGene 2 (str []) Structural 2 false Normal ].
Definition N0 := init_genome false only0 genesN.
Definition N1 := g_run N0 [OMutate 0 4096].

Example ex_rollback_to_none :
  In (mkM 0 VNone 4096 RUser true) (mlog N1) /\ stored N1 0 = Some (VInt 4096) /\
  approved_by N1 0 4096 VNone RRollback = true /\
  exists G', g_rollback N1 0 = (G', true) /\ stored G' 0 = Some VNone /\
    mlog G' = [mkM 0 VNone 4096 RUser true; mkM 0 4096 VNone RRollback true] /\
    ghash G' = ghash N0 /\ ghash N1 <> ghash N0.
Proof.
  split; [vm_compute; auto|]. split; [reflexivity|]. split; [reflexivity|].
  eexists. split; [vm_compute; reflexivity|]. vm_compute. repeat split. discriminate.
Qed.

Example ex_rollback_through_none :
  let G := g_run N0 [OMutate 0 7; OMutate 0 VNone; OMutate 0 (str [101])] in
  stored G 0 = Some (str [101]) /\
  stored (g_run G [ORollback 0]) 0 = Some VNone /\
  stored (g_run G [ORollback 0; ORollback 0]) 0 = Some (str [101]).
Proof. vm_compute. repeat split. Qed.

(* refused rollback to None is logged (c20_rollback_never_silent, second case) *)
Definition UN := g_run (init_genome false user_only genesN) [OMutate 0 1].
Example ex_refused_rollback_to_none :
  approved_by UN 0 1 VNone RRollback = false /\
  g_rollback UN 0 = (add_log UN (mkM 0 1 VNone RRollback false), false).
Proof. vm_compute. split; reflexivity. Qed.

(* values are told apart by type: False / 0 / 0.0 / "" / None, and 1 / True /
   1.0 / "1", are ten different values with ten different hashes, and
   get_value's default is told apart from a stored None by a second default *)
Definition falsy : list val :=
  [VNone; VBool false; VInt 0; VFloat 0 1; str []; VInt 1; VBool true; VFloat 1 1; str [49]; str [48]].
Example ex_values_distinct :
  NoDup falsy /\
  NoDup (map (fun v => ghash (g_run (init_genome true None genesN) [OMutate 0 v])) falsy) /\
  g_get_value N0 0 VNone = VNone /\ g_get_value N0 0 (VInt (-1000)) = VNone /\
  g_get_value N0 9 (VInt (-1000)) = VInt (-1000) /\
  g_get_value (g_run N0 [OSilence 0]) 0 (VInt (-1000)) = VInt (-1000).
Proof.
  split; [|split].
  - unfold falsy. repeat (constructor; [cbn [In]; intuition discriminate|]). constructor.
  - vm_compute. repeat (constructor; [cbn [In]; intuition discriminate|]). constructor.
  - vm_compute. repeat split.
Qed.

(* express carries None values like any other *)
Example ex_express_none :
  g_express N0 [] = [(0, VNone); (1, VBool false); (2, str [])].
Proof. vm_compute. reflexivity. Qed.

(* ---- random mutations during replication (mutation_rate > 0) ----------- *)

(* mutation_rate = 64/64 = 1.0; a callback approving random mutations of gene 0
   only.  random.random() scripted as 0, 0, 0, 63/64, 0, 48/64, 0: every gene is
   picked; 5 -> int(5 + 5*0.1*(0 - 0.5)) = 4 is approved and applied; True ->
   int(1 + 0.1*(63/64 - 0.5)) = 1 (an int, not a bool) and 0.5 -> 0.5125 (as the
   binary64 number 2308094809027379/2^52) are refused and logged unapproved; the
   string gene is not numeric and is not attempted.
   (c20_child_differs_only_authorised, c20_child_values_replay,
   c20_random_mutations_gated, c20_refused_random_logged.) *)
Definition rand0 : option oracle := Some (interp_oracle [RMatch (Some 0) None None (Some RRandom)]).
Definition genesR : list gene :=
  [ mkGene 0 5 Structural 0 false Normal; mkGene 1 (VBool true) Structural 1 false Normal;
    mkGene 2 (VFloat 1 2) Structural 2 false Normal; mkGene 3 (str [97]) Structural 3 false Normal ].
Definition R0 := init_genome_r false rand0 64 genesR.
Definition script : list Z := [0; 0; 0; 63; 0; 48; 0].

Example ex_random_mutations :
  let c := g_replicate_full R0 [] true script in
  wf R0 /\ allow R0 = false /\ mrate c = 64 /\
  mlog c = [ mkM 0 5 4 RRandom true; mkM 1 (VBool true) 1 RRandom false;
             mkM 2 (VFloat 1 2) (VFloat 2308094809027379 4503599627370496) RRandom false ] /\
  vals c = [(0, VInt 4); (1, VBool true); (2, VFloat 1 2); (3, str [97])] /\
  stored c 0 <> stored R0 0 /\ vals R0 = [(0, VInt 5); (1, VBool true); (2, VFloat 1 2); (3, str [97])] /\
  c = apply_random (g_replicate R0 [] true)
        [(0, VInt 4); (1, VInt 1); (2, VFloat 2308094809027379 4503599627370496)].
Proof.
  vm_compute. repeat split; try discriminate.
  repeat (constructor; [cbn [In]; intuition discriminate|]). constructor.
Qed.

(* with mutation_rate = 0 the same script changes nothing and logs nothing; a
   rate of 32/64 picks exactly the genes whose draw is below 1/2 *)
Example ex_random_rate :
  g_replicate_full (init_genome_r false rand0 0 genesR) [] true script =
    g_replicate (init_genome_r false rand0 0 genesR) [] true /\
  map m_gene (mlog (g_replicate_full (init_genome_r true None 32 genesR) [] true [40; 10; 63; 33; 31; 0])) = [1].
Proof. vm_compute. split; reflexivity. Qed.

(* c20_name_spellings_distinct / c20_other_names_untouched /
   c20_other_spelling_is_another_gene: "g1" and "g1 " (trailing space) are valid
   names with different codes; on a genome with allow_mutations ON holding
   "g1", calls under the name "g1 " -- an add (applied: a new gene appears), a
   re-add that overwrites it, a mutation, an expression change -- and a
   replication do a lot, and leave the entry of "g1" alone. *)
Definition n_g1 : list Z := [103; 49].
Definition n_g1sp : list Z := [103; 49; 32].
Definition S0 := init_genome true None [mkGene (name_code n_g1) 5 Conditional 1 true High].
Definition hist_sp : list op :=
  [ (0%nat, OAdd (mkGene (name_code n_g1sp) 6 Structural 0 false Normal));
    (0%nat, OAdd (mkGene (name_code n_g1sp) 7 Dormant 0 false Low));
    (0%nat, OMutate (name_code n_g1sp) 8); (0%nat, OSilence (name_code n_g1sp));
    (0%nat, OReplicate [(name_code n_g1sp, VInt 9)] true []); (1%nat, OMutate (name_code n_g1) 3) ].

Example ex_spellings :
  valid_name n_g1 /\ valid_name n_g1sp /\ n_g1 <> n_g1sp /\ name_code n_g1 <> name_code n_g1sp /\
  (forall o n, In o (ops_for 0 hist_sp) -> addresses o n = true -> n = name_code n_g1sp) /\
  (forall o, In o (ops_for 0 hist_sp) -> addresses o (name_code n_g1) = false) /\
  exists G' C, nth_error (run [S0] hist_sp) 0 = Some G' /\ nth_error (run [S0] hist_sp) 1 = Some C /\
    lookup (tbl G') (name_code n_g1) = lookup (tbl S0) (name_code n_g1) /\
    stored G' (name_code n_g1) = Some (VInt 5) /\
    stored S0 (name_code n_g1sp) = None /\ stored G' (name_code n_g1sp) = Some (VInt 8) /\
    length (mlog G') = 1%nat /\ ghash G' <> ghash S0 /\
    stored C (name_code n_g1) = Some (VInt 3) /\ stored C (name_code n_g1sp) = Some (VInt 9).
Proof.
  assert (V1 : valid_name n_g1) by (repeat constructor; unfold name_base; lia).
  assert (V2 : valid_name n_g1sp) by (repeat constructor; unfold name_base; lia).
  split; [exact V1|]. split; [exact V2|]. split; [discriminate|]. split; [vm_compute; discriminate|].
  split.
  - intros o n Hin A. vm_compute in Hin.
    repeat (destruct Hin as [<-|Hin]; [cbn [addresses g_name] in A; try discriminate; apply Z.eqb_eq in A; now rewrite <- A|]).
    destruct Hin.
  - split.
    + intros o Hin. vm_compute in Hin.
      repeat (destruct Hin as [<-|Hin]; [vm_compute; reflexivity|]). destruct Hin.
    + vm_compute. do 2 eexists. repeat split; discriminate.
Qed.

(* ---- configuration attributes assigned on a live genome ------------------ *)

(* "configure, then freeze": a genome built with allow_mutations=True and no
   callback is tuned (an applied mutation), then locked by assigning
   allow_mutations = False on the live object.  From the next call on, a
   re-add, a mutate, a rollback of the earlier (approved) mutation and the
   replication mutation of a child are refused; the refused mutate / rollback
   are logged unapproved on the genome, the refused replication mutation on the
   child; values and hash stay
   (c20_unauthorised_sequence_changes_nothing with the hypothesis evaluated in
   the states the calls find; c20_gate_reads_live_configuration;
   c20_configuration_is_last_assignment; c20_child_same_genes). *)
Definition setup : list gop := [OMutate 1 6; OSetAllow false].
Definition L0 := g_run A0 setup.
Definition locked_ops : list gop :=
  [ OAdd (mkGene 0 8 Structural 0 false Low); OMutate 0 9; ORollback 1; OSilence 2;
    OReplicate [(1, VInt 3)] true []; OSetRate 64; OSetCb None; OMutate 1 7 ].

Example ex_lock_after_setup :
  allow A0 = true /\ stored A0 1 = Some (VInt 5) /\ stored L0 1 = Some (VInt 6) /\
  allow L0 = false /\ allow L0 = last_allow setup (allow A0) /\
  mlog L0 = [mkM 1 5 6 RUser true] /\
  all_unauthorised L0 locked_ops /\
  vals (g_run L0 locked_ops) = vals L0 /\ ghash (g_run L0 locked_ops) = ghash L0 /\
  mlog (g_run L0 locked_ops) =
    mlog L0 ++ [mkM 0 1 9 RUser false; mkM 1 6 5 RRollback false; mkM 1 6 7 RUser false] /\
  (exists W', step [L0] (0%nat, OMutate 0 9) = (W', RetBool false)) /\
  let c := g_replicate_full L0 [(1, VInt 3)] true [] in
  allow c = false /\ stored c 1 = Some (VInt 6) /\ mlog c = [mkM 1 6 3 RReplication false].
Proof.
  split; [reflexivity|]. split; [reflexivity|]. split; [reflexivity|]. split; [reflexivity|].
  split; [reflexivity|]. split; [reflexivity|]. split.
  - cbn [all_unauthorised locked_ops unauthorised].
    repeat split; try (intros; vm_compute in *; congruence).
  - vm_compute. repeat split. eexists. reflexivity.
Qed.

(* the other way round, and callbacks swapped on the live object: a genome
   built locked with no callback; on_mutation := user_only authorises a user
   mutation (applied, logged approved) but not its rollback (refused, logged);
   on_mutation := None refuses again; allow_mutations := True then lets the
   rollback through.  The change of gene 0 is attributed to the call made when
   user_only was installed (c20_change_needs_authorisation_at_call_time);
   the first three calls keep allow_mutations off, so the replay theorem applies
   with the callbacks [None; user_only; None] installed along the way
   (c20_unauthorised_ops_change_nothing). *)
Definition swap_ops : list gop :=
  [ OMutate 0 2; OSetCb user_only; OMutate 0 3; ORollback 0; OSetCb None; OMutate 0 4 ].
Example ex_callback_swapped :
  never_enabled swap_ops /\ allow D0 = false /\
  mlog (g_run D0 swap_ops) =
    [ mkM 0 1 2 RUser false; mkM 0 1 3 RUser true; mkM 0 3 1 RRollback false; mkM 0 3 4 RUser false ] /\
  stored (g_run D0 swap_ops) 0 = Some (VInt 3) /\
  (let Gk := g_run D0 [OMutate 0 2; OSetCb user_only] in
   swap_ops = [OMutate 0 2; OSetCb user_only] ++ OMutate 0 3 :: [ORollback 0; OSetCb None; OMutate 0 4] /\
   stored Gk 0 = Some (VInt 1) /\ authorised_change Gk (OMutate 0 3) 0) /\
  stored (g_run D0 (swap_ops ++ [OSetAllow true; ORollback 0])) 0 = Some (VInt 1) /\
  cb (g_run D0 swap_ops) = last_cb swap_ops (cb D0) /\ last_cb swap_ops (cb D0) = None.
Proof.
  split.
  - intros o Hin. unfold swap_ops in Hin. cbn [In] in Hin.
    repeat (destruct Hin as [<-|Hin]; [reflexivity|]). destruct Hin.
  - split; [reflexivity|]. split; [vm_compute; reflexivity|]. split; [vm_compute; reflexivity|].
    split; [|split; [vm_compute; reflexivity | split; reflexivity]].
    split; [reflexivity|]. split; [vm_compute; reflexivity|].
    cbn [authorised_change]. split; [reflexivity|]. exists (VInt 1). split; vm_compute; reflexivity.
Qed.

(* c20_config_assignment_changes_only_config: the assignment on the parent is
   not seen by an existing child *)
Example ex_assignment_is_local :
  let W := run [P0] [(0%nat, OReplicate [] true [])] in
  exists W', step W (0%nat, OSetAllow true) = (W', RetNothing) /\
    option_map allow (nth_error W' 0) = Some true /\ option_map allow (nth_error W' 1) = Some false /\
    option_map ghash (nth_error W' 0) = Some (ghash P0).
Proof. eexists. split; [vm_compute; reflexivity|]. vm_compute. repeat split. Qed.

(* ---- long histories ------------------------------------------------------- *)

(* c20_rollback_restores / c20_log_keeps_every_attempt / c20_repetition_is_iteration
   on a history of 302 calls: an approved mutation of gene 0 (1 -> 2), then 300
   refused attempts on gene 1 -- every one of them logged --, then the rollback
   of gene 0, which still finds the approved entry behind the 300 refused ones
   and restores 1; the log has all 302 entries, the first one first *)
Definition long_hist : list rop :=
  [ (0%nat, 1%nat, OMutate 0 2); (0%nat, 300%nat, OMutate 1 6); (0%nat, 1%nat, ORollback 0) ].

Example ex_long_history :
  length (expand long_hist) = 302%nat /\
  exists G', nth_error (run [P0] (expand long_hist)) 0 = Some G' /\
    stored G' 0 = Some (VInt 1) /\ ghash G' = ghash P0 /\
    length (mlog G') = 302%nat /\ length (filter m_approved (mlog G')) = 2%nat /\
    hd_error (mlog G') = Some (mkM 0 1 2 RUser true) /\
    nth_error (mlog G') 300 = Some (mkM 1 5 6 RUser false) /\
    nth_error (mlog G') 301 = Some (mkM 0 2 1 RRollback true) /\
    snd (fst (rep_compact [] [P0] 0 (OMutate 1 6) 300)) = run [P0] (repeat (0%nat, OMutate 1 6) 300).
Proof.
  split; [vm_compute; reflexivity|]. eexists. split; [vm_compute; reflexivity|].
  vm_compute. repeat split.
Qed.

(* ---- approvers that raise or call back; the clock ---------------------------- *)

(* the approver raises exception class 6 (KeyboardInterrupt) when asked to set
   gene 0 to 2, and calls mutate(0, 4) on the genome when asked about gene 1 *)
Definition beh0 : behaviour :=
  interp_beh [ (RMatch (Some 0) None (Some (VInt 2)) None, XRaise 6);
               (RMatch (Some 1) None None None, XCall 0 (VInt 4)) ].

(* c20_raising_approver_changes_nothing + c20_locked_genome_stays_gated: the
   call ends with the exception and changes nothing; the caller goes on: the
   next mutate of gene 0 is asked about and approved (callback only0), the
   one of gene 3 refused and logged *)
Example ex_raising_approver :
  xstep beh0 [P0] (0%nat, OMutate 0 2) = ([P0], XRaised 6) /\
  act_of beh0 P0 0 2 RUser = XRaise 6 /\
  exists G', nth_error (xrun beh0 [P0] [(0%nat, OMutate 0 2); (0%nat, OMutate 0 3); (0%nat, OMutate 3 3)]) 0 = Some G' /\
    stored G' 0 = Some (VInt 3) /\ stored G' 3 = Some (VInt 9) /\
    mlog G' = [mkM 0 1 3 RUser true; mkM 3 9 3 RUser false].
Proof. split; [vm_compute; reflexivity|]. split; [vm_compute; reflexivity|]. eexists. vm_compute. repeat split. Qed.

(* c20_reentrant_approver_is_two_gated_calls: asked about gene 1 (refused:
   only0 approves gene 0 only) the approver first sets gene 0 to 4 (approved) *)
Example ex_reentrant_approver :
  act_of beh0 P0 1 6 RUser = XCall 0 4 /\
  exists G', g_mutate_x beh0 P0 1 6 RUser = (G', RetN false true) /\
    stored G' 0 = Some (VInt 4) /\ stored G' 1 = Some (VInt 5) /\
    mlog G' = [mkM 0 1 4 RUser true; mkM 1 5 6 RUser false].
Proof. split; [vm_compute; reflexivity|]. eexists. vm_compute. repeat split. Qed.

(* c20_approver_changing_the_gene_in_question: asked about gene 0 -> 7 the
   approver first sets gene 0 to 4 itself; the rollback afterwards restores 1,
   the value the outer entry records *)
Definition beh1 : behaviour := interp_beh [ (RMatch (Some 0) None (Some (VInt 7)) None, XCall 0 (VInt 4)) ].
Example ex_same_gene_approver :
  act_of beh1 P0 0 7 RUser = XCall 0 4 /\ stored P0 0 = Some (VInt 1) /\
  approved_by P0 0 1 4 RUser = true /\
  exists G', nth_error (xrun beh1 [P0] [(0%nat, OMutate 0 7); (0%nat, ORollback 0)]) 0 = Some G' /\
    stored G' 0 = Some (VInt 1) /\
    mlog G' = [mkM 0 1 4 RUser true; mkM 0 1 7 RUser true; mkM 0 7 1 RRollback true].
Proof. repeat (split; [vm_compute; reflexivity|]). eexists. vm_compute. repeat split. Qed.

(* c20_quiet_approvers_plain_histories is not vacuous *)
Example ex_quiet : quiet (interp_beh []).
Proof. intros n old v r. reflexivity. Qed.

(* c20_clock_irrelevant: two approved mutations of gene 0 and a rollback under
   a clock that stands still and under one that runs backwards: the rollback
   restores 2, the value before the LAST mutation made; the silence call and
   the replicate read the clock once each *)
Definition clock_hist : list op :=
  [ (0%nat, OMutate 0 2); (0%nat, OMutate 0 3); (0%nat, OSilence 1); (0%nat, ORollback 0);
    (0%nat, OReplicate [] true []) ].
Example ex_clock :
  let frozen : clock := (0, 0, []) in
  let backwards : clock := (-1, 0, [100]) in
  snd (trun beh1 [P0] frozen clock_hist) = [[]; []; [0]; []; [0]] /\
  snd (trun beh1 [P0] backwards clock_hist) = [[]; []; [100]; []; [99]] /\
  exists G', nth_error (fst (fst (trun beh1 [P0] backwards clock_hist))) 0 = Some G' /\
    stored G' 0 = Some (VInt 2) /\
    mlog G' = [mkM 0 1 2 RUser true; mkM 0 2 3 RUser true; mkM 0 3 2 RRollback true].
Proof. cbv zeta. split; [vm_compute; reflexivity|]. split; [vm_compute; reflexivity|]. eexists. vm_compute. repeat split. Qed.
