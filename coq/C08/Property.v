(* C08 — property theorems only.  Each is closed by [exact] of a lemma from
   Proofs.v and followed by Print Assumptions.

   Vocabulary (Proofs.v): a history is a list of operations
   [Tick d | Run request | Reset | ClearCache]; [run_ops c s ops] is the state
   after the history and the answers to its requests.  Outcome classes of an
   answer are by what the agents did (the LoopResult carries the executor's
   output; an agent exception is the ERROR result without one):
     failureb r  = fresh, blocked, and either the executor's verdict is FAILURE
                   (whatever the assessor said, whatever the gate logic) or an
                   agent raised
     successb r  = fresh and not blocked
     blockb r    = intentional block: blocked with an executor verdict other than
                   FAILURE and nobody raised (assessor BLOCK, executor BLOCK, OR
                   "both rejected", EXECUTOR_PRIORITY/MAJORITY "signal mismatch",
                   unknown verdicts), fresh or served from the cache
   [legacy c = false], [interim c = false] select the classification rule of the
   current code (3c979ee); see Model.v.
   [requests_only] = no manual reset / clear_cache in the history,
   [monotone] = the clock never goes back,
   [probe_state c s] = HALF_OPEN, or OPEN with now - last_failure >= timeout.
   Histories in which requests overlap: second half of the file. *)
From Coq Require Import ZArith List Bool.
From Verif Require Import C08.Model C08.Proofs C08.Live gen.Gen_C08 C08.GenOk.
Import ListNotations.
Open Scope Z_scope.

(* reachable states satisfy the invariant the other theorems assume *)
Theorem c08_invariant_reachable :
  forall c ops s' rs, run_ops c init ops = (s', rs) -> inv c s'.
Proof. exact inv_reachable_proof. Qed.
Print Assumptions c08_invariant_reachable.

(* Starting anywhere the breaker is CLOSED with a cleared count (construction,
   manual reset, successful probe): whenever it is not CLOSED afterwards, and
   whenever it has tripped in between, at least failure_threshold requests have
   failed since then; the count itself has reached the threshold and a last
   failure time is recorded.  Any threshold, any gate logic, enabled or not
   (also true of the pre-044cd88 rule; false of the interim one, see
   Examples.c08_interim_blocks_counted_refuted). *)
Theorem c08_open_implies_threshold_reached :
  forall c s ops s' rs,
    interim c = false ->
    circ (br s) = Closed -> fcount (br s) = 0 ->
    run_ops c s ops = (s', rs) ->
    (circ (br s') <> Closed ->
       threshold c <= count_failures rs /\ threshold c <= fcount (br s') /\
       last_failure (br s') <> None) /\
    (trips (br s) < trips (br s') -> threshold c <= count_failures rs).
Proof. exact open_implies_threshold_proof. Qed.
Print Assumptions c08_open_implies_threshold_reached.

(* From any state, once failure_threshold requests in a row have failed
   (executor FAILURE behind a blocked result under any gate logic and any assessor
   verdict, or an agent exception; clock advances and cache clearing in between
   allowed, no manual reset) the breaker is OPEN. *)
Theorem c08_opens_after_n_consecutive_failures :
  forall c s ops s' rs,
    legacy c = false -> interim c = false -> 1 <= threshold c -> 0 <= fcount (br s) ->
    no_reset ops -> run_ops c s ops = (s', rs) ->
    Forall (fun r => failureb r = true) rs ->
    threshold c <= Z.of_nat (length rs) ->
    circ (br s') = Open.
Proof. exact opens_after_n_proof. Qed.
Print Assumptions c08_opens_after_n_consecutive_failures.

(* While OPEN, every request up to a moment less than the recovery timeout after
   the last failure is answered CIRCUIT_OPEN (blocked, not successful, not
   cached); no agent is invoked, no energy is spent, the breaker and the cache
   are exactly as before. *)
Theorem c08_open_isolates :
  forall c ops s lf s' rs,
    enabled c = true -> circ (br s) = Open -> last_failure (br s) = Some lf ->
    requests_only ops -> monotone ops ->
    run_ops c s ops = (s', rs) -> now s' - lf < timeout c ->
    Forall (fun r => r = res_circuit_open) rs /\
    br s' = br s /\ zcalls s' = zcalls s /\ ycalls s' = ycalls s /\ spent s' = spent s /\
    cache s' = cache s.
Proof. exact open_isolates_proof. Qed.
Print Assumptions c08_open_isolates.

(* Once the timeout has elapsed since the last failure (or in HALF_OPEN) the next
   request is admitted: it is not answered CIRCUIT_OPEN and it is served either
   by consulting the agents or from the cache (leaving the breaker HALF_OPEN). *)
Theorem c08_probe_admitted_after_timeout :
  forall c s r s' o,
    enabled c = true -> cache_ok (cache s) -> probe_state c s ->
    run_req c s r = (s', o) ->
    r_action o <> ACircuitOpen /\
    ((r_cached o = true /\ zcalls s' = zcalls s /\ circ (br s') = HalfOpen) \/
     (r_cached o = false /\ zcalls s' = zcalls s + 1)).
Proof. exact probe_admitted_proof. Qed.
Print Assumptions c08_probe_admitted_after_timeout.

Theorem c08_probe_success_closes_and_clears :
  forall c s r s' o,
    enabled c = true -> probe_state c s ->
    run_req c s r = (s', o) -> successb o = true ->
    circ (br s') = Closed /\ fcount (br s') = 0 /\ trips (br s') = trips (br s).
Proof. exact probe_success_proof. Qed.
Print Assumptions c08_probe_success_closes_and_clears.

(* A failed probe re-opens, counts a trip and restarts the timeout:
   last_failure is the time of this failure and nothing is admitted until a
   full timeout after it. *)
Theorem c08_probe_failure_reopens_and_restarts :
  forall c s r s' o,
    legacy c = false -> interim c = false -> enabled c = true -> probe_state c s ->
    run_req c s r = (s', o) -> failureb o = true ->
    circ (br s') = Open /\ last_failure (br s') = Some (now s') /\
    trips (br s') = trips (br s) + 1 /\ fcount (br s') = fcount (br s) + 1 /\
    (forall ops s'' rs, requests_only ops -> monotone ops ->
       run_ops c s' ops = (s'', rs) -> now s'' - now s' < timeout c ->
       Forall (fun x => x = res_circuit_open) rs /\ br s'' = br s' /\
       zcalls s'' = zcalls s' /\ ycalls s'' = ycalls s' /\ spent s'' = spent s').
Proof. exact probe_failure_proof. Qed.
Print Assumptions c08_probe_failure_reopens_and_restarts.

(* Histories in which every answer is an intentional block (any blocked result
   whose executor verdict is not FAILURE, under all six gate logics, fresh or
   cached) never change the failure count, the trip count or the last-failure
   time, and move the circuit at most from OPEN to HALF_OPEN (admission of a
   probe); in particular CLOSED stays CLOSED. *)
Theorem c08_blocks_not_failures :
  forall c ops s s' rs,
    interim c = false ->
    requests_only ops -> run_ops c s ops = (s', rs) ->
    Forall (fun r => blockb r = true) rs ->
    fcount (br s') = fcount (br s) /\ trips (br s') = trips (br s) /\
    last_failure (br s') = last_failure (br s) /\
    (circ (br s') = circ (br s) \/ (circ (br s) = Open /\ circ (br s') = HalfOpen)).
Proof. exact blocks_not_failures_proof. Qed.
Print Assumptions c08_blocks_not_failures.

(* With the breaker disabled no request is ever refused: no answer is
   CIRCUIT_OPEN and the executor is consulted for every request that is not
   served from the cache (for every request when the cache is off).  NB: the
   _circuit_state field itself still moves to OPEN after threshold failures in
   this mode (Examples.ex_disabled_field_opens); it is never consulted. *)
Theorem c08_disabled_never_open :
  forall c ops s s' rs,
    enabled c = false -> cache_ok (cache s) -> run_ops c s ops = (s', rs) ->
    Forall (fun r => r_action r <> ACircuitOpen) rs /\
    zcalls s' = zcalls s + count_uncached rs /\
    (cache_on c = false -> zcalls s' = zcalls s + Z.of_nat (length rs)).
Proof. exact disabled_proof. Qed.
Print Assumptions c08_disabled_never_open.

(* manual reset closes, clears, and the next request is admitted *)
Theorem c08_reset_closes_and_clears :
  forall c s,
    let s1 := fst (step c s Reset) in
    circ (br s1) = Closed /\ fcount (br s1) = 0 /\ trips (br s1) = trips (br s) /\
    (forall r s' o, cache_ok (cache s) -> run_req c s1 r = (s', o) ->
       r_action o <> ACircuitOpen /\ (r_cached o = true \/ zcalls s' = zcalls s1 + 1)).
Proof. exact reset_proof. Qed.
Print Assumptions c08_reset_closes_and_clears.

(* the history the correspondence check observes is the history the theorems speak about *)
Theorem c08_trace_is_run_ops :
  forall c ops s,
    run_ops c s ops =
    (last (map (fun x => snd (fst x)) (trace c s ops)) s,
     flat_map (fun x => match snd x with Some r => [r] | None => [] end) (trace c s ops)).
Proof. exact trace_run_ops. Qed.
Print Assumptions c08_trace_is_run_ops.

(* ====================================================================== *)
(* Requests that OVERLAP on the loop.  run() holds its lock only inside the breaker / cache methods, so a request
   may be admitted while another is still inside an agent.  Vocabulary (Model.v, Proofs.v): a history is a list of
   [cop] = [Seq op | Begin id request place | End id]: [Begin] takes a request from its arrival into the executor
   or the assessor ([place]) where it stays suspended, [End] lets it go on to its answer at the clock value and on
   the breaker of THAT moment; [crun c (s, fl) ops] is the state, the requests still in flight and the answers
   (tagged [true] when the request ran from arrival to answer within one operation, [false] for the answer of a
   request that had been suspended) in the order in which they were given.  The theorems above are about the
   histories without [Begin]/[End] (c08_overlap_sequential_histories); the ones below hold for all of them. *)

Theorem c08_overlap_invariant_reachable :
  forall c ops s' fl' rs, crun c (init, []) ops = ((s', fl'), rs) -> inv c s'.
Proof. exact overlap_inv_reachable_proof. Qed.
Print Assumptions c08_overlap_invariant_reachable.

(* never open before the failure threshold has been reached in total: c08_open_implies_threshold_reached for
   histories with any number of requests in flight (failed answers are counted when they are given) *)
Theorem c08_overlap_open_implies_threshold_reached :
  forall c s fl ops s' fl' rs,
    interim c = false ->
    circ (br s) = Closed -> fcount (br s) = 0 ->
    crun c (s, fl) ops = ((s', fl'), rs) ->
    (circ (br s') <> Closed ->
       threshold c <= count_failures (map snd rs) /\ threshold c <= fcount (br s') /\
       last_failure (br s') <> None) /\
    (trips (br s) < trips (br s') -> threshold c <= count_failures (map snd rs)).
Proof. exact overlap_open_implies_threshold_proof. Qed.
Print Assumptions c08_overlap_open_implies_threshold_reached.

(* While OPEN, up to a moment less than the recovery timeout after the last failure, with requests that were
   admitted earlier still in flight ([fl]) and answered meanwhile in any order and with any outcome: every request
   that ARRIVES is answered CIRCUIT_OPEN; the breaker stays OPEN, its failure count does not go down (no success
   of a straggler closes it or clears it), a failed straggler only moves last_failure later (restarting the
   timeout); the executor is never invoked and no request gets in flight; the assessor is invoked and energy is
   spent only on behalf of requests that were already inside the executor - at most once each. *)
Theorem c08_overlap_open_isolates :
  forall c ops s fl lf s' fl' rs,
    enabled c = true -> circ (br s) = Open -> last_failure (br s) = Some lf -> lf <= now s ->
    crequests_only ops -> cmonotone ops -> fl_monotone fl ->
    crun c (s, fl) ops = ((s', fl'), rs) -> now s' - lf < timeout c ->
    Forall (fun x => fst x = true -> snd x = res_circuit_open) rs /\
    circ (br s') = Open /\
    (exists lf', last_failure (br s') = Some lf' /\ lf <= lf' /\ lf' <= now s') /\
    fcount (br s) <= fcount (br s') /\ trips (br s') = trips (br s) /\ zcalls s' = zcalls s /\
    (length fl' <= length fl)%nat /\
    0 <= ycalls s' - ycalls s <= Z.of_nat (length fl) - Z.of_nat (length fl') /\
    spent s' = spent s + cost c * (ycalls s' - ycalls s).
Proof. exact overlap_open_isolates_proof. Qed.
Print Assumptions c08_overlap_open_isolates.

(* The isolation ends in two ways only.  Any one operation from OPEN - whatever is in flight - leaves the breaker
   OPEN with a failure count that has not gone down and the same trip count, unless it is a manual reset, or a
   request that ARRIVES (breaker enabled) once the recovery timeout has elapsed since the last failure.  The
   answer of a request that had been admitted earlier ([End]) is neither. *)
Theorem c08_open_left_only_by_probe_or_reset :
  forall c s fl o s' fl' r,
    circ (br s) = Open -> cstep c (s, fl) o = ((s', fl'), r) ->
    (circ (br s') = Open /\ fcount (br s) <= fcount (br s') /\ trips (br s') = trips (br s)) \/
    o = Seq Reset \/
    (arrival o /\ enabled c = true /\ probe_state c s).
Proof. exact open_left_only_proof. Qed.
Print Assumptions c08_open_left_only_by_probe_or_reset.

(* a history without Begin/End is the sequential history, and a request begun and ended at once is the request
   run in one piece: the theorems about [run_ops] / [run_req] are theorems about [crun] *)
Theorem c08_overlap_sequential_histories :
  forall c ops s fl,
    crun c (s, fl) (map Seq ops) =
    let '(s', rs) := run_ops c s ops in ((s', fl), map (pair true) rs).
Proof. exact crun_seq. Qed.
Print Assumptions c08_overlap_sequential_histories.

Theorem c08_overlap_begin_end_is_run :
  forall c s fl id r w s' res,
    fly_lookup id fl = None -> run_req c s r = (s', res) ->
    exists tag, crun c (s, fl) [Begin id r w; End id] = ((s', fl), [(tag, res)]).
Proof. exact begin_end_is_run. Qed.
Print Assumptions c08_overlap_begin_end_is_run.

(* [crun] and [ctrace] are the same history *)
Theorem c08_ctrace_is_crun :
  forall c ops cs,
    crun c cs ops =
    (last (map (fun x => snd (fst x)) (ctrace c cs ops)) cs,
     flat_map (fun x => match snd x with Some r => [r] | None => [] end) (ctrace c cs ops)).
Proof. exact ctrace_crun. Qed.
Print Assumptions c08_ctrace_is_crun.

(* ====================================================================== *)
(* Observers that RAISE.  run() hands a fresh result of the gate to the caller's on_block / on_permit callback
   after the breaker was updated and outside the try that guards the agents; an exception raised by the callback
   leaves run() as it is, so the caller gets that exception instead of the LoopResult.  Vocabulary (Model.v):
   [hooks] = which of the two callbacks were passed to the constructor; a history is a list of [kop] = a [cop]
   paired with what the observer does if it is called during that operation ([CbReturns | CbRaises]);
   [krun c k (s, fl) ops] gives the state, the requests in flight and the replies [Returned res | Raised res]
   ([res] = the result the observer was handed) in the order in which they were given.  [run_case] - what the
   correspondence check evaluates - is [ltrace], the live histories of the last part of the file, of which these
   are the histories without reconfiguration (c08_live_static_is_krun). *)

(* The callbacks never move the breaker (or anything else): whatever observers are installed and whichever of
   their calls raise, the loop state after the history and the result computed for every request are those of
   the same history without observers - so every theorem above is a theorem about histories with raising
   observers (the four after this one are the instances the property text names). *)
Theorem c08_callbacks_never_move_the_breaker :
  forall c k ops cs,
    crun c cs (map fst ops) =
    (fst (krun c k cs ops), map (fun x => (fst x, reply_result (snd x))) (snd (krun c k cs ops))).
Proof. exact krun_erase. Qed.
Print Assumptions c08_callbacks_never_move_the_breaker.

(* One request: state and result are those of run() without observers; run() raises only when an installed
   observer was called - for a fresh result of the gate: never for a refusal, a cache hit or an agent exception -
   and that call raised. *)
Theorem c08_callback_raises_only_after_bookkeeping :
  forall c k b s r s' p,
    run_req_k c k b s r = (s', p) ->
    run_req c s r = (s', reply_result p) /\
    (is_raised p = true ->
       b = CbRaises /\ hooked k (reply_result p) = true /\ fresh_gate (reply_result p)) /\
    (b = CbReturns \/ hooked k (reply_result p) = false \/ ~ fresh_gate (reply_result p) -> is_raised p = false).
Proof. exact cb_request_proof. Qed.
Print Assumptions c08_callback_raises_only_after_bookkeeping.

(* never opens before the threshold has been reached in total: a request is a failure by what the agents did,
   whether run() returned its result or raised the observer's exception; nothing else is ever counted *)
Theorem c08_cb_open_implies_threshold_reached :
  forall c k s fl ops s' fl' rs,
    interim c = false ->
    circ (br s) = Closed -> fcount (br s) = 0 ->
    krun c k (s, fl) ops = ((s', fl'), rs) ->
    (circ (br s') <> Closed ->
       threshold c <= count_failures (map (fun x => reply_result (snd x)) rs) /\
       threshold c <= fcount (br s') /\ last_failure (br s') <> None) /\
    (trips (br s) < trips (br s') ->
       threshold c <= count_failures (map (fun x => reply_result (snd x)) rs)).
Proof. exact cb_open_implies_threshold_proof. Qed.
Print Assumptions c08_cb_open_implies_threshold_reached.

(* intentional blocks are never counted as failures - whether or not on_block raises *)
Theorem c08_cb_blocks_not_failures :
  forall c k ops s fl s' fl' rs,
    interim c = false ->
    requests_only (map fst ops) -> krun c k (s, fl) (seqk ops) = ((s', fl'), rs) ->
    Forall (fun x => blockb (reply_result (snd x)) = true) rs ->
    fcount (br s') = fcount (br s) /\ trips (br s') = trips (br s) /\
    last_failure (br s') = last_failure (br s) /\
    (circ (br s') = circ (br s) \/ (circ (br s) = Open /\ circ (br s') = HalfOpen)).
Proof. exact cb_blocks_not_failures_proof. Qed.
Print Assumptions c08_cb_blocks_not_failures.

(* a successful probe closes the breaker and clears the count - whether or not on_permit raises *)
Theorem c08_cb_probe_success_closes_and_clears :
  forall c k b s r s' p,
    enabled c = true -> probe_state c s ->
    run_req_k c k b s r = (s', p) -> successb (reply_result p) = true ->
    circ (br s') = Closed /\ fcount (br s') = 0 /\ trips (br s') = trips (br s).
Proof. exact cb_probe_success_proof. Qed.
Print Assumptions c08_cb_probe_success_closes_and_clears.

(* a failed probe re-opens, counts ONE failure and restarts the timeout - whether or not on_block raises *)
Theorem c08_cb_probe_failure_reopens_and_restarts :
  forall c k b s r s' p,
    legacy c = false -> interim c = false -> enabled c = true -> probe_state c s ->
    run_req_k c k b s r = (s', p) -> failureb (reply_result p) = true ->
    circ (br s') = Open /\ last_failure (br s') = Some (now s') /\
    trips (br s') = trips (br s) + 1 /\ fcount (br s') = fcount (br s) + 1.
Proof. exact cb_probe_failure_proof. Qed.
Print Assumptions c08_cb_probe_failure_reopens_and_restarts.

(* isolation while open, observers installed: every request that arrives is answered CIRCUIT_OPEN by a run() that
   RETURNS (no observer is called for it), whatever the observers of the stragglers answered meanwhile do *)
Theorem c08_cb_open_isolates :
  forall c k ops s fl lf s' fl' rs,
    enabled c = true -> circ (br s) = Open -> last_failure (br s) = Some lf -> lf <= now s ->
    crequests_only (map fst ops) -> cmonotone (map fst ops) -> fl_monotone fl ->
    krun c k (s, fl) ops = ((s', fl'), rs) -> now s' - lf < timeout c ->
    Forall (fun x => fst x = true -> snd x = Returned res_circuit_open) rs /\
    circ (br s') = Open /\
    (exists lf', last_failure (br s') = Some lf' /\ lf <= lf' /\ lf' <= now s') /\
    fcount (br s) <= fcount (br s') /\ trips (br s') = trips (br s) /\ zcalls s' = zcalls s /\
    (length fl' <= length fl)%nat /\
    0 <= ycalls s' - ycalls s <= Z.of_nat (length fl) - Z.of_nat (length fl') /\
    spent s' = spent s + cost c * (ycalls s' - ycalls s).
Proof. exact cb_open_isolates_proof. Qed.
Print Assumptions c08_cb_open_isolates.

(* the history the correspondence check observes ([run_case] maps [ktrace]) is the one these theorems speak about *)
Theorem c08_ktrace_is_krun :
  forall c k ops cs,
    krun c k cs ops =
    (last (map (fun x => snd (fst x)) (ktrace c k cs ops)) cs,
     flat_map (fun x => match snd x with Some r => [r] | None => [] end) (ktrace c k cs ops)).
Proof. exact ktrace_krun. Qed.
Print Assumptions c08_ktrace_is_krun.

(* ====================================================================== *)
(* LIVE RECONFIGURATION and prompts that cannot be hashed.  failure_threshold and recovery_timeout are public
   attributes that the breaker methods read at every call; a live history ([lop], [lstep], [lrun] of Model.v) threads
   the configuration through its operations: [SetTimeout t] / [SetThreshold n] replace it (any value: zero, a
   "manual reset only" timeout of 1e12 s, ...), [K o] is an operation of the histories above carried out under the
   configuration in force, [Odd r] a request whose prompt cannot be hashed (lone surrogate, not a str): run() touches
   the prompt only after the breaker check, and then raises ([LRaisedInRun]).  Vocabulary (Live.v): [arrives o] =
   a whole request, the begin of an overlapping one, or a request with an unhashable prompt;
   [within tmo now lf ops] = [ops] consists of arrivals, clock advances and reassignments of the timeout and the
   threshold, and every arrival happens less than the timeout IN FORCE AT THAT MOMENT after [lf];
   [lresults rs] = the LoopResults among the replies; [thr_fixed ops] = no [SetThreshold]. *)

(* histories without reconfiguration and unusual prompts are exactly the histories of the theorems above *)
Theorem c08_live_static_is_krun :
  forall k c ops cs,
    lrun k (c, cs) (map K ops) = ((c, fst (krun c k cs ops)), map lift (snd (krun c k cs ops))).
Proof. exact lrun_static. Qed.
Print Assumptions c08_live_static_is_krun.

(* While open it answers EVERY request blocked/CIRCUIT_OPEN until the recovery timeout has elapsed since the last
   failure: whatever the prompt is (hashable or not: run() RETURNS the refusal, it does not raise), whatever the
   recovery timeout is or is made meanwhile (lengthened, shortened, far beyond the range of the clock), as long as
   each request arrives less than the timeout then in force after the last failure.  No agent is invoked, no energy
   spent, the breaker, the cache and the requests in flight are as before; only the request counter moves. *)
Theorem c08_live_open_isolates_every_prompt :
  forall k ops c s fl lf c' s' fl' rs,
    enabled c = true -> circ (br s) = Open -> last_failure (br s) = Some lf ->
    within (timeout c) (now s) lf ops ->
    lrun k (c, (s, fl)) ops = ((c', (s', fl')), rs) ->
    Forall (fun x => x = (true, LReply (Returned res_circuit_open))) rs /\
    br s' = br s /\ zcalls s' = zcalls s /\ ycalls s' = ycalls s /\ spent s' = spent s /\
    cache s' = cache s /\ fl' = fl /\
    total_requests s' = total_requests s + Z.of_nat (length rs).
Proof. exact live_open_isolates_proof. Qed.
Print Assumptions c08_live_open_isolates_every_prompt.

(* one arriving request in that situation, as an equation: the state moves by the request counter only *)
Theorem c08_live_refusal_step :
  forall k c s fl o lf,
    enabled c = true -> circ (br s) = Open -> last_failure (br s) = Some lf -> now s - lf < timeout c ->
    arrives o = true ->
    lstep k (c, (s, fl)) o = ((c, (bump_requests s, fl)), Some (true, LReply (Returned res_circuit_open))).
Proof. exact lstep_refused. Qed.
Print Assumptions c08_live_refusal_step.

(* once the timeout IN FORCE has elapsed since the last failure a probe is admitted (served by the agents or from
   the cache, never CIRCUIT_OPEN) - e.g. at once when the operator shortens the timeout of an outage in progress *)
Theorem c08_live_probe_admitted_at_timeout_in_force :
  forall k c s fl r b lf ls' a,
    enabled c = true -> cache_ok (cache s) ->
    circ (br s) = Open -> last_failure (br s) = Some lf -> timeout c <= now s - lf ->
    lstep k (c, (s, fl)) (K (Seq (Run r), b)) = (ls', a) ->
    exists s' p,
      ls' = (c, (s', fl)) /\ a = Some (true, LReply p) /\
      r_action (reply_result p) <> ACircuitOpen /\
      ((r_cached (reply_result p) = true /\ zcalls s' = zcalls s /\ circ (br s') = HalfOpen) \/
       (r_cached (reply_result p) = false /\ zcalls s' = zcalls s + 1)).
Proof. exact live_probe_admitted_proof. Qed.
Print Assumptions c08_live_probe_admitted_at_timeout_in_force.

(* never open before the threshold has been reached in total, while the recovery timeout is reassigned at will and
   requests with unhashable prompts come in: those are never failures (they have no LoopResult when run() raises) *)
Theorem c08_live_open_implies_threshold_reached :
  forall k ops c s fl c' s' fl' rs,
    interim c = false -> circ (br s) = Closed -> fcount (br s) = 0 -> thr_fixed ops ->
    lrun k (c, (s, fl)) ops = ((c', (s', fl')), rs) ->
    (circ (br s') <> Closed ->
       threshold c <= count_failures (lresults rs) /\ threshold c <= fcount (br s') /\
       last_failure (br s') <> None) /\
    (trips (br s) < trips (br s') -> threshold c <= count_failures (lresults rs)).
Proof. exact live_open_implies_threshold_proof. Qed.
Print Assumptions c08_live_open_implies_threshold_reached.

(* the threshold reassigned on the live loop: the count grows only by failures, and a CLOSED breaker leaves CLOSED
   only when the count has reached the threshold in force in that operation ... *)
Theorem c08_live_trip_needs_threshold_in_force :
  forall k c s fl o c' s' fl' a,
    interim c = false -> 0 <= fcount (br s) -> circ (br s) = Closed ->
    lstep k (c, (s, fl)) o = ((c', (s', fl')), a) ->
    fcount (br s') <= fcount (br s) + count_failures (lres_list a) /\
    (circ (br s') <> Closed -> threshold c <= fcount (br s') /\ last_failure (br s') <> None).
Proof. exact live_trip_needs_threshold_in_force_proof. Qed.
Print Assumptions c08_live_trip_needs_threshold_in_force.

(* ... and it does open, stamping the failure, when a request fails with the count reaching the threshold in force
   (whatever the recovery timeout is: nothing is added to the clock reading) *)
Theorem c08_live_opens_at_threshold_in_force :
  forall k c s fl r b c' s' fl' w p,
    legacy c = false -> interim c = false ->
    circ (br s) = Closed -> threshold c <= fcount (br s) + 1 ->
    lstep k (c, (s, fl)) (K (Seq (Run r), b)) = ((c', (s', fl')), Some (w, LReply p)) ->
    failureb (reply_result p) = true ->
    circ (br s') = Open /\ fcount (br s') = fcount (br s) + 1 /\ trips (br s') = trips (br s) + 1 /\
    last_failure (br s') = Some (now s').
Proof. exact live_opens_at_threshold_in_force_proof. Qed.
Print Assumptions c08_live_opens_at_threshold_in_force.

(* a request whose prompt cannot be hashed and that makes run() raise is not booked: no failure, no success, no
   trip; at most it was admitted as the probe (OPEN -> HALF_OPEN) *)
Theorem c08_live_unhashable_prompt_not_booked :
  forall k c s fl r c' s' fl',
    lstep k (c, (s, fl)) (Odd r) = ((c', (s', fl')), Some (true, LRaisedInRun)) ->
    fcount (br s') = fcount (br s) /\ trips (br s') = trips (br s) /\
    last_failure (br s') = last_failure (br s) /\ scount (br s') = scount (br s) /\
    (circ (br s') = circ (br s) \/ (circ (br s) = Open /\ circ (br s') = HalfOpen)).
Proof. exact live_odd_raise_not_booked_proof. Qed.
Print Assumptions c08_live_unhashable_prompt_not_booked.

(* the history the correspondence check observes ([run_case] maps [ltrace]) is the one these theorems speak about *)
Theorem c08_ltrace_is_lrun :
  forall k ops ls,
    lrun k ls ops =
    (last (map (fun x => snd (fst x)) (ltrace k ls ops)) ls,
     flat_map (fun x => match snd x with Some r => [r] | None => [] end) (ltrace k ls ops)).
Proof. exact ltrace_lrun. Qed.
Print Assumptions c08_ltrace_is_lrun.

(* ====================================================================== *)
(* The breaker automaton of the model is the code.  gen/Gen_C08.v is regenerated from operon_ai/topology/loops.py
   on every run (translators/c08_gen.py): [b_check_circuit], [b_record_success], [b_record_failure],
   [b_reset_circuit_breaker] are the four breaker methods of CoherentFeedForwardLoop as Gallina functions over the
   attributes they use ([now] is what datetime.now() returns), no other method assigns to those attributes, and
   [breaker_callers] lists every call site.  Each generated function equals the model's, on every breaker state,
   threshold, timeout and clock value; and run() calls them where [run_req] does. *)
Theorem c08_gen_breaker_is_model :
  forall thr tmo t b,
    b_check_circuit (bproj thr tmo b) t =
      (bproj thr tmo (fst (check_circuit tmo t b)), GBool (snd (check_circuit tmo t b))) /\
    b_record_success (bproj thr tmo b) t = (bproj thr tmo (record_success t b), GUnit) /\
    b_record_failure (bproj thr tmo b) t = (bproj thr tmo (record_failure thr t b), GUnit) /\
    b_reset_circuit_breaker (bproj thr tmo b) t = (bproj thr tmo (reset_breaker b), GUnit) /\
    breaker_callers = expected_callers.   (* = [("run", [0; 2; 1; 2])] *)
Proof.
  intros thr tmo t b.
  exact (conj (b_check_circuit_ok thr tmo t b) (conj (b_record_success_ok thr tmo t b)
        (conj (b_record_failure_ok thr tmo t b) (conj (b_reset_ok thr tmo t b) breaker_callers_ok)))).
Qed.
Print Assumptions c08_gen_breaker_is_model.
