(* C08 — non-vacuity examples and the refutation of the pre-repair classification *)
From Coq Require Import ZArith List Bool Lia.
From Verif Require Import C08.Model C08.Proofs C08.Live.
Import ListNotations.
Open Scope Z_scope.

(* threshold 2, recovery timeout 10, cache on (ttl 1000), AND gate, cost 10 *)
Definition cfgA := mkCfg true 2 10 true 1000 GAnd 10 false false.
Definition cfgLegacy := mkCfg true 2 10 true 1000 GAnd 10 true false.
Definition cfgOff := mkCfg false 1 10 false 1000 GAnd 10 false false.
(* OR gate, current rule / rule of 044cd88..3c979ee *)
Definition cfgOr := mkCfg true 2 10 false 1000 GOr 10 false false.
Definition cfgOrInterim := mkCfg true 2 10 false 1000 GOr 10 false true.
Definition cfgExecPrio := mkCfg true 1 10 false 1000 GExecPrio 10 false false.

Definition reqS p := mkReq p (Returns ZExecute) (Returns YPermit) 0.   (* success *)
Definition reqB p := mkReq p (Returns ZExecute) (Returns YBlock) 0.    (* assessor blocks *)
Definition reqF p := mkReq p (Returns ZFailure) (Returns YPermit) 0.   (* executor FAILURE *)
Definition reqX p := mkReq p Raises (Returns YPermit) 3.               (* executor raises after 3 *)
Definition reqBB p := mkReq p (Returns ZBlock) (Returns YBlock) 0.     (* both agents BLOCK *)
Definition reqK p := mkReq p (Returns ZBlock) (Returns YPermit) 0.     (* executor BLOCK *)
Definition reqFB p := mkReq p (Returns ZFailure) (Returns YBlock) 0.   (* executor FAILURE, assessor BLOCK *)

(* the breaker after two failures: OPEN, last failure at time 0 *)
Definition s_open := fst (run_ops cfgA init [Run (reqF 1); Run (reqX 2)]).

(* c08_open_implies_threshold_reached: a history from a cleared CLOSED state that ends OPEN *)
Example ex_opens_at_threshold :
  let '(s', rs) := run_ops cfgA init [Run (reqF 1); Run (reqS 2); Run (reqX 3)] in
  circ (br s') = Open /\ count_failures rs = 2 /\ fcount (br s') = 2 /\ trips (br s') = 1 /\
  last_failure (br s') = Some 3.
Proof. vm_compute. auto. Qed.

(* one failure short of the threshold: still CLOSED *)
Example ex_closed_below_threshold :
  let '(s', rs) := run_ops cfgA init [Run (reqF 1); Run (reqS 2); Run (reqB 3)] in
  circ (br s') = Closed /\ count_failures rs = 1.
Proof. vm_compute. auto. Qed.

(* c08_opens_after_n_consecutive_failures: hypotheses met by a real history *)
Example ex_consecutive :
  let ops := [Run (reqF 1); Tick 4; ClearCache; Run (reqX 2)] in
  let '(s', rs) := run_ops cfgA init ops in
  no_reset ops /\ Forall (fun r => failureb r = true) rs /\
  threshold cfgA <= Z.of_nat (length rs) /\ circ (br s') = Open.
Proof. vm_compute. repeat split; repeat constructor; discriminate. Qed.

(* c08_open_isolates: OPEN, two requests before the timeout has elapsed *)
Example ex_isolates :
  let ops := [Tick 5; Run (reqS 7); Tick 4; Run (reqF 8)] in
  let '(s', rs) := run_ops cfgA s_open ops in
  circ (br s_open) = Open /\ last_failure (br s_open) = Some 3 /\
  requests_only ops /\ monotone ops /\ now s' - 3 < timeout cfgA /\
  rs = [res_circuit_open; res_circuit_open] /\ zcalls s' = 2 /\ zcalls s_open = 2 /\
  spent s' = spent s_open.
Proof. vm_compute. repeat split; repeat constructor; discriminate. Qed.

(* the state in which a probe is due *)
Definition s_due := fst (run_ops cfgA s_open [Tick 10]).

Example ex_probe_state : probe_state cfgA s_due /\ cache_ok (cache s_due) /\ inv cfgA s_due.
Proof.
  split; [|split].
  - right. split; [reflexivity|]. exists 3. split; [reflexivity|]. vm_compute. discriminate.
  - vm_compute. repeat constructor.
  - eapply run_ops_inv; [apply inv_init|].
    instantiate (2 := [Run (reqF 1); Run (reqX 2); Tick 10]). vm_compute. reflexivity.
Qed.

(* c08_probe_admitted_after_timeout / c08_probe_success_closes_and_clears *)
Example ex_probe_success :
  let '(s', o) := run_req cfgA s_due (reqS 9) in
  successb o = true /\ zcalls s' = zcalls s_due + 1 /\
  circ (br s') = Closed /\ fcount (br s') = 0 /\ trips (br s') = 1.
Proof. vm_compute. auto 6. Qed.

(* a probe answered from the cache leaves the breaker HALF_OPEN *)
Example ex_probe_cache_hit :
  let '(s', o) := run_req cfgA s_due (reqS 1) in
  r_cached o = true /\ r_action o = AFailure /\ zcalls s' = zcalls s_due /\ circ (br s') = HalfOpen.
Proof. vm_compute. auto. Qed.

(* c08_probe_failure_reopens_and_restarts *)
Example ex_probe_failure :
  let '(s', o) := run_req cfgA s_due (reqX 9) in
  failureb o = true /\ circ (br s') = Open /\ last_failure (br s') = Some 16 /\ now s' = 16 /\
  trips (br s') = 2 /\ fcount (br s') = 3 /\
  snd (run_ops cfgA s' [Tick 9; Run (reqS 5)]) = [res_circuit_open] /\
  map r_action (snd (run_ops cfgA s' [Tick 10; Run (reqS 5)])) = [ASuccess].
Proof. vm_compute. repeat split; reflexivity. Qed.

(* c08_blocks_not_failures: blocks in CLOSED, and a blocked probe *)
Example ex_blocks :
  let '(s', rs) := run_ops cfgA init [Run (reqB 1); Tick 1; Run (reqB 2); Run (reqB 1)] in
  Forall (fun r => blockb r = true) rs /\ length rs = 3%nat /\
  fcount (br s') = 0 /\ circ (br s') = Closed.
Proof. vm_compute. repeat split; repeat constructor. Qed.

Example ex_blocked_probe :
  let '(s', o) := run_req cfgA s_due (reqB 9) in
  blockb o = true /\ circ (br s') = HalfOpen /\ fcount (br s') = 2 /\ trips (br s') = 1.
Proof. vm_compute. auto. Qed.

(* c08_disabled_never_open: every request reaches the executor ... *)
Example ex_disabled :
  let '(s', rs) := run_ops cfgOff init [Run (reqF 1); Run (reqX 2); Run (reqS 3)] in
  map r_action rs = [AFailure; AError; ASuccess] /\ zcalls s' = 3.
Proof. vm_compute. auto. Qed.

(* ... although the state field itself does go to OPEN in this mode (it is never consulted) *)
Example ex_disabled_field_opens :
  let '(s', rs) := run_ops cfgOff init [Run (reqF 1)] in
  circ (br s') = Open /\ trips (br s') = 1.
Proof. vm_compute. auto. Qed.

(* c08_reset_closes_and_clears *)
Example ex_reset :
  let '(s', rs) := run_ops cfgA s_open [Reset; Run (reqS 9)] in
  circ (br s_open) = Open /\ map r_action rs = [ASuccess] /\ circ (br s') = Closed /\ fcount (br s') = 0.
Proof. vm_compute. auto. Qed.

(* the repaired classification on the witness of the known defect *)
Example ex_five_failures_fixed :
  let '(s', rs) := run_ops cfgA init [Run (reqF 1); Run (reqF 2); Run (reqF 3); Run (reqF 4); Run (reqF 5)] in
  circ (br s') = Open /\ fcount (br s') = 2 /\ zcalls s' = 2 /\
  map r_action rs = [AFailure; AFailure; ACircuitOpen; ACircuitOpen; ACircuitOpen].
Proof. vm_compute. auto. Qed.

(* intentional blocks under the other gate logics: OR "both agents rejected"
   (success=False), EXECUTOR_PRIORITY executor BLOCK -> "signal mismatch" *)
Example ex_blocks_or :
  let '(s', rs) := run_ops cfgOr init [Run (reqBB 1); Run (reqBB 2); Run (reqBB 3)] in
  Forall (fun r => blockb r = true) rs /\ map r_success rs = [false; false; false] /\
  fcount (br s') = 0 /\ circ (br s') = Closed /\ zcalls s' = 3.
Proof. vm_compute. repeat split; repeat constructor. Qed.

Example ex_blocks_exec_prio :
  let '(s', rs) := run_ops cfgExecPrio init [Run (reqK 1); Run (reqK 2)] in
  Forall (fun r => blockb r = true) rs /\ map r_action rs = [AError; AError] /\
  fcount (br s') = 0 /\ circ (br s') = Closed.
Proof. vm_compute. repeat split; repeat constructor. Qed.

(* an executor FAILURE counts even when the assessor's BLOCK makes the result a
   "successful" BLOCKED one (AND gate) *)
Example ex_failure_behind_assessor_block :
  let '(s', rs) := run_ops cfgA init [Run (reqFB 1); Run (reqFB 2)] in
  Forall (fun r => failureb r = true) rs /\ map r_action rs = [ABlocked; ABlocked] /\
  map r_success rs = [true; true] /\ circ (br s') = Open /\ fcount (br s') = 2.
Proof. vm_compute. repeat split; repeat constructor. Qed.

(* Rule of 044cd88..3c979ee ([interim = true]): a blocked result was skipped only
   when it was also successful.  Under the OR gate two requests that both agents
   BLOCK ("Both agents rejected", success=False) were counted as failures and
   opened the breaker with threshold 2: c08_blocks_not_failures and
   c08_open_implies_threshold_reached fail without [interim c = false]. *)
Lemma c08_interim_blocks_counted_refuted :
  exists c ops s' rs,
    interim c = true /\ legacy c = false /\
    requests_only ops /\ run_ops c init ops = (s', rs) /\
    Forall (fun r => blockb r = true) rs /\ count_failures rs = 0 /\
    fcount (br s') = 2 /\ circ (br s') = Open /\ trips (br s') = 1 /\ 1 <= threshold c.
Proof.
  exists cfgOrInterim, [Run (reqBB 1); Run (reqBB 2)].
  eexists. eexists.
  split; [reflexivity|]. split; [reflexivity|]. split; [repeat constructor|].
  split; [vm_compute; reflexivity|]. split; [repeat constructor|].
  vm_compute. repeat split; auto; discriminate.
Qed.

(* Pre-repair classification ([legacy = true]): every blocked result, executor
   FAILUREs included, was skipped as an "intentional block".  Five executor
   failures with threshold 2 leave the breaker CLOSED with a count of 0, so
   c08_opens_after_n_consecutive_failures fails without [legacy c = false]. *)
Lemma c08_legacy_failures_swallowed_refuted :
  exists c s ops s' rs,
    legacy c = true /\ interim c = false /\ 1 <= threshold c /\ 0 <= fcount (br s) /\
    no_reset ops /\ run_ops c s ops = (s', rs) /\
    Forall (fun r => failureb r = true) rs /\
    threshold c <= Z.of_nat (length rs) /\
    circ (br s') = Closed /\ fcount (br s') = 0 /\ zcalls s' = 5.
Proof.
  exists cfgLegacy, init,
    [Run (reqF 1); Run (reqF 2); Run (reqF 3); Run (reqF 4); Run (reqF 5)].
  eexists. eexists.
  split; [reflexivity|]. split; [reflexivity|].
  split; [vm_compute; discriminate|]. split; [vm_compute; discriminate|].
  split; [repeat constructor|]. split; [vm_compute; reflexivity|].
  split; [repeat constructor|]. split; [vm_compute; discriminate|].
  vm_compute. auto.
Qed.

(* The cache cap (_cache_result: more than 1000 entries -> the entry with the smallest timestamp goes, the earliest
   inserted among equals).  1001 successful requests for distinct prompts, the first at time 0 and the others at
   time 5: the first prompt is gone (asking again consults the executor), the second is still a hit; asking for
   the first again evicts the second. *)
Definition fill (n : nat) : list op := map (fun k => Run (reqS (Z.of_nat k))) (seq 1 n).
Definition cfgBig := mkCfg true 2 10 true 100000 GAnd 10 false false.
Definition s_full := fst (run_ops cfgBig init (Run (reqS 0) :: Tick 5 :: fill 1000)).

Example ex_cache_capped :
  Z.of_nat (length (cache s_full)) = cache_cap /\ zcalls s_full = 1001 /\
  lookup 0 (cache s_full) = None /\ lookup 1 (cache s_full) <> None /\
  (let '(s', o) := run_req cfgBig s_full (reqS 1) in r_cached o = true /\ zcalls s' = 1001) /\
  (let '(s', o) := run_req cfgBig s_full (reqS 0) in
   r_cached o = false /\ zcalls s' = 1002 /\ Z.of_nat (length (cache s')) = cache_cap /\
   lookup 1 (cache s') = None /\ lookup 2 (cache s') <> None).
Proof. vm_compute. repeat split; discriminate. Qed.

(* an entry stamped earlier than everything in a full cache is itself the minimum: it evicts itself *)
Example ex_cache_evicts_newcomer :
  let s := advance s_full (-100) in
  let '(s', o) := run_req cfgBig s (reqS 7000) in
  r_cached o = false /\ lookup 7000 (cache s') = None /\ Z.of_nat (length (cache s')) = cache_cap.
Proof. vm_compute. repeat split; discriminate. Qed.

(* ---------------------------------------------------------------------- *)
(* requests that overlap                                                   *)

(* two requests are admitted while CLOSED and are still inside the executor when two failures open the breaker *)
Definition cs_open_flying : cstate :=
  fst (crun cfgA (init, []) [Begin 1 (reqS 1) InZ; Begin 2 (reqF 9) InZ; Seq (Run (reqF 2)); Seq (Run (reqX 3))]).

Example ex_overlap_open_with_stragglers :
  circ (br (fst cs_open_flying)) = Open /\ last_failure (br (fst cs_open_flying)) = Some 3 /\
  now (fst cs_open_flying) = 3 /\ length (snd cs_open_flying) = 2%nat /\ fl_monotone (snd cs_open_flying) /\
  fcount (br (fst cs_open_flying)) = 2 /\ zcalls (fst cs_open_flying) = 4.
Proof. vm_compute. repeat split; repeat constructor; discriminate. Qed.

(* c08_overlap_open_isolates: hypotheses met by a history in which both stragglers are answered inside the
   timeout - one successfully (the breaker stays OPEN, the count stays), one with a failure (last_failure moves
   from 3 to 5) - and two requests arrive (both refused, the second one a [Begin]) *)
Example ex_overlap_isolates :
  let ops := [Seq (Tick 2); End 1; Seq (Run (reqS 7)); End 2; Begin 3 (reqS 8) InY; Seq (Tick 3)] in
  let '((s', fl'), rs) := crun cfgA cs_open_flying ops in
  crequests_only ops /\ cmonotone ops /\ now s' - 3 < timeout cfgA /\
  map (fun x => (fst x, r_action (snd x))) rs =
    [(false, ASuccess); (true, ACircuitOpen); (false, AFailure); (true, ACircuitOpen)] /\
  circ (br s') = Open /\ last_failure (br s') = Some 5 /\ fcount (br s') = 3 /\ trips (br s') = 1 /\
  zcalls s' = 4 /\ fl' = [] /\ ycalls s' = ycalls (fst cs_open_flying) + 2 /\
  spent s' = spent (fst cs_open_flying) + 20.
Proof. vm_compute. repeat split; repeat constructor; discriminate. Qed.

(* c08_open_left_only_by_probe_or_reset: the answer of a straggler is in the first case (still OPEN), a request
   that arrives after the timeout is in the third (a [Begin]: the breaker is HALF_OPEN while it is in flight, and
   its success closes the breaker when it is answered) *)
Example ex_overlap_straggler_vs_probe :
  circ (br (fst (fst (cstep cfgA cs_open_flying (End 1))))) = Open /\
  fcount (br (fst (fst (cstep cfgA cs_open_flying (End 1))))) = 2 /\
  (let '((s1, fl1), r1) := cstep cfgA (s_due, []) (Begin 5 (reqS 9) InZ) in
   r1 = None /\ circ (br s1) = HalfOpen /\ length fl1 = 1%nat /\
   let '((s2, fl2), r2) := cstep cfgA (s1, fl1) (End 5) in
   circ (br s2) = Closed /\ fcount (br s2) = 0 /\ fl2 = []).
Proof. vm_compute. repeat split; reflexivity. Qed.

(* c08_overlap_open_implies_threshold_reached: the two failures that open the breaker are answers of requests
   that overlapped *)
Example ex_overlap_opens_at_threshold :
  let '((s', fl'), rs) :=
    crun cfgA (init, []) [Begin 1 (reqF 1) InZ; Begin 2 (reqX 2) InZ; Seq (Run (reqS 3)); End 2; End 1] in
  circ (br s') = Open /\ count_failures (map snd rs) = 2 /\ fcount (br s') = 2 /\ trips (br s') = 1 /\ fl' = [].
Proof. vm_compute. auto. Qed.

(* ---------------------------------------------------------------------- *)
(* observers that raise                                                    *)

Definition hBoth := mkHooks true true.
Definition hBlockOnly := mkHooks true false.

(* c08_cb_blocks_not_failures / c08_callbacks_never_move_the_breaker: threshold 2; two intentional blocks whose
   on_block raises (run() raises both times, the observer was handed the BLOCKED result), then a success whose
   on_permit returns: no failure counted, CLOSED, all three requests reached the agents *)
Example ex_cb_blocks_raise :
  let ops := [(Run (reqB 1), CbRaises); (Run (reqB 2), CbRaises); (Run (reqS 3), CbReturns)] in
  let '((s', fl'), rs) := krun cfgA hBoth (init, []) (seqk ops) in
  requests_only (map fst ops) /\
  map (fun x => (is_raised (snd x), r_action (reply_result (snd x)))) rs =
    [(true, ABlocked); (true, ABlocked); (false, ASuccess)] /\
  Forall (fun x => blockb (reply_result (snd x)) = true) (firstn 2 rs) /\
  fcount (br s') = 0 /\ circ (br s') = Closed /\ trips (br s') = 0 /\ zcalls s' = 3 /\
  total_blocked s' = 2 /\ total_permitted s' = 1.
Proof. vm_compute. repeat split; repeat constructor. Qed.

(* c08_cb_open_implies_threshold_reached: ONE executor failure whose on_block raises is one failure - threshold 2:
   still CLOSED with a count of 1; the second one opens the breaker *)
Example ex_cb_failure_raise_counts_once :
  let '((s1, _), rs1) := krun cfgA hBoth (init, []) [(Seq (Run (reqF 1)), CbRaises)] in
  let '((s2, _), rs2) := krun cfgA hBoth (init, []) [(Seq (Run (reqF 1)), CbRaises); (Seq (Run (reqF 2)), CbRaises)] in
  map (fun x => is_raised (snd x)) rs1 = [true] /\ circ (br s1) = Closed /\ fcount (br s1) = 1 /\
  circ (br s2) = Open /\ fcount (br s2) = 2 /\ trips (br s2) = 1 /\
  count_failures (map (fun x => reply_result (snd x)) rs2) = 2.
Proof. vm_compute. repeat split; reflexivity. Qed.

(* c08_callback_raises_only_after_bookkeeping: only an installed observer that is called can make run() raise -
   on_permit is not installed here, a cache hit and an agent exception call no observer *)
Example ex_cb_not_called :
  is_raised (snd (run_req_k cfgA hBlockOnly CbRaises init (reqS 1))) = false /\
  is_raised (snd (run_req_k cfgA hBoth CbRaises init (reqX 1))) = false /\
  (let s1 := fst (run_req_k cfgA hBoth CbRaises init (reqB 1)) in
   snd (run_req_k cfgA hBoth CbRaises init (reqB 1)) = Raised (gate_result GAnd ZExecute YBlock) /\
   r_cached (reply_result (snd (run_req_k cfgA hBoth CbRaises s1 (reqB 1)))) = true /\
   is_raised (snd (run_req_k cfgA hBoth CbRaises s1 (reqB 1))) = false).
Proof. vm_compute. repeat split; reflexivity. Qed.

(* c08_cb_probe_success_closes_and_clears / c08_cb_probe_failure_reopens_and_restarts: the probe's observer raises *)
Example ex_cb_probe :
  (let '(s', p) := run_req_k cfgA hBoth CbRaises s_due (reqS 9) in
   is_raised p = true /\ successb (reply_result p) = true /\
   circ (br s') = Closed /\ fcount (br s') = 0 /\ trips (br s') = 1) /\
  (let '(s', p) := run_req_k cfgA hBoth CbRaises s_due (reqF 9) in
   is_raised p = true /\ failureb (reply_result p) = true /\
   circ (br s') = Open /\ fcount (br s') = 3 /\ trips (br s') = 2 /\ last_failure (br s') = Some (now s')).
Proof. vm_compute. repeat split; reflexivity. Qed.

(* c08_cb_open_isolates: OPEN with two stragglers in flight; their observers raise when they are answered, the
   requests that arrive are refused by a run() that returns although the observer would raise *)
Example ex_cb_isolates :
  let ops := [(Seq (Tick 2), CbReturns); (End 1, CbRaises); (Seq (Run (reqS 7)), CbRaises); (End 2, CbRaises);
              (Begin 3 (reqS 8) InY, CbRaises)] in
  let '((s', fl'), rs) := krun cfgA hBoth cs_open_flying ops in
  crequests_only (map fst ops) /\ cmonotone (map fst ops) /\ now s' - 3 < timeout cfgA /\
  rs = [(false, Raised (gate_result GAnd ZExecute YPermit)); (true, Returned res_circuit_open);
        (false, Raised (gate_result GAnd ZFailure YPermit)); (true, Returned res_circuit_open)] /\
  circ (br s') = Open /\ fcount (br s') = 3 /\ trips (br s') = 1 /\ zcalls s' = 4 /\ fl' = [].
Proof. vm_compute. repeat split; repeat constructor; discriminate. Qed.

(* ---------------------------------------------------------------------- *)
(* live reconfiguration, prompts that cannot be hashed                     *)

Definition hNone := mkHooks false false.
(* two failures at time 0: OPEN, last failure at 0, timeout 10 *)
Definition ls_open : lstate := (cfgA, (s_open, [])).

(* c08_live_open_isolates_every_prompt: the timeout is lengthened to 30 during the outage; at 12 (after the OLD
   timeout) a request, one with an unhashable prompt and the begin of an overlapping one are refused; then the
   timeout is made "manual reset only" and a request a year later is refused too *)
Example ex_live_isolates :
  let ops := [SetTimeout 30; K (Seq (Tick 12), CbReturns); K (Seq (Run (reqS 7)), CbReturns); Odd (reqS 0);
              K (Begin 4 (reqS 8) InZ, CbReturns); SetThreshold 5; SetTimeout (10 ^ 18);
              K (Seq (Tick 31622400000000), CbReturns); Odd (reqF 0); K (Seq (Run (reqS 9)), CbReturns)] in
  let '((c', (s', fl')), rs) := lrun hNone ls_open ops in
  within (timeout cfgA) (now s_open) 0 ops /\ length rs = 5%nat /\
  Forall (fun x => x = (true, LReply (Returned res_circuit_open))) rs /\
  circ (br s') = Open /\ zcalls s' = zcalls s_open /\ spent s' = spent s_open /\
  timeout c' = 10 ^ 18 /\ threshold c' = 5.
Proof. vm_compute. repeat split; repeat constructor; intros; discriminate. Qed.

(* c08_live_probe_admitted_at_timeout_in_force: the timeout is shortened to 3 during the outage; at 4 the probe is
   admitted (and closes the breaker); with the original timeout it would have been refused *)
Example ex_live_probe_after_shortening :
  (let '((c', (s', _)), rs) := lrun hNone ls_open [K (Seq (Tick 4), CbReturns); SetTimeout 3;
                                                     K (Seq (Run (reqS 7)), CbReturns)] in
   rs = [(true, LReply (Returned (gate_result GAnd ZExecute YPermit)))] /\ circ (br s') = Closed /\ fcount (br s') = 0) /\
  (let '((c', (s', _)), rs) := lrun hNone ls_open [K (Seq (Tick 4), CbReturns); K (Seq (Run (reqS 7)), CbReturns)] in
   rs = [(true, LReply (Returned res_circuit_open))] /\ circ (br s') = Open).
Proof. vm_compute. repeat split; reflexivity. Qed.

(* once the timeout has elapsed an unhashable prompt is not refused: run() raises (cache on: before the agents, the
   breaker left HALF_OPEN; cache off: after both agents answered), nothing is booked *)
Example ex_live_odd_probe :
  (let '((_, (s', _)), rs) := lrun hNone ls_open [K (Seq (Tick 10), CbReturns); Odd (reqS 0)] in
   rs = [(true, LRaisedInRun)] /\ circ (br s') = HalfOpen /\ fcount (br s') = 2 /\ zcalls s' = zcalls s_open) /\
  (let '((_, (s', _)), rs) := lrun hNone (cfgOr, (init, [])) [Odd (reqS 0); Odd (reqX 0)] in
   rs = [(true, LRaisedInRun); (true, LReply (Returned res_error))] /\ circ (br s') = Closed /\
   fcount (br s') = 1 /\ zcalls s' = 2 /\ ycalls s' = 1).
Proof. vm_compute. repeat split; reflexivity. Qed.

(* c08_live_open_implies_threshold_reached / c08_live_trip_needs_threshold_in_force /
   c08_live_opens_at_threshold_in_force: threshold 2; one failure; the threshold is raised to 3: the second failure
   leaves the breaker CLOSED, the third opens it; lowered to 1 instead: nothing happens until the next failure,
   which opens it.  A "manual reset only" timeout does not keep the breaker from opening. *)
Example ex_live_threshold :
  (let '((_, (s', _)), rs) := lrun hNone (cfgA, (init, []))
        [K (Seq (Run (reqF 1)), CbReturns); SetThreshold 3; K (Seq (Run (reqF 2)), CbReturns)] in
   circ (br s') = Closed /\ fcount (br s') = 2 /\ count_failures (lresults rs) = 2) /\
  (let '((_, (s', _)), rs) := lrun hNone (cfgA, (init, []))
        [K (Seq (Run (reqF 1)), CbReturns); SetThreshold 3; K (Seq (Run (reqF 2)), CbReturns);
         K (Seq (Run (reqX 3)), CbReturns)] in
   circ (br s') = Open /\ fcount (br s') = 3 /\ trips (br s') = 1) /\
  (let '((_, (s', _)), rs) := lrun hNone (cfgA, (init, []))
        [K (Seq (Run (reqF 1)), CbReturns); SetThreshold 1; K (Seq (Run (reqS 2)), CbReturns)] in
   circ (br s') = Closed /\ fcount (br s') = 1) /\
  (let '((c', (s', _)), rs) := lrun hNone (cfgA, (init, []))
        [SetTimeout (10 ^ 18); Odd (reqS 0); K (Seq (Run (reqF 1)), CbReturns); K (Seq (Run (reqF 2)), CbReturns);
         K (Seq (Run (reqS 3)), CbReturns)] in
   thr_fixed [SetTimeout (10 ^ 18); Odd (reqS 0)] /\
   circ (br s') = Open /\ trips (br s') = 1 /\ count_failures (lresults rs) = 2 /\ zcalls s' = 2 /\
   last_failure (br s') = Some 0 /\ timeout c' = 10 ^ 18).
Proof. vm_compute. repeat split; repeat constructor; reflexivity. Qed.
