(* C08 — model of the circuit breaker of operon_ai/topology/loops.py,
   CoherentFeedForwardLoop: run(), _check_circuit, _record_success,
   _record_failure, _check_cache, _cache_result, _apply_gate_logic,
   reset_circuit_breaker, clear_cache.
   Executable definitions only (no proofs).

   Time is an integer number of microseconds (datetime/timedelta arithmetic is
   exact integer microsecond arithmetic).  The clock is read once when run()
   starts (circuit check, cache check) and the executor agent may take [dur]
   microseconds, so everything recorded after the agents (last_failure,
   last_success, cache timestamp) carries the later reading.

   An agent either returns an ActionProtein (of which only action_type matters)
   or raises.  Each agent invocation is counted and spends [cost] units of the
   shared energy store before it answers or raises.

   Classification of an answered request for the breaker ("Update circuit
   breaker" in run()); success-and-not-blocked is always a success, otherwise:
     current code (3c979ee): a blocked result is skipped unless the EXECUTOR's
       verdict is FAILURE; everything else is a failure;
     [interim = true] (044cd88 .. 3c979ee): a blocked result was skipped only if
       it was also successful, so BLOCK verdicts that the gate turns into an
       unsuccessful result (OR: both reject; EXECUTOR_PRIORITY: executor BLOCK;
       signal mismatch) were counted as failures;
     [legacy = true] (before 044cd88): every blocked result, executor FAILUREs
       included, was skipped.
   The property theorems are about [legacy = false], [interim = false].

   The result cache keeps at most 1000 entries ([evict]).  Console output (silent=False), the results log
   (get_results_log) and the per-operation timeout_seconds are not modelled: the correspondence check runs
   them as configurations / operations that must leave every observation below unchanged.  The on_block /
   on_permit callbacks are modelled ([hooks], [notify], [run_req_k], [kstep]; last part of the file): which are
   installed, when they are called, and that an exception they raise leaves run() as it is.

   OVERLAPPING REQUESTS ([cop], [cstep], [ctrace]; second half of the file).  run() holds the lock only inside the
   breaker / cache methods, so a second request may be admitted while the first is still inside an agent.  A request
   gives up control only inside executor.express() or assessor.express(): [Begin id r w] carries request [r] from
   its arrival (request counter, circuit check, cache check) into the agent [w], where it stays suspended after the
   agent has been counted and has spent its energy; [End id] lets it go on to its answer at the clock value of that
   moment (everything it records - last_failure, last_success, the cache stamp - and every decision of
   _record_success / _record_failure is taken on the breaker AS IT IS THEN).  A [Begin] that is refused or served
   from the cache (or whose executor raises before the assessor is reached) is a whole request.  [Seq o] is an
   operation of the sequential language.  Pre-emption between two lines of run() outside the agents is not
   modelled.  (Two overlapping requests for one prompt both store their result; the dict keeps the position of
   the first insertion while [cache_store] moves the entry to the front, which only matters for the eviction
   order among equal timestamps at the 1000-entry cap: overlapping histories are not generated that long.) *)
From Coq Require Import ZArith List Bool.
Import ListNotations.
Open Scope Z_scope.

Inductive circuit := Closed | Open | HalfOpen.
Inductive gate := GAnd | GOr | GMajority | GUnanimous | GExecPrio | GAssessPrio.
(* executor action_type: EXECUTE, PERMIT, BLOCK, FAILURE, anything else *)
Inductive zverdict := ZExecute | ZPermit | ZBlock | ZFailure | ZOther.
(* assessor action_type: PERMIT, BLOCK, anything else *)
Inductive yverdict := YPermit | YBlock | YOther.
Inductive beh (T : Type) := Returns (t : T) | Raises.
Arguments Returns {T} t.
Arguments Raises {T}.

(* LoopResult.action *)
Inductive action := ASuccess | ABlocked | AFailure | ASkipped | AError | ACircuitOpen.

(* the part of LoopResult the breaker and the caller look at *)
Record result := mkRes {
  r_success : bool; r_blocked : bool; r_action : action; r_cached : bool;
  r_exec : option zverdict }.   (* executor_output: the executor's verdict, when there is one *)

Record cfg := mkCfg {
  enabled : bool;        (* enable_circuit_breaker *)
  threshold : Z;         (* failure_threshold *)
  timeout : Z;           (* recovery_timeout, microseconds *)
  cache_on : bool;       (* enable_cache *)
  ttl : Z;               (* cache_ttl, microseconds *)
  glogic : gate;
  cost : Z;              (* energy one agent invocation spends *)
  legacy : bool;
  interim : bool }.

Record breaker := mkB {
  circ : circuit;
  fcount : Z;                    (* _failure_count *)
  scount : Z;                    (* _success_count *)
  last_failure : option Z;
  last_success : option Z;
  trips : Z;                     (* _trips_count *)
  total_errors : Z }.

Record state := mkS {
  br : breaker;
  now : Z;                                   (* the virtual clock *)
  cache : list (Z * (result * Z));           (* prompt -> (result, timestamp) *)
  zcalls : Z; ycalls : Z;                    (* executor / assessor invocations *)
  spent : Z;                                 (* energy taken from the shared store *)
  total_requests : Z; total_blocked : Z; total_permitted : Z }.

Record request := mkReq {
  prompt : Z;
  zb : beh zverdict;     (* what the executor does when asked *)
  yb : beh yverdict;     (* what the assessor does when asked *)
  dur : Z }.             (* how long the executor takes *)

Inductive op := Tick (d : Z) | Run (r : request) | Reset | ClearCache.

(* ---------------------------------------------------------------------- *)
(* _apply_gate_logic                                                       *)

Definition res_ok := mkRes true false ASuccess false None.
Definition res_blocked := mkRes true true ABlocked false None.
Definition res_failure := mkRes false true AFailure false None.
Definition res_skipped := mkRes true true ASkipped false None.
Definition res_error := mkRes false true AError false None.
Definition res_rejected := mkRes false true ABlocked false None.   (* OR gate: "Both agents rejected" *)
Definition res_circuit_open := mkRes false true ACircuitOpen false None.

Definition z_permits (z : zverdict) : bool :=
  match z with ZExecute | ZPermit => true | _ => false end.
Definition z_blocks (z : zverdict) : bool := match z with ZBlock => true | _ => false end.
Definition z_fails (z : zverdict) : bool := match z with ZFailure => true | _ => false end.
Definition y_permits (y : yverdict) : bool := match y with YPermit => true | _ => false end.
Definition y_blocks (y : yverdict) : bool := match y with YBlock => true | _ => false end.

Definition gate_table (g : gate) (z : zverdict) (y : yverdict) : result :=
  match g with
  | GAnd | GUnanimous =>
      if y_blocks y then res_blocked
      else if z_fails z then res_failure
      else if z_blocks z then res_skipped
      else if z_permits z && y_permits y then res_ok
      else res_error
  | GOr => if z_permits z || y_permits y then res_ok else res_rejected
  | GExecPrio =>
      if y_blocks y then res_blocked
      else if z_permits z then res_ok
      else res_error
  | GAssessPrio =>
      if z_fails z then res_failure
      else if y_permits y then res_ok
      else if y_blocks y then res_blocked
      else res_error
  | GMajority => res_error
  end.

(* every gate result carries both agents' outputs *)
Definition gate_result (g : gate) (z : zverdict) (y : yverdict) : result :=
  let r := gate_table g z y in
  mkRes (r_success r) (r_blocked r) (r_action r) false (Some z).

(* ---------------------------------------------------------------------- *)
(* the breaker automaton                                                   *)

Definition set_circ (b : breaker) (c : circuit) : breaker :=
  mkB c (fcount b) (scount b) (last_failure b) (last_success b) (trips b) (total_errors b).

(* _check_circuit: new breaker state, and whether the request is admitted *)
Definition check_circuit (tmo t : Z) (b : breaker) : breaker * bool :=
  match circ b with
  | Closed => (b, true)
  | HalfOpen => (b, true)
  | Open =>
      match last_failure b with
      | Some lf => if tmo <=? t - lf then (set_circ b HalfOpen, true) else (b, false)
      | None => (b, false)
      end
  end.

Definition record_success (t : Z) (b : breaker) : breaker :=
  match circ b with
  | HalfOpen => mkB Closed 0 (scount b + 1) (last_failure b) (Some t) (trips b) (total_errors b)
  | c => mkB c (fcount b) (scount b + 1) (last_failure b) (Some t) (trips b) (total_errors b)
  end.

Definition record_failure (thr t : Z) (b : breaker) : breaker :=
  let f := fcount b + 1 in
  let e := total_errors b + 1 in
  match circ b with
  | HalfOpen => mkB Open f (scount b) (Some t) (last_success b) (trips b + 1) e
  | Closed =>
      if thr <=? f then mkB Open f (scount b) (Some t) (last_success b) (trips b + 1) e
      else mkB Closed f (scount b) (Some t) (last_success b) (trips b) e
  | Open => mkB Open f (scount b) (Some t) (last_success b) (trips b) e
  end.

Definition reset_breaker (b : breaker) : breaker :=
  mkB Closed 0 (scount b) (last_failure b) (last_success b) (trips b) (total_errors b).

(* "Update circuit breaker" in run() *)
Definition exec_fails (res : result) : bool :=
  match r_exec res with Some z => z_fails z | None => false end.

Definition classify (c : cfg) (t : Z) (res : result) (b : breaker) : breaker :=
  if r_success res && negb (r_blocked res) then record_success t b
  else if (if legacy c then r_blocked res
           else if interim c then r_blocked res && r_success res
           else r_blocked res && negb (exec_fails res)) then b
  else record_failure (threshold c) t b.

(* ---------------------------------------------------------------------- *)
(* state plumbing                                                          *)

Definition set_br (s : state) (b : breaker) : state :=
  mkS b (now s) (cache s) (zcalls s) (ycalls s) (spent s)
      (total_requests s) (total_blocked s) (total_permitted s).
Definition set_cache (s : state) (k : list (Z * (result * Z))) : state :=
  mkS (br s) (now s) k (zcalls s) (ycalls s) (spent s)
      (total_requests s) (total_blocked s) (total_permitted s).
Definition bump_requests (s : state) : state :=
  mkS (br s) (now s) (cache s) (zcalls s) (ycalls s) (spent s)
      (total_requests s + 1) (total_blocked s) (total_permitted s).
Definition bump_outcome (s : state) (blocked : bool) : state :=
  mkS (br s) (now s) (cache s) (zcalls s) (ycalls s) (spent s) (total_requests s)
      (if blocked then total_blocked s + 1 else total_blocked s)
      (if blocked then total_permitted s else total_permitted s + 1).
Definition advance (s : state) (d : Z) : state :=
  mkS (br s) (now s + d) (cache s) (zcalls s) (ycalls s) (spent s)
      (total_requests s) (total_blocked s) (total_permitted s).
(* the executor is invoked: counted, spends, takes [d] *)
Definition call_z (c : cfg) (s : state) (d : Z) : state :=
  mkS (br s) (now s + d) (cache s) (zcalls s + 1) (ycalls s) (spent s + cost c)
      (total_requests s) (total_blocked s) (total_permitted s).
Definition call_y (c : cfg) (s : state) : state :=
  mkS (br s) (now s) (cache s) (zcalls s) (ycalls s + 1) (spent s + cost c)
      (total_requests s) (total_blocked s) (total_permitted s).

Fixpoint lookup (k : Z) (l : list (Z * (result * Z))) : option (result * Z) :=
  match l with
  | [] => None
  | (k', v) :: rest => if Z.eqb k k' then Some v else lookup k rest
  end.
Fixpoint remove (k : Z) (l : list (Z * (result * Z))) : list (Z * (result * Z)) :=
  match l with
  | [] => []
  | (k', v) :: rest => if Z.eqb k k' then remove k rest else (k', v) :: remove k rest
  end.

(* _check_cache: a live entry is returned, an expired one is deleted *)
Definition cache_probe (c : cfg) (s : state) (k : Z) : state * option result :=
  if cache_on c then
    match lookup k (cache s) with
    | Some (res, ts) =>
        if now s - ts <? ttl c then (s, Some res)
        else (set_cache s (remove k (cache s)), None)
    | None => (s, None)
    end
  else (s, None).

(* _cache_result keeps at most [cache_cap] entries: when an insertion makes the dict larger, the entry
   min(self._cache.items(), key=timestamp) is deleted - the smallest timestamp, and among equal timestamps
   the first in dict order, i.e. the one inserted earliest.  The model's list is newest first (an entry is
   only ever inserted for a key that is absent: a live entry is a cache hit, a stale one was just deleted by
   _check_cache), so among equal timestamps the LAST entry of the list goes. *)
Definition cache_cap : Z := 1000.

Fixpoint oldest (l : list (Z * (result * Z))) : option (Z * Z) :=      (* key and timestamp *)
  match l with
  | [] => None
  | (k, (_, ts)) :: rest =>
      match oldest rest with
      | Some (k', ts') => if ts <? ts' then Some (k, ts) else Some (k', ts')
      | None => Some (k, ts)
      end
  end.

Definition evict (l : list (Z * (result * Z))) : list (Z * (result * Z)) :=
  if cache_cap <? Z.of_nat (length l) then
    match oldest l with Some (k, _) => remove k l | None => l end
  else l.

Definition cache_store (c : cfg) (s : state) (k : Z) (res : result) : state :=
  if cache_on c then set_cache s (evict ((k, (res, now s)) :: remove k (cache s))) else s.

Definition mark_cached (r : result) : result :=
  mkRes (r_success r) (r_blocked r) (r_action r) true (r_exec r).

(* ---------------------------------------------------------------------- *)
(* run()                                                                   *)

Definition run_req (c : cfg) (s0 : state) (r : request) : state * result :=
  let s := bump_requests s0 in
  let '(b1, admitted) :=
    if enabled c then check_circuit (timeout c) (now s) (br s) else (br s, true) in
  let s1 := set_br s b1 in
  if negb admitted then (s1, res_circuit_open)
  else
    match cache_probe c s1 (prompt r) with
    | (s2, Some res) => (s2, mark_cached res)
    | (s2, None) =>
        let s3 := call_z c s2 (dur r) in
        match zb r with
        | Raises => (set_br s3 (record_failure (threshold c) (now s3) (br s3)), res_error)
        | Returns z =>
            let s4 := call_y c s3 in
            match yb r with
            | Raises => (set_br s4 (record_failure (threshold c) (now s4) (br s4)), res_error)
            | Returns y =>
                let res := gate_result (glogic c) z y in
                let s5 := set_br s4 (classify c (now s4) res (br s4)) in
                let s6 := cache_store c s5 (prompt r) res in
                (bump_outcome s6 (r_blocked res), res)
            end
        end
    end.

Definition step (c : cfg) (s : state) (o : op) : state * option result :=
  match o with
  | Tick d => (advance s d, None)
  | Run r => let '(s', res) := run_req c s r in (s', Some res)
  | Reset => (set_br s (reset_breaker (br s)), None)
  | ClearCache => (set_cache s [], None)
  end.

(* a history: final state and the answers to its requests, in order *)
Fixpoint run_ops (c : cfg) (s : state) (ops : list op) : state * list result :=
  match ops with
  | [] => (s, [])
  | o :: rest =>
      let '(s1, r) := step c s o in
      let '(s2, rs) := run_ops c s1 rest in
      (s2, match r with Some x => x :: rs | None => rs end)
  end.

(* the same history, keeping every intermediate state (for the observations) *)
Fixpoint trace (c : cfg) (s : state) (ops : list op) : list (op * state * option result) :=
  match ops with
  | [] => []
  | o :: rest => let '(s1, r) := step c s o in (o, s1, r) :: trace c s1 rest
  end.

(* ---------------------------------------------------------------------- *)
(* run() in phases, and requests that overlap                              *)

(* the part of run() in front of the agents: the answer when the request is refused or served from the cache,
   otherwise [None] and the state in which the executor is asked *)
Definition arrive (c : cfg) (s0 : state) (r : request) : state * option result :=
  let s := bump_requests s0 in
  let '(b1, admitted) :=
    if enabled c then check_circuit (timeout c) (now s) (br s) else (br s, true) in
  let s1 := set_br s b1 in
  if negb admitted then (s1, Some res_circuit_open)
  else
    match cache_probe c s1 (prompt r) with
    | (s2, Some res) => (s2, Some (mark_cached res))
    | (s2, None) => (s2, None)
    end.

(* the except-branch of run() *)
Definition fail_req (c : cfg) (s : state) : state * result :=
  (set_br s (record_failure (threshold c) (now s) (br s)), res_error).

(* from the moment the assessor answers (it has been counted and has spent) *)
Definition finish_y (c : cfg) (s4 : state) (r : request) (z : zverdict) : state * result :=
  match yb r with
  | Raises => fail_req c s4
  | Returns y =>
      let res := gate_result (glogic c) z y in
      let s5 := set_br s4 (classify c (now s4) res (br s4)) in
      let s6 := cache_store c s5 (prompt r) res in
      (bump_outcome s6 (r_blocked res), res)
  end.

(* from the moment the executor answers (it has been counted, has spent and has taken its time) *)
Definition finish_z (c : cfg) (s3 : state) (r : request) : state * result :=
  match zb r with
  | Raises => fail_req c s3
  | Returns z => finish_y c (call_y c s3) r z
  end.

Inductive place := InZ | InY.     (* suspended inside executor.express() / assessor.express() *)
Record flying := mkFly { f_id : Z; f_req : request; f_place : place }.

Fixpoint fly_lookup (id : Z) (l : list flying) : option flying :=
  match l with
  | [] => None
  | f :: rest => if Z.eqb id (f_id f) then Some f else fly_lookup id rest
  end.
Fixpoint fly_remove (id : Z) (l : list flying) : list flying :=
  match l with
  | [] => []
  | f :: rest => if Z.eqb id (f_id f) then rest else f :: fly_remove id rest
  end.

(* arrival of a request that is to be suspended in agent [w]: [Some] answer when it never gets there *)
Definition begin_req (c : cfg) (s0 : state) (r : request) (w : place) : state * option result :=
  match arrive c s0 r with
  | (s1, Some res) => (s1, Some res)
  | (s2, None) =>
      match w with
      | InZ => (call_z c s2 0, None)
      | InY =>
          let s3 := call_z c s2 (dur r) in
          match zb r with
          | Raises => let '(s', res) := fail_req c s3 in (s', Some res)
          | Returns _ => (call_y c s3, None)
          end
      end
  end.

(* the suspended request goes on *)
Definition end_req (c : cfg) (s : state) (f : flying) : state * result :=
  match f_place f with
  | InZ => finish_z c (advance s (dur (f_req f))) (f_req f)
  | InY =>
      match zb (f_req f) with
      | Returns z => finish_y c s (f_req f) z
      | Raises => fail_req c s          (* not reachable: [begin_req] never parks such a request in the assessor *)
      end
  end.

Inductive cop := Seq (o : op) | Begin (id : Z) (r : request) (w : place) | End (id : Z).

Definition cstate := (state * list flying)%type.

(* an answer is tagged [true] when the request ran from its arrival to its answer within the operation
   ([Run], a [Begin] that returned at once), [false] when it had been suspended ([End]) *)
Definition cstep (c : cfg) (cs : cstate) (o : cop) : cstate * option (bool * result) :=
  let '(s, fl) := cs in
  match o with
  | Seq o' =>
      let '(s', r) := step c s o' in
      ((s', fl), match r with Some x => Some (true, x) | None => None end)
  | Begin id r w =>
      match begin_req c s r w with
      | (s', Some res) => ((s', fl), Some (true, res))
      | (s', None) => ((s', mkFly id r w :: fl), None)
      end
  | End id =>
      match fly_lookup id fl with
      | Some f => let '(s', res) := end_req c s f in ((s', fly_remove id fl), Some (false, res))
      | None => ((s, fl), None)
      end
  end.

Fixpoint crun (c : cfg) (cs : cstate) (ops : list cop) : cstate * list (bool * result) :=
  match ops with
  | [] => (cs, [])
  | o :: rest =>
      let '(cs1, r) := cstep c cs o in
      let '(cs2, rs) := crun c cs1 rest in
      (cs2, match r with Some x => x :: rs | None => rs end)
  end.

Fixpoint ctrace (c : cfg) (cs : cstate) (ops : list cop) : list (cop * cstate * option (bool * result)) :=
  match ops with
  | [] => []
  | o :: rest => let '(cs1, r) := cstep c cs o in (o, cs1, r) :: ctrace c cs1 rest
  end.

Definition init_breaker := mkB Closed 0 0 None None 0 0.
Definition init : state := mkS init_breaker 0 [] 0 0 0 0 0 0.

(* ---------------------------------------------------------------------- *)
(* canonical observations                                                  *)

Definition b2z (b : bool) : Z := if b then 1 else 0.
Definition circ_code (c : circuit) : Z :=
  match c with Closed => 0 | Open => 1 | HalfOpen => 2 end.
Definition action_code (a : action) : Z :=
  match a with
  | ASuccess => 0 | ABlocked => 1 | AFailure => 2 | ASkipped => 3 | AError => 4 | ACircuitOpen => 5
  end.
Definition op_code (o : op) : Z :=
  match o with Tick _ => 0 | Run _ => 1 | Reset => 2 | ClearCache => 3 end.
Definition exec_code (o : option zverdict) : Z :=
  match o with
  | None => 0 | Some ZExecute => 1 | Some ZPermit => 2 | Some ZBlock => 3 | Some ZFailure => 4
  | Some ZOther => 5
  end.
Definition oz (o : option Z) : list Z := match o with Some v => [1; v] | None => [0; 0] end.

(* [cb]: recording on_block / on_permit callbacks were supplied; the row ends with how often each has been
   called so far (on_block once per blocked answer of the gate, on_permit once per permitted one; never for a
   refused request, a cache hit or an agent exception) - 0 0 without callbacks *)
Definition obs_row (cb : bool) (x : op * state * option result) : list Z :=
  let '(o, s, r) := x in
  let b := br s in
  [op_code o]
  ++ match r with
     | Some res => [1; b2z (r_success res); b2z (r_blocked res); action_code (r_action res);
                    b2z (r_cached res); exec_code (r_exec res)]
     | None => [0; 0; 0; 0; 0; 0]
     end
  ++ [circ_code (circ b); fcount b; scount b] ++ oz (last_failure b) ++ oz (last_success b)
  ++ [trips b; total_errors b; zcalls s; ycalls s; spent s;
      total_requests s; total_blocked s; total_permitted s;
      Z.of_nat (length (cache s)); now s;
      if cb then total_blocked s else 0; if cb then total_permitted s else 0].

Definition cop_code (o : cop) : Z :=
  match o with Seq o' => op_code o' | Begin _ _ _ => 5 | End _ => 6 end.

(* the row of an operation of an overlapping history: the same columns; the code of the operation is
   5 for a [Begin] (no answer columns when the request is now suspended), 6 for an [End] *)
Definition obs_crow (cb : bool) (x : cop * cstate * option (bool * result)) : list Z :=
  let '(o, cs, r) := x in
  match obs_row cb (Tick 0, fst cs, match r with Some (_, res) => Some res | None => None end) with
  | _ :: row => cop_code o :: row
  | [] => []
  end.

(* ---------------------------------------------------------------------- *)
(* user callbacks (on_block / on_permit) that may RAISE                    *)

(* run() hands the result of the gate to the caller's observer - on_block for a blocked result, on_permit for a
   permitted one - as its last step but one (only the console output follows), OUTSIDE the try that guards the
   agents: after the breaker was updated, the result cached and logged and total_blocked / total_permitted bumped.
   The observer is not called for a refused request, a cache hit or an agent exception.  An exception raised by the
   observer is not handled by run(): the caller of run() gets that exception instead of the LoopResult
   ([Raised res]: [res] is the result the observer was handed).  [hooks]: which of the two callbacks were passed to
   the constructor; [cbeh]: what the observer does if it is called during the operation. *)
Inductive cbeh := CbReturns | CbRaises.
Record hooks := mkHooks { h_block : bool; h_permit : bool }.
Inductive reply := Returned (res : result) | Raised (res : result).

Definition reply_result (p : reply) : result := match p with Returned r => r | Raised r => r end.
Definition is_raised (p : reply) : bool := match p with Raised _ => true | Returned _ => false end.

Definition hooked (k : hooks) (res : result) : bool := if r_blocked res then h_block k else h_permit k.

Definition notify (k : hooks) (b : cbeh) (res : result) : reply :=
  if hooked k res then match b with CbReturns => Returned res | CbRaises => Raised res end
  else Returned res.

Definition finish_y_k (c : cfg) (k : hooks) (b : cbeh) (s4 : state) (r : request) (z : zverdict) : state * reply :=
  match yb r with
  | Raises => let '(s', res) := fail_req c s4 in (s', Returned res)
  | Returns y =>
      let res := gate_result (glogic c) z y in
      let s5 := set_br s4 (classify c (now s4) res (br s4)) in
      let s6 := cache_store c s5 (prompt r) res in
      (bump_outcome s6 (r_blocked res), notify k b res)
  end.

Definition finish_z_k (c : cfg) (k : hooks) (b : cbeh) (s3 : state) (r : request) : state * reply :=
  match zb r with
  | Raises => let '(s', res) := fail_req c s3 in (s', Returned res)
  | Returns z => finish_y_k c k b (call_y c s3) r z
  end.

(* run() with the observers [k], whose invocation (if any) behaves as [b] *)
Definition run_req_k (c : cfg) (k : hooks) (b : cbeh) (s0 : state) (r : request) : state * reply :=
  match arrive c s0 r with
  | (s1, Some res) => (s1, Returned res)
  | (s2, None) => finish_z_k c k b (call_z c s2 (dur r)) r
  end.

Definition end_req_k (c : cfg) (k : hooks) (b : cbeh) (s : state) (f : flying) : state * reply :=
  match f_place f with
  | InZ => finish_z_k c k b (advance s (dur (f_req f))) (f_req f)
  | InY =>
      match zb (f_req f) with
      | Returns z => finish_y_k c k b s (f_req f) z
      | Raises => let '(s', res) := fail_req c s in (s', Returned res)
      end
  end.

(* an operation of a history with observers: the operation and what the observer does if it is called during it
   (for a request that was suspended that is the [End]; a [Begin] never gets as far as the observer) *)
Definition kop := (cop * cbeh)%type.

Definition kstep (c : cfg) (k : hooks) (cs : cstate) (o : kop) : cstate * option (bool * reply) :=
  let '(s, fl) := cs in
  match fst o with
  | Seq (Run r) => let '(s', p) := run_req_k c k (snd o) s r in ((s', fl), Some (true, p))
  | Seq o' =>
      let '(s', r) := step c s o' in
      ((s', fl), match r with Some x => Some (true, Returned x) | None => None end)
  | Begin id r w =>
      match begin_req c s r w with
      | (s', Some res) => ((s', fl), Some (true, Returned res))
      | (s', None) => ((s', mkFly id r w :: fl), None)
      end
  | End id =>
      match fly_lookup id fl with
      | Some f => let '(s', p) := end_req_k c k (snd o) s f in ((s', fly_remove id fl), Some (false, p))
      | None => ((s, fl), None)
      end
  end.

Fixpoint krun (c : cfg) (k : hooks) (cs : cstate) (ops : list kop) : cstate * list (bool * reply) :=
  match ops with
  | [] => (cs, [])
  | o :: rest =>
      let '(cs1, r) := kstep c k cs o in
      let '(cs2, rs) := krun c k cs1 rest in
      (cs2, match r with Some x => x :: rs | None => rs end)
  end.

Fixpoint ktrace (c : cfg) (k : hooks) (cs : cstate) (ops : list kop)
  : list (kop * cstate * option (bool * reply)) :=
  match ops with
  | [] => []
  | o :: rest => let '(cs1, r) := kstep c k cs o in (o, cs1, r) :: ktrace c k cs1 rest
  end.

(* the row of an operation: the code of the operation; 0 (no answer) / 1 (run() returned the result that follows)
   / 2 (run() raised the observer's exception; the result the observer was handed follows); the breaker, the
   counters, the clock; how often on_block / on_permit have been called so far (once per blocked / permitted answer
   of the gate when installed, whether or not the call raised) *)
Definition obs_krow (k : hooks) (x : kop * cstate * option (bool * reply)) : list Z :=
  let '(o, cs, r) := x in
  let s := fst cs in
  let b := br s in
  [cop_code (fst o)]
  ++ match r with
     | Some (_, p) =>
         let res := reply_result p in
         [if is_raised p then 2 else 1; b2z (r_success res); b2z (r_blocked res); action_code (r_action res);
          b2z (r_cached res); exec_code (r_exec res)]
     | None => [0; 0; 0; 0; 0; 0]
     end
  ++ [circ_code (circ b); fcount b; scount b] ++ oz (last_failure b) ++ oz (last_success b)
  ++ [trips b; total_errors b; zcalls s; ycalls s; spent s;
      total_requests s; total_blocked s; total_permitted s;
      Z.of_nat (length (cache s)); now s;
      if h_block k then total_blocked s else 0; if h_permit k then total_permitted s else 0].

(* ---------------------------------------------------------------------- *)
(* LIVE RECONFIGURATION, and prompts that cannot be hashed                 *)

(* failure_threshold and recovery_timeout are public attributes that the breaker methods read on every call
   (gen/Gen_C08.v: they are fields of the record the generated methods work on), so an operator may assign them
   on a live loop - lengthen the timeout of an outage in progress, switch to "manual reset only" (a timeout of
   thousands of years), shorten it to zero, raise or lower the threshold.  A live history threads the configuration
   through the operations: [SetTimeout t] / [SetThreshold n] replace it, every other operation runs under the
   configuration in force at that moment.

   [Odd r] is a request whose prompt cannot be hashed: a str with a lone surrogate (prompt.encode() raises
   UnicodeEncodeError) or a prompt that is not a str at all (None, bytes, an int: no .encode()).  run() touches
   the prompt only AFTER the breaker check: a refused request is answered CIRCUIT_OPEN whatever the prompt is.
   An admitted one raises - with the cache enabled in _check_cache (before the agents), with the cache disabled
   in _apply_gate_logic (after both agents have answered; an agent that raises is booked and answered as
   always): [LRaisedInRun], an explicit constructor of the reply.  Such a request is none of the property's
   outcome classes; it is here so that isolation while open can be stated for EVERY prompt. *)
Definition set_timeout (c : cfg) (t : Z) : cfg :=
  mkCfg (enabled c) (threshold c) t (cache_on c) (ttl c) (glogic c) (cost c) (legacy c) (interim c).
Definition set_threshold (c : cfg) (n : Z) : cfg :=
  mkCfg (enabled c) n (timeout c) (cache_on c) (ttl c) (glogic c) (cost c) (legacy c) (interim c).

(* run() on a prompt that cannot be hashed; [None]: run() raised *)
Definition odd_req (c : cfg) (s0 : state) (r : request) : state * option result :=
  let s := bump_requests s0 in
  let '(b1, admitted) :=
    if enabled c then check_circuit (timeout c) (now s) (br s) else (br s, true) in
  let s1 := set_br s b1 in
  if negb admitted then (s1, Some res_circuit_open)
  else if cache_on c then (s1, None)
  else
    let s3 := call_z c s1 (dur r) in
    match zb r with
    | Raises => let '(s', res) := fail_req c s3 in (s', Some res)
    | Returns _ =>
        let s4 := call_y c s3 in
        match yb r with
        | Raises => let '(s', res) := fail_req c s4 in (s', Some res)
        | Returns _ => (s4, None)
        end
    end.

Inductive lreply := LReply (p : reply) | LRaisedInRun.
Inductive lop := K (o : kop) | SetTimeout (t : Z) | SetThreshold (n : Z) | Odd (r : request).
Definition lstate := (cfg * cstate)%type.

Definition lstep (k : hooks) (ls : lstate) (o : lop) : lstate * option (bool * lreply) :=
  let '(c, cs) := ls in
  match o with
  | K o' =>
      let '(cs', r) := kstep c k cs o' in
      ((c, cs'), match r with Some (w, p) => Some (w, LReply p) | None => None end)
  | SetTimeout t => ((set_timeout c t, cs), None)
  | SetThreshold n => ((set_threshold c n, cs), None)
  | Odd r =>
      let '(s', x) := odd_req c (fst cs) r in
      ((c, (s', snd cs)),
       Some (true, match x with Some res => LReply (Returned res) | None => LRaisedInRun end))
  end.

Fixpoint lrun (k : hooks) (ls : lstate) (ops : list lop) : lstate * list (bool * lreply) :=
  match ops with
  | [] => (ls, [])
  | o :: rest =>
      let '(ls1, r) := lstep k ls o in
      let '(ls2, rs) := lrun k ls1 rest in
      (ls2, match r with Some x => x :: rs | None => rs end)
  end.

Fixpoint ltrace (k : hooks) (ls : lstate) (ops : list lop)
  : list (lop * lstate * option (bool * lreply)) :=
  match ops with
  | [] => []
  | o :: rest => let '(ls1, r) := lstep k ls o in (o, ls1, r) :: ltrace k ls1 rest
  end.

Definition lop_code (o : lop) : Z :=
  match o with K o' => cop_code (fst o') | SetTimeout _ => 7 | SetThreshold _ => 8 | Odd _ => 9 end.

(* the row of an operation of a live history: the columns of [obs_krow] (answer flag 3: run() raised an
   exception of its own - the prompt could not be hashed), then failure_threshold and recovery_timeout as the
   loop's attributes read after the operation *)
Definition obs_lrow (k : hooks) (x : lop * lstate * option (bool * lreply)) : list Z :=
  let '(o, ls, r) := x in
  let c := fst ls in
  let s := fst (snd ls) in
  let b := br s in
  [lop_code o]
  ++ match r with
     | Some (_, LReply p) =>
         let res := reply_result p in
         [if is_raised p then 2 else 1; b2z (r_success res); b2z (r_blocked res); action_code (r_action res);
          b2z (r_cached res); exec_code (r_exec res)]
     | Some (_, LRaisedInRun) => [3; 0; 0; 0; 0; 0]
     | None => [0; 0; 0; 0; 0; 0]
     end
  ++ [circ_code (circ b); fcount b; scount b] ++ oz (last_failure b) ++ oz (last_success b)
  ++ [trips b; total_errors b; zcalls s; ycalls s; spent s;
      total_requests s; total_blocked s; total_permitted s;
      Z.of_nat (length (cache s)); now s;
      if h_block k then total_blocked s else 0; if h_permit k then total_permitted s else 0;
      threshold c; timeout c].

Definition case := (cfg * hooks * list lop)%type.

Definition run_case (c : case) : list (list Z) :=
  let '(cf, k, ops) := c in map (obs_lrow k) (ltrace k (cf, (init, [])) ops).
