(* C08 — the breaker automaton of the model IS the code: coq/gen/Gen_C08.v is regenerated on every run from
   operon_ai/topology/loops.py by translators/c08_gen.py (pyimp), one Gallina function per breaker method of
   CoherentFeedForwardLoop (_check_circuit, _record_success, _record_failure, reset_circuit_breaker) over the
   record [gbreaker] of the attributes they read and write.  The translator also checks that no other method of
   the class assigns to these attributes, and lists every call site of the four methods.

   This file proves that each generated function coincides with the corresponding function of Model.v
   ([check_circuit], [record_success], [record_failure], [reset_breaker]) under the projection [bproj], and that
   run() calls them where the model's [run_req] does: check first, record_failure in the agent-error handler, then
   record_success / record_failure after the gate logic.  The glue of run() itself (cache, agents, gate table)
   stays hand-modelled and is tied to the code by the correspondence check. *)
From Coq Require Import ZArith Bool List.
From Coq Require String.
From Verif Require Import C08.Model gen.Gen_C08.
Import ListNotations.
Open Scope Z_scope.

Definition bproj (thr tmo : Z) (b : breaker) : gbreaker :=
  mk_gbreaker (circ b) (fcount b) (scount b) (last_failure b) (last_success b) (trips b) (total_errors b) thr tmo.

Lemma b_check_circuit_ok thr tmo t b :
  b_check_circuit (bproj thr tmo b) t =
  (bproj thr tmo (fst (check_circuit tmo t b)), GBool (snd (check_circuit tmo t b))).
Proof.
  destruct b as [c f s lf ls tr te]. unfold b_check_circuit, check_circuit, bproj.
  destruct c; cbn; try reflexivity.
  destruct lf as [v|]; cbn; [|reflexivity].
  destruct (tmo <=? t - v); reflexivity.
Qed.

Lemma b_record_success_ok thr tmo t b :
  b_record_success (bproj thr tmo b) t = (bproj thr tmo (record_success t b), GUnit).
Proof.
  destruct b as [c f s lf ls tr te]. unfold b_record_success, record_success, bproj.
  destruct c; cbn; reflexivity.
Qed.

Lemma b_record_failure_ok thr tmo t b :
  b_record_failure (bproj thr tmo b) t = (bproj thr tmo (record_failure thr t b), GUnit).
Proof.
  destruct b as [c f s lf ls tr te]. unfold b_record_failure, record_failure, bproj.
  destruct c; cbn; try reflexivity.
  destruct (thr <=? f + 1); reflexivity.
Qed.

Lemma b_reset_ok thr tmo t b :
  b_reset_circuit_breaker (bproj thr tmo b) t = (bproj thr tmo (reset_breaker b), GUnit).
Proof. destruct b as [c f s lf ls tr te]. reflexivity. Qed.

(* where the breaker methods are called: only in run(), in this order in the source — the order in which
   [run_req] of Model.v uses them (0 _check_circuit, 2 _record_failure in the agent-error handler,
   1 _record_success / 2 _record_failure in "Update circuit breaker") *)
Module Callers.
  Import String.
  Local Open Scope string_scope.
  Definition expected_callers : list (string * list Z) := [("run", [0; 2; 1; 2])].
End Callers.
Definition expected_callers := Callers.expected_callers.

Lemma breaker_callers_ok : breaker_callers = expected_callers.
Proof. reflexivity. Qed.
