(* C08 — live reconfiguration (recovery_timeout / failure_threshold assigned on a live loop) and requests whose
   prompt cannot be hashed: lemmas about [lstep] / [lrun] of Model.v.  Property.v states the theorems. *)
From Coq Require Import ZArith List Bool Lia ZifyBool.
From Verif Require Import C08.Model C08.Proofs.
Import ListNotations.
Open Scope Z_scope.

(* ---------------------------------------------------------------------- *)
(* vocabulary                                                              *)

Definition lift (x : bool * reply) : bool * lreply := (fst x, LReply (snd x)).

(* a request arrives: a whole request, the begin of one that is to overlap others, one with an unhashable prompt *)
Definition arrives (o : lop) : bool :=
  match o with
  | K (Seq (Run _), _) => true
  | K (Begin _ _ _, _) => true
  | Odd _ => true
  | _ => false
  end.

(* the LoopResult of a reply, when run() gave one (returned it, or handed it to an observer that raised) *)
Definition lres_list (r : option (bool * lreply)) : list result :=
  match r with Some (_, LReply p) => [reply_result p] | _ => [] end.
Definition lresults (rs : list (bool * lreply)) : list result :=
  flat_map (fun x => match snd x with LReply p => [reply_result p] | LRaisedInRun => [] end) rs.

(* A stretch of an outage: requests arrive (any prompt), the clock advances, the operator reassigns the timeout and
   the threshold; [within tmo nw lf ops]: every arrival happens less than the recovery timeout IN FORCE AT THAT
   MOMENT after the last failure [lf] ([tmo]: the timeout in force, [nw]: the clock, at the start of [ops]). *)
Fixpoint within (tmo nw lf : Z) (ops : list lop) : Prop :=
  match ops with
  | [] => True
  | o :: rest =>
      match o with
      | K (Seq (Tick d), _) => within tmo (nw + d) lf rest
      | SetTimeout t => within t nw lf rest
      | SetThreshold _ => within tmo nw lf rest
      | K (Seq (Run _), _) => nw - lf < tmo /\ within tmo nw lf rest
      | K (Begin _ _ _, _) => nw - lf < tmo /\ within tmo nw lf rest
      | Odd _ => nw - lf < tmo /\ within tmo nw lf rest
      | _ => False
      end
  end.

(* the threshold is not reassigned *)
Definition thr_fixed (ops : list lop) : Prop :=
  Forall (fun o => match o with SetThreshold _ => False | _ => True end) ops.

Lemma lrun_cons k ls o rest :
  lrun k ls (o :: rest) =
  let '(ls1, r) := lstep k ls o in
  let '(ls2, rs) := lrun k ls1 rest in
  (ls2, match r with Some x => x :: rs | None => rs end).
Proof. reflexivity. Qed.

(* ---------------------------------------------------------------------- *)
(* 1. a history without reconfiguration and odd prompts is the history of the static model *)

Lemma lrun_static k c : forall ops cs,
  lrun k (c, cs) (map K ops) = ((c, fst (krun c k cs ops)), map lift (snd (krun c k cs ops))).
Proof.
  induction ops as [|o rest IH]; intros cs; [reflexivity|].
  cbn [map]. rewrite lrun_cons, krun_cons. cbn [lstep].
  destruct (kstep c k cs o) as [cs1 r]. rewrite IH.
  destruct (krun c k cs1 rest) as [cs2 rs]. cbn [fst snd].
  destruct r as [[w p]|]; reflexivity.
Qed.

(* ---------------------------------------------------------------------- *)
(* 2. isolation while open: every prompt, the timeout in force             *)

Lemma arrive_refused c s r lf :
  enabled c = true -> circ (br s) = Open -> last_failure (br s) = Some lf -> now s - lf < timeout c ->
  arrive c s r = (bump_requests s, Some res_circuit_open).
Proof.
  intros He Ho Hl Hlt. destruct s as [b nw ca z y sp tr tb tp]. destruct b as [ci f sc lfo ls tps te].
  cbn in Ho, Hl, Hlt. subst ci lfo.
  unfold arrive, check_circuit, bump_requests, set_br. cbn. rewrite He.
  destruct (timeout c <=? nw - lf) eqn:E; [lia|]. reflexivity.
Qed.

Lemma odd_req_refused c s r lf :
  enabled c = true -> circ (br s) = Open -> last_failure (br s) = Some lf -> now s - lf < timeout c ->
  odd_req c s r = (bump_requests s, Some res_circuit_open).
Proof.
  intros He Ho Hl Hlt. destruct s as [b nw ca z y sp tr tb tp]. destruct b as [ci f sc lfo ls tps te].
  cbn in Ho, Hl, Hlt. subst ci lfo.
  unfold odd_req, check_circuit, bump_requests, set_br. cbn. rewrite He.
  destruct (timeout c <=? nw - lf) eqn:E; [lia|]. reflexivity.
Qed.

(* one arriving request, whatever its prompt: run() RETURNS blocked/CIRCUIT_OPEN; nothing but the request counter
   moves - no agent, no energy, the breaker, the cache, the requests in flight and the configuration as before *)
Lemma lstep_refused k c s fl o lf :
  enabled c = true -> circ (br s) = Open -> last_failure (br s) = Some lf -> now s - lf < timeout c ->
  arrives o = true ->
  lstep k (c, (s, fl)) o = ((c, (bump_requests s, fl)), Some (true, LReply (Returned res_circuit_open))).
Proof.
  intros He Ho Hl Hlt Ha.
  destruct o as [[o' b]|t|n|r]; cbn in Ha; try discriminate.
  - destruct o' as [o''|id r w|id]; try discriminate.
    + destruct o'' as [d|r| |]; try discriminate.
      unfold lstep, kstep. cbn [fst snd]. unfold run_req_k.
      rewrite (arrive_refused c s r lf He Ho Hl Hlt). reflexivity.
    + unfold lstep, kstep. cbn [fst snd]. unfold begin_req.
      rewrite (arrive_refused c s r lf He Ho Hl Hlt). reflexivity.
  - unfold lstep. cbn [fst snd]. rewrite (odd_req_refused c s r lf He Ho Hl Hlt). reflexivity.
Qed.

Lemma live_open_isolates_proof :
  forall k ops c s fl lf c' s' fl' rs,
    enabled c = true -> circ (br s) = Open -> last_failure (br s) = Some lf ->
    within (timeout c) (now s) lf ops ->
    lrun k (c, (s, fl)) ops = ((c', (s', fl')), rs) ->
    Forall (fun x => x = (true, LReply (Returned res_circuit_open))) rs /\
    br s' = br s /\ zcalls s' = zcalls s /\ ycalls s' = ycalls s /\ spent s' = spent s /\
    cache s' = cache s /\ fl' = fl /\
    total_requests s' = total_requests s + Z.of_nat (length rs).
Proof.
  intros k. induction ops as [|o rest IH]; intros c s fl lf c' s' fl' rs He Ho Hl Hw H.
  - inversion H; subst. cbn. repeat split; auto. lia.
  - rewrite lrun_cons in H.
    assert (Hcase : (arrives o = true /\ now s - lf < timeout c /\ within (timeout c) (now s) lf rest) \/
                    (exists d b, o = K (Seq (Tick d), b) /\ within (timeout c) (now s + d) lf rest) \/
                    (exists t, o = SetTimeout t /\ within t (now s) lf rest) \/
                    (exists n, o = SetThreshold n /\ within (timeout c) (now s) lf rest)).
    { destruct o as [[o' b]|t|n|r]; cbn [within] in Hw.
      - destruct o' as [o''|id r w|id]; [destruct o'' as [d|r| |]|..]; try contradiction.
        + right; left. eauto.
        + left. destruct Hw; auto.
        + left. destruct Hw; auto.
      - right; right; left. eauto.
      - right; right; right. eauto.
      - left. destruct Hw; auto. }
    destruct Hcase as [(Ha & Hlt & Hr) | [(d & b & -> & Hr) | [(t & -> & Hr) | (n & -> & Hr)]]].
    + rewrite (lstep_refused k c s fl o lf He Ho Hl Hlt Ha) in H.
      destruct (lrun k (c, (bump_requests s, fl)) rest) as [[c2 [s2 fl2]] rs2] eqn:E2.
      inversion H; subst; clear H.
      destruct (IH c (bump_requests s) fl lf c' s' fl' rs2 He Ho Hl Hr E2)
        as (A & B & C & D & E & F & G & T).
      split; [constructor; auto|]. cbn in *. repeat split; auto.
      rewrite T. lia.
    + assert (Es : lstep k (c, (s, fl)) (K (Seq (Tick d), b)) = ((c, (advance s d, fl)), None)) by reflexivity.
      rewrite Es in H.
      destruct (lrun k (c, (advance s d, fl)) rest) as [[c2 [s2 fl2]] rs2] eqn:E2.
      inversion H; subst; clear H.
      exact (IH c (advance s d) fl lf c' s' fl' rs He Ho Hl Hr E2).
    + assert (Es : lstep k (c, (s, fl)) (SetTimeout t) = ((set_timeout c t, (s, fl)), None)) by reflexivity.
      rewrite Es in H.
      destruct (lrun k (set_timeout c t, (s, fl)) rest) as [[c2 [s2 fl2]] rs2] eqn:E2.
      inversion H; subst; clear H.
      exact (IH (set_timeout c t) s fl lf c' s' fl' rs He Ho Hl Hr E2).
    + assert (Es : lstep k (c, (s, fl)) (SetThreshold n) = ((set_threshold c n, (s, fl)), None)) by reflexivity.
      rewrite Es in H.
      destruct (lrun k (set_threshold c n, (s, fl)) rest) as [[c2 [s2 fl2]] rs2] eqn:E2.
      inversion H; subst; clear H.
      exact (IH (set_threshold c n) s fl lf c' s' fl' rs He Ho Hl Hr E2).
Qed.

(* ---------------------------------------------------------------------- *)
(* 3. once the timeout in force has elapsed a probe is admitted            *)

Lemma live_probe_admitted_proof :
  forall k c s fl r b lf ls' a,
    enabled c = true -> cache_ok (cache s) ->
    circ (br s) = Open -> last_failure (br s) = Some lf -> timeout c <= now s - lf ->
    lstep k (c, (s, fl)) (K (Seq (Run r), b)) = (ls', a) ->
    exists s' p,
      ls' = (c, (s', fl)) /\ a = Some (true, LReply p) /\
      r_action (reply_result p) <> ACircuitOpen /\
      ((r_cached (reply_result p) = true /\ zcalls s' = zcalls s /\ circ (br s') = HalfOpen) \/
       (r_cached (reply_result p) = false /\ zcalls s' = zcalls s + 1)).
Proof.
  intros k c s fl r b lf ls' a He Hok Ho Hl Ht H.
  unfold lstep, kstep in H. cbn [fst snd] in H.
  destruct (run_req_k c k b s r) as [s' p] eqn:E. inversion H; subst; clear H.
  exists s', p. split; [reflexivity|]. split; [reflexivity|].
  destruct (cb_request_proof c k b s r s' p E) as (Hr & _).
  apply (probe_admitted_proof c s r s' (reply_result p) He Hok); auto.
  right. split; auto. exists lf. auto.
Qed.

(* a request with an unhashable prompt is not answered CIRCUIT_OPEN either once the timeout in force has elapsed *)
Lemma live_odd_admitted_proof :
  forall k c s fl r lf ls' a,
    enabled c = true -> circ (br s) = Open -> last_failure (br s) = Some lf -> timeout c <= now s - lf ->
    lstep k (c, (s, fl)) (Odd r) = (ls', a) ->
    a = Some (true, LRaisedInRun) \/ a = Some (true, LReply (Returned res_error)).
Proof.
  intros k c s fl r lf ls' a He Ho Hl Ht H.
  destruct s as [bk nw ca z y sp tr tb tp]. destruct bk as [ci f sc lfo ls tps te].
  cbn in Ho, Hl, Ht. subst ci lfo.
  unfold lstep, odd_req, check_circuit, bump_requests, set_br, fail_req in H. cbn in H. rewrite He in H.
  destruct (timeout c <=? nw - lf) eqn:E; [|lia]. cbn in H.
  destruct (cache_on c); [inversion H; auto|].
  destruct (zb r); [|inversion H; auto].
  destruct (yb r); inversion H; auto.
Qed.

(* ---------------------------------------------------------------------- *)
(* 4. the threshold in force                                               *)

Lemma failureb_co : failureb res_circuit_open = false.
Proof. reflexivity. Qed.

Lemma odd_req_count c s r s' x :
  binv (threshold c) (br s) -> odd_req c s r = (s', x) ->
  binv (threshold c) (br s') /\
  fcount (br s') <= fcount (br s) + count_failures (match x with Some res => [res] | None => [] end) /\
  trips (br s) <= trips (br s') /\
  (trips (br s) < trips (br s') -> threshold c <= fcount (br s')).
Proof.
  intros Hb H.
  pose proof (gate_check_binv c s Hb) as Hb1.
  pose proof (gate_check_fields c s) as G. cbv zeta in G. destruct G as (Gf & Gt & _ & _).
  unfold odd_req in H. cbn [bump_requests now br] in H.
  change (if enabled c then check_circuit (timeout c) (now s) (br s) else (br s, true)) with (gate_check c s) in H.
  destruct (gate_check c s) as [b1 adm]. cbn [fst] in *.
  assert (Hfail : forall s3, br s3 = b1 ->
            binv (threshold c) (br (fst (fail_req c s3))) /\
            fcount (br (fst (fail_req c s3))) <= fcount (br s) + count_failures [snd (fail_req c s3)] /\
            trips (br s) <= trips (br (fst (fail_req c s3))) /\
            (trips (br s) < trips (br (fst (fail_req c s3))) -> threshold c <= fcount (br (fst (fail_req c s3))))).
  { intros s3 E. unfold fail_req. cbn [fst snd set_br br]. rewrite E.
    destruct (record_failure_count (threshold c) (now s3) b1 Hb1) as (F1 & F2 & F3).
    split; [apply binv_failure; exact Hb1|].
    rewrite count_failures_cons, failureb_error. change (count_failures []) with 0.
    split; [lia|]. split; [lia|]. intros L. apply F3. lia. }
  assert (Hsame : forall s3, br s3 = b1 -> forall l,
            binv (threshold c) (br s3) /\ fcount (br s3) <= fcount (br s) + count_failures l /\
            trips (br s) <= trips (br s3) /\ (trips (br s) < trips (br s3) -> threshold c <= fcount (br s3))).
  { intros s3 E l. rewrite E. assert (0 <= count_failures l) by (unfold count_failures; lia).
    split; [exact Hb1|]. split; [lia|]. split; lia. }
  destruct adm; cbn [negb] in H.
  2:{ inversion H; subst; clear H. apply Hsame. reflexivity. }
  destruct (cache_on c).
  { inversion H; subst; clear H. apply Hsame. reflexivity. }
  destruct (zb r).
  2:{ match type of H with (let '(_, _) := fail_req c ?S in _) = _ =>
        specialize (Hfail S eq_refl); destruct (fail_req c S) as [sf rf] end.
      inversion H; subst; clear H. exact Hfail. }
  destruct (yb r).
  2:{ match type of H with (let '(_, _) := fail_req c ?S in _) = _ =>
        specialize (Hfail S eq_refl); destruct (fail_req c S) as [sf rf] end.
      inversion H; subst; clear H. exact Hfail. }
  inversion H; subst; clear H. apply Hsame. reflexivity.
Qed.

(* one operation of a live history, under the configuration [c] in force: the count grows only by a failure, a trip
   needs the count to have reached the threshold in force *)
Lemma lstep_count k c s fl o c' s' fl' a :
  interim c = false -> binv (threshold c) (br s) ->
  (forall n, o <> SetThreshold n) ->
  lstep k (c, (s, fl)) o = ((c', (s', fl')), a) ->
  interim c' = false /\ threshold c' = threshold c /\
  binv (threshold c) (br s') /\
  fcount (br s') <= fcount (br s) + count_failures (lres_list a) /\
  trips (br s) <= trips (br s') /\
  (trips (br s) < trips (br s') -> threshold c <= fcount (br s')).
Proof.
  intros Hi Hb Hn H. destruct o as [o'|t|n|r].
  - unfold lstep in H. pose proof (kstep_erase c k (s, fl) o') as E.
    destruct (kstep c k (s, fl) o') as [[s1 fl1] r1]. cbn [fst snd] in E.
    injection H as Hc1 Hs1 Hfl1 Ha1; subst c' s' fl' a.
    destruct (cstep_count c s fl (fst o') s1 fl1 (option_map untag r1) Hi Hb E) as (A & B & C & D).
    split; [exact Hi|]. split; [reflexivity|]. split; [exact A|]. split; [|split; [exact C|exact D]].
    destruct r1 as [[w p]|]; cbn [option_map untag cres_list lres_list fst snd] in *; exact B.
  - unfold lstep in H. injection H as Hc1 Hs1 Hfl1 Ha1; subst c' s' fl' a.
    cbn [lres_list]. change (count_failures []) with 0.
    split; [exact Hi|]. split; [reflexivity|]. split; [exact Hb|]. split; [lia|]. split; lia.
  - exfalso. apply (Hn n). reflexivity.
  - unfold lstep in H. cbn [fst snd] in H. destruct (odd_req c s r) as [s1 x] eqn:E.
    injection H as Hc1 Hs1 Hfl1 Ha1; subst c' s' fl' a.
    destruct (odd_req_count c s r s1 x Hb E) as (A & B & C & D).
    split; [exact Hi|]. split; [reflexivity|]. split; [exact A|]. split; [|split; [exact C|exact D]].
    destruct x; exact B.
Qed.

Lemma lresults_cons_opt (r : option (bool * lreply)) rs :
  count_failures (lresults (match r with Some x => x :: rs | None => rs end)) =
  count_failures (lres_list r) + count_failures (lresults rs).
Proof.
  destruct r as [[w [p|]]|]; cbn [lresults flat_map snd lres_list app];
    fold (lresults rs); try rewrite !count_failures_cons; change (count_failures []) with 0; lia.
Qed.

Lemma lrun_count k : forall ops c s fl c' s' fl' rs,
  interim c = false -> binv (threshold c) (br s) -> thr_fixed ops ->
  lrun k (c, (s, fl)) ops = ((c', (s', fl')), rs) ->
  threshold c' = threshold c /\ binv (threshold c) (br s') /\
  fcount (br s') <= fcount (br s) + count_failures (lresults rs) /\
  trips (br s) <= trips (br s') /\
  (trips (br s) < trips (br s') -> threshold c <= fcount (br s) + count_failures (lresults rs)).
Proof.
  induction ops as [|o rest IH]; intros c s fl c' s' fl' rs Hi Hb Hf H.
  - inversion H; subst. change (count_failures (lresults [])) with 0.
    split; [reflexivity|]. split; [exact Hb|]. split; [lia|]. split; lia.
  - rewrite lrun_cons in H. destruct (lstep k (c, (s, fl)) o) as [[c1 [s1 fl1]] r] eqn:E.
    cbv beta iota zeta in H. revert H.
    destruct (lrun k _ rest) as [[c2 [s2 fl2]] rs2] eqn:E2. intros H.
    injection H as Hc2 Hs2 Hfl2 Hrs2; subst c2 s2 fl2 rs.
    inversion Hf as [|? ? Ho Hrest]; subst.
    assert (Hn : forall n, o <> SetThreshold n) by (intros n ->; exact Ho).
    destruct (lstep_count k c s fl o c1 s1 fl1 r Hi Hb Hn E) as (Hi1 & Ht1 & Hb1 & Hf1 & Htr1 & Hx1).
    rewrite <- Ht1 in Hb1.
    destruct (IH c1 s1 fl1 c' s' fl' rs2 Hi1 Hb1 Hrest E2) as (Ht2 & Hb2 & Hf2 & Htr2 & Hx2).
    rewrite Ht1 in *. rewrite lresults_cons_opt.
    assert (0 <= count_failures (lresults rs2)) by (unfold count_failures; lia).
    assert (0 <= count_failures (lres_list r)) by (unfold count_failures; lia).
    split; [exact Ht2|]. split; [exact Hb2|]. split; [lia|]. split; [lia|].
    intros L. destruct (Z_lt_le_dec (trips (br s)) (trips (br s1))) as [l|l];
      [specialize (Hx1 l) | assert (trips (br s1) < trips (br s')) as L' by lia; specialize (Hx2 L')]; lia.
Qed.

(* never open before the threshold has been reached in total - while the recovery timeout is reassigned at will
   and requests with unhashable prompts (which are never counted) come in *)
Lemma live_open_implies_threshold_proof :
  forall k ops c s fl c' s' fl' rs,
    interim c = false -> circ (br s) = Closed -> fcount (br s) = 0 -> thr_fixed ops ->
    lrun k (c, (s, fl)) ops = ((c', (s', fl')), rs) ->
    (circ (br s') <> Closed ->
       threshold c <= count_failures (lresults rs) /\ threshold c <= fcount (br s') /\
       last_failure (br s') <> None) /\
    (trips (br s) < trips (br s') -> threshold c <= count_failures (lresults rs)).
Proof.
  intros k ops c s fl c' s' fl' rs Hi Hc Hf Hfx H.
  assert (Hb : binv (threshold c) (br s)) by (split; [lia | congruence]).
  destruct (lrun_count k ops c s fl c' s' fl' rs Hi Hb Hfx H) as (_ & [_ Hv] & Hle & _ & Ht).
  split; [intros Hn; destruct (Hv Hn) | intros L; specialize (Ht L)]; repeat split; auto; lia.
Qed.

(* the threshold reassigned: a CLOSED breaker leaves CLOSED only in an operation whose answer is booked under the
   threshold in force at that moment, and only when the count has reached it *)
Lemma live_trip_needs_threshold_in_force_proof :
  forall k c s fl o c' s' fl' a,
    interim c = false -> 0 <= fcount (br s) -> circ (br s) = Closed ->
    lstep k (c, (s, fl)) o = ((c', (s', fl')), a) ->
    fcount (br s') <= fcount (br s) + count_failures (lres_list a) /\
    (circ (br s') <> Closed -> threshold c <= fcount (br s') /\ last_failure (br s') <> None).
Proof.
  intros k c s fl o c' s' fl' a Hi H0 Hc H.
  assert (Hb : binv (threshold c) (br s)) by (split; [lia | congruence]).
  destruct o as [o'|t|n|r].
  - destruct (lstep_count k c s fl (K o') c' s' fl' a Hi Hb) as (_ & _ & [_ Hv] & Hf & _); auto.
    intros n; discriminate.
  - destruct (lstep_count k c s fl (SetTimeout t) c' s' fl' a Hi Hb) as (_ & _ & [_ Hv] & Hf & _); auto.
    intros n; discriminate.
  - unfold lstep in H. inversion H; subst; clear H. cbn. change (count_failures []) with 0.
    split; [lia|]. intros Hn. congruence.
  - destruct (lstep_count k c s fl (Odd r) c' s' fl' a Hi Hb) as (_ & _ & [_ Hv] & Hf & _); auto.
    intros n; discriminate.
Qed.

(* ... and it does open when a request fails with the count reaching the threshold in force *)
Lemma live_opens_at_threshold_in_force_proof :
  forall k c s fl r b c' s' fl' w p,
    legacy c = false -> interim c = false ->
    circ (br s) = Closed -> threshold c <= fcount (br s) + 1 ->
    lstep k (c, (s, fl)) (K (Seq (Run r), b)) = ((c', (s', fl')), Some (w, LReply p)) ->
    failureb (reply_result p) = true ->
    circ (br s') = Open /\ fcount (br s') = fcount (br s) + 1 /\ trips (br s') = trips (br s) + 1 /\
    last_failure (br s') = Some (now s').
Proof.
  intros k c s fl r b c' s' fl' w p Hl Hi Hc Ht H Hf.
  unfold lstep, kstep in H. cbn [fst snd] in H.
  destruct (run_req_k c k b s r) as [s1 p1] eqn:E.
  injection H as Hc1 Hs1 Hfl1 Hw1 Hp1; subst c' s1 fl' w p1.
  destruct (cb_request_proof c k b s r s' p E) as (Hr & _).
  destruct (run_req_failure c s r s' (reply_result p) Hl Hi Hr Hf) as (Hbr & _ & _).
  rewrite gate_check_pass in Hbr by (left; congruence). cbn [fst] in Hbr.
  pose proof (record_failure_spec (threshold c) (now s') (br s)) as S. cbv zeta in S.
  rewrite <- Hbr in S. destruct S as (S1 & S2 & _ & _ & S5). rewrite Hc in S5.
  destruct S5 as [(_ & A & B) | (A & _)]; [auto | lia].
Qed.

(* a request whose prompt cannot be hashed and that makes run() raise is not booked at all *)
Lemma live_odd_raise_not_booked_proof :
  forall k c s fl r c' s' fl',
    lstep k (c, (s, fl)) (Odd r) = ((c', (s', fl')), Some (true, LRaisedInRun)) ->
    fcount (br s') = fcount (br s) /\ trips (br s') = trips (br s) /\
    last_failure (br s') = last_failure (br s) /\ scount (br s') = scount (br s) /\
    (circ (br s') = circ (br s) \/ (circ (br s) = Open /\ circ (br s') = HalfOpen)).
Proof.
  intros k c s fl r c' s' fl' H.
  pose proof (gate_check_fields c s) as G. cbv zeta in G.
  unfold lstep, odd_req in H. cbn [fst snd bump_requests now br] in H.
  change (if enabled c then check_circuit (timeout c) (now s) (br s) else (br s, true)) with (gate_check c s) in H.
  assert (Hsc : scount (fst (gate_check c s)) = scount (br s)).
  { unfold gate_check. destruct (enabled c); [|reflexivity].
    unfold check_circuit. destruct (circ (br s)); try reflexivity.
    destruct (last_failure (br s)); [|reflexivity]. destruct (timeout c <=? now s - z); reflexivity. }
  destruct (gate_check c s) as [b1 adm]. cbn [fst] in *.
  destruct G as (Gf & Gt & Gl & Gc).
  assert (Hgoal : forall s3, br s3 = b1 ->
            fcount (br s3) = fcount (br s) /\ trips (br s3) = trips (br s) /\
            last_failure (br s3) = last_failure (br s) /\ scount (br s3) = scount (br s) /\
            (circ (br s3) = circ (br s) \/ (circ (br s) = Open /\ circ (br s3) = HalfOpen))).
  { intros s3 ->. repeat split; auto. destruct Gc as [?|(? & ? & _)]; auto. }
  destruct adm; cbn [negb] in H; [|inversion H].
  destruct (cache_on c); [inversion H; subst; apply Hgoal; reflexivity|].
  unfold fail_req in H.
  destruct (zb r); [|inversion H].
  destruct (yb r); [|inversion H].
  inversion H; subst. apply Hgoal. reflexivity.
Qed.

(* lrun and ltrace are the same history *)
Lemma ltrace_lrun k : forall ops ls,
  lrun k ls ops =
  (last (map (fun x => snd (fst x)) (ltrace k ls ops)) ls,
   flat_map (fun x => match snd x with Some r => [r] | None => [] end) (ltrace k ls ops)).
Proof.
  induction ops as [|o rest IH]; intros ls; [reflexivity|].
  rewrite lrun_cons. cbn [ltrace]. destruct (lstep k ls o) as [ls1 r] eqn:E.
  rewrite IH. cbn [map flat_map fst snd]. rewrite last_cons.
  destruct r; reflexivity.
Qed.
