(* C08 — lemmas about the breaker model.  Statements that depend on the
   current classification rule carry [legacy c = false] and/or
   [interim c = false]; the others hold for all three rules. *)
From Coq Require Import ZArith List Bool Lia ZifyBool.
From Verif Require Import C08.Model.
Import ListNotations.
Local Open Scope Z_scope.

(* ---------------------------------------------------------------------- *)
(* vocabulary used by the property statements                              *)

Definition is_co (a : action) : bool := match a with ACircuitOpen => true | _ => false end.

(* Outcome classes of an answered request, by what the agents did (the
   LoopResult carries the executor's output; an agent exception is the ERROR
   result without one):
     failureb  executor failure (blocked, executor verdict FAILURE, whatever the
               assessor said and whatever the gate logic) or agent exception;
     successb  the result is not blocked;
     blockb    intentional block: blocked, an executor verdict other than
               FAILURE, nobody raised (fresh or served from the cache). *)
Definition is_exc (r : result) : bool :=
  match r_action r, r_exec r with AError, None => true | _, _ => false end.
Definition failureb (r : result) : bool :=
  r_blocked r && negb (r_cached r) && (exec_fails r || is_exc r).
Definition successb (r : result) : bool := negb (r_blocked r) && negb (r_cached r).
Definition blockb (r : result) : bool :=
  r_blocked r && match r_exec r with Some z => negb (z_fails z) | None => false end.

Definition count_failures (rs : list result) : Z := Z.of_nat (length (filter failureb rs)).
Definition count_uncached (rs : list result) : Z :=
  Z.of_nat (length (filter (fun r => negb (r_cached r)) rs)).

(* histories without manual intervention / with a monotone clock *)
Definition requests_only (ops : list op) : Prop :=
  Forall (fun o => match o with Reset | ClearCache => False | _ => True end) ops.
Definition no_reset (ops : list op) : Prop :=
  Forall (fun o => match o with Reset => False | _ => True end) ops.
Definition monotone (ops : list op) : Prop :=
  Forall (fun o => match o with Tick d => 0 <= d | Run r => 0 <= dur r | _ => True end) ops.

(* breaker invariant *)
Definition binv (thr : Z) (b : breaker) : Prop :=
  0 <= fcount b /\ (circ b <> Closed -> thr <= fcount b /\ last_failure b <> None).

Definition cache_ok (l : list (Z * (result * Z))) : Prop :=
  Forall (fun e => is_co (r_action (fst (snd e))) = false) l.

Definition inv (c : cfg) (s : state) : Prop := binv (threshold c) (br s) /\ cache_ok (cache s).

(* the breaker would let a probe through *)
Definition probe_state (c : cfg) (s : state) : Prop :=
  circ (br s) = HalfOpen \/
  (circ (br s) = Open /\ exists lf, last_failure (br s) = Some lf /\ timeout c <= now s - lf).

(* nothing but the request counter moved *)
Definition untouched (s s' : state) : Prop :=
  br s' = br s /\ zcalls s' = zcalls s /\ ycalls s' = ycalls s /\ spent s' = spent s /\
  cache s' = cache s /\ now s' = now s.

(* ---------------------------------------------------------------------- *)
(* the automaton                                                           *)

Lemma check_circuit_spec tmo t b b' adm :
  check_circuit tmo t b = (b', adm) ->
  (circ b <> Open /\ b' = b /\ adm = true) \/
  (circ b = Open /\ adm = false /\ b' = b /\ (forall lf, last_failure b = Some lf -> t - lf < tmo)) \/
  (circ b = Open /\ adm = true /\ b' = set_circ b HalfOpen /\
   exists lf, last_failure b = Some lf /\ tmo <= t - lf).
Proof.
  unfold check_circuit. intros H.
  destruct (circ b) eqn:Hc.
  - inversion H; subst. left. repeat split; congruence.
  - destruct (last_failure b) as [lf|] eqn:Hl.
    + destruct (tmo <=? t - lf) eqn:Hcmp; inversion H; subst.
      * right. right. repeat split; auto. exists lf. split; auto. lia.
      * right. left. repeat split; auto. intros lf' E. inversion E; subst. lia.
    + inversion H; subst. right. left. repeat split; auto. intros lf' E. discriminate.
  - inversion H; subst. left. repeat split; congruence.
Qed.

Lemma record_failure_spec thr t b :
  let b' := record_failure thr t b in
  fcount b' = fcount b + 1 /\ last_failure b' = Some t /\
  scount b' = scount b /\ last_success b' = last_success b /\
  match circ b with
  | HalfOpen => circ b' = Open /\ trips b' = trips b + 1
  | Open => circ b' = Open /\ trips b' = trips b
  | Closed => (thr <= fcount b + 1 /\ circ b' = Open /\ trips b' = trips b + 1) \/
              (fcount b + 1 < thr /\ circ b' = Closed /\ trips b' = trips b)
  end.
Proof.
  unfold record_failure. destruct (circ b) eqn:Hc; cbn.
  - destruct (thr <=? fcount b + 1) eqn:Hcmp; cbn; repeat split; auto.
    + left. repeat split; auto. lia.
    + right. repeat split; auto. lia.
  - repeat split; auto.
  - repeat split; auto.
Qed.

Lemma record_success_spec t b :
  let b' := record_success t b in
  last_failure b' = last_failure b /\ trips b' = trips b /\
  match circ b with
  | HalfOpen => circ b' = Closed /\ fcount b' = 0
  | c0 => circ b' = c0 /\ fcount b' = fcount b
  end.
Proof. unfold record_success. destruct (circ b); cbn; repeat split; auto. Qed.

Lemma classify_spec c t res b :
  legacy c = false -> interim c = false ->
  classify c t res b =
    if r_success res && negb (r_blocked res) then record_success t b
    else if r_blocked res && negb (exec_fails res) then b
    else record_failure (threshold c) t b.
Proof. unfold classify. intros -> ->. reflexivity. Qed.

(* under the current and the pre-044cd88 rule an intentional block leaves the
   breaker alone (the interim rule is the one that does not) *)
Lemma classify_block c t res b :
  interim c = false -> blockb res = true -> classify c t res b = b.
Proof.
  unfold classify, blockb, exec_fails. intros ->.
  destruct (r_success res), (r_blocked res), (legacy c), (r_exec res) as [z|]; cbn;
    try congruence; destruct (z_fails z); cbn; congruence.
Qed.

Lemma classify_success c t res b :
  r_success res = true -> r_blocked res = false -> classify c t res b = record_success t b.
Proof. unfold classify. intros -> ->. reflexivity. Qed.

(* whatever the rule: the breaker stays, records a success or records a failure *)
Lemma classify_cases c t res b :
  classify c t res b = b \/ classify c t res b = record_success t b \/
  classify c t res b = record_failure (threshold c) t b.
Proof.
  unfold classify.
  destruct (r_success res), (r_blocked res), (legacy c), (interim c), (exec_fails res); cbn; auto.
Qed.

(* except under the interim rule, a failure is only ever recorded for a blocked
   result whose executor verdict is FAILURE (results of the gate table are
   successful whenever they are not blocked) *)
Lemma classify_cases_strict c t res b :
  interim c = false -> (r_blocked res = false -> r_success res = true) ->
  classify c t res b = b \/ classify c t res b = record_success t b \/
  (r_blocked res = true /\ exec_fails res = true /\
   classify c t res b = record_failure (threshold c) t b).
Proof.
  unfold classify. intros -> Hs.
  destruct (r_blocked res); [|rewrite Hs by reflexivity; cbn; auto].
  destruct (r_success res), (legacy c), (exec_fails res); cbn; auto.
Qed.

Lemma binv_check thr tmo t b b' adm :
  binv thr b -> check_circuit tmo t b = (b', adm) -> binv thr b'.
Proof.
  intros [H0 H1] H. apply check_circuit_spec in H.
  destruct H as [(_ & -> & _) | [(_ & _ & -> & _) | (Ho & _ & -> & _)]]; try (split; assumption).
  split; cbn; auto. intros _. apply H1. congruence.
Qed.

Lemma binv_failure thr t b : binv thr b -> binv thr (record_failure thr t b).
Proof.
  intros [H0 H1]. pose proof (record_failure_spec thr t b) as S. cbv zeta in S.
  destruct S as (Hf & Hl & _ & _ & Hm). split; [lia|].
  intros Hn. split; [|congruence].
  destruct (circ b) eqn:Hc.
  - destruct Hm as [(? & _) | (_ & Hcl & _)]; [lia | congruence].
  - assert (thr <= fcount b) by (apply H1; congruence). lia.
  - assert (thr <= fcount b) by (apply H1; congruence). lia.
Qed.

Lemma binv_success thr t b : binv thr b -> binv thr (record_success t b).
Proof.
  intros [H0 H1]. pose proof (record_success_spec t b) as S. cbv zeta in S.
  destruct S as (Hl & _ & Hm).
  destruct (circ b) eqn:Hc.
  - destruct Hm as [Hc' Hf]. split; [lia|]. intros Hn. congruence.
  - destruct Hm as [Hc' Hf]. split; [lia|]. intros _. rewrite Hf, Hl. apply H1. congruence.
  - destruct Hm as [Hc' Hf]. split; [lia|]. intros Hn. congruence.
Qed.

Lemma binv_classify c t res b : binv (threshold c) b -> binv (threshold c) (classify c t res b).
Proof.
  intros H. destruct (classify_cases c t res b) as [-> | [-> | ->]];
    auto using binv_failure, binv_success.
Qed.

Lemma binv_reset thr b : binv thr (reset_breaker b).
Proof. split; cbn; [lia | congruence]. Qed.

(* ---------------------------------------------------------------------- *)
(* gate results and the cache                                              *)

Lemma gate_result_shape g z y :
  r_cached (gate_result g z y) = false /\ is_co (r_action (gate_result g z y)) = false /\
  r_exec (gate_result g z y) = Some z /\
  (r_blocked (gate_result g z y) = false -> r_success (gate_result g z y) = true).
Proof. destruct g, z, y; repeat split; cbn; congruence. Qed.

Lemma cache_ok_remove k l : cache_ok l -> cache_ok (remove k l).
Proof.
  unfold cache_ok. induction l as [|[k' v] l IH]; cbn; intros H; [constructor|].
  inversion H; subst. destruct (k =? k'); auto.
Qed.

Lemma cache_ok_lookup k l res ts :
  cache_ok l -> lookup k l = Some (res, ts) -> is_co (r_action res) = false.
Proof.
  unfold cache_ok. induction l as [|[k' v] l IH]; cbn; intros H E; [discriminate|].
  inversion H; subst. destruct (k =? k'); auto. inversion E; subst. assumption.
Qed.

Lemma cache_probe_spec c s k s2 o :
  cache_probe c s k = (s2, o) ->
  br s2 = br s /\ zcalls s2 = zcalls s /\ ycalls s2 = ycalls s /\ spent s2 = spent s /\
  now s2 = now s /\ total_requests s2 = total_requests s /\
  (cache_ok (cache s) -> cache_ok (cache s2)) /\
  (cache_on c = false -> o = None) /\
  match o with
  | Some res => s2 = s /\ (cache_ok (cache s) -> is_co (r_action res) = false)
  | None => True
  end.
Proof.
  unfold cache_probe. intros H.
  destruct (cache_on c) eqn:Hon.
  - destruct (lookup k (cache s)) as [[res ts]|] eqn:Hl.
    + destruct (now s - ts <? ttl c); inversion H; subst; cbn.
      * repeat split; auto; try discriminate. intros Hok. eapply cache_ok_lookup; eauto.
      * repeat split; auto; try discriminate. apply cache_ok_remove.
    + inversion H; subst. repeat split; auto; discriminate.
  - inversion H; subst. repeat split; auto.
Qed.

Lemma cache_ok_evict l : cache_ok l -> cache_ok (evict l).
Proof.
  unfold evict. intros H. destruct (cache_cap <? Z.of_nat (length l)); [|exact H].
  destruct (oldest l) as [[k ts]|]; [apply cache_ok_remove; exact H | exact H].
Qed.

Lemma cache_store_spec c s k res :
  let s' := cache_store c s k res in
  br s' = br s /\ zcalls s' = zcalls s /\ ycalls s' = ycalls s /\ spent s' = spent s /\ now s' = now s /\
  (cache_ok (cache s) -> is_co (r_action res) = false -> cache_ok (cache s')).
Proof.
  unfold cache_store. destruct (cache_on c); cbn; repeat split; auto.
  intros Hok Hr. apply cache_ok_evict. constructor; [exact Hr | apply cache_ok_remove; exact Hok].
Qed.

(* ---------------------------------------------------------------------- *)
(* one request                                                             *)

Definition gate_check (c : cfg) (s : state) : breaker * bool :=
  if enabled c then check_circuit (timeout c) (now s) (br s) else (br s, true).

Lemma run_req_cases c s r s' o :
  run_req c s r = (s', o) ->
  let b1 := fst (gate_check c s) in
  (* refused by the breaker *)
  (snd (gate_check c s) = false /\ o = res_circuit_open /\ untouched s s') \/
  (* answered from the cache *)
  (snd (gate_check c s) = true /\ cache_on c = true /\ r_cached o = true /\ br s' = b1 /\
   zcalls s' = zcalls s /\ ycalls s' = ycalls s /\ spent s' = spent s /\ now s' = now s /\
   (cache_ok (cache s) -> is_co (r_action o) = false) /\ cache s' = cache s) \/
  (* answered by the agents *)
  (snd (gate_check c s) = true /\ r_cached o = false /\ is_co (r_action o) = false /\
   zcalls s' = zcalls s + 1 /\ (spent s' = spent s + cost c \/ spent s' = spent s + cost c + cost c) /\
   now s' = now s + dur r /\
   (cache_ok (cache s) -> cache_ok (cache s')) /\
   (((exists z y, o = gate_result (glogic c) z y) /\ br s' = classify c (now s') o b1) \/
    (o = res_error /\ br s' = record_failure (threshold c) (now s') b1))).
Proof.
  unfold run_req, gate_check. cbn [bump_requests now br].
  destruct (if enabled c then check_circuit (timeout c) (now s) (br s) else (br s, true))
    as [b1 adm] eqn:Hg.
  cbn [fst snd].
  destruct adm; cbn [negb].
  2:{ intros H; inversion H; subst; clear H. left. split; [reflexivity|]. split; [reflexivity|].
      assert (b1 = br s) as ->.
      { destruct (enabled c); [|inversion Hg; reflexivity].
        apply check_circuit_spec in Hg.
        destruct Hg as [(_ & -> & _) | [(_ & _ & -> & _) | (_ & E & _)]]; auto; discriminate. }
      unfold untouched; cbn. repeat split; reflexivity. }
  match goal with |- context [cache_probe c ?S ?K] => destruct (cache_probe c S K) as [s2 hit] eqn:Hp end.
  apply cache_probe_spec in Hp. cbn in Hp.
  destruct Hp as (Hbr & Hz & Hy & Hsp & Hnow & _ & Hck & Hoff & Hhit).
  destruct hit as [res|].
  - intros H; inversion H; subst; clear H. destruct Hhit as [-> Hco]. right. left. cbn.
    repeat split; auto.
    destruct (cache_on c); auto. specialize (Hoff eq_refl). discriminate.
  - destruct (zb r) as [z|].
    + destruct (yb r) as [y|].
      * intros H; inversion H; subst; clear H. right. right. split; [reflexivity|].
        pose proof (gate_result_shape (glogic c) z y) as (Hfr & Hnco & _ & _).
        match goal with |- context [cache_store c ?S ?K ?R] =>
          pose proof (cache_store_spec c S K R) as CS end.
        cbv zeta in CS. cbn in CS. destruct CS as (Cb & Cz & Cy & Cs & Cn & Cok).
        cbn. rewrite Cz, Cs, Cn, Cb, Hz, Hsp.
        repeat split; auto; try lia.
        left. split; [exists z, y; reflexivity | reflexivity].
      * intros H; inversion H; subst; clear H. right. right. split; [reflexivity|].
        cbn. rewrite Hz, Hsp. cbn.
        repeat split; auto; try lia.
    + intros H; inversion H; subst; clear H. right. right. split; [reflexivity|].
      cbn. rewrite Hz, Hsp. cbn.
      repeat split; auto; try lia.
Qed.

(* ---------------------------------------------------------------------- *)
(* the gate in front of run()                                              *)

Lemma gate_check_fields c s :
  let b1 := fst (gate_check c s) in
  fcount b1 = fcount (br s) /\ trips b1 = trips (br s) /\ last_failure b1 = last_failure (br s) /\
  (circ b1 = circ (br s) \/
   (circ (br s) = Open /\ circ b1 = HalfOpen /\ enabled c = true /\ snd (gate_check c s) = true /\
    exists lf, last_failure (br s) = Some lf /\ timeout c <= now s - lf)).
Proof.
  unfold gate_check. destruct (enabled c); cbn; [|auto 6].
  destruct (check_circuit (timeout c) (now s) (br s)) as [b1 adm] eqn:H.
  apply check_circuit_spec in H. cbn.
  destruct H as [(_ & -> & _) | [(_ & _ & -> & _) | (Ho & -> & -> & lf & Hl & Ht)]]; auto 6.
  cbn. repeat split; auto. right. repeat split; auto. exists lf; auto.
Qed.

Lemma gate_check_refused c s :
  snd (gate_check c s) = false ->
  enabled c = true /\ circ (br s) = Open /\
  (forall lf, last_failure (br s) = Some lf -> now s - lf < timeout c).
Proof.
  unfold gate_check. destruct (enabled c); cbn; [|discriminate].
  destruct (check_circuit (timeout c) (now s) (br s)) as [b1 adm] eqn:H.
  apply check_circuit_spec in H. cbn. intros ->.
  destruct H as [(_ & _ & E) | [(Ho & _ & _ & Hl) | (_ & E & _)]]; try discriminate. auto.
Qed.

Lemma gate_check_open_early c s lf :
  enabled c = true -> circ (br s) = Open -> last_failure (br s) = Some lf ->
  now s - lf < timeout c -> gate_check c s = (br s, false).
Proof.
  unfold gate_check, check_circuit. intros -> -> -> H.
  destruct (timeout c <=? now s - lf) eqn:E; [lia | reflexivity].
Qed.

Lemma gate_check_open_late c s lf :
  enabled c = true -> circ (br s) = Open -> last_failure (br s) = Some lf ->
  timeout c <= now s - lf -> gate_check c s = (set_circ (br s) HalfOpen, true).
Proof.
  unfold gate_check, check_circuit. intros -> -> -> H.
  destruct (timeout c <=? now s - lf) eqn:E; [reflexivity | lia].
Qed.

Lemma gate_check_pass c s :
  circ (br s) <> Open \/ enabled c = false -> gate_check c s = (br s, true).
Proof.
  unfold gate_check, check_circuit. intros [H | ->]; [|reflexivity].
  destruct (enabled c); [|reflexivity]. destruct (circ (br s)); congruence.
Qed.

Lemma gate_check_binv c s :
  binv (threshold c) (br s) -> binv (threshold c) (fst (gate_check c s)).
Proof.
  unfold gate_check. intros H. destruct (enabled c); [|exact H].
  destruct (check_circuit (timeout c) (now s) (br s)) as [b1 adm] eqn:E.
  cbn. eapply binv_check; eauto.
Qed.

Lemma probe_state_gate c s :
  enabled c = true -> probe_state c s ->
  snd (gate_check c s) = true /\ circ (fst (gate_check c s)) = HalfOpen /\
  fcount (fst (gate_check c s)) = fcount (br s) /\ trips (fst (gate_check c s)) = trips (br s).
Proof.
  intros He [Hh | (Ho & lf & Hl & Ht)].
  - rewrite gate_check_pass by (left; congruence). cbn. auto.
  - rewrite (gate_check_open_late c s lf) by assumption. cbn. auto.
Qed.

(* ---------------------------------------------------------------------- *)
(* what each outcome class does to the breaker                             *)

Lemma failureb_error : failureb res_error = true.
Proof. reflexivity. Qed.

Lemma run_req_failure c s r s' o :
  legacy c = false -> interim c = false -> run_req c s r = (s', o) -> failureb o = true ->
  br s' = record_failure (threshold c) (now s') (fst (gate_check c s)) /\
  snd (gate_check c s) = true /\ zcalls s' = zcalls s + 1.
Proof.
  intros Hl Hi H Hf. apply run_req_cases in H. cbv zeta in H.
  destruct H as [(_ & -> & _) | [(_ & _ & Hc & _) | (Ha & Hc & Hco & Hz & _ & _ & _ & Hb)]].
  - discriminate.
  - unfold failureb in Hf. rewrite Hc in Hf. cbn in Hf. lia.
  - repeat split; auto. destruct Hb as [[(z & y & ->) Hb] | [_ Hb]]; [|exact Hb].
    rewrite Hb, classify_spec by assumption.
    destruct (gate_result_shape (glogic c) z y) as (_ & _ & He & _).
    unfold failureb, is_exc, exec_fails in *. rewrite He in *.
    destruct (r_blocked (gate_result (glogic c) z y)); [|discriminate].
    destruct (z_fails z); [|destruct (r_action (gate_result (glogic c) z y)); discriminate].
    rewrite andb_false_r. reflexivity.
Qed.

Lemma run_req_success c s r s' o :
  run_req c s r = (s', o) -> successb o = true ->
  br s' = record_success (now s') (fst (gate_check c s)) /\ snd (gate_check c s) = true.
Proof.
  intros H Hf. apply run_req_cases in H. cbv zeta in H. unfold successb in Hf.
  destruct H as [(_ & -> & _) | [(_ & _ & Hc & _) | (Ha & Hc & Hco & Hz & _ & _ & _ & Hb)]].
  - discriminate.
  - rewrite Hc in Hf. lia.
  - split; auto. destruct Hb as [[(z & y & ->) Hb] | [-> _]]; [|discriminate].
    destruct (gate_result_shape (glogic c) z y) as (_ & _ & _ & Hs).
    rewrite Hb. apply classify_success; [apply Hs|]; lia.
Qed.

Lemma run_req_block c s r s' o :
  interim c = false -> run_req c s r = (s', o) -> blockb o = true -> br s' = fst (gate_check c s).
Proof.
  intros Hi H Hf. apply run_req_cases in H. cbv zeta in H.
  destruct H as [(_ & -> & _) | [(_ & _ & _ & Hb & _) | (_ & _ & _ & _ & _ & _ & _ & Hb)]].
  - discriminate.
  - exact Hb.
  - destruct Hb as [[_ Hb] | [-> _]]; [|discriminate]. rewrite Hb. apply classify_block; assumption.
Qed.

Lemma run_req_now c s r s' o :
  run_req c s r = (s', o) -> now s' = now s \/ now s' = now s + dur r.
Proof.
  intros H. apply run_req_cases in H. cbv zeta in H.
  destruct H as [(_ & _ & U) | [(_ & _ & _ & _ & _ & _ & _ & Hn & _) | (_ & _ & _ & _ & _ & Hn & _)]]; auto.
  left. apply U.
Qed.

Lemma run_req_inv c s r s' o : inv c s -> run_req c s r = (s', o) -> inv c s'.
Proof.
  intros [Hb Hc] H. apply run_req_cases in H. cbv zeta in H.
  pose proof (gate_check_binv c s Hb) as Hb1.
  destruct H as [(_ & _ & U) | [(_ & _ & _ & Hbr & _ & _ & _ & _ & _ & Hca) | (_ & _ & _ & _ & _ & _ & Hca & Hbr)]].
  - destruct U as (E1 & _ & _ & _ & E2 & _). split; [rewrite E1 | rewrite E2]; assumption.
  - split; [rewrite Hbr | rewrite Hca]; assumption.
  - split; [|auto]. destruct Hbr as [[_ ->] | [_ ->]]; auto using binv_classify, binv_failure.
Qed.

Lemma step_inv c s o s' r : inv c s -> step c s o = (s', r) -> inv c s'.
Proof.
  intros Hi H. destruct o as [d | q | |]; cbn in H.
  - inversion H; subst. exact Hi.
  - destruct (run_req c s q) as [s1 x] eqn:E. inversion H; subst. eapply run_req_inv; eauto.
  - inversion H; subst. destruct Hi as [_ Hc]. split; [apply binv_reset | exact Hc].
  - inversion H; subst. destruct Hi as [Hb _]. split; [exact Hb | constructor].
Qed.

Lemma run_ops_cons c s o rest :
  run_ops c s (o :: rest) =
  let '(s1, r) := step c s o in
  let '(s2, rs) := run_ops c s1 rest in
  (s2, match r with Some x => x :: rs | None => rs end).
Proof. reflexivity. Qed.

Lemma run_ops_inv c : forall ops s s' rs, inv c s -> run_ops c s ops = (s', rs) -> inv c s'.
Proof.
  induction ops as [|o rest IH]; intros s s' rs Hi H.
  - inversion H; subst. exact Hi.
  - rewrite run_ops_cons in H. destruct (step c s o) as [s1 r] eqn:E.
    destruct (run_ops c s1 rest) as [s2 rs2] eqn:E2. inversion H; subst.
    eapply IH; [eapply step_inv; eauto | eauto].
Qed.

Lemma inv_init c : inv c init.
Proof. split; [split; cbn; [lia | congruence] | constructor]. Qed.

Lemma inv_reachable_proof :
  forall c ops s' rs, run_ops c init ops = (s', rs) -> inv c s'.
Proof. intros. eapply run_ops_inv; [apply inv_init | eauto]. Qed.

(* run_ops and trace are the same history *)
Lemma last_cons {A} (l : list A) : forall a d, last (a :: l) d = last l a.
Proof.
  induction l as [|b l IH]; intros a d; [reflexivity|].
  change (last (b :: l) d = last (b :: l) a). rewrite !IH. reflexivity.
Qed.

Lemma trace_run_ops c : forall ops s,
  run_ops c s ops =
  (last (map (fun x => snd (fst x)) (trace c s ops)) s,
   flat_map (fun x => match snd x with Some r => [r] | None => [] end) (trace c s ops)).
Proof.
  induction ops as [|o rest IH]; intros s; [reflexivity|].
  rewrite run_ops_cons. cbn [trace]. destruct (step c s o) as [s1 r] eqn:E.
  rewrite IH. cbn [map flat_map fst snd]. rewrite last_cons.
  destruct r; reflexivity.
Qed.

(* ---------------------------------------------------------------------- *)
(* 1. never open before the threshold has been reached                     *)

Lemma count_failures_cons x rs :
  count_failures (x :: rs) = (if failureb x then 1 else 0) + count_failures rs.
Proof. unfold count_failures. cbn [filter]. destruct (failureb x); cbn [length]; lia. Qed.

Lemma record_failure_count thr t b :
  binv thr b ->
  fcount (record_failure thr t b) = fcount b + 1 /\
  trips b <= trips (record_failure thr t b) /\
  (trips b < trips (record_failure thr t b) -> thr <= fcount (record_failure thr t b)).
Proof.
  intros [H0 H1]. pose proof (record_failure_spec thr t b) as S. cbv zeta in S.
  destruct S as (Hf & _ & _ & _ & Hm). split; [exact Hf|].
  destruct (circ b) eqn:Hc.
  - destruct Hm as [(? & _ & ?) | (? & _ & ?)]; lia.
  - destruct Hm; lia.
  - destruct Hm. assert (thr <= fcount b) by (apply H1; congruence). lia.
Qed.

Lemma run_req_binv c s r s' o :
  binv (threshold c) (br s) -> run_req c s r = (s', o) -> binv (threshold c) (br s').
Proof.
  intros Hb H. apply run_req_cases in H. cbv zeta in H.
  pose proof (gate_check_binv c s Hb) as Hb1.
  destruct H as [(_ & _ & U) | [(_ & _ & _ & Hbr & _) | (_ & _ & _ & _ & _ & _ & _ & Hbr)]].
  - destruct U as (E1 & _). rewrite E1; assumption.
  - rewrite Hbr; assumption.
  - destruct Hbr as [[_ ->] | [_ ->]]; auto using binv_classify, binv_failure.
Qed.

Lemma run_req_count c s r s' o :
  interim c = false ->
  binv (threshold c) (br s) -> run_req c s r = (s', o) ->
  fcount (br s') <= fcount (br s) + (if failureb o then 1 else 0) /\
  trips (br s) <= trips (br s') /\
  (trips (br s) < trips (br s') -> threshold c <= fcount (br s')).
Proof.
  intros Hi Hb H. apply run_req_cases in H. cbv zeta in H.
  pose proof (gate_check_binv c s Hb) as Hb1.
  pose proof (gate_check_fields c s) as G. cbv zeta in G. destruct G as (Gf & Gt & _ & _).
  set (b1 := fst (gate_check c s)) in *.
  assert (Hfail : forall t, failureb o = true ->
            fcount (record_failure (threshold c) t b1) <= fcount (br s) + (if failureb o then 1 else 0) /\
            trips (br s) <= trips (record_failure (threshold c) t b1) /\
            (trips (br s) < trips (record_failure (threshold c) t b1) ->
             threshold c <= fcount (record_failure (threshold c) t b1))).
  { intros t ->.
    pose proof (record_failure_count (threshold c) t b1 Hb1) as (F1 & F2 & F3). lia. }
  destruct H as [(_ & _ & U) | [(_ & _ & _ & Hbr & _) | (_ & Hc & Hco & _ & _ & _ & _ & Hbr)]].
  - destruct U as (E1 & _). rewrite E1. destruct (failureb o); lia.
  - rewrite Hbr. destruct (failureb o); lia.
  - destruct Hbr as [[(z & y & Ho) Hbr] | [-> Hbr]].
    + rewrite Hbr.
      assert (Hs : r_blocked o = false -> r_success o = true)
        by (rewrite Ho; apply gate_result_shape).
      destruct (classify_cases_strict c (now s') o b1 Hi Hs) as [-> | [-> | (Hbl & Hef & ->)]].
      * destruct (failureb o); lia.
      * pose proof (record_success_spec (now s') b1) as S. cbv zeta in S. destruct S as (_ & St & Sm).
        destruct Hb1 as [Hb0 _].
        destruct (circ b1); destruct Sm as [_ Sf]; destruct (failureb o); lia.
      * apply Hfail. unfold failureb. rewrite Hbl, Hc, Hef. reflexivity.
    + rewrite Hbr. apply Hfail. reflexivity.
Qed.

Lemma step_count c s o s1 r :
  interim c = false ->
  binv (threshold c) (br s) -> step c s o = (s1, r) ->
  binv (threshold c) (br s1) /\
  fcount (br s1) <= fcount (br s) + count_failures (match r with Some x => [x] | None => [] end) /\
  trips (br s) <= trips (br s1) /\
  (trips (br s) < trips (br s1) -> threshold c <= fcount (br s1)).
Proof.
  intros Hi Hb H. destruct o as [d | q | |]; cbn in H.
  - inversion H; subst. split; [exact Hb|]. change (count_failures []) with 0. cbn. lia.
  - destruct (run_req c s q) as [s' x] eqn:E. inversion H; subst.
    split; [eapply run_req_binv; eauto|].
    rewrite count_failures_cons. change (count_failures []) with 0.
    pose proof (run_req_count c s q s1 x Hi Hb E). lia.
  - inversion H; subst. cbn. destruct Hb as [H0 H1].
    split; [apply binv_reset|]. change (count_failures []) with 0. lia.
  - inversion H; subst. split; [exact Hb|]. change (count_failures []) with 0. cbn. lia.
Qed.

Lemma run_ops_count c : interim c = false -> forall ops s s' rs,
  binv (threshold c) (br s) -> run_ops c s ops = (s', rs) ->
  binv (threshold c) (br s') /\
  fcount (br s') <= fcount (br s) + count_failures rs /\
  trips (br s) <= trips (br s') /\
  (trips (br s) < trips (br s') -> threshold c <= fcount (br s) + count_failures rs).
Proof.
  intros Hi. induction ops as [|o rest IH]; intros s s' rs Hb H.
  - inversion H; subst. change (count_failures []) with 0. split; [exact Hb | lia].
  - rewrite run_ops_cons in H. destruct (step c s o) as [s1 r] eqn:E.
    destruct (run_ops c s1 rest) as [s2 rs2] eqn:E2. inversion H; subst; clear H.
    destruct (step_count c s o s1 r Hi Hb E) as (Hb1 & Hf1 & Ht1 & Hx1).
    destruct (IH s1 s' rs2 Hb1 E2) as (Hb2 & Hf2 & Ht2 & Hx2).
    assert (Hcf : count_failures (match r with Some x => x :: rs2 | None => rs2 end) =
                  count_failures (match r with Some x => [x] | None => [] end) + count_failures rs2).
    { destruct r; [rewrite !count_failures_cons|]; change (count_failures []) with 0; lia. }
    rewrite Hcf. assert (0 <= count_failures rs2) by (unfold count_failures; lia).
    assert (0 <= count_failures (match r with Some x => [x] | None => [] end)) by (unfold count_failures; lia).
    split; [exact Hb2|]. split; [lia|]. split; [lia|].
    intros Ht. destruct (Z_lt_le_dec (trips (br s)) (trips (br s1))); [specialize (Hx1 l) | assert (trips (br s1) < trips (br s')) as L by lia; specialize (Hx2 L)]; lia.
Qed.

Lemma open_implies_threshold_proof :
  forall c s ops s' rs,
    interim c = false ->
    circ (br s) = Closed -> fcount (br s) = 0 ->
    run_ops c s ops = (s', rs) ->
    (circ (br s') <> Closed ->
       threshold c <= count_failures rs /\ threshold c <= fcount (br s') /\
       last_failure (br s') <> None) /\
    (trips (br s) < trips (br s') -> threshold c <= count_failures rs).
Proof.
  intros c s ops s' rs Hint Hc Hf H.
  assert (Hb : binv (threshold c) (br s)) by (split; [lia | congruence]).
  destruct (run_ops_count c Hint ops s s' rs Hb H) as ([_ Hi] & Hle & _ & Ht).
  split; [intros Hn; destruct (Hi Hn) | intros L; specialize (Ht L)]; repeat split; auto; lia.
Qed.

(* ---------------------------------------------------------------------- *)
(* 2. open at the latest after threshold consecutive failures              *)

Lemma consecutive_failures c :
  legacy c = false -> interim c = false ->
  forall ops s s' rs,
    no_reset ops -> run_ops c s ops = (s', rs) ->
    Forall (fun r => failureb r = true) rs ->
    (circ (br s) = Closed -> threshold c <= fcount (br s) + Z.of_nat (length rs)) ->
    (rs = [] -> br s' = br s) /\ (rs <> [] -> circ (br s') = Open).
Proof.
  intros Hl Hi. induction ops as [|o rest IH]; intros s s' rs Hnr H Hall Hthr.
  - inversion H; subst. split; [reflexivity | congruence].
  - rewrite run_ops_cons in H. inversion Hnr as [|? ? Ho Hnr']; subst.
    destruct o as [d | q | |]; cbn [step] in H; try contradiction.
    + destruct (run_ops c (advance s d) rest) as [s2 rs2] eqn:E2. inversion H; subst; clear H.
      apply (IH (advance s d) s' rs Hnr' E2 Hall Hthr).
    + destruct (run_req c s q) as [s1 x] eqn:E.
      destruct (run_ops c s1 rest) as [s2 rs2] eqn:E2. inversion H; subst; clear H.
      inversion Hall as [|? ? Hx Hall']; subst.
      split; [discriminate|]. intros _.
      destruct (run_req_failure c s q s1 x Hl Hi E Hx) as (Hbr & _ & _).
      pose proof (gate_check_fields c s) as G. cbv zeta in G. destruct G as (Gf & _ & _ & Gc).
      pose proof (record_failure_spec (threshold c) (now s1) (fst (gate_check c s))) as S.
      cbv zeta in S. rewrite <- Hbr in S. destruct S as (Sf & _ & _ & _ & Sm).
      assert (Hs1 : circ (br s1) = Open \/
                    (circ (br s1) = Closed /\ circ (br s) = Closed /\ fcount (br s1) < threshold c)).
      { destruct (circ (fst (gate_check c s))) eqn:Hc1.
        - destruct Sm as [(_ & ? & _) | (? & ? & _)]; [left; assumption|].
          right. repeat split; auto; [|lia].
          destruct Gc as [Gc | (_ & Gc & _)]; congruence.
        - left. apply Sm.
        - left. apply Sm. }
      cbn [length] in Hthr.
      assert (Hthr1 : circ (br s1) = Closed -> threshold c <= fcount (br s1) + Z.of_nat (length rs2)).
      { intros Hc. destruct Hs1 as [Ho1 | (_ & Hc0 & _)]; [congruence|]. specialize (Hthr Hc0). lia. }
      destruct (IH s1 s' rs2 Hnr' E2 Hall' Hthr1) as [I1 I2].
      destruct rs2 as [|y rs2].
      * rewrite (I1 eq_refl). destruct Hs1 as [Ho1 | (Hc1 & Hc0 & Hlt)]; [assumption|].
        specialize (Hthr Hc0). cbn in Hthr. lia.
      * apply I2. discriminate.
    + destruct (run_ops c (set_cache s []) rest) as [s2 rs2] eqn:E2. inversion H; subst; clear H.
      apply (IH (set_cache s []) s' rs Hnr' E2 Hall Hthr).
Qed.

Lemma opens_after_n_proof :
  forall c s ops s' rs,
    legacy c = false -> interim c = false -> 1 <= threshold c -> 0 <= fcount (br s) ->
    no_reset ops -> run_ops c s ops = (s', rs) ->
    Forall (fun r => failureb r = true) rs ->
    threshold c <= Z.of_nat (length rs) ->
    circ (br s') = Open.
Proof.
  intros c s ops s' rs Hl Hi Ht Hf Hnr H Hall Hlen.
  destruct (consecutive_failures c Hl Hi ops s s' rs Hnr H Hall) as [_ I]; [lia|].
  apply I. destruct rs; [cbn in Hlen; lia | discriminate].
Qed.

(* ---------------------------------------------------------------------- *)
(* 3. isolation while open                                                 *)

Lemma run_req_refused c s r s' o :
  snd (gate_check c s) = false -> run_req c s r = (s', o) ->
  o = res_circuit_open /\ untouched s s'.
Proof.
  intros Hg H. apply run_req_cases in H. cbv zeta in H.
  destruct H as [(_ & Ho & U) | [(E & _) | (E & _)]]; [auto | congruence | congruence].
Qed.

Lemma run_ops_now_mono c : forall ops s s' rs,
  monotone ops -> run_ops c s ops = (s', rs) -> now s <= now s'.
Proof.
  induction ops as [|o rest IH]; intros s s' rs Hm H.
  - inversion H; subst. lia.
  - rewrite run_ops_cons in H. inversion Hm as [|? ? Ho Hm']; subst.
    destruct (step c s o) as [s1 r] eqn:E.
    destruct (run_ops c s1 rest) as [s2 rs2] eqn:E2. inversion H; subst; clear H.
    specialize (IH s1 s' rs2 Hm' E2).
    assert (now s <= now s1); [|lia].
    destruct o as [d | q | |]; cbn in E.
    + inversion E; subst. cbn. lia.
    + destruct (run_req c s q) as [s1' x] eqn:Eq. inversion E; subst.
      destruct (run_req_now c s q s1 x Eq); lia.
    + inversion E; subst. cbn. lia.
    + inversion E; subst. cbn. lia.
Qed.

Lemma open_isolates_proof :
  forall c ops s lf s' rs,
    enabled c = true -> circ (br s) = Open -> last_failure (br s) = Some lf ->
    requests_only ops -> monotone ops ->
    run_ops c s ops = (s', rs) -> now s' - lf < timeout c ->
    Forall (fun r => r = res_circuit_open) rs /\
    br s' = br s /\ zcalls s' = zcalls s /\ ycalls s' = ycalls s /\ spent s' = spent s /\
    cache s' = cache s.
Proof.
  intros c ops. induction ops as [|o rest IH]; intros s lf s' rs He Hc Hlf Hro Hm H Ht.
  - inversion H; subst. repeat split; auto.
  - pose proof (run_ops_now_mono c (o :: rest) s s' rs Hm H) as Hnow.
    rewrite run_ops_cons in H.
    inversion Hro as [|? ? Ho Hro']; inversion Hm as [|? ? Hmo Hm']; subst.
    destruct o as [d | q | |]; cbn [step] in H; try contradiction.
    + destruct (run_ops c (advance s d) rest) as [s2 rs2] eqn:E2. inversion H; subst; clear H.
      apply (IH (advance s d) lf s' rs He Hc Hlf Hro' Hm' E2 Ht).
    + destruct (run_req c s q) as [s1 x] eqn:E.
      destruct (run_ops c s1 rest) as [s2 rs2] eqn:E2. inversion H; subst; clear H.
      assert (Hg : snd (gate_check c s) = false).
      { rewrite (gate_check_open_early c s lf) by (auto; lia). reflexivity. }
      destruct (run_req_refused c s q s1 x Hg E) as (-> & Ub & Uz & Uy & Us & Uc & Un).
      destruct (IH s1 lf s' rs2 He) as (I1 & I2 & I3 & I4 & I5 & I6); auto; try congruence.
      repeat split; try congruence. constructor; auto.
Qed.

(* ---------------------------------------------------------------------- *)
(* 4.-6. the probe                                                         *)

Lemma is_co_false a : is_co a = false <-> a <> ACircuitOpen.
Proof. destruct a; cbn; split; congruence. Qed.

Lemma run_req_admitted c s r s' o :
  snd (gate_check c s) = true -> cache_ok (cache s) -> run_req c s r = (s', o) ->
  r_action o <> ACircuitOpen /\ cache_ok (cache s') /\
  (cache_on c = false -> r_cached o = false) /\
  ((r_cached o = true /\ zcalls s' = zcalls s /\ ycalls s' = ycalls s /\ spent s' = spent s /\
    br s' = fst (gate_check c s)) \/
   (r_cached o = false /\ zcalls s' = zcalls s + 1)).
Proof.
  intros Hg Hok H. apply run_req_cases in H. cbv zeta in H.
  destruct H as [(E & _) | [(_ & Hon & Hc & Hb & Hz & Hy & Hs & _ & Hco & Hca) | (_ & Hc & Hco & Hz & _ & _ & Hca & _)]].
  - congruence.
  - split; [apply is_co_false; auto|]. split; [rewrite Hca; auto|]. split; [congruence|]. left. auto.
  - split; [apply is_co_false; auto|]. split; [auto|]. split; [auto|]. right. auto.
Qed.

Lemma probe_admitted_proof :
  forall c s r s' o,
    enabled c = true -> cache_ok (cache s) -> probe_state c s ->
    run_req c s r = (s', o) ->
    r_action o <> ACircuitOpen /\
    ((r_cached o = true /\ zcalls s' = zcalls s /\ circ (br s') = HalfOpen) \/
     (r_cached o = false /\ zcalls s' = zcalls s + 1)).
Proof.
  intros c s r s' o He Hok Hp H.
  destruct (probe_state_gate c s He Hp) as (Hg & Hh & _).
  destruct (run_req_admitted c s r s' o Hg Hok H) as (Ha & _ & _ & [(Hc & Hz & _ & _ & Hb) | (Hc & Hz)]).
  - split; auto. left. rewrite Hb. auto.
  - split; auto.
Qed.

Lemma probe_success_proof :
  forall c s r s' o,
    enabled c = true -> probe_state c s ->
    run_req c s r = (s', o) -> successb o = true ->
    circ (br s') = Closed /\ fcount (br s') = 0 /\ trips (br s') = trips (br s).
Proof.
  intros c s r s' o He Hp H Hs.
  destruct (probe_state_gate c s He Hp) as (Hg & Hh & _ & Ht).
  destruct (run_req_success c s r s' o H Hs) as (Hb & _).
  pose proof (record_success_spec (now s') (fst (gate_check c s))) as S. cbv zeta in S.
  rewrite <- Hb, Hh in S. destruct S as (_ & St & Sc & Sf). repeat split; auto. congruence.
Qed.

Lemma probe_failure_proof :
  forall c s r s' o,
    legacy c = false -> interim c = false -> enabled c = true -> probe_state c s ->
    run_req c s r = (s', o) -> failureb o = true ->
    circ (br s') = Open /\ last_failure (br s') = Some (now s') /\
    trips (br s') = trips (br s) + 1 /\ fcount (br s') = fcount (br s) + 1 /\
    (* the timeout starts again: nothing is admitted before now s' + timeout *)
    (forall ops s'' rs, requests_only ops -> monotone ops ->
       run_ops c s' ops = (s'', rs) -> now s'' - now s' < timeout c ->
       Forall (fun x => x = res_circuit_open) rs /\ br s'' = br s' /\
       zcalls s'' = zcalls s' /\ ycalls s'' = ycalls s' /\ spent s'' = spent s').
Proof.
  intros c s r s' o Hl Hi He Hp H Hf.
  destruct (probe_state_gate c s He Hp) as (Hg & Hh & Hfc & Ht).
  destruct (run_req_failure c s r s' o Hl Hi H Hf) as (Hb & _ & _).
  pose proof (record_failure_spec (threshold c) (now s') (fst (gate_check c s))) as S. cbv zeta in S.
  rewrite <- Hb, Hh in S. destruct S as (Sf & Sl & _ & _ & Sc & St).
  repeat split; auto; try congruence;
    destruct (open_isolates_proof c ops s' (now s') s'' rs He Sc Sl H0 H1 H2 H3) as (I1 & I2 & I3 & I4 & I5 & _);
    assumption.
Qed.

(* ---------------------------------------------------------------------- *)
(* 7. intentional blocks                                                   *)

Lemma blocks_not_failures_proof :
  forall c ops s s' rs,
    interim c = false ->
    requests_only ops -> run_ops c s ops = (s', rs) ->
    Forall (fun r => blockb r = true) rs ->
    fcount (br s') = fcount (br s) /\ trips (br s') = trips (br s) /\
    last_failure (br s') = last_failure (br s) /\
    (circ (br s') = circ (br s) \/ (circ (br s) = Open /\ circ (br s') = HalfOpen)).
Proof.
  intros c ops. induction ops as [|o rest IH]; intros s s' rs Hi Hro H Hall.
  - inversion H; subst. auto.
  - rewrite run_ops_cons in H. inversion Hro as [|? ? Ho Hro']; subst.
    destruct o as [d | q | |]; cbn [step] in H; try contradiction.
    + destruct (run_ops c (advance s d) rest) as [s2 rs2] eqn:E2. inversion H; subst; clear H.
      apply (IH (advance s d) s' rs Hi Hro' E2 Hall).
    + destruct (run_req c s q) as [s1 x] eqn:E.
      destruct (run_ops c s1 rest) as [s2 rs2] eqn:E2. inversion H; subst; clear H.
      inversion Hall as [|? ? Hx Hall']; subst.
      pose proof (run_req_block c s q s1 x Hi E Hx) as Hb.
      pose proof (gate_check_fields c s) as G. cbv zeta in G. rewrite <- Hb in G.
      destruct G as (Gf & Gt & Gl & Gc).
      destruct (IH s1 s' rs2 Hi Hro' E2 Hall') as (I1 & I2 & I3 & I4).
      repeat split; try congruence.
      destruct Gc as [Gc | (Gc1 & Gc2 & _)]; destruct I4 as [I4 | (I4 & I5)]; try congruence; auto.
      * left. congruence.
      * right. split; congruence.
      * right. split; congruence.
Qed.

(* ---------------------------------------------------------------------- *)
(* 8. breaker disabled                                                     *)

Lemma count_uncached_cons x rs :
  count_uncached (x :: rs) = (if r_cached x then 0 else 1) + count_uncached rs.
Proof. unfold count_uncached. cbn [filter]. destruct (r_cached x); cbn [negb length]; lia. Qed.

Lemma disabled_proof :
  forall c ops s s' rs,
    enabled c = false -> cache_ok (cache s) -> run_ops c s ops = (s', rs) ->
    Forall (fun r => r_action r <> ACircuitOpen) rs /\
    zcalls s' = zcalls s + count_uncached rs /\
    (cache_on c = false -> zcalls s' = zcalls s + Z.of_nat (length rs)).
Proof.
  intros c ops. induction ops as [|o rest IH]; intros s s' rs He Hok H.
  - inversion H; subst. change (count_uncached []) with 0. cbn. repeat split; auto; lia.
  - rewrite run_ops_cons in H.
    destruct o as [d | q | |]; cbn [step] in H.
    + destruct (run_ops c (advance s d) rest) as [s2 rs2] eqn:E2. inversion H; subst; clear H.
      apply (IH (advance s d) s' rs He Hok E2).
    + destruct (run_req c s q) as [s1 x] eqn:E.
      destruct (run_ops c s1 rest) as [s2 rs2] eqn:E2. inversion H; subst; clear H.
      assert (Hg : snd (gate_check c s) = true) by (rewrite gate_check_pass by auto; reflexivity).
      destruct (run_req_admitted c s q s1 x Hg Hok E) as (Ha & Hok1 & Hoff & Hz).
      destruct (IH s1 s' rs2 He Hok1 E2) as (I1 & I2 & I3).
      rewrite count_uncached_cons. cbn [length].
      split; [constructor; auto|]. split.
      * destruct Hz as [(-> & Hz & _) | (-> & Hz)]; lia.
      * intros Hc. specialize (I3 Hc). specialize (Hoff Hc).
        destruct Hz as [(Hx & _) | (_ & Hz)]; [congruence | lia].
    + destruct (run_ops c (set_br s (reset_breaker (br s))) rest) as [s2 rs2] eqn:E2.
      inversion H; subst; clear H.
      apply (IH (set_br s (reset_breaker (br s))) s' rs He Hok E2).
    + destruct (run_ops c (set_cache s []) rest) as [s2 rs2] eqn:E2. inversion H; subst; clear H.
      apply (IH (set_cache s []) s' rs He); [constructor | exact E2].
Qed.

(* ---------------------------------------------------------------------- *)
(* 9. manual reset                                                         *)

Lemma reset_proof :
  forall c s,
    let s1 := fst (step c s Reset) in
    circ (br s1) = Closed /\ fcount (br s1) = 0 /\ trips (br s1) = trips (br s) /\
    (forall r s' o, cache_ok (cache s) -> run_req c s1 r = (s', o) ->
       r_action o <> ACircuitOpen /\ (r_cached o = true \/ zcalls s' = zcalls s1 + 1)).
Proof.
  intros c s. cbn. repeat split; auto.
  - assert (Hg : snd (gate_check c (set_br s (reset_breaker (br s)))) = true).
    { rewrite gate_check_pass; [reflexivity | left; cbn; congruence]. }
    destruct (run_req_admitted c _ r s' o Hg H H0) as (Ha & _). exact Ha.
  - assert (Hg : snd (gate_check c (set_br s (reset_breaker (br s)))) = true).
    { rewrite gate_check_pass; [reflexivity | left; cbn; congruence]. }
    destruct (run_req_admitted c _ r s' o Hg H H0) as (_ & _ & _ & [(Hc & _) | (_ & Hz)]); auto.
Qed.

(* ====================================================================== *)
(* 10. requests that overlap ([cop], [cstep], [crun] of Model.v)           *)

(* run() is its phases *)
Lemma run_req_phases c s r :
  run_req c s r =
  match arrive c s r with
  | (s1, Some res) => (s1, res)
  | (s2, None) => finish_z c (call_z c s2 (dur r)) r
  end.
Proof.
  unfold run_req, arrive, finish_z, finish_y, fail_req.
  match goal with |- context [if enabled c then ?A else ?B] =>
    destruct (if enabled c then A else B) as [b1 adm] end.
  destruct adm; cbn [negb]; [|reflexivity].
  match goal with |- context [cache_probe c ?S ?K] => destruct (cache_probe c S K) as [s2 [res|]] end;
    [reflexivity|].
  destruct (zb r); [destruct (yb r)|]; reflexivity.
Qed.

Lemma advance_call_z c s d : advance (call_z c s 0) d = call_z c s d.
Proof. unfold advance, call_z. cbn. f_equal. lia. Qed.

(* the answer [o] of the agents is recorded at clock value [t] on the breaker [b] (the breaker as it is at that
   moment - for a request that was suspended not the one it was admitted by), giving [b'] *)
Definition recorded (c : cfg) (t : Z) (b : breaker) (o : result) (b' : breaker) : Prop :=
  ((exists z y, o = gate_result (glogic c) z y) /\ b' = classify c t o b) \/
  (o = res_error /\ b' = record_failure (threshold c) t b).

Lemma recorded_shape c t b o b' :
  recorded c t b o b' ->
  r_cached o = false /\ is_co (r_action o) = false /\ (r_blocked o = false -> r_success o = true).
Proof.
  intros [[(z & y & ->) _] | [-> _]].
  - pose proof (gate_result_shape (glogic c) z y) as (H1 & H2 & _ & H4). auto.
  - repeat split; cbn; congruence.
Qed.

Lemma recorded_binv c t b o b' :
  binv (threshold c) b -> recorded c t b o b' -> binv (threshold c) b'.
Proof. intros Hb [[_ ->] | [_ ->]]; auto using binv_classify, binv_failure. Qed.

Lemma recorded_count c t b o b' :
  interim c = false -> binv (threshold c) b -> recorded c t b o b' ->
  fcount b' <= fcount b + (if failureb o then 1 else 0) /\
  trips b <= trips b' /\ (trips b < trips b' -> threshold c <= fcount b').
Proof.
  intros Hi Hb R.
  destruct (recorded_shape c t b o b' R) as (Hc & _ & Hs).
  assert (Hfail : failureb o = true ->
            fcount (record_failure (threshold c) t b) <= fcount b + (if failureb o then 1 else 0) /\
            trips b <= trips (record_failure (threshold c) t b) /\
            (trips b < trips (record_failure (threshold c) t b) ->
             threshold c <= fcount (record_failure (threshold c) t b))).
  { intros ->. pose proof (record_failure_count (threshold c) t b Hb) as (F1 & F2 & F3). lia. }
  destruct R as [[_ ->] | [-> ->]].
  - destruct (classify_cases_strict c t o b Hi Hs) as [-> | [-> | (Hbl & Hef & ->)]].
    + destruct (failureb o); lia.
    + pose proof (record_success_spec t b) as S. cbv zeta in S. destruct S as (_ & St & Sm).
      destruct Hb as [Hb0 _].
      destruct (circ b); destruct Sm as [_ Sf]; destruct (failureb o); lia.
    + apply Hfail. unfold failureb. rewrite Hbl, Hc, Hef. reflexivity.
  - apply Hfail. reflexivity.
Qed.

(* whatever is recorded while the breaker is OPEN leaves it OPEN: a success does not close it and does not clear
   the count, a failure counts and restarts the timeout *)
Lemma recorded_open c t b o b' :
  circ b = Open -> recorded c t b o b' ->
  circ b' = Open /\ fcount b <= fcount b' /\ trips b' = trips b /\
  (last_failure b' = last_failure b \/ last_failure b' = Some t).
Proof.
  intros Ho R.
  assert (HS : circ (record_success t b) = Open /\ fcount b <= fcount (record_success t b) /\
               trips (record_success t b) = trips b /\ last_failure (record_success t b) = last_failure b).
  { pose proof (record_success_spec t b) as S. cbv zeta in S. rewrite Ho in S.
    destruct S as (Sl & St & Sc & Sf). repeat split; auto. lia. }
  assert (HF : circ (record_failure (threshold c) t b) = Open /\
               fcount b <= fcount (record_failure (threshold c) t b) /\
               trips (record_failure (threshold c) t b) = trips b /\
               last_failure (record_failure (threshold c) t b) = Some t).
  { pose proof (record_failure_spec (threshold c) t b) as S. cbv zeta in S. rewrite Ho in S.
    destruct S as (Sf & Sl & _ & _ & Sc & St). repeat split; auto. lia. }
  destruct R as [[_ ->] | [_ ->]].
  - destruct (classify_cases c t o b) as [-> | [-> | ->]].
    + repeat split; auto. lia.
    + destruct HS as (? & ? & ? & ?). auto.
    + destruct HF as (? & ? & ? & ?). auto.
  - destruct HF as (? & ? & ? & ?). auto.
Qed.

Lemma fail_req_spec c s s' o :
  fail_req c s = (s', o) ->
  recorded c (now s) (br s) o (br s') /\ now s' = now s /\ zcalls s' = zcalls s /\ ycalls s' = ycalls s /\
  spent s' = spent s /\ cache s' = cache s.
Proof.
  unfold fail_req. intros H; inversion H; subst; clear H. cbn. repeat split; auto.
  right. split; reflexivity.
Qed.

Lemma finish_y_spec c s r z s' o :
  finish_y c s r z = (s', o) ->
  recorded c (now s) (br s) o (br s') /\ now s' = now s /\ zcalls s' = zcalls s /\ ycalls s' = ycalls s /\
  spent s' = spent s /\ (cache_ok (cache s) -> cache_ok (cache s')).
Proof.
  unfold finish_y. destruct (yb r) as [y|].
  - intros H; inversion H; subst; clear H.
    pose proof (gate_result_shape (glogic c) z y) as (_ & Hnco & _ & _).
    match goal with |- context [cache_store c ?S ?K ?R] => pose proof (cache_store_spec c S K R) as CS end.
    cbv zeta in CS. cbn in CS. destruct CS as (Cb & Cz & Cy & Cs & Cn & Cok).
    cbn. rewrite Cb, Cz, Cy, Cs, Cn. repeat split; auto.
    left. split; [exists z, y; reflexivity | reflexivity].
  - intros H. apply fail_req_spec in H. destruct H as (R & Hn & Hz & Hy & Hs & Hc).
    repeat split; auto. intros Hok. rewrite Hc. exact Hok.
Qed.

Lemma finish_z_spec c s r s' o :
  finish_z c s r = (s', o) ->
  recorded c (now s) (br s) o (br s') /\ now s' = now s /\ zcalls s' = zcalls s /\
  (ycalls s' = ycalls s \/ ycalls s' = ycalls s + 1) /\
  spent s' = spent s + cost c * (ycalls s' - ycalls s) /\
  (cache_ok (cache s) -> cache_ok (cache s')).
Proof.
  unfold finish_z. destruct (zb r) as [z|].
  - intros H. apply finish_y_spec in H. cbn in H. destruct H as (R & Hn & Hz & Hy & Hs & Hc).
    repeat split; auto. rewrite Hs, Hy. lia.
  - intros H. apply fail_req_spec in H. destruct H as (R & Hn & Hz & Hy & Hs & Hc).
    repeat split; auto; [rewrite Hs, Hy; lia|]. intros Hok. rewrite Hc. exact Hok.
Qed.

(* a suspended request goes on: its answer is recorded on the breaker of that moment *)
Lemma end_req_spec c s f s' o :
  end_req c s f = (s', o) ->
  recorded c (now s') (br s) o (br s') /\
  (now s' = now s \/ now s' = now s + dur (f_req f)) /\ zcalls s' = zcalls s /\
  (ycalls s' = ycalls s \/ ycalls s' = ycalls s + 1) /\
  spent s' = spent s + cost c * (ycalls s' - ycalls s) /\
  (cache_ok (cache s) -> cache_ok (cache s')).
Proof.
  unfold end_req. destruct (f_place f).
  - intros H. apply finish_z_spec in H. cbn in H. destruct H as (R & Hn & Hz & Hy & Hs & Hc).
    rewrite Hn. repeat split; auto.
  - destruct (zb (f_req f)) as [z|].
    + intros H. apply finish_y_spec in H. destruct H as (R & Hn & Hz & Hy & Hs & Hc).
      rewrite Hn. repeat split; auto. rewrite Hs, Hy. lia.
    + intros H. apply fail_req_spec in H. destruct H as (R & Hn & Hz & Hy & Hs & Hc).
      rewrite Hn. repeat split; auto; [rewrite Hs, Hy; lia|]. intros Hok. rewrite Hc. exact Hok.
Qed.

(* the part of run() in front of the agents *)
Lemma arrive_spec c s r s1 o :
  arrive c s r = (s1, o) ->
  br s1 = fst (gate_check c s) /\ now s1 = now s /\ zcalls s1 = zcalls s /\ ycalls s1 = ycalls s /\
  spent s1 = spent s /\ (cache_ok (cache s) -> cache_ok (cache s1)) /\
  match o with
  | Some res =>
      (snd (gate_check c s) = false /\ res = res_circuit_open /\ untouched s s1) \/
      (snd (gate_check c s) = true /\ r_cached res = true /\ cache s1 = cache s /\
       (cache_ok (cache s) -> is_co (r_action res) = false))
  | None => snd (gate_check c s) = true
  end.
Proof.
  unfold arrive, gate_check. cbn [bump_requests now br].
  destruct (if enabled c then check_circuit (timeout c) (now s) (br s) else (br s, true))
    as [b1 adm] eqn:Hg.
  cbn [fst snd].
  destruct adm; cbn [negb].
  2:{ intros H; inversion H; subst; clear H.
      assert (b1 = br s) as ->.
      { destruct (enabled c); [|inversion Hg; reflexivity].
        apply check_circuit_spec in Hg.
        destruct Hg as [(_ & -> & _) | [(_ & _ & -> & _) | (_ & E & _)]]; auto; discriminate. }
      cbn. repeat split; auto. left. unfold untouched; cbn. repeat split; reflexivity. }
  match goal with |- context [cache_probe c ?S ?K] => destruct (cache_probe c S K) as [s2 hit] eqn:Hp end.
  apply cache_probe_spec in Hp. cbn in Hp.
  destruct Hp as (Hbr & Hz & Hy & Hsp & Hnow & _ & Hck & Hoff & Hhit).
  destruct hit as [res|]; intros H; inversion H; subst; clear H.
  - destruct Hhit as [-> Hco]. cbn. repeat split; auto; right; repeat split; auto.
  - repeat split; auto.
Qed.

Lemma begin_req_spec c s r w s' o :
  begin_req c s r w = (s', o) ->
  let b1 := fst (gate_check c s) in
  (cache_ok (cache s) -> cache_ok (cache s')) /\ now s <= now s' + (if 0 <=? dur r then 0 else - dur r) /\
  match o with
  | None =>      (* admitted, now suspended inside an agent *)
      snd (gate_check c s) = true /\ br s' = b1 /\ zcalls s' = zcalls s + 1
  | Some res =>
      (snd (gate_check c s) = false /\ res = res_circuit_open /\ untouched s s') \/
      (snd (gate_check c s) = true /\ r_cached res = true /\ br s' = b1 /\ zcalls s' = zcalls s /\
       ycalls s' = ycalls s /\ spent s' = spent s /\ now s' = now s /\
       (cache_ok (cache s) -> is_co (r_action res) = false)) \/
      (snd (gate_check c s) = true /\ recorded c (now s') b1 res (br s') /\ zcalls s' = zcalls s + 1)
  end.
Proof.
  unfold begin_req. destruct (arrive c s r) as [s2 [res|]] eqn:Ha; apply arrive_spec in Ha;
    destruct Ha as (Hb & Hn & Hz & Hy & Hs & Hc & Hm); cbv zeta.
  - intros H; inversion H; subst; clear H. split; [exact Hc|]. split; [destruct (0 <=? dur r) eqn:E; lia|].
    destruct Hm as [(G & -> & U) | (G & Hca & Hcs & Hco)]; [left; auto|].
    right. left. repeat split; auto.
  - destruct w.
    + intros H; inversion H; subst; clear H. cbn. split; [exact Hc|].
      split; [destruct (0 <=? dur r) eqn:E; lia|]. repeat split; auto. lia.
    + destruct (zb r) as [z|].
      * intros H; inversion H; subst; clear H. cbn. split; [exact Hc|].
        split; [destruct (0 <=? dur r) eqn:E; lia|]. repeat split; auto. lia.
      * destruct (fail_req c (call_z c s2 (dur r))) as [s3 res] eqn:Hf.
        intros H; inversion H; subst; clear H.
        apply fail_req_spec in Hf. cbn in Hf. destruct Hf as (R & Fn & Fz & Fy & Fs & Fc).
        split; [rewrite Fc; exact Hc|]. split; [destruct (0 <=? dur r) eqn:E; lia|].
        right. right. split; [exact Hm|]. split; [|lia].
        rewrite Fn, <- Hb. exact R.
Qed.

(* ---------------------------------------------------------------------- *)
(* histories with overlapping requests                                     *)

Definition cres_list (r : option (bool * result)) : list result :=
  match r with Some (_, x) => [x] | None => [] end.

(* no manual intervention / the clock never goes back (a suspended request goes on with the duration it was
   begun with) *)
Definition crequests_only (ops : list cop) : Prop :=
  Forall (fun o => match o with Seq Reset | Seq ClearCache => False | _ => True end) ops.
Definition cmonotone (ops : list cop) : Prop :=
  Forall (fun o => match o with
                   | Seq (Tick d) => 0 <= d | Seq (Run r) => 0 <= dur r | Begin _ r _ => 0 <= dur r
                   | _ => True end) ops.
Definition fl_monotone (fl : list flying) : Prop := Forall (fun f => 0 <= dur (f_req f)) fl.
(* the request arrives in this operation *)
Definition arrival (o : cop) : Prop :=
  match o with Seq (Run _) | Begin _ _ _ => True | _ => False end.

Lemma crun_cons c cs o rest :
  crun c cs (o :: rest) =
  let '(cs1, r) := cstep c cs o in
  let '(cs2, rs) := crun c cs1 rest in
  (cs2, match r with Some x => x :: rs | None => rs end).
Proof. reflexivity. Qed.

Lemma fly_lookup_in id fl f : fly_lookup id fl = Some f -> In f fl.
Proof.
  induction fl as [|g fl IH]; cbn; [discriminate|].
  destruct (id =? f_id g); intros H; [inversion H; auto | auto].
Qed.

Lemma fly_remove_length id fl f :
  fly_lookup id fl = Some f -> S (length (fly_remove id fl)) = length fl.
Proof.
  induction fl as [|g fl IH]; cbn; [discriminate|].
  destruct (id =? f_id g); intros H; [reflexivity | cbn; rewrite IH; auto].
Qed.

Lemma fly_remove_forall P id fl : Forall P fl -> Forall P (fly_remove id fl).
Proof.
  induction fl as [|g fl IH]; cbn; intros H; [constructor|].
  inversion H; subst. destruct (id =? f_id g); auto.
Qed.

(* one operation: the failure count grows by at most the failed answers, a trip needs the threshold *)
Lemma cstep_count c s fl o s1 fl1 r :
  interim c = false ->
  binv (threshold c) (br s) -> cstep c (s, fl) o = ((s1, fl1), r) ->
  binv (threshold c) (br s1) /\
  fcount (br s1) <= fcount (br s) + count_failures (cres_list r) /\
  trips (br s) <= trips (br s1) /\
  (trips (br s) < trips (br s1) -> threshold c <= fcount (br s1)).
Proof.
  intros Hi Hb H.
  pose proof (gate_check_binv c s Hb) as Hb1.
  pose proof (gate_check_fields c s) as G. cbv zeta in G. destruct G as (Gf & Gt & _ & _).
  assert (Hrec : forall t b x, binv (threshold c) b -> fcount b = fcount (br s) -> trips b = trips (br s) ->
            recorded c t b x (br s1) ->
            binv (threshold c) (br s1) /\
            fcount (br s1) <= fcount (br s) + count_failures [x] /\
            trips (br s) <= trips (br s1) /\
            (trips (br s) < trips (br s1) -> threshold c <= fcount (br s1))).
  { intros t b x Bb Bf Bt R. split; [eapply recorded_binv; eauto|].
    rewrite count_failures_cons. change (count_failures []) with 0.
    pose proof (recorded_count c t b x (br s1) Hi Bb R). lia. }
  assert (Hsame : forall b l, binv (threshold c) b -> fcount b = fcount (br s) -> trips b = trips (br s) ->
            br s1 = b ->
            binv (threshold c) (br s1) /\
            fcount (br s1) <= fcount (br s) + count_failures l /\
            trips (br s) <= trips (br s1) /\
            (trips (br s) < trips (br s1) -> threshold c <= fcount (br s1))).
  { intros b l Bb Bf Bt ->. split; [exact Bb|]. assert (0 <= count_failures l) by (unfold count_failures; lia). lia. }
  destruct o as [o' | id q w | id]; cbn [cstep] in H.
  - destruct (step c s o') as [s' r'] eqn:E. inversion H; subst; clear H.
    destruct (step_count c s o' s1 r' Hi Hb E) as (A1 & A2 & A3 & A4).
    split; [exact A1|]. split; [|auto]. destruct r'; exact A2.
  - destruct (begin_req c s q w) as [s' [res|]] eqn:E; inversion H; subst; clear H;
      apply begin_req_spec in E; cbv zeta in E; destruct E as (_ & _ & E).
    + destruct E as [(_ & _ & U) | [(_ & _ & Hbr & _) | (_ & R & _)]].
      * destruct U as (U1 & _). apply (Hsame (br s)); auto.
      * apply (Hsame (fst (gate_check c s))); auto.
      * apply (Hrec (now s1) (fst (gate_check c s)) res); auto.
    + destruct E as (_ & Hbr & _). apply (Hsame (fst (gate_check c s))); auto.
  - destruct (fly_lookup id fl) as [f|] eqn:El.
    + destruct (end_req c s f) as [s' res] eqn:E. inversion H; subst; clear H.
      apply end_req_spec in E. destruct E as (R & _).
      apply (Hrec (now s1) (br s) res); auto.
    + inversion H; subst; clear H. apply (Hsame (br s1)); auto.
Qed.

Lemma crun_count c : interim c = false -> forall ops s fl s' fl' rs,
  binv (threshold c) (br s) -> crun c (s, fl) ops = ((s', fl'), rs) ->
  binv (threshold c) (br s') /\
  fcount (br s') <= fcount (br s) + count_failures (map snd rs) /\
  trips (br s) <= trips (br s') /\
  (trips (br s) < trips (br s') -> threshold c <= fcount (br s) + count_failures (map snd rs)).
Proof.
  intros Hi. induction ops as [|o rest IH]; intros s fl s' fl' rs Hb H.
  - inversion H; subst. change (count_failures (map snd [])) with 0. split; [exact Hb | lia].
  - rewrite crun_cons in H. destruct (cstep c (s, fl) o) as [[s1 fl1] r] eqn:E.
    destruct (crun c (s1, fl1) rest) as [[s2 fl2] rs2] eqn:E2. inversion H; subst; clear H.
    destruct (cstep_count c s fl o s1 fl1 r Hi Hb E) as (Hb1 & Hf1 & Ht1 & Hx1).
    destruct (IH s1 fl1 s' fl' rs2 Hb1 E2) as (Hb2 & Hf2 & Ht2 & Hx2).
    assert (Hcf : count_failures (map snd (match r with Some x => x :: rs2 | None => rs2 end)) =
                  count_failures (cres_list r) + count_failures (map snd rs2)).
    { destruct r as [[tg x]|]; cbn [map snd cres_list];
        [rewrite !count_failures_cons|]; change (count_failures []) with 0; lia. }
    rewrite Hcf. assert (0 <= count_failures (map snd rs2)) by (unfold count_failures; lia).
    assert (0 <= count_failures (cres_list r)) by (unfold count_failures; lia).
    split; [exact Hb2|]. split; [lia|]. split; [lia|].
    intros Ht. destruct (Z_lt_le_dec (trips (br s)) (trips (br s1))) as [l|l];
      [specialize (Hx1 l) | assert (trips (br s1) < trips (br s')) as L by lia; specialize (Hx2 L)]; lia.
Qed.

Lemma overlap_open_implies_threshold_proof :
  forall c s fl ops s' fl' rs,
    interim c = false ->
    circ (br s) = Closed -> fcount (br s) = 0 ->
    crun c (s, fl) ops = ((s', fl'), rs) ->
    (circ (br s') <> Closed ->
       threshold c <= count_failures (map snd rs) /\ threshold c <= fcount (br s') /\
       last_failure (br s') <> None) /\
    (trips (br s) < trips (br s') -> threshold c <= count_failures (map snd rs)).
Proof.
  intros c s fl ops s' fl' rs Hint Hc Hf H.
  assert (Hb : binv (threshold c) (br s)) by (split; [lia | congruence]).
  destruct (crun_count c Hint ops s fl s' fl' rs Hb H) as ([_ Hi] & Hle & _ & Ht).
  split; [intros Hn; destruct (Hi Hn) | intros L; specialize (Ht L)]; repeat split; auto; lia.
Qed.

(* the invariant *)
Lemma cstep_inv c s fl o s1 fl1 r : inv c s -> cstep c (s, fl) o = ((s1, fl1), r) -> inv c s1.
Proof.
  intros [Hb Hc] H.
  pose proof (gate_check_binv c s Hb) as Hb1.
  destruct o as [o' | id q w | id]; cbn [cstep] in H.
  - destruct (step c s o') as [s' r'] eqn:E. inversion H; subst; clear H.
    eapply step_inv; [split; eauto | eauto].
  - destruct (begin_req c s q w) as [s' [res|]] eqn:E; inversion H; subst; clear H;
      apply begin_req_spec in E; cbv zeta in E; destruct E as (Hck & _ & E); (split; [|auto]).
    + destruct E as [(_ & _ & U) | [(_ & _ & Hbr & _) | (_ & R & _)]].
      * destruct U as (-> & _). exact Hb.
      * rewrite Hbr. exact Hb1.
      * exact (recorded_binv c _ _ _ _ Hb1 R).
    + destruct E as (_ & -> & _). exact Hb1.
  - destruct (fly_lookup id fl) as [f|] eqn:El.
    + destruct (end_req c s f) as [s' res] eqn:E. inversion H; subst; clear H.
      apply end_req_spec in E. destruct E as (R & _ & _ & _ & _ & Hck).
      split; [exact (recorded_binv c _ _ _ _ Hb R) | auto].
    + inversion H; subst; clear H. split; assumption.
Qed.

Lemma crun_inv c : forall ops s fl s' fl' rs,
  inv c s -> crun c (s, fl) ops = ((s', fl'), rs) -> inv c s'.
Proof.
  induction ops as [|o rest IH]; intros s fl s' fl' rs Hi H.
  - inversion H; subst. exact Hi.
  - rewrite crun_cons in H. destruct (cstep c (s, fl) o) as [[s1 fl1] r] eqn:E.
    destruct (crun c (s1, fl1) rest) as [[s2 fl2] rs2] eqn:E2. inversion H; subst.
    eapply IH; [eapply cstep_inv; eauto | eauto].
Qed.

Lemma overlap_inv_reachable_proof :
  forall c ops s' fl' rs, crun c (init, []) ops = ((s', fl'), rs) -> inv c s'.
Proof. intros. eapply crun_inv; [apply inv_init | eauto]. Qed.

(* ---------------------------------------------------------------------- *)
(* isolation while OPEN, with requests still in flight                     *)

Lemma cstep_now_mono c s fl o s1 fl1 r :
  cmonotone [o] -> fl_monotone fl -> cstep c (s, fl) o = ((s1, fl1), r) ->
  now s <= now s1 /\ fl_monotone fl1.
Proof.
  intros Hm Hfl H. inversion Hm as [|? ? Ho _]; subst.
  destruct o as [o' | id q w | id]; cbn [cstep] in H.
  - destruct (step c s o') as [s' r'] eqn:E. inversion H; subst; clear H. split; [|exact Hfl].
    destruct o' as [d | q | |]; cbn in E.
    + inversion E; subst. cbn. lia.
    + destruct (run_req c s q) as [s1' x] eqn:Eq. inversion E; subst.
      destruct (run_req_now c s q s1 x Eq); lia.
    + inversion E; subst. cbn. lia.
    + inversion E; subst. cbn. lia.
  - destruct (begin_req c s q w) as [s' [res|]] eqn:E; inversion H; subst; clear H;
      apply begin_req_spec in E; cbv zeta in E; destruct E as (_ & Hn & _);
      (destruct (0 <=? dur q) eqn:Ed; [|lia]).
    + split; [lia | exact Hfl].
    + split; [lia|]. constructor; [exact Ho | exact Hfl].
  - destruct (fly_lookup id fl) as [f|] eqn:El.
    + destruct (end_req c s f) as [s' res] eqn:E. inversion H; subst; clear H.
      apply end_req_spec in E. destruct E as (_ & Hn & _).
      assert (0 <= dur (f_req f)).
      { unfold fl_monotone in Hfl. rewrite Forall_forall in Hfl. apply Hfl. eapply fly_lookup_in; eauto. }
      split; [destruct Hn; lia | apply fly_remove_forall; exact Hfl].
    + inversion H; subst; clear H. split; [lia | exact Hfl].
Qed.

Lemma crun_now_mono c : forall ops s fl s' fl' rs,
  cmonotone ops -> fl_monotone fl -> crun c (s, fl) ops = ((s', fl'), rs) -> now s <= now s'.
Proof.
  induction ops as [|o rest IH]; intros s fl s' fl' rs Hm Hfl H.
  - inversion H; subst. lia.
  - rewrite crun_cons in H. inversion Hm as [|? ? Ho Hm']; subst.
    destruct (cstep c (s, fl) o) as [[s1 fl1] r] eqn:E.
    destruct (crun c (s1, fl1) rest) as [[s2 fl2] rs2] eqn:E2. inversion H; subst; clear H.
    destruct (cstep_now_mono c s fl o s1 fl1 r) as (N1 & F1); auto.
    { constructor; [exact Ho | constructor]. }
    specialize (IH s1 fl1 s' fl' rs2 Hm' F1 E2). lia.
Qed.

(* While OPEN and less than the recovery timeout after the last failure: every request that ARRIVES is answered
   CIRCUIT_OPEN, the executor is never invoked, no request gets in flight; requests that were admitted earlier
   and are answered now cannot close the breaker or clear its count whatever their outcome (a failure among them
   only moves last_failure later); the assessor is invoked / energy is spent at most once per such request. *)
Lemma overlap_open_isolates_proof :
  forall c ops s fl lf s' fl' rs,
    enabled c = true -> circ (br s) = Open -> last_failure (br s) = Some lf -> lf <= now s ->
    crequests_only ops -> cmonotone ops -> fl_monotone fl ->
    crun c (s, fl) ops = ((s', fl'), rs) -> now s' - lf < timeout c ->
    Forall (fun x => fst x = true -> snd x = res_circuit_open) rs /\
    circ (br s') = Open /\
    (exists lf', last_failure (br s') = Some lf' /\ lf <= lf' /\ lf' <= now s') /\
    fcount (br s) <= fcount (br s') /\ trips (br s') = trips (br s) /\ zcalls s' = zcalls s /\
    (length fl' <= length fl)%nat /\
    0 <= ycalls s' - ycalls s <= Z.of_nat (length fl) - Z.of_nat (length fl') /\
    spent s' = spent s + cost c * (ycalls s' - ycalls s).
Proof.
  intros c ops. induction ops as [|o rest IH]; intros s fl lf s' fl' rs He Hc Hlf Hle Hro Hm Hfl H Ht.
  - inversion H; subst. repeat split; auto; try lia. exists lf. repeat split; auto; lia.
  - pose proof (crun_now_mono c (o :: rest) s fl s' fl' rs Hm Hfl H) as Hnow.
    rewrite crun_cons in H.
    inversion Hro as [|? ? Ho Hro']; inversion Hm as [|? ? Hmo Hm']; subst.
    destruct (cstep c (s, fl) o) as [[s1 fl1] r] eqn:E.
    destruct (crun c (s1, fl1) rest) as [[s2 fl2] rs2] eqn:E2. inversion H; subst; clear H.
    destruct (cstep_now_mono c s fl o s1 fl1 r) as (N1 & F1); auto.
    { constructor; [exact Hmo | constructor]. }
    pose proof (crun_now_mono c rest s1 fl1 s' fl' rs2 Hm' F1 E2) as N2.
    assert (Hg : snd (gate_check c s) = false).
    { rewrite (gate_check_open_early c s lf) by (auto; lia). reflexivity. }
    (* an operation that leaves everything but the request counter alone *)
    assert (Hquiet : br s1 = br s -> zcalls s1 = zcalls s -> ycalls s1 = ycalls s -> spent s1 = spent s ->
              fl1 = fl -> (forall x, r = Some x -> fst x = true -> snd x = res_circuit_open) ->
              Forall (fun x => fst x = true -> snd x = res_circuit_open)
                     (match r with Some x => x :: rs2 | None => rs2 end) /\
              circ (br s') = Open /\
              (exists lf', last_failure (br s') = Some lf' /\ lf <= lf' /\ lf' <= now s') /\
              fcount (br s) <= fcount (br s') /\ trips (br s') = trips (br s) /\ zcalls s' = zcalls s /\
              (length fl' <= length fl)%nat /\
              0 <= ycalls s' - ycalls s <= Z.of_nat (length fl) - Z.of_nat (length fl') /\
              spent s' = spent s + cost c * (ycalls s' - ycalls s)).
    { intros Eb Ez Ey Es Ef Hr. subst fl1.
      destruct (IH s1 fl lf s' fl' rs2 He) as (I1 & I2 & I3 & I4 & I5 & I6 & I7 & I8 & I9);
        auto; try congruence; try lia.
      rewrite Eb, Ez, Ey, Es in *. repeat split; auto; try lia.
      destruct r as [x|]; [constructor; auto | exact I1]. }
    destruct o as [o' | id q w | id]; cbn [cstep] in E.
    + destruct o' as [d | q | |]; cbn [step] in E; try contradiction.
      * inversion E; subst; clear E. apply Hquiet; auto; discriminate.
      * destruct (run_req c s q) as [s1' x] eqn:Eq. inversion E; subst; clear E.
        destruct (run_req_refused c s q s1 x Hg Eq) as (-> & Ub & Uz & Uy & Us & Uc & Un).
        apply Hquiet; auto. intros y Ey _. inversion Ey; subst. reflexivity.
    + destruct (begin_req c s q w) as [s1' [res|]] eqn:Eb; inversion E; subst; clear E;
        apply begin_req_spec in Eb; cbv zeta in Eb; destruct Eb as (_ & _ & Eb).
      * destruct Eb as [(_ & -> & U) | [(G & _) | (G & _)]]; try congruence.
        destruct U as (Ub & Uz & Uy & Us & Uc & Un).
        apply Hquiet; auto. intros y Ey _. inversion Ey; subst. reflexivity.
      * destruct Eb as (G & _). congruence.
    + destruct (fly_lookup id fl) as [f|] eqn:El.
      * destruct (end_req c s f) as [s1' res] eqn:Ee. inversion E; subst; clear E.
        apply end_req_spec in Ee. destruct Ee as (R & _ & Ez & Ey & Es & _).
        destruct (recorded_open c (now s1) (br s) res (br s1) Hc R) as (Ro & Rf & Rt & Rl).
        pose proof (fly_remove_length id fl f El) as Hlen.
        assert (exists lf1, last_failure (br s1) = Some lf1 /\ lf <= lf1 /\ lf1 <= now s1) as (lf1 & L1 & L2 & L3).
        { destruct Rl as [Rl | Rl]; [exists lf; rewrite Rl; auto with zarith | exists (now s1); auto with zarith]. }
        destruct (IH s1 (fly_remove id fl) lf1 s' fl' rs2 He Ro L1 L3 Hro' Hm' F1 E2)
          as (I1 & I2 & (lf' & I3 & I3a & I3b) & I4 & I5 & I6 & I7 & I8 & I9); [lia|].
        split; [constructor; [cbn; discriminate | exact I1]|].
        split; [exact I2|]. split; [exists lf'; repeat split; auto; lia|].
        rewrite <- Hlen. cbn [length]. rewrite Nat2Z.inj_succ.
        repeat split; lia.
      * inversion E; subst; clear E. apply Hquiet; auto; discriminate.
Qed.

(* One operation of a history with overlapping requests, from OPEN: the breaker is still OPEN afterwards with a
   failure count that has not gone down - unless the operation is a manual reset, or a request that ARRIVES with
   the breaker enabled once the recovery timeout has elapsed since the last failure.  In particular the answer
   of a request that had been admitted earlier never ends the isolation. *)
Lemma open_left_only_proof :
  forall c s fl o s' fl' r,
    circ (br s) = Open -> cstep c (s, fl) o = ((s', fl'), r) ->
    (circ (br s') = Open /\ fcount (br s) <= fcount (br s') /\ trips (br s') = trips (br s)) \/
    o = Seq Reset \/
    (arrival o /\ enabled c = true /\ probe_state c s).
Proof.
  intros c s fl o s' fl' r Hc H.
  pose proof (gate_check_fields c s) as G. cbv zeta in G. destruct G as (Gf & Gt & _ & Gc).
  (* the breaker after the circuit check: still OPEN (breaker disabled), or a probe was admitted *)
  assert (Hgate : forall o0, arrival o0 -> o = o0 ->
            (forall t x b', recorded c t (fst (gate_check c s)) x b' \/ b' = fst (gate_check c s) ->
               b' = br s' ->
               (circ (br s') = Open /\ fcount (br s) <= fcount (br s') /\ trips (br s') = trips (br s)) \/
               o = Seq Reset \/ (arrival o /\ enabled c = true /\ probe_state c s))).
  { intros o0 Ha -> t x b' Hb' ->.
    destruct Gc as [Gc | (_ & Gh & Ge & _ & lf & Gl & Gt')].
    - left. rewrite Hc in Gc. destruct Hb' as [R | ->].
      + destruct (recorded_open c t _ x _ Gc R) as (A & B & C & _). repeat split; auto; lia.
      + repeat split; auto; lia.
    - right. right. split; [exact Ha|]. split; [exact Ge|]. right. split; [exact Hc|]. exists lf. auto. }
  destruct o as [o' | id q w | id]; cbn [cstep] in H.
  - destruct (step c s o') as [s1 r'] eqn:E. inversion H; subst; clear H.
    destruct o' as [d | q | |]; cbn in E.
    + inversion E; subst. left. cbn. repeat split; auto; lia.
    + destruct (run_req c s q) as [s1' x] eqn:Eq. inversion E; subst; clear E.
      apply run_req_cases in Eq. cbv zeta in Eq.
      destruct Eq as [(_ & _ & U) | [(_ & _ & _ & Hb & _) | (_ & _ & _ & _ & _ & _ & _ & Hb)]].
      * destruct U as (-> & _). left. repeat split; auto; lia.
      * apply (Hgate (Seq (Run q)) I eq_refl 0 res_error (br s')); auto.
      * apply (Hgate (Seq (Run q)) I eq_refl (now s') x (br s')); auto.
    + right. left. reflexivity.
    + inversion E; subst. left. cbn. repeat split; auto; lia.
  - destruct (begin_req c s q w) as [s1 [res|]] eqn:E; inversion H; subst; clear H;
      apply begin_req_spec in E; cbv zeta in E; destruct E as (_ & _ & E).
    + destruct E as [(_ & _ & U) | [(_ & _ & Hb & _) | (_ & R & _)]].
      * destruct U as (-> & _). left. repeat split; auto; lia.
      * apply (Hgate (Begin id q w) I eq_refl 0 res_error (br s')); auto.
      * apply (Hgate (Begin id q w) I eq_refl (now s') res (br s')); auto.
    + destruct E as (_ & Hb & _). apply (Hgate (Begin id q w) I eq_refl 0 res_error (br s')); auto.
  - left. destruct (fly_lookup id fl) as [f|] eqn:El.
    + destruct (end_req c s f) as [s1 res] eqn:E. inversion H; subst; clear H.
      apply end_req_spec in E. destruct E as (R & _).
      destruct (recorded_open c (now s') (br s) res (br s') Hc R) as (A & B & C & _). auto.
    + inversion H; subst; clear H. repeat split; auto; lia.
Qed.

(* ---------------------------------------------------------------------- *)
(* the overlapping language contains the sequential one                    *)

Lemma crun_seq c : forall ops s fl,
  crun c (s, fl) (map Seq ops) =
  let '(s', rs) := run_ops c s ops in ((s', fl), map (pair true) rs).
Proof.
  induction ops as [|o rest IH]; intros s fl; [reflexivity|].
  cbn [map]. rewrite crun_cons, run_ops_cons. cbn [cstep].
  destruct (step c s o) as [s1 r]. rewrite IH.
  destruct (run_ops c s1 rest) as [s2 rs]. destruct r; reflexivity.
Qed.

(* a request that is begun and ended at once is the request run in one piece *)
Lemma begin_end_is_run c s fl id r w s' res :
  fly_lookup id fl = None -> run_req c s r = (s', res) ->
  exists tag, crun c (s, fl) [Begin id r w; End id] = ((s', fl), [(tag, res)]).
Proof.
  intros Hfree H. rewrite run_req_phases in H.
  cbn [crun cstep]. unfold begin_req.
  destruct (arrive c s r) as [s2 [x|]] eqn:Ha.
  - inversion H; subst; clear H. exists true. cbn [cstep]. rewrite Hfree. reflexivity.
  - destruct w.
    + exists false. cbn [cstep fly_lookup fly_remove f_id]. rewrite Z.eqb_refl.
      unfold end_req. cbn [f_place f_req].
      rewrite advance_call_z, H. reflexivity.
    + unfold finish_z in H. destruct (zb r) as [z|] eqn:Hz.
      * exists false. cbn [cstep fly_lookup fly_remove f_id]. rewrite Z.eqb_refl.
        unfold end_req. cbn [f_place f_req]. rewrite Hz, H. reflexivity.
      * exists true. rewrite H. cbn [cstep]. rewrite Hfree. reflexivity.
Qed.

(* crun and ctrace are the same history *)
Lemma ctrace_crun c : forall ops cs,
  crun c cs ops =
  (last (map (fun x => snd (fst x)) (ctrace c cs ops)) cs,
   flat_map (fun x => match snd x with Some r => [r] | None => [] end) (ctrace c cs ops)).
Proof.
  induction ops as [|o rest IH]; intros cs; [reflexivity|].
  rewrite crun_cons. cbn [ctrace]. destruct (cstep c cs o) as [cs1 r] eqn:E.
  rewrite IH. cbn [map flat_map fst snd]. rewrite last_cons.
  destruct r; reflexivity.
Qed.

(* ====================================================================== *)
(* 11. observers (on_block / on_permit) that raise ([kop], [kstep], [krun] of Model.v)                     *)

(* what the caller of run() knows of an answer when the observers are forgotten *)
Definition untag (x : bool * reply) : bool * result := (fst x, reply_result (snd x)).

(* a result of the gate handed out for the first time: not cached, carries the executor's verdict, not a refusal *)
Definition fresh_gate (res : result) : Prop :=
  r_cached res = false /\ r_exec res <> None /\ r_action res <> ACircuitOpen.

(* a sequential history with observers *)
Definition seqk (ops : list (op * cbeh)) : list kop := map (fun x => (Seq (fst x), snd x)) ops.

Lemma notify_result k b res : reply_result (notify k b res) = res.
Proof. unfold notify. destruct (hooked k res); [destruct b|]; reflexivity. Qed.

Lemma notify_inv k b x res :
  notify k b x = Raised res -> res = x /\ b = CbRaises /\ hooked k x = true.
Proof.
  unfold notify. destruct (hooked k x); [destruct b|]; intros H; inversion H; auto.
Qed.

Lemma finish_y_k_erase c k b s r z :
  finish_y c s r z = (fst (finish_y_k c k b s r z), reply_result (snd (finish_y_k c k b s r z))).
Proof.
  unfold finish_y, finish_y_k, fail_req. destruct (yb r); [|reflexivity].
  cbn [fst snd]. rewrite notify_result. reflexivity.
Qed.

Lemma finish_z_k_erase c k b s r :
  finish_z c s r = (fst (finish_z_k c k b s r), reply_result (snd (finish_z_k c k b s r))).
Proof.
  unfold finish_z, finish_z_k. destruct (zb r); [apply finish_y_k_erase | reflexivity].
Qed.

Lemma run_req_k_erase c k b s r :
  run_req c s r = (fst (run_req_k c k b s r), reply_result (snd (run_req_k c k b s r))).
Proof.
  rewrite run_req_phases. unfold run_req_k.
  destruct (arrive c s r) as [s1 [res|]]; [reflexivity | apply finish_z_k_erase].
Qed.

Lemma end_req_k_erase c k b s f :
  end_req c s f = (fst (end_req_k c k b s f), reply_result (snd (end_req_k c k b s f))).
Proof.
  unfold end_req, end_req_k. destruct (f_place f); [apply finish_z_k_erase|].
  destruct (zb (f_req f)); [apply finish_y_k_erase | reflexivity].
Qed.

Lemma gate_fresh g z y : fresh_gate (gate_result g z y).
Proof.
  destruct (gate_result_shape g z y) as (Hc & Ha & He & _).
  split; [exact Hc|]. split; [rewrite He; discriminate|]. apply is_co_false. exact Ha.
Qed.

Lemma finish_y_k_raised c k b s r z s' res :
  finish_y_k c k b s r z = (s', Raised res) ->
  b = CbRaises /\ hooked k res = true /\ fresh_gate res.
Proof.
  unfold finish_y_k, fail_req. destruct (yb r) as [y|]; intros H; [|discriminate].
  inversion H as [[Hs Hn]]. destruct (notify_inv _ _ _ _ Hn) as (-> & Hb & Hh).
  split; [exact Hb|]. split; [exact Hh | apply gate_fresh].
Qed.

Lemma finish_z_k_raised c k b s r s' res :
  finish_z_k c k b s r = (s', Raised res) ->
  b = CbRaises /\ hooked k res = true /\ fresh_gate res.
Proof.
  unfold finish_z_k, fail_req. destruct (zb r) as [z|]; intros H; [|discriminate].
  eapply finish_y_k_raised; exact H.
Qed.

Lemma run_req_k_raised c k b s r s' res :
  run_req_k c k b s r = (s', Raised res) ->
  b = CbRaises /\ hooked k res = true /\ fresh_gate res.
Proof.
  unfold run_req_k. destruct (arrive c s r) as [s1 [x|]]; intros H; [discriminate|].
  eapply finish_z_k_raised; exact H.
Qed.

Lemma end_req_k_raised c k b s f s' res :
  end_req_k c k b s f = (s', Raised res) ->
  b = CbRaises /\ hooked k res = true /\ fresh_gate res.
Proof.
  unfold end_req_k, fail_req. destruct (f_place f).
  - apply finish_z_k_raised.
  - destruct (zb (f_req f)); [apply finish_y_k_raised | discriminate].
Qed.

(* one request: the state after it and the result computed for it are those of run() without observers; the caller
   gets an exception instead of the result only if an installed observer was called (a fresh result of the gate,
   never a refusal, a cache hit or an agent exception) and raised *)
Lemma cb_request_proof :
  forall c k b s r s' p,
    run_req_k c k b s r = (s', p) ->
    run_req c s r = (s', reply_result p) /\
    (is_raised p = true ->
       b = CbRaises /\ hooked k (reply_result p) = true /\ fresh_gate (reply_result p)) /\
    (b = CbReturns \/ hooked k (reply_result p) = false \/ ~ fresh_gate (reply_result p) -> is_raised p = false).
Proof.
  intros c k b s r s' p H.
  split; [rewrite (run_req_k_erase c k b s r), H; reflexivity|].
  assert (R : is_raised p = true ->
              b = CbRaises /\ hooked k (reply_result p) = true /\ fresh_gate (reply_result p)).
  { destruct p as [res|res]; cbn [is_raised reply_result]; [discriminate|].
    intros _. eapply run_req_k_raised; exact H. }
  split; [exact R|].
  intros Hn. destruct (is_raised p) eqn:E; [|reflexivity].
  destruct (R eq_refl) as (Rb & Rh & Rf).
  destruct Hn as [Hn | [Hn | Hn]]; [congruence | congruence | contradiction].
Qed.

Lemma kstep_erase c k cs o :
  cstep c cs (fst o) = (fst (kstep c k cs o), option_map untag (snd (kstep c k cs o))).
Proof.
  destruct cs as [s fl]. destruct o as [o b]. unfold kstep, cstep. cbn [fst snd].
  destruct o as [o'|id r w|id].
  - destruct o' as [d|r| |]; try reflexivity.
    cbn [step]. rewrite (run_req_k_erase c k b s r).
    destruct (run_req_k c k b s r) as [s' p]. reflexivity.
  - destruct (begin_req c s r w) as [s' [res|]]; reflexivity.
  - destruct (fly_lookup id fl) as [f|]; [|reflexivity].
    rewrite (end_req_k_erase c k b s f). destruct (end_req_k c k b s f) as [s' p]. reflexivity.
Qed.

Lemma krun_cons c k cs o rest :
  krun c k cs (o :: rest) =
  let '(cs1, r) := kstep c k cs o in
  let '(cs2, rs) := krun c k cs1 rest in
  (cs2, match r with Some x => x :: rs | None => rs end).
Proof. reflexivity. Qed.

(* whatever observers are installed and whichever of their calls raise: the history without them *)
Lemma krun_erase c k : forall ops cs,
  crun c cs (map fst ops) = (fst (krun c k cs ops), map untag (snd (krun c k cs ops))).
Proof.
  induction ops as [|o rest IH]; intros cs; [reflexivity|].
  cbn [map]. rewrite crun_cons, krun_cons, (kstep_erase c k cs o).
  destruct (kstep c k cs o) as [cs1 r]. cbn [fst snd]. rewrite IH.
  destruct (krun c k cs1 rest) as [cs2 rs]. cbn [fst snd].
  destruct r; reflexivity.
Qed.

Lemma krun_erase_eq c k ops cs cs' rs :
  krun c k cs ops = (cs', rs) -> crun c cs (map fst ops) = (cs', map untag rs).
Proof. intros H. rewrite (krun_erase c k ops cs), H. reflexivity. Qed.

Lemma kstep_raised c k cs o cs1 tg res :
  kstep c k cs o = (cs1, Some (tg, Raised res)) ->
  snd o = CbRaises /\ hooked k res = true /\ fresh_gate res.
Proof.
  destruct cs as [s fl]. destruct o as [o b]. unfold kstep. cbn [fst snd].
  destruct o as [o'|id r w|id].
  - destruct o' as [d|r| |]; cbn [step]; try discriminate.
    destruct (run_req_k c k b s r) as [s' p] eqn:E. intros H. inversion H; subst.
    eapply run_req_k_raised; exact E.
  - destruct (begin_req c s r w) as [s' [x|]]; discriminate.
  - destruct (fly_lookup id fl) as [f|]; [|discriminate].
    destruct (end_req_k c k b s f) as [s' p] eqn:E. intros H. inversion H; subst.
    eapply end_req_k_raised; exact E.
Qed.

Lemma krun_raised c k : forall ops cs cs' rs,
  krun c k cs ops = (cs', rs) ->
  Forall (fun x => is_raised (snd x) = true ->
                   hooked k (reply_result (snd x)) = true /\ fresh_gate (reply_result (snd x))) rs.
Proof.
  induction ops as [|o rest IH]; intros cs cs' rs H.
  - inversion H; subst. constructor.
  - rewrite krun_cons in H. destruct (kstep c k cs o) as [cs1 r] eqn:E.
    destruct (krun c k cs1 rest) as [cs2 rs2] eqn:E2. inversion H; subst; clear H.
    specialize (IH cs1 cs' rs2 E2).
    destruct r as [[tg p]|]; [|exact IH]. constructor; [|exact IH].
    destruct p as [res|res]; cbn [snd is_raised reply_result]; [discriminate|].
    intros _. destruct (kstep_raised c k cs o cs1 tg res E) as (_ & Hh & Hf). auto.
Qed.

Lemma map_snd_untag rs : map snd (map untag rs) = map (fun x => reply_result (snd x)) rs.
Proof. rewrite map_map. reflexivity. Qed.

(* never open before the threshold has been reached in total, with observers that raise: a request counts as a
   failure by what the agents did, whether run() returned its result or raised the observer's exception *)
Lemma cb_open_implies_threshold_proof :
  forall c k s fl ops s' fl' rs,
    interim c = false ->
    circ (br s) = Closed -> fcount (br s) = 0 ->
    krun c k (s, fl) ops = ((s', fl'), rs) ->
    (circ (br s') <> Closed ->
       threshold c <= count_failures (map (fun x => reply_result (snd x)) rs) /\
       threshold c <= fcount (br s') /\ last_failure (br s') <> None) /\
    (trips (br s) < trips (br s') ->
       threshold c <= count_failures (map (fun x => reply_result (snd x)) rs)).
Proof.
  intros c k s fl ops s' fl' rs Hi Hc Hf H.
  pose proof (overlap_open_implies_threshold_proof c s fl (map fst ops) s' fl' (map untag rs) Hi Hc Hf
                (krun_erase_eq c k ops _ _ _ H)) as P.
  rewrite map_snd_untag in P. exact P.
Qed.

Lemma seqk_erase ops : map fst (seqk ops) = map Seq (map fst ops).
Proof. unfold seqk. rewrite !map_map. reflexivity. Qed.

Lemma map_pair_true_inv (rs0 : list result) rs :
  map (pair true) rs0 = map untag rs -> rs0 = map (fun x => reply_result (snd x)) rs.
Proof.
  intros H. apply (f_equal (map snd)) in H. rewrite map_snd_untag, map_map in H.
  cbn [snd] in H. rewrite map_id in H. exact H.
Qed.

(* intentional blocks are never counted as failures - whether or not on_block raises *)
Lemma cb_blocks_not_failures_proof :
  forall c k ops s fl s' fl' rs,
    interim c = false ->
    requests_only (map fst ops) -> krun c k (s, fl) (seqk ops) = ((s', fl'), rs) ->
    Forall (fun x => blockb (reply_result (snd x)) = true) rs ->
    fcount (br s') = fcount (br s) /\ trips (br s') = trips (br s) /\
    last_failure (br s') = last_failure (br s) /\
    (circ (br s') = circ (br s) \/ (circ (br s) = Open /\ circ (br s') = HalfOpen)).
Proof.
  intros c k ops s fl s' fl' rs Hi Hro H Hall.
  pose proof (krun_erase_eq c k _ _ _ _ H) as E. rewrite seqk_erase, crun_seq in E.
  destruct (run_ops c s (map fst ops)) as [s1 rs0] eqn:R. inversion E as [[Hs Hfl Hrs]]. subst s1.
  apply map_pair_true_inv in Hrs. subst rs0.
  apply (blocks_not_failures_proof c (map fst ops) s s' _ Hi Hro R).
  apply Forall_forall. intros x Hx. apply in_map_iff in Hx. destruct Hx as (y & <- & Hy).
  rewrite Forall_forall in Hall. apply (Hall y Hy).
Qed.

(* a successful probe closes the breaker and clears the count - whether or not on_permit raises *)
Lemma cb_probe_success_proof :
  forall c k b s r s' p,
    enabled c = true -> probe_state c s ->
    run_req_k c k b s r = (s', p) -> successb (reply_result p) = true ->
    circ (br s') = Closed /\ fcount (br s') = 0 /\ trips (br s') = trips (br s).
Proof.
  intros c k b s r s' p He Hp H Hs.
  destruct (cb_request_proof c k b s r s' p H) as (R & _).
  exact (probe_success_proof c s r s' _ He Hp R Hs).
Qed.

(* a failed probe re-opens and restarts the timeout - whether or not on_block raises; afterwards nothing is
   admitted, and no observer is called, before a full timeout has passed *)
Lemma cb_probe_failure_proof :
  forall c k b s r s' p,
    legacy c = false -> interim c = false -> enabled c = true -> probe_state c s ->
    run_req_k c k b s r = (s', p) -> failureb (reply_result p) = true ->
    circ (br s') = Open /\ last_failure (br s') = Some (now s') /\
    trips (br s') = trips (br s) + 1 /\ fcount (br s') = fcount (br s) + 1.
Proof.
  intros c k b s r s' p Hl Hi He Hp H Hf.
  destruct (cb_request_proof c k b s r s' p H) as (R & _).
  destruct (probe_failure_proof c s r s' _ Hl Hi He Hp R Hf) as (A & B & C & D & _). auto.
Qed.

(* isolation while open, with observers installed: every request that arrives is answered CIRCUIT_OPEN by a run()
   that RETURNS (no observer is called for it), whatever the observers of the stragglers answered meanwhile do *)
Lemma cb_open_isolates_proof :
  forall c k ops s fl lf s' fl' rs,
    enabled c = true -> circ (br s) = Open -> last_failure (br s) = Some lf -> lf <= now s ->
    crequests_only (map fst ops) -> cmonotone (map fst ops) -> fl_monotone fl ->
    krun c k (s, fl) ops = ((s', fl'), rs) -> now s' - lf < timeout c ->
    Forall (fun x => fst x = true -> snd x = Returned res_circuit_open) rs /\
    circ (br s') = Open /\
    (exists lf', last_failure (br s') = Some lf' /\ lf <= lf' /\ lf' <= now s') /\
    fcount (br s) <= fcount (br s') /\ trips (br s') = trips (br s) /\ zcalls s' = zcalls s /\
    (length fl' <= length fl)%nat /\
    0 <= ycalls s' - ycalls s <= Z.of_nat (length fl) - Z.of_nat (length fl') /\
    spent s' = spent s + cost c * (ycalls s' - ycalls s).
Proof.
  intros c k ops s fl lf s' fl' rs He Ho Hl Hle Hro Hmo Hfl H Hlt.
  destruct (overlap_open_isolates_proof c (map fst ops) s fl lf s' fl' (map untag rs) He Ho Hl Hle Hro Hmo Hfl
              (krun_erase_eq c k ops _ _ _ H) Hlt) as (A & B).
  split; [|exact B].
  pose proof (krun_raised c k ops _ _ _ H) as Rz.
  rewrite Forall_forall in A, Rz. apply Forall_forall. intros x Hx Ht.
  specialize (A (untag x) (in_map untag rs x Hx) Ht). cbn [untag snd] in A.
  specialize (Rz x Hx). destruct x as [tg [res|res]]; cbn [snd reply_result is_raised] in *.
  - congruence.
  - destruct (Rz eq_refl) as (_ & _ & _ & Hn). subst res. exfalso. apply Hn. reflexivity.
Qed.

(* krun and ktrace are the same history *)
Lemma ktrace_krun c k : forall ops cs,
  krun c k cs ops =
  (last (map (fun x => snd (fst x)) (ktrace c k cs ops)) cs,
   flat_map (fun x => match snd x with Some r => [r] | None => [] end) (ktrace c k cs ops)).
Proof.
  induction ops as [|o rest IH]; intros cs; [reflexivity|].
  rewrite krun_cons. cbn [ktrace]. destruct (kstep c k cs o) as [cs1 r] eqn:E.
  rewrite IH. cbn [map flat_map fst snd]. rewrite last_cons.
  destruct r; reflexivity.
Qed.
