(* C14 — lemmas about resources registered on a live system ([reregister], the step
   [FRegister]) and about the `resources` argument given as other iterables than a
   list ([request_of]).  The invariant lemmas the step API needs ([reregister_wf],
   [reregister_free], [reregister_pluss]) are in Proofs.v. *)
From Coq Require Import ZArith List Bool Lia ZifyBool.
From Verif Require Import C14.Model C14.Proofs.
Import ListNotations.
Local Open Scope Z_scope.

(* an operation that ends - manual kill, abort, complete - after ANY resource was registered
   again, whoever held it: nothing is left to it, neither a registered lock nor a replaced one *)
Lemma end_after_registration_proof w s r pre a o :
  WF s -> ends_op a o ->
  let s1 := fst (fstep current w s (FRegister r pre)) in
  let s' := fst (fstep current w s1 a) in
  WF s' /\ owns_nothing s' o /\ ~ In o (active s') /\ (registered r = true -> owner s1 r = None).
Proof.
  intros W E. cbv zeta. cbn [fstep fst].
  pose proof (reregister_wf s r pre W) as W1.
  destruct (end_no_leak_proof w (reregister s r pre) a o W1 E) as (A & B & C).
  split; [exact A|]. split; [exact B|]. split; [exact C|].
  intros R. now apply reregister_free.
Qed.

Lemma shutdown_after_registration_proof s r pre :
  WF s ->
  let s' := shutdown current (reregister s r pre) in
  forall x, owner s' x = None.
Proof.
  intros W. cbv zeta. pose proof (reregister_wf s r pre W) as W1.
  destruct (shutdown_no_leak_proof (reregister s r pre) W1) as (_ & _ & N). exact N.
Qed.

(* iterables *)
Lemma second_pass_one_shot k items : one_shot k = true -> second_pass k items = [].
Proof. unfold second_pass. now intros ->. Qed.

Lemma second_pass_reiterable k items : one_shot k = false -> second_pass k items = request_of k items.
Proof. unfold second_pass. now intros ->. Qed.

Lemma In_dedup x l : In x (dedup l) <-> In x l.
Proof.
  induction l as [|y l IH]; simpl; [tauto|].
  rewrite filter_In, IH. split.
  - intros [H|[H _]]; auto.
  - intros [H|H]; auto. destruct (Z.eq_dec y x); auto. right. split; auto.
    destruct (Z.eqb x y) eqn:E; auto. lia.
Qed.

(* every id the caller put into a (truthy) iterable is requested, and nothing else *)
Lemma request_of_In k items x :
  In x (request_of k items) <-> In x items.
Proof.
  unfold request_of, it_truthy, yields.
  destruct k; destruct items as [|y t]; try tauto; try apply In_dedup.
Qed.

Lemma work_holds_all_yielded_proof fl w encl s o p k items sc :
  let res := snd (exec_in true fl w sc encl s o p (request_of k items)) in
  (length (filter is_work (r_log res)) <= 1)%nat /\
  (forall sw, In (EvWork sw) (r_log res) ->
     In o (active sw) /\ forall r, In r items -> owner sw r = Some o).
Proof.
  cbv zeta. destruct (work_once_holding_all_proof fl w encl s o p (request_of k items) sc) as (A & B).
  split; auto. intros sw H. destruct (B sw H) as (C & D). split; auto.
  intros r Hr. apply D. now apply request_of_In.
Qed.
