(* C14 — non-vacuity examples and refutations of the pre-repair behaviours *)
From Coq Require Import ZArith List Bool Lia.
From Verif Require Import C14.Model C14.Proofs C14.ProofsReg.
Import ListNotations.
Open Scope Z_scope.

(* three resources (r2, r3 preemptable); op5 (priority 0) holds r1 and, twice, r2 *)
Definition res3 : list (Z * bool) := [(1, false); (2, true); (3, true)].
Definition hist0 : list op :=
  [OFlat (FStart 5 0 false); OFlat (FAcquire 5 1); OFlat (FAcquire 5 2); OFlat (FAcquire 5 2)].
Definition st0 : st := fst (run_ops current no_timeouts (init_state res3) hist0).

(* a reachable, hence well-formed, state with real ownership: the hypotheses
   of every theorem are satisfiable *)
Example ex_st0_wf : WF st0.
Proof. apply reachable_wf_proof. Qed.
Example ex_st0_owned :
  owner st0 1 = Some 5 /\ owner st0 2 = Some 5 /\ lock_core st0 2 = Some (Some 5, 0, 2) /\
  get_ctx st0 1 = None /\ active st0 = [5].
Proof. vm_compute. auto. Qed.

Definition sc_plain : script := mkPlain [] [] [WProbe] false VTrue 0.
Definition sc_work_raises : script := mkPlain [] [] [WProbe] true VNone 0.

(* success path with a repeated request and a preemption of op5's r2 *)
Example ex_success :
  let '(s', res) := exec_op current no_timeouts st0 1 3 [3; 2; 2; 3] sc_plain in
  r_success res = true /\ r_phase res = PM /\
  owner s' 2 = None /\ owner s' 3 = None /\ owner s' 1 = Some 5 /\ active s' = [5] /\
  length (filter is_work (r_log res)) = 1%nat.
Proof. vm_compute. auto 10. Qed.

(* blocked on the third request: the first two are given back, r1 untouched *)
Example ex_blocked :
  let '(s', res) := exec_op current no_timeouts st0 1 3 [3; 3; 1; 2] sc_plain in
  r_success res = false /\ r_phase res = G0 /\ obtained_by no_timeouts st0 1 3 [3; 3; 1; 2] sc_plain = [3; 3] /\
  owner s' 3 = None /\ lock_core s' 1 = lock_core st0 1 /\ lock_core s' 2 = lock_core st0 2 /\
  r_log res = [EvCp 0 true].
Proof. vm_compute. auto 10. Qed.

(* the work function raises while holding a re-entrant lock *)
Example ex_work_raises :
  let '(s', res) := exec_op current no_timeouts st0 1 3 [3; 3] sc_work_raises in
  r_success res = false /\ owner s' 3 = None /\ In EvWorkRaise (r_log res) /\ ~ In 1 (active s').
Proof. vm_compute. intuition. Qed.

(* the work function kills its own operation, then another operation takes r3 *)
Example ex_self_kill :
  let sc := mkPlain [] [] [WDo (FKill 1); WDo (FAcquire 5 3); WProbe] false VNone 0 in
  let '(s', res) := exec_op current no_timeouts st0 1 3 [3] sc in
  r_success res = true /\ owner s' 3 = Some 5 /\ active s' = [5].
Proof. vm_compute. auto. Qed.

(* the operation is killed while its G0 checkpoint callback runs - before the
   acquisition loop: it still takes r3 (twice) and preempts r2 while delisted, the
   liveness test stops it before work, and the abort gives everything back *)
Definition sc_kill_g0 : script := mkPlain [] [[CKill 1]] [WProbe] false VTrue 0.
Example ex_killed_in_g0_callback :
  let '(s', res) := exec_op current no_timeouts st0 1 3 [3; 2; 3] sc_kill_g0 in
  r_success res = false /\ r_phase res = G0 /\
  r_log res = [EvDid [1]; EvCp 0 true; EvCp 1 true] /\
  owner s' 3 = None /\ owner s' 2 = None /\ owner s' 1 = Some 5 /\ active s' = [5].
Proof. vm_compute. auto 10. Qed.

(* ... the state in which that execution ends is NOT well-formed (a delisted
   operation owns locks) but it is well-formed up to the operation: the
   hypothesis-free statement [c14_exec_end_changes_only_own_locks] is about such states *)
Example ex_wfbut_not_wf :
  let s0 := fst (fstep current no_timeouts (start_op st0 1 3 false) (FKill 1)) in
  let s2 := fst (acquire_all current s0 1 0 [3; 2; 3]) in
  owner s2 3 = Some 1 /\ owner s2 2 = Some 1 /\ ~ In 1 (active s2) /\ WFbut 1 s2.
Proof.
  cbv zeta. split; [reflexivity|]. split; [reflexivity|]. split; [vm_compute; intuition lia|].
  eapply acquire_all_wfbut; [|apply surjective_pairing].
  apply fstep_wfbut. apply wf_wfbut; [|apply start_op_ctx].
  apply start_op_wf_ended; [apply ex_st0_wf | vm_compute; intuition lia].
Qed.

(* killed while the G1 checkpoint callback runs - after the acquisition loop:
   everything is released by the kill, work_fn is not invoked *)
Example ex_killed_in_g1_callback :
  let sc := mkPlain [] [[]; [CProbe; CKill 1; CProbe]] [WProbe] false VTrue 0 in
  let '(s', res) := exec_op current no_timeouts st0 1 3 [3; 3] sc in
  r_success res = false /\ filter is_work (r_log res) = [] /\
  r_log res = [EvCp 0 true; EvProbe [(5, 1); (5, 2); (1, 2)]; EvDid [1]; EvProbe [(5, 1); (5, 2); (-1, 0)]; EvCp 1 true] /\
  owner s' 3 = None /\ active s' = [5].
Proof. vm_compute. auto 10. Qed.

(* a retry under the id of an operation that has ended: op1 is blocked on r1
   (it stays in r1's waiting list), op5 ends, op1 is executed again *)
Example ex_retry_same_id :
  let '(s1, res1) := exec_op current no_timeouts st0 1 3 [1] sc_plain in
  let s2 := fst (fstep current no_timeouts s1 (FKill 5)) in
  let '(s3, res3) := exec_op current no_timeouts s2 1 3 [1; 1] sc_plain in
  r_success res1 = false /\ get_ctx s1 1 <> None /\ ~ In 1 (active s2) /\
  match get_lock s2 1 with Some l => l_wait l = [(1, 3)] | None => False end /\
  r_success res3 = true /\ owner s3 1 = None /\ active s3 = [].
Proof. vm_compute. intuition congruence. Qed.

(* a NESTED coordinated operation: op1 (holding r3 twice) runs execute_operation(op2, [r2])
   from inside its work function - op2 preempts op5's r2, commits and gives it back -,
   a second nested call under op1's own id is not made by the driver, then op1's
   validation fails: the enclosing call reports failure and leaves nothing behind,
   op5 keeps r1.  The nested call shows in op1's log as ONE event: its encoded
   result (success, phase M, its own callback log). *)
Definition sc_nested_then_fail : script :=
  mkPlain [] [] [WProbe; WExec 2 4 [2] sc_plain; WExec 1 0 [] sc_plain; WProbe] false VFalse 0.
Example ex_nested_then_validation_fails :
  let '(s', res) := exec_op current no_timeouts st0 1 3 [3; 3] sc_nested_then_fail in
  r_success res = false /\ probe s' = [(5, 1); (-1, 0); (-1, 0)] /\ active s' = [5] /\
  length (filter is_work (r_log res)) = 1%nat /\
  map obs_ev (r_log res) =
    [[0; 0; 1]; [0; 1; 1]; [1]; [2; 5; 1; 5; 2; 1; 2];
     [3; 50; 1; 4;  3; 0; 0; 1;  3; 0; 1; 1;  1; 1;  7; 2; 5; 1; 2; 1; 1; 2;  1; 4;  3; 0; 2; 1;  2; 6; 1;  3; 0; 3; 1];
     [3; 50; -1]; [2; 5; 1; -1; 0; 1; 2]; [4]; [0; 2; 1]; [6; 0]].
Proof. vm_compute. auto 10. Qed.

(* the hypotheses of [c14_nested_no_leak] with a non-trivial enclosing chain: in [s2]
   (see ex_wfbut_not_wf) op1 is delisted and owns r2 and r3 - not well-formed, but
   well-formed up to [1].  A nested execute_operation(op2, priority 9, [r3; r1]) preempts
   op1's r3, is blocked on r1, gives r3 back; one of priority 0 on [r1] touches nothing. *)
Example ex_nested_in_delisted_operation :
  let s0 := fst (fstep current no_timeouts (start_op st0 1 3 false) (FKill 1)) in
  let s2 := fst (acquire_all current s0 1 0 [3; 2; 3]) in
  WFbuts [1] s2 /\ ~ WF s2 /\ ~ In 2 (active s2) /\ probe s2 = [(5, 1); (1, 1); (1, 2)] /\
  (let '(s', res) := exec_in true current no_timeouts sc_plain [1] s2 2 9 [3; 1] in
   r_success res = false /\ probe s' = [(5, 1); (1, 1); (-1, 0)] /\ active s' = [5]) /\
  (let '(s', res) := exec_in true current no_timeouts sc_plain [1] s2 2 0 [1] in
   r_success res = false /\ probe s' = probe s2 /\ active s' = [5]).
Proof.
  cbv zeta. split; [apply ex_wfbut_not_wf|].
  split. { intros W. apply (wf_owner_active _ 3 1) in W; [|reflexivity]. vm_compute in W. intuition lia. }
  vm_compute. intuition lia.
Qed.

(* watchdog: a two-party deadlock, the lower-priority member is terminated *)
Definition hist_dl : list op :=
  [OFlat (FStart 1 2 false); OFlat (FStart 2 1 false); OFlat (FAcquire 1 1); OFlat (FAcquire 2 2);
   OFlat (FAcquire 1 2); OFlat (FAcquire 2 1)].
Definition st_dl : st := fst (run_ops current no_timeouts (init_state [(1, false); (2, false)]) hist_dl).
Example ex_watchdog :
  detect_cycle (edges st_dl) = Some [1; 2] /\
  snd (wd_execute current no_timeouts st_dl) = [(2, RDeadlock)] /\
  owner (fst (wd_execute current no_timeouts st_dl)) 2 = None /\
  active (fst (wd_execute current no_timeouts st_dl)) = [1].
Proof. vm_compute. auto. Qed.

(* run_maintenance: priority inversion.  op1 (priority 5) holds the preemptable r1;
   op2 (priority 3) holds r2 and is BLOCKED on r1; op3 (priority 9) is blocked on r2.
   check_and_boost raises op2 and op1 to 9 (no lock, nobody ended, graph unchanged),
   op4 sits in G1 without its resources for 5 > 2 seconds and is reaped for
   starvation; afterwards op2's retry PREEMPTS r1, which it was blocked on before. *)
Definition hist_pi : list op :=
  [OFlat (FStart 1 5 false); OFlat (FAcquire 1 1); OFlat (FStart 2 3 false); OFlat (FAcquire 2 2);
   OFlat (FAcquire 2 1); OFlat (FStart 3 9 false); OFlat (FAcquire 3 2);
   OFlat (FStart 4 0 false); OFlat (FAdvance 4); OFlat (FAcquire 4 2); OFlat (FTick 5)].
Definition w_starve : wcfg := mkW None (Some 2) None SPriority.
Definition st_pi : st := fst (run_ops current w_starve (init_state [(1, true); (2, false)]) hist_pi).
Example ex_maintenance :
  WF st_pi /\
  (exists s1, pi_boost st_pi = Some (s1, [(2, 9); (1, 9)]) /\
              snd (wd_execute current w_starve s1) = [(4, RStarvation)]) /\
  snd (fstep current w_starve st_pi FMaintain) = [2; 2; 9; 1; 9; 4; 1] /\
  let s' := fst (fstep current w_starve st_pi FMaintain) in
  active s' = [1; 2; 3] /\ owner s' 1 = Some 1 /\
  snd (fstep current w_starve st_pi (FAcquire 2 1)) = [1] /\      (* BLOCKED before ... *)
  snd (fstep current w_starve s' (FAcquire 2 1)) = [3] /\         (* ... PREEMPTED after the boost *)
  snd (fstep current w_starve s' (FPopWaiter 2)) = [1; 3; 9].
Proof.
  split; [apply reachable_wf_proof|].
  split; [eexists; split; vm_compute; reflexivity|].
  vm_compute. auto 10.
Qed.

Example ex_shutdown : active (shutdown current st0) = [] /\ owner (shutdown current st0) 2 = None.
Proof. vm_compute. auto. Qed.

(* ------------------------------------------------------------------ *)
(* before 8bfbd27: release_all_resources released each id once, so a request
   list with a repeated entry leaked the resource after a SUCCESSFUL operation *)
Lemma c14_legacy_reentrant_leak_refuted :
  exists w s o p reqs sc,
    WF s /\ get_ctx s o = None /\
    r_success (snd (exec_op (mkF true false false) w s o p reqs sc)) = true /\
    exists r, owner (fst (exec_op (mkF true false false) w s o p reqs sc)) r = Some o.
Proof.
  exists no_timeouts, (init_state [(1, false)]), 1, 0, [1; 1], (mkPlain [] [] [] false VNone 0).
  split; [apply wf_init|]. split; [reflexivity|]. split; [reflexivity|].
  exists 1. reflexivity.
Qed.

(* before b431062: releasing one of two re-entrant holds forgot the resource,
   so a later kill (or abort / complete / shutdown) left it owned by a dead operation *)
Lemma c14_legacy_partial_release_refuted :
  exists w ops o r,
    let s' := fst (run_ops (mkF false false true) w (init_state [(1, false)]) (ops ++ [OFlat (FKill o)])) in
    owner s' r = Some o /\ ~ In o (active s').
Proof.
  exists no_timeouts,
    [OFlat (FStart 1 0 false); OFlat (FAcquire 1 1); OFlat (FAcquire 1 1); OFlat (FRelease 1 1)], 1, 1.
  vm_compute. split; [reflexivity | tauto].
Qed.

(* before 531c938: execute_operation went from the G1 checkpoint straight to
   work_fn.  An operation killed while its G1 checkpoint callback ran had lost
   everything, yet its work function was invoked - holding nothing, not listed
   as active - and success was reported. *)
Lemma c14_legacy_work_after_kill_refuted :
  exists w s o p reqs sc sw,
    WF s /\ ~ In o (active s) /\
    In (EvWork sw) (r_log (snd (exec_op_gen false current w s o p reqs sc))) /\
    ~ In o (active sw) /\ (exists r, In r reqs /\ owner sw r <> Some o) /\
    r_success (snd (exec_op_gen false current w s o p reqs sc)) = true.
Proof.
  exists no_timeouts, (init_state [(1, false)]), 1, 0, [1], (mkPlain [] [[]; [CKill 1]] [] false VNone 0).
  eexists. split; [apply wf_init|]. split; [simpl; tauto|].
  split; [vm_compute; right; right; right; left; reflexivity|].
  split; [vm_compute; tauto|]. split; [exists 1; split; [simpl; auto | vm_compute; discriminate]|].
  reflexivity.
Qed.

(* the objects the callbacks use are irrelevant: a validator that raises after the work
   of an operation holding r3 twice and the preempted r2 - whether it raises an exception
   with a message (index 0), a message-less one (2: a bare assert), or one of the system's
   own error classes (12) - and a nested call whose work raises yet another one: the same
   failed result (ctx.phase is back at G0 after the abort), nothing left owned, op5's locks as they were *)
Definition sc_vraise (k k2 : Z) : script :=
  mkPlain [] [] [WProbe; WExec 2 0 [1; 3] (mkPlain [] [] [WProbe] true VNone k2); WProbe] false VRaise k.
Example ex_values_irrelevant :
  with_val 0 (sc_vraise 2 12) = with_val 0 (sc_vraise 0 0) /\
  sc_vraise 2 12 <> sc_vraise 0 0 /\
  exec_op current no_timeouts st0 1 3 [3; 2; 3] (sc_vraise 2 12)
    = exec_op current no_timeouts st0 1 3 [3; 2; 3] (sc_vraise 0 0) /\
  let '(s', res) := exec_op current no_timeouts st0 1 3 [3; 2; 3] (sc_vraise 2 12) in
  r_success res = false /\ r_phase res = G0 /\ In EvValidateRaise (r_log res) /\
  owner s' 2 = None /\ owner s' 3 = None /\ owner s' 1 = Some 5 /\ active s' = [5].
Proof.
  split; [reflexivity|]. split; [discriminate|].
  split; [apply values_irrelevant_proof; reflexivity|].
  vm_compute. intuition.
Qed.

(* ------------------------------------------------------------------ *)
(* callables of other shapes: signatures, truthiness, run counts         *)

(* work functions that tolerate extra positional arguments - `def work( *args)`, `def work(ctx=None)`,
   a functools.partial, a bound method `job.run(self, dry_run=False)`, a falsy callable object - and a
   validator `def check(result, strict=False)`: the body of the work function still runs exactly once,
   whether it returns or raises (which exception it raises - a TypeError, say - is [sc_val]: irrelevant),
   and the outcome is that of the plain `def work():` *)
Definition sh_star : shape := mkShape 0 None true.                 (* def f( *args) *)
Definition sh_default : shape := mkShape 0 (Some 1%nat) true.      (* def f(ctx=None) / bound method with an optional argument *)
Definition sh_falsy_object : shape := mkShape 0 None false.        (* class Job(list): def __call__(self, *a) *)
Definition sh_result_opt : shape := mkShape 1 (Some 2%nat) true.   (* def check(result, strict=False) *)
Definition sc_shaped (raises : bool) (k : Z) (ws vs : shape) : script :=
  mkScript [] [] [WProbe] raises VTrue k ws vs.

Example ex_signatures_irrelevant :
  norm_sig (sc_shaped true 18 sh_star sh_result_opt) = norm_sig (sc_shaped true 18 sh_noargs sh_onearg) /\
  norm_sig (sc_shaped true 18 sh_falsy_object sh_result_opt) = norm_sig (sc_shaped true 18 sh_default sh_onearg) /\
  sc_shaped true 18 sh_star sh_result_opt <> sc_shaped true 18 sh_noargs sh_onearg /\
  exec_op current no_timeouts st0 1 3 [3; 2; 3] (sc_shaped true 18 sh_star sh_result_opt)
    = exec_op current no_timeouts st0 1 3 [3; 2; 3] (sc_shaped true 18 sh_noargs sh_onearg) /\
  let '(s', res) := exec_op current no_timeouts st0 1 3 [3; 2; 3] (sc_shaped true 18 sh_star sh_result_opt) in
  r_success res = false /\ work_runs res = 1%nat /\ validate_runs res = 0%nat /\ In EvWorkRaise (r_log res) /\
  owner s' 2 = None /\ owner s' 3 = None /\ owner s' 1 = Some 5 /\ active s' = [5].
Proof.
  split; [reflexivity|]. split; [reflexivity|]. split; [discriminate|].
  split; [apply signatures_irrelevant_proof; reflexivity|].
  vm_compute. intuition.
Qed.

(* success with shaped callables: each body ran exactly once *)
Example ex_run_counts_success :
  let '(s', res) := exec_op current no_timeouts st0 1 3 [3; 2; 3] (sc_shaped false 0 sh_default sh_result_opt) in
  r_success res = true /\ work_runs res = 1%nat /\ validate_runs res = 1%nat /\
  has_validator (sc_shaped false 0 sh_default sh_result_opt) = true /\ owner s' 3 = None /\ active s' = [5].
Proof. vm_compute. intuition. Qed.

(* a work function that NEEDS an argument (`def work(ctx):`) cannot be called as work_fn(): TypeError
   from the call itself, the body never runs, the operation fails in phase S having held r3 twice and
   the preempted r2 - and gives everything back; the same for a validator without parameters *)
Definition sh_needs_one : shape := mkShape 1 (Some 1%nat) true.
Example ex_uncallable_work :
  accepts sh_needs_one 0 = false /\
  let '(s', res) := exec_op current no_timeouts st0 1 3 [3; 2; 3] (sc_shaped false 0 sh_needs_one sh_onearg) in
  r_success res = false /\ work_runs res = 0%nat /\ validate_runs res = 0%nat /\
  r_log res = [EvCp 0 true; EvCp 1 true] /\
  owner s' 2 = None /\ owner s' 3 = None /\ owner s' 1 = Some 5 /\ active s' = [5].
Proof. vm_compute. intuition. Qed.

Example ex_uncallable_validator :
  accepts sh_noargs 1 = false /\ has_validator (sc_shaped false 0 sh_noargs sh_noargs) = true /\
  let '(s', res) := exec_op current no_timeouts st0 1 3 [3; 2; 3] (sc_shaped false 0 sh_noargs sh_noargs) in
  r_success res = false /\ work_runs res = 1%nat /\ validate_runs res = 0%nat /\ In EvWorkRet (r_log res) /\
  owner s' 2 = None /\ owner s' 3 = None /\ active s' = [5].
Proof. vm_compute. intuition. Qed.

(* ------------------------------------------------------------------ *)
(* register_resource on a live system; `resources` as other iterables   *)

(* op5 holds r1 and, twice, r2 (st0).  r2 is registered again (now not preemptable): the registered
   r2 is free, the replaced lock lives on under the retired key 1000 and op5's context refers to it;
   the state is well-formed; op5 is killed: it owns nothing, neither registered nor replaced locks *)
Definition st_rereg : st := fst (fstep current no_timeouts st0 (FRegister 2 false)).
Example ex_reregister_while_held :
  WF st_rereg /\ owner st_rereg 2 = None /\ owner st_rereg 1000 = Some 5 /\
  lock_core st_rereg 1000 = Some (Some 5, 0, 2) /\
  option_map c_acq (get_ctx st_rereg 5) = Some [1; 1000] /\ probe st_rereg = [(5, 1); (-1, 0); (-1, 0)] /\
  let s' := fst (fstep current no_timeouts st_rereg (FKill 5)) in
  owner s' 1 = None /\ owner s' 2 = None /\ owner s' 1000 = None /\ active s' = [].
Proof. split; [apply reregister_wf, ex_st0_wf|]. vm_compute. intuition. Qed.

(* the running operation re-registers, from inside its work function, a resource it holds re-entrantly
   (request [3; 2; 3]), then fails validation: nothing registered is left to it, the replaced lock is
   free as well, and a later operation gets r3 at once *)
Definition sc_rereg : script := mkPlain [] [] [WProbe; WDo (FRegister 3 false); WProbe] false VFalse 0.
Example ex_reregister_inside_work :
  let '(s', res) := exec_op current no_timeouts st0 1 3 [3; 2; 3] sc_rereg in
  r_success res = false /\ work_runs res = 1%nat /\
  owner s' 3 = None /\ owner s' 2 = None /\ owner s' 1000 = None /\ active s' = [5] /\
  In (EvProbe [(5, 1); (1, 1); (1, 2)]) (r_log res) /\ In (EvProbe [(5, 1); (1, 1); (-1, 0)]) (r_log res) /\
  r_success (snd (exec_op current no_timeouts s' 2 0 [3] sc_plain)) = true.
Proof. vm_compute. intuition. Qed.

(* a new id registered on the live system, then used *)
Example ex_register_new_id :
  let s1 := fst (fstep current no_timeouts st0 (FRegister 4 true)) in
  probe s1 = [(5, 1); (5, 2); (-1, 0); (-1, 0)] /\
  r_success (snd (exec_op current no_timeouts s1 1 3 [4; 3] sc_plain)) = true.
Proof. vm_compute. intuition. Qed.

(* the request as a generator: requested = what it yields once; a second pass would be empty; dict keys
   collapse repeats; an empty tuple is falsy, an exhausted-looking generator is not - both request nothing *)
Example ex_request_iterables :
  request_of KGen [3; 2; 3] = [3; 2; 3] /\ second_pass KGen [3; 2; 3] = [] /\
  second_pass KTuple [3; 2; 3] = [3; 2; 3] /\
  request_of KKeys [3; 2; 3] = [3; 2] /\ request_of KTuple [] = [] /\ request_of KGen [] = [] /\
  let '(s', res) := exec_op current no_timeouts st0 1 3 (request_of KGen [3; 2; 3]) sc_plain in
  r_success res = true /\ In (EvProbe [(5, 1); (1, 1); (1, 2)]) (r_log res) /\ owner s' 3 = None.
Proof. vm_compute. intuition. Qed.

(* a request that must block (r1 is held by op5 and cannot be preempted), given as a one-shot iterator:
   the work function does not run *)
Example ex_request_iterable_blocked :
  let '(s', res) := exec_op current no_timeouts st0 1 3 (request_of KOnce [3; 1]) sc_plain in
  r_success res = false /\ work_runs res = 0%nat /\ owner s' 3 = None /\ owner s' 1 = Some 5.
Proof. vm_compute. intuition. Qed.
