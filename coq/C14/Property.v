(* C14 — property theorems only.  Each is closed by [exact] of a lemma from
   Proofs.v and followed by Print Assumptions.

   [WF s] (Proofs.v) is the well-formedness invariant of controller states:
   every lock is consistent (free <-> hold_count 0), every owner of a lock is an
   ACTIVE operation whose context lists the resource, every active operation has
   a context.  [current] = the code as it is at /repo HEAD.  The fault script
   [sc] (checkpoint verdicts; what each checkpoint callback does first: manual
   kill of any operation - also of the executing one -, a watchdog pass, a
   maintenance pass (priority inheritance + watchdog), shutdown, time passing;
   scripted work function incl. nested controller calls (also run_maintenance,
   controller.advance of other operations, pop_next_waiter) and NESTED
   execute_operation calls with scripts of their own, to any depth ([WExec]),
   work raising, validation absent/true/false/raising; [sc_val]: WHICH exception
   object a raising callback raises / which falsy object a rejecting validator
   returns / what the work function returns; [sc_wsh] / [sc_vsh]: the SIGNATURES of
   work_fn / validate_fn - how many positional arguments they accept, `*args`,
   defaulted parameters, partials, bound methods, callable objects, also falsy ones -,
   incl. signatures that do not accept the call execute_operation makes), the request list
   [reqs] (repeats, unregistered ids, resources held by others), priorities and
   the watchdog configuration [w] are universally quantified everywhere.
   The operation id [o] of execute_operation is any id that is not live: a
   fresh one or the id of an operation that has ended (a retry).
   [WFbut o s] (Proofs.v): [s] is well-formed once [o] is counted as live - the
   operation being executed may have been delisted by a callback and hold locks.
   [exec_in true fl w sc encl s o p reqs] is execute_operation(o, ...) called while
   the execute_operation calls of the operations [encl] are in progress (from inside
   the work function of the innermost); [exec_op fl w s o p reqs sc] is the case
   [encl = []].  [WFbuts encl s]: well-formed once the enclosing operations - each
   possibly delisted and still holding locks - are counted as live
   ([WFbuts [] s <-> WF s], Proofs.wfbuts_nil).
   The step API, hence every scripted work function (also a nested one) and every
   history, contains [FRegister r pre] = system.register_resource(r, allow_preemption):
   a new id, or an id that is registered already (RE-REGISTRATION: the lock object is
   replaced by a new, free one while operations may still hold - and will release -
   the old one, Model.reregister), so every theorem below that quantifies over
   scripts, states satisfying [WF] or histories covers registration on a live system.
   [request_of k items] is the request list when `resources` is given as another
   iterable than a list (generator, iterator, tuple, dict keys, set, ...). *)
From Coq Require Import ZArith List Bool.
From Verif Require Import C14.Model C14.Proofs C14.ProofsReg.
Import ListNotations.
Open Scope Z_scope.

(* the invariant holds initially and is preserved by every call of the API
   (step API incl. advance / pop_next_waiter, kill, watchdog, run_maintenance,
   shutdown, execute_operation with any script),
   hence in every reachable state *)
Theorem c14_invariant_preserved :
  forall w s a, WF s -> WF (fst (step current w s a)).
Proof. exact step_wf. Qed.
Print Assumptions c14_invariant_preserved.

Theorem c14_invariant_reachable :
  forall res w ops, WF (fst (run_ops current w (init_state res) ops)).
Proof. exact reachable_wf_proof. Qed.
Print Assumptions c14_invariant_reachable.

(* ... so in every reachable state an owner is a live operation: nothing
   survives the end of the operation that held it *)
Theorem c14_owner_is_active :
  forall s r o, WF s -> owner s r = Some o -> In o (active s).
Proof. exact wf_owner_active. Qed.
Print Assumptions c14_owner_is_active.

(* However execute_operation ends - also when the operation was killed, reaped
   by the watchdog or shut down while one of its checkpoint callbacks ran, before
   or after the acquisition loop -, when it returns the operation owns no
   registered resource and is not active. *)
Theorem c14_no_leak :
  forall w s o p reqs sc,
    WF s -> ~ In o (active s) ->
    let s' := fst (exec_op current w s o p reqs sc) in
    (forall r, owner s' r <> Some o) /\ ~ In o (active s') /\ WF s'.
Proof. exact no_leak_proof. Qed.
Print Assumptions c14_no_leak.

(* The same for an execute_operation called from inside the work function of
   another one (at any nesting depth, the enclosing operations in any condition):
   when the nested call returns the nested operation owns nothing and is not
   active, and the state is again well-formed up to the enclosing operations -
   so the enclosing call, whose work function may go on to raise / fail validation
   / fail a checkpoint, still ends as [c14_no_leak] says (its script [sc] ranges
   over work functions that make nested calls). *)
Theorem c14_nested_no_leak :
  forall w encl s o p reqs sc,
    WFbuts encl s -> ~ In o (active s) -> ~ In o encl ->
    let s' := fst (exec_in true current w sc encl s o p reqs) in
    (forall r, owner s' r <> Some o) /\ ~ In o (active s') /\ WFbuts encl s'.
Proof. exact nested_no_leak_proof. Qed.
Print Assumptions c14_nested_no_leak.

(* Resources the operation never obtained (everything but the requests before
   the first BLOCKED / unknown one) keep owner, owner priority and hold count
   — for callbacks (work function, checkpoint conditions) that do not themselves
   call the controller ([no_calls]). *)
Theorem c14_unobtained_untouched :
  forall w s o p reqs sc r,
    WF s -> ~ In o (active s) -> no_calls sc ->
    ~ In r (obtained_by w s o p reqs sc) ->
    lock_core (fst (exec_op current w s o p reqs sc)) r = lock_core s r.
Proof. exact unobtained_untouched_proof. Qed.
Print Assumptions c14_unobtained_untouched.

Theorem c14_unrequested_untouched :
  forall w s o p reqs sc r,
    WF s -> ~ In o (active s) -> no_calls sc -> ~ In r reqs ->
    lock_core (fst (exec_op current w s o p reqs sc)) r = lock_core s r.
Proof. exact unrequested_untouched_proof. Qed.
Print Assumptions c14_unrequested_untouched.

(* ... also for a nested call: it leaves alone every lock it did not obtain - in
   particular the locks of the operations whose work functions enclose it *)
Theorem c14_nested_unobtained_untouched :
  forall w encl s o p reqs sc r,
    WFbuts encl s -> ~ In o (active s) -> ~ In o encl -> no_calls sc ->
    ~ In r (obtained_by w s o p reqs sc) ->
    lock_core (fst (exec_in true current w sc encl s o p reqs)) r = lock_core s r.
Proof. exact nested_unobtained_untouched_proof. Qed.
Print Assumptions c14_nested_unobtained_untouched.

(* work_fn is invoked at most once, and in the state [sw] in which it is
   invoked the operation is active and owns every requested resource — whatever
   the checkpoint callbacks did before (any state, any flags; top-level call or
   nested in the calls of [encl]; nested calls keep their own log, so the work
   function of a nested operation is a separate instance of this statement) *)
Theorem c14_work_once_holding_all :
  forall fl w encl s o p reqs sc,
    let res := snd (exec_in true fl w sc encl s o p reqs) in
    (length (filter is_work (r_log res)) <= 1)%nat /\
    (forall sw, In (EvWork sw) (r_log res) ->
       In o (active sw) /\ forall r, In r reqs -> owner sw r = Some o).
Proof. exact work_once_holding_all_proof. Qed.
Print Assumptions c14_work_once_holding_all.

(* a validation event is preceded by the invocation and the normal return of work_fn *)
Theorem c14_validate_after_work :
  forall fl w encl s o p reqs sc l1 e l2,
    r_log (snd (exec_in true fl w sc encl s o p reqs)) = l1 ++ e :: l2 -> is_validate e = true ->
    In EvWorkRet l1 /\ exists sw, In (EvWork sw) l1.
Proof. exact validate_after_work_proof. Qed.
Print Assumptions c14_validate_after_work.

(* success is reported exactly when work_fn returned, validation is absent or
   returned true, and the last checkpoint passed *)
Theorem c14_success_iff_both :
  forall fl w encl s o p reqs sc,
    let res := snd (exec_in true fl w sc encl s o p reqs) in
    r_success res = true <->
    (In EvWorkRet (r_log res) /\ validation_ok sc = true /\ In (EvCp 3 true) (r_log res)).
Proof. exact success_iff_both_proof. Qed.
Print Assumptions c14_success_iff_both.

(* manual kill, abort and complete through the step API *)
Theorem c14_end_no_leak :
  forall w s a o,
    WF s -> a = FKill o \/ a = FAbort o \/ a = FComplete o ->
    let s' := fst (fstep current w s a) in
    WF s' /\ (forall r, owner s' r <> Some o) /\ ~ In o (active s').
Proof. exact end_no_leak_proof. Qed.
Print Assumptions c14_end_no_leak.

(* every operation terminated by Watchdog.execute (time-out, starvation, no
   progress, deadlock victim) owns nothing afterwards and is not active *)
Theorem c14_watchdog_no_leak :
  forall w s,
    WF s ->
    let s' := fst (wd_execute current w s) in
    let evs := snd (wd_execute current w s) in
    WF s' /\ forall v why, In (v, why) evs -> (forall r, owner s' r <> Some v) /\ ~ In v (active s').
Proof. exact watchdog_no_leak_proof. Qed.
Print Assumptions c14_watchdog_no_leak.

(* CoordinationSystem.run_maintenance (priority inheritance, then the watchdog):
   PriorityInheritance.check_and_boost terminates (its chain walk never runs out
   of fuel), touches no lock, ends nobody, leaves the wait-for graph alone and
   raises the priority of ACTIVE operations only; every operation the watchdog
   half then terminates owns nothing afterwards and is not active *)
Theorem c14_boost_fuel_suffices : forall s, pi_boost s <> None.
Proof. exact boost_fuel_proof. Qed.
Print Assumptions c14_boost_fuel_suffices.

Theorem c14_maintenance_no_leak :
  forall w s s1 nb,
    WF s -> pi_boost s = Some (s1, nb) ->
    (forall r, get_lock s1 r = get_lock s r) /\ active s1 = active s /\ edges s1 = edges s /\
    (forall o p, In (o, p) nb -> In o (active s)) /\
    let s' := fst (wd_execute current w s1) in
    let evs := snd (wd_execute current w s1) in
    WF s' /\ forall v why, In (v, why) evs -> (forall r, owner s' r <> Some v) /\ ~ In v (active s').
Proof. exact maintenance_no_leak_proof. Qed.
Print Assumptions c14_maintenance_no_leak.

(* ... and it changes only locks owned by the operations it terminates *)
Theorem c14_maintenance_changes_only_victims_locks :
  forall w s s1 nb,
    WF s -> pi_boost s = Some (s1, nb) ->
    forall r, (forall v why, In (v, why) (snd (wd_execute current w s1)) -> owner s r <> Some v) ->
    get_lock (fst (wd_execute current w s1)) r = get_lock s r.
Proof. exact maintenance_own_locks_proof. Qed.
Print Assumptions c14_maintenance_changes_only_victims_locks.

Theorem c14_shutdown_no_leak :
  forall s,
    WF s ->
    let s' := shutdown current s in
    WF s' /\ active s' = [] /\ forall r, owner s' r = None.
Proof. exact shutdown_no_leak_proof. Qed.
Print Assumptions c14_shutdown_no_leak.

(* Ending an operation (kill / abort / complete through the step API, also of an
   operation that was PREEMPTED earlier and still lists the resource) changes
   only locks it owns at that moment: every other lock is left exactly as it was *)
Theorem c14_end_changes_only_own_locks :
  forall w s a o,
    WF s -> a = FKill o \/ a = FAbort o \/ a = FComplete o ->
    forall r, owner s r <> Some o -> get_lock (fst (fstep current w s a)) r = get_lock s r.
Proof. exact end_own_locks_proof. Qed.
Print Assumptions c14_end_changes_only_own_locks.

(* Watchdog.execute changes only locks owned by the operations it terminates *)
Theorem c14_watchdog_changes_only_victims_locks :
  forall w s,
    WF s ->
    forall r, (forall v why, In (v, why) (snd (wd_execute current w s)) -> owner s r <> Some v) ->
    get_lock (fst (wd_execute current w s)) r = get_lock s r.
Proof. exact watchdog_own_locks_proof. Qed.
Print Assumptions c14_watchdog_changes_only_victims_locks.

(* execute_operation ends by completing/aborting in a state sX that is well-formed
   up to the operation itself, and changes, from there, only locks the operation
   owns in sX *)
Theorem c14_exec_end_changes_only_own_locks :
  forall w s o p reqs sc,
    WF s -> ~ In o (active s) ->
    exists sX, WFbut o sX /\ fst (exec_op current w s o p reqs sc) = finish current sX o /\
      forall r, owner sX r <> Some o -> get_lock (fst (exec_op current w s o p reqs sc)) r = get_lock sX r.
Proof. exact exec_end_own_locks_proof. Qed.
Print Assumptions c14_exec_end_changes_only_own_locks.

(* An operation that was ended while its G0 or G1 checkpoint callback ran never
   runs its work: work_fn is invoked only while the operation is still listed as
   active, and success is reported only if work_fn was invoked (fix 531c938). *)
Theorem c14_terminated_never_works :
  forall fl w encl s o p reqs sc,
    let res := snd (exec_in true fl w sc encl s o p reqs) in
    (forall sw, In (EvWork sw) (r_log res) -> In o (active sw)) /\
    (r_success res = true -> exists sw, In (EvWork sw) (r_log res)).
Proof. exact terminated_before_work_proof. Qed.
Print Assumptions c14_terminated_never_works.

(* "Work function raising, validation returning false or raising": whatever is raised
   or returned.  Two scripts that differ only in the objects their callbacks use (the
   exception raised by a checkpoint / the work function / the validator - with a
   message, message-less, falsy, a KeyError(), one that cannot be rendered, one of the system's own error classes
   ... -, the falsy verdict, the work result), in the call itself or in any nested
   call, have the same outcome: final state, success flag, phase reached and callback
   log.  Hence every theorem above holds for each of them alike; no exit path depends
   on what the exception looks like. *)
Theorem c14_callback_values_irrelevant :
  forall chk fl w sc sc' encl s o p reqs,
    with_val 0 sc = with_val 0 sc' ->
    exec_in chk fl w sc encl s o p reqs = exec_in chk fl w sc' encl s o p reqs.
Proof. exact values_irrelevant_proof. Qed.
Print Assumptions c14_callback_values_irrelevant.

(* "The work function runs at most once ... validation runs only after work completed; success is
   reported only if both succeeded", in run counts: whatever the callables look like (any signature,
   any script), the body of work_fn runs at most once during the call, that of validate_fn at most
   once and only if work_fn's ran; a reported success means work_fn ran exactly once and, when a
   validator was handed in (whatever its truth value as an object), it ran exactly once. *)
Theorem c14_bodies_run_at_most_once :
  forall fl w encl s o p reqs sc,
    let res := snd (exec_in true fl w sc encl s o p reqs) in
    (work_runs res <= 1)%nat /\ (validate_runs res <= 1)%nat /\
    (validate_runs res = 1%nat -> work_runs res = 1%nat) /\
    (r_success res = true ->
       work_runs res = 1%nat /\ (has_validator sc = true -> validate_runs res = 1%nat)).
Proof. exact run_counts_proof. Qed.
Print Assumptions c14_bodies_run_at_most_once.

(* A work function whose signature does not accept the call work_fn() (it needs an argument) raises
   TypeError from the call itself: its body never runs, nothing is validated, failure is reported
   (and c14_no_leak holds for this exit path like for every other) ... *)
Theorem c14_uncallable_work_never_runs :
  forall fl w encl s o p reqs sc,
    accepts (sc_wsh sc) 0 = false ->
    let res := snd (exec_in true fl w sc encl s o p reqs) in
    work_runs res = 0%nat /\ validate_runs res = 0%nat /\ r_success res = false.
Proof. exact uncallable_work_proof. Qed.
Print Assumptions c14_uncallable_work_never_runs.

(* ... and a validator that cannot take the result never runs and never lets the operation succeed *)
Theorem c14_uncallable_validator_never_passes :
  forall fl w encl s o p reqs sc,
    has_validator sc = true -> accepts (sc_vsh sc) 1 = false ->
    let res := snd (exec_in true fl w sc encl s o p reqs) in
    validate_runs res = 0%nat /\ r_success res = false.
Proof. exact uncallable_validator_proof. Qed.
Print Assumptions c14_uncallable_validator_never_passes.

(* The SHAPE of the callables decides nothing else.  Two scripts that differ only in the signatures
   of their work functions / validators (zero-argument lambda, `*args`, a defaulted parameter, a
   functools.partial, a bound method, a callable object, truthy or falsy), in the call itself or in
   any nested call, such that each signature accepts the call execute_operation makes in the one
   script iff it does in the other ([norm_sig]), have the same outcome: final state, success flag,
   phase reached, callback log - hence the same run counts.  Together with
   c14_callback_values_irrelevant: a work function that tolerates an extra argument and raises
   TypeError from its body is treated exactly like a zero-argument one raising anything else. *)
Theorem c14_signatures_irrelevant :
  forall chk fl w sc sc' encl s o p reqs,
    norm_sig sc = norm_sig sc' ->
    exec_in chk fl w sc encl s o p reqs = exec_in chk fl w sc' encl s o p reqs.
Proof. exact signatures_irrelevant_proof. Qed.
Print Assumptions c14_signatures_irrelevant.

(* ------------------------------------------------------------------ *)
(* register_resource on a live system                                   *)

(* registering a resource - a new id or one that is registered already, free or held by
   anybody, re-entrantly or not - keeps the invariant: every owner of a lock (registered or
   replaced) stays an active operation whose context refers to exactly that lock *)
Theorem c14_registration_keeps_invariant :
  forall s r pre, WF s -> WF (reregister s r pre).
Proof. exact reregister_wf. Qed.
Print Assumptions c14_registration_keeps_invariant.

(* after a resource was registered (again), in any well-formed state and whoever held it, an
   operation that ends - manual kill, abort, complete - owns nothing: no registered lock and
   no replaced one ([owner] ranges over both), and is not active; the lock now registered
   under the id is free (so nobody, in particular no ended operation, owns it) *)
Theorem c14_end_after_registration_no_leak :
  forall w s r pre a o,
    WF s -> a = FKill o \/ a = FAbort o \/ a = FComplete o ->
    let s1 := fst (fstep current w s (FRegister r pre)) in
    let s' := fst (fstep current w s1 a) in
    WF s' /\ (forall x, owner s' x <> Some o) /\ ~ In o (active s') /\
    (registered r = true -> owner s1 r = None).
Proof. exact end_after_registration_proof. Qed.
Print Assumptions c14_end_after_registration_no_leak.

Theorem c14_shutdown_after_registration_no_leak :
  forall s r pre, WF s -> forall x, owner (shutdown current (reregister s r pre)) x = None.
Proof. exact shutdown_after_registration_proof. Qed.
Print Assumptions c14_shutdown_after_registration_no_leak.

(* ------------------------------------------------------------------ *)
(* `resources` as any iterable                                          *)

(* whatever kind of iterable the request is - list, tuple, generator, iterator, map object,
   one-shot or re-iterable object, dict keys, dict, set - the work function runs at most once
   and only in a state in which the (active) operation owns EVERY id the caller put into it
   (an empty container requests nothing) *)
Theorem c14_work_holds_all_yielded :
  forall fl w encl s o p k items sc,
    let res := snd (exec_in true fl w sc encl s o p (request_of k items)) in
    (length (filter is_work (r_log res)) <= 1)%nat /\
    (forall sw, In (EvWork sw) (r_log res) ->
       In o (active sw) /\ forall r, In r items -> owner sw r = Some o).
Proof. exact work_holds_all_yielded_proof. Qed.
Print Assumptions c14_work_holds_all_yielded.

(* the request is exactly what the caller put in; a second pass over a one-shot iterable
   would see nothing (execute_operation makes one pass) *)
Theorem c14_request_is_what_was_put_in :
  forall k items x, In x (request_of k items) <-> In x items.
Proof. exact request_of_In. Qed.
Print Assumptions c14_request_is_what_was_put_in.
